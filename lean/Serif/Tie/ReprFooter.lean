/-
  Translation tie for the footers, the column selection and the header rows of repr (C20).

  `harness/tr/reprfooter.py` translates, statement by statement, from the current source (`Serif/Gen/TranslatedReprFooter.lean`,
  regenerated on every run): `display._footer`, `_compute_headers`, `_is_structural_change`, `_header_rows`, three slices of
  `_repr_table` (`truncated, col_indices`; `header_rows, show_types_in_header`; the footer line appended last), `_repr_vector`,
  `_printr`, and `DataType.__repr__` (typing.py), `Vector.shape` (vector.py).  This file proves them equal to the model of
  `Serif/Model/Repr.lean`, for every shape, every number of columns and rows, every dtype list and every limit `m`:

    footerT_vector, footerT_table      `_footer`  =  `Footer.render` of `.vector n (dtypeText dt)` / `.table r c types`
    colIndicesT_eq                     `truncated, col_indices`  =  `decide (n > m * 2)`, `shownIdx m n`
    computeHeadersT_eq                 `_compute_headers`  =  `computeHeaders` (names, dot-row accessors, dtype tokens)
    headerRowsT_eq, headerRowsT_showTypes   `_header_rows`  =  the row part of `tableHeader` (`headerRowsM`, `tableHeader_eq`)
    tableShowTypesT_eq                 `header_rows, show_types_in_header` of `_repr_table`  =  `tableHeader`
    tableFooterT_eq, reprTable_footer  the footer line of `_repr_table`  =  `(reprTable …).footer.render`, i.e. `footerTypes`
    reprVectorT_lines, reprVector_lines, printrT_eq, printr_empty_vector   `_repr_vector` / `_printr`  =  `reprVector`
    dataTypeReprT_eq, vectorShapeT_eq, vectorShapeT_le

  Parameters / oracles (not translated): `kind.__name__` (instantiated with the model's `kindName`), `str.replace` (any function
  meeting `ReplaceSpec`; `pyStrReplace_spec` shows one), `str.lower`, `repr`, `_needs_quote`, `str.ljust/rjust`, `_sanitize_user_name`
  and `_format_column` (the model's oracle texts `Col.san`, `Col.shownName`, `Col.lower`; `Oracles` states what they stand for).
  The model has no separate definition for the `_header_rows` part of `tableHeader` and for the `<…>` text `_footer` builds from its
  own arguments; `headerRowsM` (proved to be what `tableHeader` does: `tableHeader_eq`, by `rfl`) and `footerTableTypes` are defined here.
  Supplementary (see Serif/Tie/Typing.lean).
-/
import Serif.Gen.TranslatedReprFooter
import Serif.Proofs.Repr

namespace Serif.Tie
open Serif Serif.Repr Serif.Gen.TF

/-! ### the vocabulary -/

/-- `", ".join(l)` is the model's `joinComma` -/
theorem rf_pyJoin_comma (l : List String) : pyJoin ", " l = joinComma l := by
  induction l with
  | nil => simp [pyJoin, joinComma]
  | cons a r ih =>
    cases r with
    | nil => simp [pyJoin, joinComma]
    | cons b r' =>
      simp only [pyJoin] at ih ⊢
      rw [String.intercalate_cons_cons, ih]
      simp [joinComma]

/-- `l[-n:]` is the model's `lastN` -/
theorem rf_pyLastN_eq {α : Type} (n : Nat) (l : List α) : pyLastN n l = lastN n l := by
  unfold pyLastN lastN
  by_cases h : n = 0 <;> simp [h]

/-- `l.insert(i, x)` is the model's `insertAt` -/
theorem rf_pyInsert_eq {α : Type} (i : Nat) (x : α) (l : List α) : pyInsert i x l = insertAt i x l := rfl

/-! ### `_footer` -/

/-- the footer of a vector (shape `()` for an empty one, else `(n,)`) -/
theorem footerT_vector (otherName : Nat → String) (shape : List Nat) (hs : shape.length ≤ 1) (n : Nat) (dt : Option DType)
    (dl : Option (List String)) (tr : Bool) (s : Nat) :
    footerT (kindName otherName) shape n dt dl tr s = (Footer.vector n (dtypeText otherName dt)).render := by
  unfold footerT
  rcases shape with _ | ⟨a, _ | ⟨b, r⟩⟩
  · cases dt with
    | none => simp [Footer.render, dtypeText]
    | some d => cases hd : d.nullable <;> simp [Footer.render, dtypeText, hd]
  · cases dt with
    | none => simp [Footer.render, dtypeText]
    | some d => cases hd : d.nullable <;> simp [Footer.render, dtypeText, hd]
  · simp at hs

/-- the `<…>` part `_footer` prints for a two-dimensional shape -/
def footerTableTypes (otherName : Nat → String) (dt : Option DType) (dl : Option (List String)) (tr : Bool) (s : Nat) : String :=
  match pyNonEmpty? dl with
  | some l => if tr then joinComma (l.take s) ++ ", ..., " ++ joinComma (lastN s l) else joinComma l
  | none => match dt with | some d => kindName otherName d.kind | none => "object"

/-- the footer of a table of shape `(r, c)` -/
theorem footerT_table (otherName : Nat → String) (r c n : Nat) (dt : Option DType) (dl : Option (List String)) (tr : Bool) (s : Nat) :
    footerT (kindName otherName) [r, c] n dt dl tr s = (Footer.table r c (footerTableTypes otherName dt dl tr s)).render := by
  unfold footerT footerTableTypes
  simp only [Footer.render]
  cases hdl : pyNonEmpty? dl with
  | none => cases dt <;> simp
  | some l => cases tr <;> simp [rf_pyJoin_comma, rf_pyLastN_eq]

/-! ### `_repr_table`: the displayed columns -/

theorem rf_pyRange_eq (m n : Nat) (h : n > m * 2) : pyRange (n - m) n = (List.range m).map (· + (n - m)) := by
  unfold pyRange
  have : n - (n - m) = m := by omega
  rw [this]

/-- `truncated` and `col_indices` of `_repr_table` are the model's test and `shownIdx` -/
theorem colIndicesT_eq {γ ν : Type} (kn : Kind → String) (m : Nat) (cd : γ → Option DType) (cn : γ → ν) (nt : ν → Bool) (ne : ν → String)
    (sn : ν → Option String) (lw : String → String) (nq : String → Bool) (rp : String → String)
    (rep : String → String → String → String) (sh : List Nat) (ln : Nat) (dt : Option DType) (cols : List γ) :
    colIndicesT kn m cd cn nt ne sn lw nq rp rep sh ln dt cols = (decide (cols.length > m * 2), shownIdx m cols.length) := by
  unfold colIndicesT shownIdx
  by_cases h : cols.length > m * 2
  · simp [h, rf_pyRange_eq]
  · simp [h]

/-! ### `_compute_headers` -/

/-- what `_compute_headers` carries from column to column, read off the model's loop state -/
def hdrView (st : HdrSt) : List String × List String × List String × List String := (st.seen, st.disp, st.san, st.dts)

private theorem foldl_zipIdx_hdr (otherName : Nat → String) (shown : List Nat)
    (f : List String × List String × List String × List String → Col × Nat → List String × List String × List String × List String)
    (hf : ∀ (st : HdrSt) (i : Nat) (c : Col), f (hdrView st) (c, i) = hdrView (hdrStep otherName shown st i c))
    (cols : List Col) (st : HdrSt) (i : Nat) :
    (cols.zipIdx i).foldl f (hdrView st) = hdrView (hdrLoop otherName shown st i cols) := by
  induction cols generalizing st i with
  | nil => rfl
  | cons c r ih =>
    simp only [List.zipIdx_cons, List.foldl_cons, hdrLoop]
    rw [hf, ih]

/-- `_compute_headers`, translated, is the model's `computeHeaders` for every list of columns and every index list: the stored
    names, the accessor names of the dot row (with the `colN_` / `_N` fallbacks and the names claimed by hidden columns) and the
    dtype tokens.  The column's oracle texts are read from the model's `Col`. -/
theorem computeHeadersT_eq (otherName : Nat → String) (cols : List Col) (idxs : List Nat) :
    computeHeadersT (kindName otherName) (fun c : Col => c.dtype) (fun c : Col => c) (fun c => nameTruthy c.name)
        (fun c => c.name.getD "") (fun c => c.san) cols idxs =
      ((computeHeaders otherName cols idxs).disp, (computeHeaders otherName cols idxs).san, (computeHeaders otherName cols idxs).dts) := by
  unfold computeHeadersT computeHeaders
  simp only []
  rw [show (([], [], [], []) : List String × List String × List String × List String) =
      hdrView { seen := [], disp := [], san := [], shown := [], lowers := [], dts := [] } from rfl]
  rw [foldl_zipIdx_hdr otherName idxs _ ?_ cols _ 0]
  · rfl
  · intro st i c
    have hdt : dtypeText otherName c.dtype = (match c.dtype with
        | some dtype => if dtype.nullable = true then kindName otherName dtype.kind ++ "?" else kindName otherName dtype.kind
        | none => "object") := by
      cases hd : c.dtype with
      | none => rfl
      | some d => cases hn : d.nullable <;> simp [dtypeText, hn]
    simp only [hdrView, hdrStep, hdt, pyEndsWith, endsUnderscore]
    cases h1 : idxs.contains i <;> cases h2 : nameTruthy c.name <;> cases h3 : c.san <;> cases h4 : c.dtype <;>
      simp <;> split <;> simp

/-! ### `len(set(l))` -/

/-- `len(set(l)) > 1` is the model's `heterogeneous l` -/
theorem lenSet_gt_one (l : List String) : decide (l.eraseDups.length > 1) = heterogeneous l := by
  cases l with
  | nil => simp [heterogeneous]
  | cons a r =>
    rw [List.eraseDups_cons]
    simp only [List.length_cons, heterogeneous]
    rw [Bool.eq_iff_iff]
    simp only [decide_eq_true_eq, List.any_eq_true]
    constructor
    · intro h
      have hne : (List.filter (fun b => !b == a) r) ≠ [] := by
        intro h0; rw [h0] at h; simp at h
      obtain ⟨x, hx⟩ := List.exists_mem_of_ne_nil _ hne
      rw [List.mem_filter] at hx
      exact ⟨x, hx.1, by simpa using hx.2⟩
    · rintro ⟨x, hx, hp⟩
      have hm : x ∈ (List.filter (fun b => !b == a) r).eraseDups := by
        rw [List.mem_eraseDups, List.mem_filter]; exact ⟨hx, by simpa using hp⟩
      have := List.length_pos_of_mem hm
      omega

/-- `len(set(l)) == 1` for a non-empty list is the negation of `heterogeneous l` -/
theorem lenSet_eq_one (l : List String) (h : l ≠ []) : (l.eraseDups.length == 1) = !heterogeneous l := by
  rw [← lenSet_gt_one]
  cases l with
  | nil => exact absurd rfl h
  | cons a r =>
    rw [List.eraseDups_cons]
    simp only [List.length_cons]
    rw [Bool.eq_iff_iff]
    simp

/-! ### the footer of `_repr_table` -/

/-- the loop that collects the dtype tokens of all columns -/
private theorem foldl_append_map {α β : Type} (g : α → β) (l : List α) (init : List β) :
    l.foldl (fun acc x => acc ++ [g x]) init = init ++ l.map g := by
  induction l generalizing init with
  | nil => simp
  | cons a r ih => simp [ih]

/-- what the tie needs of Python's `str.replace`: a pattern `<d>` that ends the string and starts at its only `<` is replaced once -/
def ReplaceSpec (rep : String → String → String → String) : Prop :=
  ∀ pre d new : String, '<' ∉ pre.toList → rep (pre ++ ("<" ++ d ++ ">")) ("<" ++ d ++ ">") new = pre ++ new

private theorem lt_not_in_nat (n : Nat) : '<' ∉ (toString n).toList := by
  intro h
  have e : (toString n).toList = Nat.toDigits 10 n := Nat.toList_repr
  rw [e] at h
  have := Nat.isDigit_of_mem_toDigits (by decide) (by decide) h
  revert this
  decide

/-- `.replace("<d>", "<new>")` on the footer `_footer` printed with `<d>` prints the footer with `<new>` -/
theorem replace_footer (rep : String → String → String → String) (hrep : ReplaceSpec rep) (r c : Nat) (d new : String) :
    rep (Footer.table r c d).render ("<" ++ d ++ ">") ("<" ++ new ++ ">") = (Footer.table r c new).render := by
  have hpre : '<' ∉ ("# " ++ toString r ++ "×" ++ toString c ++ " table ").toList := by
    simp only [String.toList_append, List.mem_append, not_or]
    refine ⟨⟨⟨⟨by decide, lt_not_in_nat r⟩, by decide⟩, lt_not_in_nat c⟩, by decide⟩
  have e : ∀ x : String, (Footer.table r c x).render =
      ("# " ++ toString r ++ "×" ++ toString c ++ " table ") ++ ("<" ++ x ++ ">") := by
    intro x
    have : (" table <" : String) = " table " ++ "<" := by decide
    simp only [Footer.render, this, String.append_assoc]
  rw [e d, hrep _ _ _ hpre, e new]

/-! ### `_header_rows` -/

/-- `show_types_in_header` is the model's test: two displayed dtype tokens differ -/
theorem headerRowsT_showTypes (lw : String → String) (nq : String → Bool) (rp : String → String) (disp san dts : List String) :
    (headerRowsT lw nq rp disp san dts).2 = heterogeneous (dts.filter (· != "...")) := by
  unfold headerRowsT
  simp only [lenSet_gt_one]

private theorem foldl_tokens (otherName : Nat → String) (f : List String → Col → List String)
    (hf : ∀ acc c, f acc c = acc ++ [dtypeText otherName c.dtype]) (cols : List Col) :
    cols.foldl f [] = cols.map (fun c => dtypeText otherName c.dtype) := by
  have : f = fun acc c => acc ++ [dtypeText otherName c.dtype] := by funext acc c; exact hf acc c
  rw [this, foldl_append_map]; rfl

/-- the model's `show_types_in_header`, spelled out -/
theorem tableHeader_snd (otherName : Nat → String) (m : Nat) (cols : List Col) :
    (tableHeader otherName m cols).2 =
      heterogeneous ((if cols.length > m * 2 then insertAt m "..." (computeHeaders otherName cols (shownIdx m cols.length)).dts
        else (computeHeaders otherName cols (shownIdx m cols.length)).dts).filter (· != "...")) := by
  unfold tableHeader
  simp

/-- the three-way choice at the end of `_repr_table` is the model's `footerTypes` -/
private theorem footer_choice (otherName : Nat → String) (rep : String → String → String → String) (hrep : ReplaceSpec rep)
    (r c m : Nat) (dt : Option DType) (D tr : Bool) (a : String) (rest : List String) :
    (if D = true then
        rep (Footer.table r c (footerTableTypes otherName dt none false m)).render
          (("<" ++ match dt with | some dtype => kindName otherName dtype.kind | none => "object") ++ ">") "<mixed>"
      else if (!heterogeneous (a :: rest)) = true then
        rep (Footer.table r c (footerTableTypes otherName dt none false m)).render
          (("<" ++ match dt with | some dtype => kindName otherName dtype.kind | none => "object") ++ ">")
          ("<" ++ (a :: rest).getD 0 "" ++ ">")
      else (Footer.table r c (footerTableTypes otherName dt (some (a :: rest)) tr m)).render) =
    (Footer.table r c (footerTypes m D tr (a :: rest))).render := by
  have hmixed : ("<mixed>" : String) = "<" ++ "mixed" ++ ">" := by decide
  have htok : footerTableTypes otherName dt none false m =
      (match dt with | some dtype => kindName otherName dtype.kind | none => "object") := by
    cases dt <;> rfl
  rw [htok, hmixed]
  cases D
  · cases hh : heterogeneous (a :: rest)
    · simp only [Bool.false_eq_true, if_false, Bool.not_false, if_true, replace_footer rep hrep, footerTypes, hh]
      simp
    · simp only [Bool.false_eq_true, if_false, Bool.not_true, footerTypes, hh, footerTableTypes, pyNonEmpty?]
  · simp only [if_true, replace_footer rep hrep, footerTypes]

/-- the footer line of `_repr_table` for a table with at least one column and shape `(r, c)`: `# r×c table <…>` with the model's
    `footerTypes` — `mixed` when the displayed dtypes differ, the one token of a homogeneous table, else all tokens (first and
    last `m` around `...` when truncated) -/
theorem tableFooterT_eq (otherName : Nat → String) (m : Nat) (lw : String → String) (nq : String → Bool) (rp : String → String)
    (rep : String → String → String → String) (hrep : ReplaceSpec rep) (r c n : Nat) (dt : Option DType) (cols : List Col)
    (hne : cols ≠ []) :
    tableFooterT (kindName otherName) m (fun c : Col => c.dtype) (fun c : Col => c) (fun c => nameTruthy c.name)
        (fun c => c.name.getD "") (fun c => c.san) lw nq rp rep [r, c] n dt cols =
      (Footer.table r c (footerTypes m (tableHeader otherName m cols).2 (decide (cols.length > m * 2))
        (cols.map (fun c => dtypeText otherName c.dtype)))).render := by
  have hlen : (cols.length == 0) = false := by cases cols <;> simp_all
  have hidx : (if decide (cols.length > m * 2) = true then List.range m ++ pyRange (cols.length - m) cols.length
      else List.range cols.length) = shownIdx m cols.length := by
    unfold shownIdx
    by_cases h : cols.length > m * 2 <;> simp [h, rf_pyRange_eq]
  have htok : footerTableTypes otherName dt none false m =
      (match dt with | some dtype => kindName otherName dtype.kind | none => "object") := by
    cases dt <;> rfl
  have hmap : cols.map (fun c => dtypeText otherName c.dtype) ≠ [] := by simpa using hne
  unfold tableFooterT
  simp only []
  rw [foldl_tokens otherName _ ?_ cols]
  · simp only [hlen, hidx, computeHeadersT_eq, headerRowsT_showTypes, footerT_table, tableHeader_snd, rf_pyInsert_eq,
      lenSet_eq_one _ hmap, Bool.false_eq_true, if_false]
    obtain ⟨a, rest, hcols⟩ : ∃ a rest, cols.map (fun c => dtypeText otherName c.dtype) = a :: rest := by
      cases h : cols.map (fun c => dtypeText otherName c.dtype) with
      | nil => exact absurd h hmap
      | cons a r => exact ⟨a, r, rfl⟩
    rw [hcols]
    have hproj : (if decide (cols.length > m * 2) = true then
          (insertAt m "..." (computeHeaders otherName cols (shownIdx m cols.length)).disp,
            insertAt m "..." (computeHeaders otherName cols (shownIdx m cols.length)).san,
            insertAt m "..." (computeHeaders otherName cols (shownIdx m cols.length)).dts)
        else
          ((computeHeaders otherName cols (shownIdx m cols.length)).disp,
            (computeHeaders otherName cols (shownIdx m cols.length)).san,
            (computeHeaders otherName cols (shownIdx m cols.length)).dts)).2.snd =
        (if cols.length > m * 2 then insertAt m "..." (computeHeaders otherName cols (shownIdx m cols.length)).dts
          else (computeHeaders otherName cols (shownIdx m cols.length)).dts) := by
      by_cases htr : cols.length > m * 2 <;> simp [htr]
    rw [hproj]
    generalize heterogeneous (List.filter (fun x => x != "...") _) = D
    generalize decide (cols.length > m * 2) = tr
    exact footer_choice otherName rep hrep r c m dt D tr a rest
  · intro acc c
    cases hd : c.dtype with
    | none => rfl
    | some d => cases hn : d.nullable <;> simp [dtypeText, hn]

/-- a table without columns prints `# 0×0 table` and nothing else -/
theorem tableFooterT_empty {γ ν : Type} (kn : Kind → String) (m : Nat) (cd : γ → Option DType) (cn : γ → ν) (nt : ν → Bool) (ne : ν → String)
    (sn : ν → Option String) (lw : String → String) (nq : String → Bool) (rp : String → String)
    (rep : String → String → String → String) (sh : List Nat) (ln : Nat) (dt : Option DType) :
    tableFooterT kn m cd cn nt ne sn lw nq rp rep sh ln dt [] = Footer.emptyTable.render := rfl

/-- **the footer line of `_repr_table`, translated, is the rendering of the model's footer**: whenever the model's `reprTable`
    returns, for every table (any number of columns and rows, any dtypes, truncated or not), every limit `m` and every
    `str.replace` that meets `ReplaceSpec`.  `[t.nrows, t.cols.length]` is `tbl.shape`; `len(tbl)` and `tbl._dtype` do not matter. -/
theorem reprTable_footer (otherName : Nat → String) (rows m : Nat) (lw : String → String) (nq : String → Bool) (rp : String → String)
    (rep : String → String → String → String) (hrep : ReplaceSpec rep) (n : Nat) (dt : Option DType) (t : Tab) (out : Out)
    (h : reprTable otherName rows m t = .ok out) :
    tableFooterT (kindName otherName) m (fun c : Col => c.dtype) (fun c : Col => c) (fun c => nameTruthy c.name)
        (fun c => c.name.getD "") (fun c => c.san) lw nq rp rep [t.nrows, t.cols.length] n dt t.cols = out.footer.render := by
  unfold reprTable at h
  by_cases he : t.cols = []
  · simp only [he, List.isEmpty_nil, if_true, Except.ok.injEq] at h
    subst h
    rw [he]
    rfl
  · have hem : t.cols.isEmpty = false := by cases hc : t.cols <;> simp_all
    simp only [hem, Bool.false_eq_true, if_false] at h
    split at h
    · cases h
    · cases h
      exact tableFooterT_eq otherName m lw nq rp rep hrep _ _ n dt t.cols he

/-! ### a `str.replace` that meets `ReplaceSpec` (the hypothesis is satisfiable) -/

/-- `s` without the prefix `p`, if it starts with it -/
private def rfDropPrefix : List Char → List Char → Option (List Char)
  | s, [] => some s
  | [], _ :: _ => none
  | a :: s, b :: p => if a = b then rfDropPrefix s p else none

/-- left-to-right, non-overlapping replacement of a non-empty pattern (`fuel` ≥ length + 1) -/
private def rfReplaceAux (pat new : List Char) : Nat → List Char → List Char
  | 0, s => s
  | fuel + 1, s =>
    match rfDropPrefix s pat with
    | some rest => new ++ rfReplaceAux pat new fuel rest
    | none =>
      match s with
      | [] => []
      | ch :: r => ch :: rfReplaceAux pat new fuel r

/-- Python's `s.replace(pat, new)` for a non-empty `pat` -/
def pyStrReplace (s pat new : String) : String :=
  if pat = "" then s else String.ofList (rfReplaceAux pat.toList new.toList (s.length + 1) s.toList)

private theorem rfDropPrefix_self (p : List Char) : rfDropPrefix p p = some [] := by
  induction p with
  | nil => rfl
  | cons a r ih => simp [rfDropPrefix, ih]

private theorem rfReplaceAux_nil (a : Char) (q new : List Char) (fuel : Nat) : rfReplaceAux (a :: q) new fuel [] = [] := by
  cases fuel <;> simp [rfReplaceAux, rfDropPrefix]

private theorem rfReplaceAux_spec (q new : List Char) (pre : List Char) (hpre : '<' ∉ pre) (fuel : Nat) (hf : fuel ≥ pre.length + 1) :
    rfReplaceAux ('<' :: q) new fuel (pre ++ '<' :: q) = pre ++ new := by
  induction pre generalizing fuel with
  | nil =>
    obtain ⟨f, rfl⟩ : ∃ f, fuel = f + 1 := ⟨fuel - 1, by simp at hf; omega⟩
    simp [rfReplaceAux, rfDropPrefix_self, rfReplaceAux_nil]
  | cons ch r ih =>
    obtain ⟨f, rfl⟩ : ∃ f, fuel = f + 1 := ⟨fuel - 1, by simp at hf; omega⟩
    have hne : ch ≠ '<' := fun h => hpre (by simp [h])
    have hr : '<' ∉ r := fun h => hpre (List.mem_cons_of_mem _ h)
    simp only [List.cons_append, rfReplaceAux, rfDropPrefix, hne, if_false]
    rw [ih hr f (by simp at hf ⊢; omega)]

theorem pyStrReplace_spec : ReplaceSpec pyStrReplace := by
  intro pre d new hpre
  have hpat : ("<" ++ d ++ ">").toList = '<' :: (d.toList ++ ['>']) := by
    simp [String.toList_append]
  have hne : ("<" ++ d ++ ">") ≠ "" := by
    intro h
    have := congrArg String.toList h
    rw [hpat] at this
    simp at this
  unfold pyStrReplace
  have hlen : (pre ++ ("<" ++ d ++ ">")).length + 1 ≥ pre.toList.length + 1 := by
    rw [← String.length_toList, String.toList_append]
    simp
  rw [if_neg hne, hpat, String.toList_append (s := pre), hpat, rfReplaceAux_spec _ _ _ hpre _ hlen, String.ofList_append,
    String.ofList_toList, String.ofList_toList]

/-! ### vectors: `Vector.shape`, `_repr_vector`, `_printr`, `DataType.__repr__` -/

/-- `Vector.shape` is `()` for an empty vector and `(len,)` otherwise: at most one entry, as `footerT_vector` asks -/
theorem vectorShapeT_le {α : Type} (cells : List α) (n : Nat) : (vectorShapeT cells n).length ≤ 1 := by
  unfold vectorShapeT
  split <;> simp

theorem vectorShapeT_eq {α : Type} (cells : List α) :
    vectorShapeT cells cells.length = if cells.isEmpty then [] else [cells.length] := rfl

/-- `DataType.__repr__` is the dtype token of the footers between `<` and `>` -/
theorem dataTypeReprT_eq (otherName : Nat → String) (d : DType) :
    dataTypeReprT (kindName otherName) d = "<" ++ dtypeText otherName (some d) ++ ">" := by
  unfold dataTypeReprT
  cases hn : d.nullable <;> simp [dtypeText, hn, String.append_assoc]

/-- `_printr` of an empty vector (shape `()`) prints the vector footer alone; one- and two-dimensional shapes go to `_repr_vector` /
    `_repr_table` -/
theorem printrT_eq (otherName : Nat → String) (m n : Nat) (dt : Option DType) (rv rt : String) :
    printrT (kindName otherName) m [] n dt rv rt = (Footer.vector n (dtypeText otherName dt)).render ∧
    (∀ a, printrT (kindName otherName) m [a] n dt rv rt = rv) ∧
    (∀ a b, printrT (kindName otherName) m [a, b] n dt rv rt = rt) := by
  refine ⟨?_, fun a => rfl, fun a b => rfl⟩
  unfold printrT
  simp [footerT_vector]

/-- **the lines of `_repr_vector`**: the name line iff the name is truthy (showing `repr(name) if _needs_quote(name) else name`), the
    formatted values, an empty line, the vector footer with `len(v)` and the dtype token — all padded by one `ljust`/`rjust` to one width -/
theorem reprVectorT_lines {ν : Type} (otherName : Nat → String) (m : Nat) (nt nq : ν → Bool) (rp nx : ν → String)
    (lj rj : String → Nat → String) (shape : List Nat) (hs : shape.length ≤ 1) (n : Nat) (dt : Option DType) (name : ν)
    (fmt : List String) :
    ∃ (w : Nat) (pad : String → Nat → String), (pad = lj ∨ pad = rj) ∧
      reprVectorT (kindName otherName) m nt nq rp nx lj rj shape n dt name fmt =
        (if nt name then [pad (if nq name then rp name else nx name) w] else []) ++ fmt.map (pad · w) ++
          ["", (Footer.vector n (dtypeText otherName dt)).render] := by
  unfold reprVectorT
  simp only [footerT_vector otherName shape hs]
  generalize (max (if (!fmt.isEmpty) = true then pyMax (fmt.map fun s => s.length) else 0) _) = w
  cases dt with
  | none =>
    refine ⟨w, lj, .inl rfl, ?_⟩
    by_cases h : nt name = true <;> simp [h]
  | some d =>
    cases hb : [Kind.int, Kind.float].contains d.kind
    · refine ⟨w, lj, .inl rfl, ?_⟩
      simp only [hb]
      by_cases h : nt name = true <;> simp [h]
    · refine ⟨w, rj, .inr rfl, ?_⟩
      simp only [hb]
      by_cases h : nt name = true <;> simp [h]

/-- the lines `_repr_vector` prints for the model's vector: one line per header row of the model's rendering, the formatted values,
    an empty line and the rendering of the model's footer.  `hshown` says what the model's oracle text `shownName` stands for. -/
theorem reprVector_lines (otherName : Nat → String) (rows m : Nat) (nq : Col → Bool) (rp nx : Col → String)
    (lj rj : String → Nat → String) (v : Col) (out : Out) (fmt : List String)
    (h : reprVector otherName rows v = .ok out) (hne : v.cells.isEmpty = false)
    (hshown : (if nq v then rp v else nx v) = v.shownName) :
    ∃ (w : Nat) (pad : String → Nat → String), (pad = lj ∨ pad = rj) ∧
      reprVectorT (kindName otherName) m (fun c : Col => nameTruthy c.name) nq rp nx lj rj
          (vectorShapeT v.cells v.cells.length) v.cells.length v.dtype v fmt =
        out.header.map (fun hr => pad (hr.cells.headD "") w) ++ fmt.map (pad · w) ++ ["", out.footer.render] := by
  obtain ⟨w, pad, hp, e⟩ := reprVectorT_lines otherName m (fun c : Col => nameTruthy c.name) nq rp nx lj rj
    (vectorShapeT v.cells v.cells.length) (vectorShapeT_le _ _) v.cells.length v.dtype v fmt
  refine ⟨w, pad, hp, ?_⟩
  rw [e, hshown]
  unfold reprVector at h
  simp only [hne, Bool.false_eq_true, if_false] at h
  split at h
  · cases h
  · cases h
    by_cases hn : nameTruthy v.name = true <;> simp [hn]

/-- an empty vector prints its footer alone, the rendering of the model's (bare) footer -/
theorem printr_empty_vector (otherName : Nat → String) (rows m : Nat) (v : Col) (out : Out) (rv rt : String)
    (h : reprVector otherName rows v = .ok out) (he : v.cells = []) :
    printrT (kindName otherName) m (vectorShapeT v.cells v.cells.length) v.cells.length v.dtype rv rt = out.footer.render ∧
      out.bare = true := by
  unfold reprVector at h
  simp only [he, List.isEmpty_nil, if_true, Except.ok.injEq] at h
  subst h
  rw [he]
  exact ⟨(printrT_eq otherName m 0 v.dtype rv rt).1, rfl⟩

/-! ### `_header_rows` -/

/-- the `_header_rows` part of the model's `tableHeader` (the model inlines it), on the five lists after the `...` column was inserted -/
def headerRowsM (disp shownNames lowers san dts : List String) : List HeaderRow × Bool :=
  let anyDisplay := disp.any (fun d => d != "..." && d != "")
  let anyStructural := (zip3 disp lowers san).any
    (fun (d, l, s) => d != "..." && s != "..." && isStructural d l s)
  let showTypes := heterogeneous (dts.filter (· != "..."))
  let row1 : List HeaderRow :=
    if anyDisplay then
      [{ judged := true, cells := (disp.zip shownNames).map (fun (d, s) => if d == "..." then "..." else s) }]
    else []
  let row2 : List HeaderRow :=
    if anyStructural || !anyDisplay then
      [{ judged := false, cells := san.map (fun s => if s != "" && s != "..." then "." ++ s else s) }]
    else []
  let row3 : List HeaderRow :=
    if showTypes then
      [{ judged := true, cells := dts.map (fun d => if d != "..." then "[" ++ d ++ "]" else "...") }]
    else []
  (row1 ++ row2 ++ row3, showTypes)

/-- `headerRowsM` is what the model's `tableHeader` does after `_compute_headers` and the insertion of the `...` column -/
theorem tableHeader_eq (otherName : Nat → String) (m : Nat) (cols : List Col) :
    tableHeader otherName m cols =
      headerRowsM
        (if decide (cols.length > m * 2) then insertAt m "..." (computeHeaders otherName cols (shownIdx m cols.length)).disp
          else (computeHeaders otherName cols (shownIdx m cols.length)).disp)
        (if decide (cols.length > m * 2) then insertAt m "..." (computeHeaders otherName cols (shownIdx m cols.length)).shown
          else (computeHeaders otherName cols (shownIdx m cols.length)).shown)
        (if decide (cols.length > m * 2) then insertAt m "..." (computeHeaders otherName cols (shownIdx m cols.length)).lowers
          else (computeHeaders otherName cols (shownIdx m cols.length)).lowers)
        (if decide (cols.length > m * 2) then insertAt m "..." (computeHeaders otherName cols (shownIdx m cols.length)).san
          else (computeHeaders otherName cols (shownIdx m cols.length)).san)
        (if decide (cols.length > m * 2) then insertAt m "..." (computeHeaders otherName cols (shownIdx m cols.length)).dts
          else (computeHeaders otherName cols (shownIdx m cols.length)).dts) := rfl

/-- what the model's oracle texts stand for: next to every displayed name `d` other than the `...` placeholder stand
    `repr(d) if _needs_quote(d) else d` and `d.lower()` -/
inductive Oracles (lw : String → String) (nq : String → Bool) (rp : String → String) :
    List String → List String → List String → Prop
  | nil : Oracles lw nq rp [] [] []
  | cons {d s l : String} {ds ss ls : List String} :
      (d ≠ "..." → s = (if nq d then rp d else d) ∧ l = lw d) → Oracles lw nq rp ds ss ls →
      Oracles lw nq rp (d :: ds) (s :: ss) (l :: ls)

theorem isStructuralChangeT_eq (lw : String → String) (d s : String) :
    isStructuralChangeT lw d s = isStructural d (lw d) s := by
  unfold isStructuralChangeT isStructural
  by_cases h1 : d = "" <;> by_cases h2 : s = "" <;> simp [h1, h2]
  by_cases h3 : lw d = s <;> simp [h3]

private theorem anyStructural_eq (lw : String → String) (nq : String → Bool) (rp : String → String)
    (disp shownNames lowers : List String) (ho : Oracles lw nq rp disp shownNames lowers) (san : List String) :
    (disp.zip san).any (fun (x : String × String) => x.1 != "..." && x.2 != "..." && isStructuralChangeT lw x.1 x.2) =
      (zip3 disp lowers san).any (fun (x : String × String × String) => x.1 != "..." && x.2.2 != "..." && isStructural x.1 x.2.1 x.2.2) := by
  induction ho generalizing san with
  | nil => cases san <;> simp [zip3]
  | @cons d sh l ds shs ls hd _ ih =>
    cases san with
    | nil => simp [zip3]
    | cons s ss =>
      simp only [List.zip_cons_cons, zip3, List.any_cons, ih]
      congr 1
      by_cases h1 : d = "..."
      · simp [h1]
      · obtain ⟨_, hl⟩ := hd h1
        simp [isStructuralChangeT_eq, hl]

private theorem row1_eq (lw : String → String) (nq : String → Bool) (rp : String → String)
    (disp shownNames lowers : List String) (ho : Oracles lw nq rp disp shownNames lowers) :
    disp.map (fun d => if d == "..." then "..." else if nq d then rp d else d) =
      (disp.zip shownNames).map (fun (x : String × String) => if x.1 == "..." then "..." else x.2) := by
  induction ho with
  | nil => rfl
  | @cons d sh l ds shs ls hd _ ih =>
    simp only [List.map_cons, List.zip_cons_cons, ih, List.cons.injEq, and_true]
    by_cases h1 : d = "..."
    · simp [h1]
    · simp [h1, (hd h1).1]

private theorem foldl_row (f : List String → String → List String) (g : String → String)
    (hf : ∀ acc x, f acc x = acc ++ [g x]) (l : List String) : l.foldl f [] = l.map g := by
  have : f = fun acc x => acc ++ [g x] := by funext acc x; exact hf acc x
  rw [this, foldl_append_map]; rfl

/-- **`_header_rows`, translated, gives the cells of the model's header rows and the model's `show_types_in_header`**, for all five
    lists related by `Oracles` (any length) -/
theorem headerRowsT_eq (lw : String → String) (nq : String → Bool) (rp : String → String)
    (disp shownNames lowers san dts : List String) (ho : Oracles lw nq rp disp shownNames lowers) :
    headerRowsT lw nq rp disp san dts =
      ((headerRowsM disp shownNames lowers san dts).1.map (·.cells), (headerRowsM disp shownNames lowers san dts).2) := by
  unfold headerRowsT headerRowsM
  simp only [lenSet_gt_one, List.any_filter]
  rw [foldl_row _ (fun d => if d == "..." then "..." else if nq d then rp d else d) ?_ disp]
  · rw [anyStructural_eq lw nq rp disp shownNames lowers ho san, row1_eq lw nq rp disp shownNames lowers ho]
    generalize heterogeneous (List.filter (fun dt => dt != "...") dts) = b3
    generalize ((zip3 disp lowers san).any fun x => x.fst != "..." && x.2.snd != "..." && isStructural x.fst x.2.fst x.2.snd) = b2
    generalize (disp.any fun a => a != "..." && a != "") = b1
    cases b1 <;> cases b2 <;> cases b3 <;> simp
  · intro acc x
    by_cases h1 : x = "..."
    · simp [h1]
    · by_cases h2 : nq x = true
      · simp [h1, h2]
      · by_cases h3 : x = ""
        · subst h3
          simp [h2]
        · simp [h1, h2, h3]

/-! ### the header of `_repr_table` -/

private theorem hdrLoop_lowers (otherName : Nat → String) (shown : List Nat) (st : HdrSt) (i : Nat) (cols : List Col) :
    (hdrLoop otherName shown st i cols).lowers = st.lowers ++ pick shown.contains (·.lower) i cols := by
  induction cols generalizing st i with
  | nil => simp [hdrLoop, pick]
  | cons c r ih =>
    simp only [hdrLoop, pick]
    rw [ih]
    unfold hdrStep
    by_cases hp : shown.contains i = true
    · simp only [hp, Bool.not_true, Bool.false_eq_true, if_false, if_true, List.append_assoc]
    · simp only [Bool.not_eq_true] at hp
      simp only [hp, Bool.not_false, if_true, Bool.false_eq_true, if_false, List.nil_append]
      split
      · split <;> rfl
      · rfl

theorem computeHeaders_lowers (otherName : Nat → String) (m : Nat) (cols : List Col) :
    (computeHeaders otherName cols (shownIdx m cols.length)).lowers = (shownCols m cols).map (·.lower) := by
  unfold computeHeaders
  rw [hdrLoop_lowers, pick_shownIdx]
  rfl

private theorem oracles_map (lw : String → String) (nq : String → Bool) (rp : String → String) (l : List Col)
    (h : ∀ c ∈ l, c.shownName = (if nq (c.name.getD "") then rp (c.name.getD "") else c.name.getD "") ∧
      c.lower = lw (c.name.getD "")) :
    Oracles lw nq rp (l.map (fun c => c.name.getD "")) (l.map (·.shownName)) (l.map (·.lower)) := by
  induction l with
  | nil => exact .nil
  | cons c r ih =>
    exact .cons (fun _ => h c List.mem_cons_self) (ih (fun c' hc' => h c' (List.mem_cons_of_mem _ hc')))

private theorem oracles_insert (lw : String → String) (nq : String → Bool) (rp : String → String) (a b c : List String)
    (ho : Oracles lw nq rp a b c) (m : Nat) :
    Oracles lw nq rp (insertAt m "..." a) (insertAt m "..." b) (insertAt m "..." c) := by
  induction ho generalizing m with
  | nil => cases m <;> exact .cons (fun h => absurd rfl h) .nil
  | @cons d s l ds ss ls hd ht ih =>
    cases m with
    | zero => exact .cons (fun h => absurd rfl h) (.cons hd ht)
    | succ k => exact .cons hd (ih k)

/-- **`header_rows, show_types_in_header` of `_repr_table`, translated, are the cells of the model's header rows** (stored names, the dot
    row of accessors, the `[dtype]` row) **and the model's flag**, for every list of columns and every limit `m`.  The hypothesis says
    what the oracle texts of a column stand for: `shownName` = `repr(n) if _needs_quote(n) else n`, `lower` = `n.lower()` with
    `n = _name or ""`. -/
theorem tableShowTypesT_eq (otherName : Nat → String) (m : Nat) (lw : String → String) (nq : String → Bool) (rp : String → String)
    (rep : String → String → String → String) (sh : List Nat) (ln : Nat) (dt : Option DType) (cols : List Col)
    (h : ∀ c ∈ cols, c.shownName = (if nq (c.name.getD "") then rp (c.name.getD "") else c.name.getD "") ∧
      c.lower = lw (c.name.getD "")) :
    tableShowTypesT (kindName otherName) m (fun c : Col => c.dtype) (fun c : Col => c) (fun c => nameTruthy c.name)
        (fun c => c.name.getD "") (fun c => c.san) lw nq rp rep sh ln dt cols =
      ((tableHeader otherName m cols).1.map (·.cells), (tableHeader otherName m cols).2) := by
  have hidx : (if decide (cols.length > m * 2) = true then List.range m ++ pyRange (cols.length - m) cols.length
      else List.range cols.length) = shownIdx m cols.length := by
    unfold shownIdx
    by_cases h : cols.length > m * 2 <;> simp [h, rf_pyRange_eq]
  have ho : Oracles lw nq rp (computeHeaders otherName cols (shownIdx m cols.length)).disp
      (computeHeaders otherName cols (shownIdx m cols.length)).shown
      (computeHeaders otherName cols (shownIdx m cols.length)).lowers := by
    rw [computeHeaders_disp, computeHeaders_shown, computeHeaders_lowers]
    apply oracles_map
    intro c hc
    apply h
    unfold shownCols at hc
    split at hc
    · rcases List.mem_append.mp hc with h1 | h1
      · exact List.mem_of_mem_take h1
      · exact List.mem_of_mem_drop h1
    · exact hc
  rw [tableHeader_eq]
  unfold tableShowTypesT
  simp only [hidx, computeHeadersT_eq, rf_pyInsert_eq]
  by_cases htr : cols.length > m * 2
  · simp only [htr, decide_true, if_true]
    exact headerRowsT_eq lw nq rp _ _ _ _ _ (oracles_insert lw nq rp _ _ _ ho m)
  · simp only [htr, decide_false, Bool.false_eq_true, if_false]
    exact headerRowsT_eq lw nq rp _ _ _ _ _ ho

/-! ### non-vacuity: the translated definitions evaluated on concrete inputs; the hypotheses are satisfiable -/

section Examples

private def kn : Kind → String := kindName (fun _ => "Foo")

/-- `str.lower` on the names the examples use -/
private def low (s : String) : String :=
  if s == "A" then "a" else if s == "X" then "x" else if s == "Ab" then "ab" else s

private def col (name : String) (k : Kind) (nullable : Bool := false) : Col :=
  { name := some name, shownName := name, san := some (low name), lower := low name, dtype := some ⟨k, nullable⟩, cells := [] }

private def noName (k : Kind) : Col :=
  { name := none, shownName := "", san := none, lower := "", dtype := some ⟨k, false⟩, cells := [] }

example : footerT kn [3] 3 (some ⟨.int, true⟩) none false 5 = "# 3 element vector <int?>" := by decide
example : footerT kn [] 0 none none false 5 = "# 0 element vector <object>" := by decide
example : footerT kn [2, 3] 2 none (some ["int", "str", "float"]) true 1 = "# 2×3 table <int, ..., float>" := by decide
example : footerT kn [2, 3] 2 none (some ["int", "str", "float"]) false 1 = "# 2×3 table <int, str, float>" := by decide
example : footerT kn [2, 3] 2 (some ⟨.other 0, false⟩) none false 1 = "# 2×3 table <Foo>" := by decide
example : footerT kn [2, 3, 4] 2 (some ⟨.str, true⟩) none false 1 = "# 2×3×4 tensor <str?>" := by decide
example : dataTypeReprT kn ⟨.date, true⟩ = "<date?>" := by decide
example : vectorShapeT ([] : List Nat) 0 = [] ∧ vectorShapeT [7, 8] 2 = [2] := by decide

/-- the arguments the ties instantiate the translated table functions with -/
private def tf (m : Nat) (shape : List Nat) (cols : List Col) : String :=
  tableFooterT kn m (fun c : Col => c.dtype) (fun c : Col => c) (fun c => nameTruthy c.name) (fun c => c.name.getD "") (fun c => c.san)
    low (fun _ => false) id pyStrReplace shape shape.head! none cols

example : tf 1 [2, 3] [col "a" .int, col "b" .float, col "c" .int] = "# 2×3 table <int, ..., int>" := by decide
example : tf 5 [2, 3] [col "a" .int, col "b" .float true, col "c" .int] = "# 2×3 table <mixed>" := by decide
example : tf 5 [4, 2] [col "a" .str true, col "b" .str true] = "# 4×2 table <str?>" := by decide
example : tf 1 [0, 4] [col "a" .int, col "b" .float, col "c" .str, col "d" .int] = "# 0×4 table <int, ..., int>" := by decide
example : tf 5 [0, 0] [] = "# 0×0 table" := by decide

example : colIndicesT kn 2 (fun c : Col => c.dtype) (fun c : Col => c) (fun c => nameTruthy c.name) (fun c => c.name.getD "")
    (fun c => c.san) low (fun _ => false) id pyStrReplace [1, 5] 1 none
    [col "a" .int, col "b" .int, col "c" .int, col "d" .int, col "e" .int] = (true, [0, 1, 3, 4]) := by decide

/-- a hidden column claims its accessor name; a clash gets the `_<index>` suffix; a column without name is `col<index>_` -/
example : computeHeadersT kn (fun c : Col => c.dtype) (fun c : Col => c) (fun c => nameTruthy c.name) (fun c => c.name.getD "")
    (fun c => c.san) [col "A" .int, col "x" .str, col "a" .float true, noName .date, col "X" .int] [0, 2, 3, 4] =
    (["A", "a", "", "X"], ["a", "a__2", "col3_", "x__4"], ["int", "float?", "date", "int"]) := by decide

example : headerRowsT low (fun s => s == "b c") (fun s => "'" ++ s ++ "'") ["A", "...", "b c"] ["a", "...", "b_c"] ["int", "...", "str"] =
    ([["A", "...", "'b c'"], [".a", "...", ".b_c"], ["[int]", "...", "[str]"]], true) := by decide

example : headerRowsT low (fun _ => false) id ["a", "b"] ["a", "b"] ["int", "int"] = ([["a", "b"]], false) := by decide

example : reprVectorT kn 5 (fun s : String => s != "") (fun _ => false) id id (fun s _ => s) (fun s _ => s) [2] 2 (some ⟨.int, false⟩) "n" ["1", "2"] =
    ["n", "1", "2", "", "# 2 element vector <int>"] := by decide

example : printrT kn 5 [] 0 (some ⟨.float, false⟩) "V" "T" = "# 0 element vector <float>" := by decide

/-- the hypothesis on `str.replace` is satisfiable (`pyStrReplace_spec`), and `pyStrReplace` does replace -/
example : ReplaceSpec pyStrReplace := pyStrReplace_spec
example : pyStrReplace "# 2×3 table <int>" "<int>" "<mixed>" = "# 2×3 table <mixed>" := by decide

/-- the hypothesis of `tableShowTypesT_eq` is satisfiable: columns whose names need no quotes, with `str.lower` as the lower-casing -/
example : ∀ c ∈ [col "Ab" .int, col "c" .str], c.shownName = (if (fun _ => false) (c.name.getD "") then id (c.name.getD "") else c.name.getD "") ∧
    c.lower = low (c.name.getD "") := by decide

/-- the hypothesis of `reprVector_lines` is satisfiable -/
example : (if (fun _ : Col => false) (col "v" .int) then Col.shownName (col "v" .int) else (fun c : Col => c.name.getD "") (col "v" .int)) =
    (col "v" .int).shownName := by decide

end Examples

end Serif.Tie
