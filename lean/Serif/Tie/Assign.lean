/-
  Translation tie for the type phase of `Vector.__setitem__` (C08, and the "promotion on assignment" clause of C03): the loop
  `target = self._dtype; for val in new_values: …` that works out the dtype accommodating every new value — None makes it nullable,
  a value `validate_scalar` accepts leaves it, a value of a kind the column can be promoted to (`_PROMOTABLE`) moves it there, any
  other value raises SerifTypeError before anything is touched — translated statement by statement from the source
  (`Gen.T.setitemTargetStepT`, `setitemTargetT`), is the model's `Assign.foldTarget` for every dtype, every promotability relation
  and every list of new values, provided the element conversions `validate_scalar` performs on the way succeed (a conversion that
  raises — `float(10**400)` — is modelled by `conv` and tied by the correspondence leg).  The two tests after the loop are the
  conditions under which the model promotes the storage and sets the nullable flag.
  Supplementary (see Serif/Tie/Typing.lean).
-/
import Serif.Gen.Translated
import Serif.Model.Assign
import Serif.Tie.Typing

set_option linter.unusedSimpArgs false

namespace Serif.Tie
open Serif Serif.Assign Serif.Gen.T

theorem infer_single_kind (k : Kind) : (infer [Tag.ty k]).kind = k := by
  simp [infer, inferStep, inferKind]

/-- one iteration of the loop -/
theorem setitemTargetStep_eq (P : Kind → Kind → Bool) (conv : Kind → Nat → Option Nat)
    (hconv : ∀ k u, (conv k u).isSome = true) (t : DType) (c : Cell) (cs : List Cell) :
    foldTarget P conv t (c :: cs) =
      (match setitemTargetStepT P t c.tag with
       | .error e => .error e
       | .ok t' => foldTarget P conv t' cs) := by
  obtain ⟨tag, uid⟩ := c
  cases tag with
  | none => simp [foldTarget, setitemTargetStepT]
  | ty k =>
    simp only [foldTarget, setitemTargetStepT, validates_eq, inferDtype_eq, infer_single_kind, requiredKind, inferKind,
      Option.getD_some]
    have hc : (conv t.kind uid).isNone = false := by
      have := hconv t.kind uid
      cases h : conv t.kind uid <;> simp_all
    by_cases hv : validates t (Tag.ty k) = true
    · simp [hv, hc]
    · have hv' : validates t (Tag.ty k) = false := by simpa using hv
      by_cases hp : P t.kind k = true
      · simp [hv', hp]
      · have hp' : P t.kind k = false := by simpa using hp
        simp [hv', hp']

/-- the whole loop: the translated fold over the new values' exact types is the model's `foldTarget` -/
theorem setitemTarget_eq (P : Kind → Kind → Bool) (conv : Kind → Nat → Option Nat)
    (hconv : ∀ k u, (conv k u).isSome = true) (d : DType) (cells : List Cell) :
    setitemTargetT P d (cells.map (·.tag)) = foldTarget P conv d cells := by
  unfold setitemTargetT
  induction cells generalizing d with
  | nil => simp [foldTarget, pure, Except.pure]
  | cons c cs ih =>
    rw [setitemTargetStep_eq P conv hconv]
    simp only [List.map_cons, List.foldlM_cons, bind, Except.bind]
    cases h : setitemTargetStepT P d c.tag with
    | error e => rfl
    | ok t' => simpa using ih t'

/-- the tests after the loop are the model's conditions for promoting the storage and for setting the nullable flag -/
theorem setitemAfterLoop_eq (target d : DType) :
    setitemNeedsPromoteT target d = decide (target.kind ≠ d.kind) ∧
    setitemNeedsNullableT target d = (target.nullable && !d.nullable) := by
  constructor
  · simp only [setitemNeedsPromoteT, bne, decide_not]
    by_cases h : target.kind = d.kind <;> simp [h]
  · rfl

/-- non-vacuity: an int column, new values 2.5 then None — the target is nullable float; a str is refused -/
example : setitemTargetT Assign.genP ⟨.int, false⟩ [Tag.ty .float, Tag.none] = .ok ⟨.float, true⟩ := by decide +kernel
example : setitemTargetT Assign.genP ⟨.int, false⟩ [Tag.ty .float, Tag.ty .str] = .error Err.type := by decide +kernel

end Serif.Tie
