/-
  Tie: ownership of column objects — which operations hand out fresh objects, which the live object (C01, C02).

  Generated side (Serif/Gen/TranslatedOwnership.lean, by harness/tr/ownership.py from /repo's working tree):
  * `ownershipT`: per operation and per place that hands out an object / replaces the columns of `self`, where the Vector
    objects of the result's columns come from (found by abstract interpretation of the current function bodies);
  * `copyT`, `tableInitT`, `setattrReplaceT`, `selectT`, `rshiftDictT`: the copying statements of `Vector.copy`,
    `Table.__init__`, `Table.__setattr__`, multi-name `Table.__getitem__`, dict-form `Table.__rshift__` on the object heap.

  Here:
  * `expectedOwnership` — the model's expectation (Model/ObjHeap.lean: every operation but `t.name`, `t['name']`, `t.cols()[j]`
    is `HOp.derive`, those three are `HOp.getCol`, `t.name = v` is `HOp.setAttr`), and `ownership_table_eq`: the generated
    table equals it; `ownership_sound`, `views_only_where_expected`: what the table says, as properties;
  * `tableInitT_eq_alloc` / `tableInit_is_derive`: the translated constructor is the model's `alloc` / `step · (.derive …)`;
    `selectT_eq_alloc` / `select_is_derive`: so is multi-name selection (`rshiftDictT`, the dict form of `>>`, is evaluated on a
    concrete heap only: the caller's vector keeps its name, the result is independent);
    `setattrReplaceT_eq_step`: the translated replacement block is the model's `step · (.setAttr t j src)`;
  * `write_result_keeps_operands`, `write_operand_keeps_result`, `tableInit_write_independent`,
    `setattr_keeps_source`: `derive_independent`, `write_frame`, `setAttr_frame` instantiated for these derivations.
-/
import Serif.Gen.TranslatedOwnership
import Serif.Props.C01

namespace Serif.Tie
open Serif Serif.Heap Serif.Gen.Own

/-! ### the table -/

/-- `HOp.getCol`-like: the live column object of `self` -/
def viewSite : Site := ⟨.vector, [.column 0]⟩
/-- `HOp.derive`-like: a new table, every column a new object -/
def deriveSite : Site := ⟨.table, [.fresh]⟩
/-- `HOp.derive`-like, columns from two sources (`self` and the argument), all new objects -/
def deriveSite2 : Site := ⟨.table, [.fresh, .fresh]⟩
/-- `HOp.setAttr`-like: the other columns stay, the new one is a new object -/
def replaceSite : Site := ⟨.update, [.own, .fresh]⟩
/-- `self[rows][cols]`: covered by the other rows of `Table.__getitem__` -/
def recSite : Site := ⟨.recursive, []⟩

/-- **the model's expectation**, operation by operation, in source order of the places that hand out an object -/
def expectedOwnership : List (String × List Site) := [
  ("Table.__init__", [⟨.update, [.fresh]⟩]),                       -- the new table holds copies only
  ("Table.__setattr__", [replaceSite, replaceSite]),               -- `t.name__N = v`, `t.name = v`
  ("Table.__getattr__", [viewSite, viewSite, viewSite]),           -- `t.name__N`, `t.colN_`, `t.name`
  ("Table.__getitem__", [
    viewSite, viewSite, viewSite, viewSite, viewSite,              -- `t['name']`: exact, system, sanitised, indexed, unnamed
    deriveSite,                                                    -- `t['a', 'b']`
    recSite, recSite, deriveSite, recSite, recSite,                -- `t[rows, cols]`
    viewSite,                                                      -- `t[i]` of a table of tables: the live inner table
    deriveSite, deriveSite, deriveSite, deriveSite]),              -- mask vector, mask list, slice, index vector
  ("Table.__rshift__", [deriveSite2, deriveSite2, deriveSite2, deriveSite2, deriveSite]),
  ("Table.__lshift__", [deriveSite, deriveSite]),
  ("Table.__copy__", [deriveSite]),
  ("Table.T", [deriveSite, deriveSite]),
  ("Table._table_elementwise_operation", [deriveSite, deriveSite]),
  ("Table.__neg__", [deriveSite]),
  ("Table.__pos__", [deriveSite]),
  ("Table.__abs__", [deriveSite]),
  ("Table.__invert__", [deriveSite]),
  ("Table.inner_join", [⟨.table, []⟩, deriveSite]),
  ("Table.join", [⟨.table, []⟩, deriveSite]),
  ("Table.full_join", [⟨.table, []⟩, deriveSite]),
  ("Table.aggregate", [deriveSite]),
  ("Table.window", [deriveSite]),
  ("Table.sort_by", [deriveSite, deriveSite]),
  ("Vector.copy", [deriveSite2]),
  ("Vector.__copy__", [deriveSite]),
  ("Vector.__deepcopy__", [deriveSite]),
  ("Vector.cols", [viewSite, viewSite, ⟨.columns, [.column 0]⟩])
]

/-- the summary found in the current source is the expected one -/
theorem ownership_table_eq : ownershipT = expectedOwnership := by decide

/-- a site is in order: a new table has new column objects only; a handed-out vector / column tuple is a live column of `self`
    (operand 0) and of nothing else; an update keeps own columns and adds new objects only -/
def siteSound (s : Site) : Bool :=
  match s.kind with
  | .table => s.cols.all (· == .fresh)
  | .vector | .columns => s.cols == [.column 0]
  | .update => s.cols.all (fun c => c == .fresh || c == .own)
  | .recursive => s.cols == []

/-- no Vector object of an operand ends up among the columns of a result or of `self` -/
theorem ownership_sound : ∀ p ∈ ownershipT, ∀ s ∈ p.2, siteSound s = true := by decide

def handsOutLive (s : Site) : Bool := s.kind == .vector || s.kind == .columns

/-- live objects are handed out by attribute access, item access and `cols()` only -/
theorem views_only_where_expected :
    (ownershipT.filter (fun p => p.2.any handsOutLive)).map (·.1) = ["Table.__getattr__", "Table.__getitem__", "Vector.cols"] := by
  decide

/-! ### the translated constructor is the model's allocation -/

/-- what the vector objects `os` show (`default` for an id that is not a vector object) -/
def contents (h : Heap) (os : List Nat) : List VecVal := os.map (fun o => (h.vecOf o).getD default)

theorem contents_eq_filterMap (h : Heap) (os : List Nat) (hv : ∀ o ∈ os, ∃ v, h.vecOf o = some v) :
    contents h os = os.filterMap h.vecOf := by
  induction os with
  | nil => rfl
  | cons o os ih =>
    obtain ⟨v, hv1⟩ := hv o List.mem_cons_self
    simp only [contents, List.map_cons, List.filterMap_cons, hv1, Option.getD_some]
    have := ih (fun x hx => hv x (List.mem_cons_of_mem _ hx))
    simp only [contents] at this
    rw [this]

theorem vecOf_allocVec_lt (h : Heap) (v : VecVal) (o : Nat) (ho : o < h.next) : (h.allocVec v).1.vecOf o = h.vecOf o := by
  apply vecOf_congr
  exact allocVec_objs_lt h v o (by omega)

theorem contents_allocVec (h : Heap) (v : VecVal) (os : List Nat) (hlt : ∀ o ∈ os, o < h.next) :
    contents (h.allocVec v).1 os = contents h os := by
  simp only [contents]
  apply List.map_congr_left
  intro o ho
  rw [vecOf_allocVec_lt h v o (hlt o ho)]

/-- `tuple(vec.copy() for vec in initial)` allocates one new object per incoming vector, showing the same -/
theorem forEach_copy_eq (os : List Nat) (h : Heap) (hlt : ∀ o ∈ os, o < h.next) :
    forEachT copyT h os = h.allocVecs (contents h os) := by
  induction os generalizing h with
  | nil => rfl
  | cons o os ih =>
    have h1lt : ∀ x ∈ os, x < (copyT h o).1.next := by
      intro x hx
      have := hlt x (List.mem_cons_of_mem _ hx)
      show x < h.next + 1
      omega
    have e := ih (copyT h o).1 h1lt
    have c : contents (copyT h o).1 os = contents h os :=
      contents_allocVec h _ os (fun x hx => hlt x (List.mem_cons_of_mem _ hx))
    rw [c] at e
    simp only [forEachT, e]
    simp only [contents, List.map_cons, allocVecs, copyT]

/-- **`Table.__init__`, translated, is the model's `alloc`** of a table showing what the incoming vectors show -/
theorem tableInitT_eq_alloc (h : Heap) (initial : List Nat) (hlt : ∀ o ∈ initial, o < h.next) :
    tableInitT h initial = h.alloc (.tab (contents h initial)) := by
  simp only [tableInitT, forEach_copy_eq initial h hlt, alloc, newTabT]

/-- bind handle `dst` to the object an operation returned -/
def bindT (p : Heap × Nat) (dst : Nat) : Heap := { p.1 with roots := upd p.1.roots dst (some p.2) }

/-- … so `dst = Table([v1, …, vn])` is the model's `derive` step -/
theorem tableInit_is_derive (fpOf : VecVal → Int) (h : Heap) (initial : List Nat) (dst : Nat)
    (hlt : ∀ o ∈ initial, o < h.next) :
    bindT (tableInitT h initial) dst = step fpOf h (.derive dst (.tab (contents h initial))) := by
  simp only [bindT, tableInitT_eq_alloc h initial hlt, step]

/-! ### writes after a derivation -/

theorem mutate_roots (fpOf : VecVal → Int) (g : Heap) (r : Nat) (v : VecVal) : (step fpOf g (.mutate r v)).roots = g.roots := by
  simp only [step]
  split
  · exact setVec_roots _ _ _
  · rfl

/-- **a write through the result leaves the operands as they were**: after `dst = <derivation>`, an accepted write through `dst`
    changes what no older handle shows (`derive_independent` + `write_frame` + `derive_frame`) -/
theorem write_result_keeps_operands (fpOf : VecVal → Int) (h : Heap) (wf : WF h) (dst r' : Nat) (val : AbsVal) (v : VecVal)
    (hne : r' ≠ dst) :
    (step fpOf (step fpOf h (.derive dst val)) (.mutate dst v)).view r' = h.view r' := by
  have hfr := (C01.derive_frame fpOf h wf dst val).2 r' hne
  obtain ⟨_, b, c, d, _, _⟩ := alloc_spec h val wf
  have hdst : (step fpOf h (.derive dst val)).root dst = some (h.alloc val).2 := by
    simp only [step, root, upd_same]
  cases hr : h.roots r' with
  | none =>
    have hr2 : (step fpOf h (.derive dst val)).roots r' = none := by
      simp only [step, upd_ne _ _ _ _ hne, d, hr]
    have hv0 : h.view r' = none := by simp only [view, root, hr]
    rw [hv0]
    generalize step fpOf h (.derive dst val) = g at hr2
    simp only [view, root, mutate_roots, hr2]
  | some o =>
    have holt : o < h.next := wf.roots_lt r' o hr
    have hr2 : (step fpOf h (.derive dst val)).root r' = some o := by
      simp only [step, root, upd_ne _ _ _ _ hne, d, hr]
    have hi := (C01.derive_independent fpOf h wf dst val o holt _ hdst).1
    rw [C01.write_frame fpOf _ dst r' _ o v hdst hr2 hi, hfr]

/-- **a write through an operand leaves the result as it was**: after `dst = <derivation>`, an accepted write through an older
    vector handle `r` changes nothing of what `dst` shows -/
theorem write_operand_keeps_result (fpOf : VecVal → Int) (h : Heap) (wf : WF h) (dst r w : Nat) (val : AbsVal) (v : VecVal)
    (hne : r ≠ dst) (hr : h.root r = some w) :
    (step fpOf (step fpOf h (.derive dst val)) (.mutate r v)).view dst = some val := by
  obtain ⟨_, b, c, d, _, _⟩ := alloc_spec h val wf
  have hdst : (step fpOf h (.derive dst val)).root dst = some (h.alloc val).2 := by
    simp only [step, root, upd_same]
  have hwlt : w < h.next := wf.roots_lt r w hr
  have hr2 : (step fpOf h (.derive dst val)).root r = some w := by
    simp only [root] at hr
    simp only [step, root, upd_ne _ _ _ _ hne, d, hr]
  have hi := (C01.derive_independent fpOf h wf dst val w hwlt _ hdst).2.1
  rw [C01.write_frame fpOf _ r dst w _ v hr2 hdst hi]
  exact (C01.derive_frame fpOf h wf dst val).1

/-- the two, for the translated `Table.__init__` (and with it for every operation whose result is built by `Table(…)` /
    `Vector(<vectors>)`, which by `ownership_table_eq` are all the derivations of the table): the new table shows the contents of
    the incoming vectors; a write through it leaves every older handle as it was; a write through an older handle leaves it as it was -/
theorem tableInit_write_independent (fpOf : VecVal → Int) (h : Heap) (wf : WF h) (initial : List Nat) (dst r w : Nat) (v : VecVal)
    (hv : ∀ o ∈ initial, ∃ x, h.vecOf o = some x) (hne : r ≠ dst) (hr : h.root r = some w) :
    let h' := bindT (tableInitT h initial) dst
    h'.view dst = some (.tab (initial.filterMap h.vecOf)) ∧
    (step fpOf h' (.mutate dst v)).view r = h.view r ∧
    (step fpOf h' (.mutate r v)).view dst = some (.tab (initial.filterMap h.vecOf)) := by
  have hlt : ∀ o ∈ initial, o < h.next := by
    intro o ho
    obtain ⟨x, hx⟩ := hv o ho
    unfold vecOf obj at hx
    cases hobj : h.objs o with
    | none => simp [hobj] at hx
    | some ob => exact wf.lt_of_some hobj
  intro h'
  have e : h' = step fpOf h (.derive dst (.tab (contents h initial))) := tableInit_is_derive fpOf h initial dst hlt
  rw [e, contents_eq_filterMap h initial hv]
  exact ⟨(C01.derive_frame fpOf h wf dst _).1, write_result_keeps_operands fpOf h wf dst r _ v hne,
    write_operand_keeps_result fpOf h wf dst r w _ v hne hr⟩

/-! ### column replacement -/

theorem upd_upd_same {α : Type} (f : Nat → Option α) (k : Nat) (a b : Option α) : upd (upd f k a) k b = upd f k b := by
  funext x
  simp only [upd]
  split <;> rfl

/-- **the replacement block of `Table.__setattr__`, translated, is the model's `setAttr` step**: for a table handle `t` (object
    `ot`, columns `cols`), a vector handle `src` (object `os`) and an existing column `j` -/
theorem setattrReplaceT_eq_step (fpOf : VecVal → Int) (h : Heap) (wf : WF h) (t src ot os j oc : Nat) (cols : List Nat) (sv : VecVal)
    (data : VecVal) (ht : h.root t = some ot) (hs : h.root src = some os) (hot : h.obj ot = some (.tab cols))
    (hsv : h.vecOf os = some sv) (hj : cols[j]? = some oc) :
    setattrReplaceT true data h ot os j = step fpOf h (.setAttr t j src) := by
  have hotlt : ot < h.next := wf.lt_of_some hot
  have hoclt : oc < h.next := by
    obtain ⟨z, fp, hz⟩ := wf.cols_vec ot cols hot oc (List.mem_of_getElem? hj)
    exact wf.lt_of_some hz
  have e1 : copyT h os = h.allocVec sv := by simp only [copyT, hsv, Option.getD_some]
  have ecols : (h.allocVec sv).1.columnsOf ot = cols := by
    have : (h.allocVec sv).1.objs ot = h.objs ot := allocVec_objs_lt h sv ot (by omega)
    simp only [columnsOf, obj, this]
    simp only [obj] at hot
    rw [hot]
  have evec : (h.allocVec sv).1.vecOf oc = h.vecOf oc := vecOf_allocVec_lt h sv oc hoclt
  have enew : (h.allocVec sv).1.obj (h.allocVec sv).2 = some (.vec sv none) := allocVec_new h sv
  simp only [step, ht, hs, hot, hsv, hj]
  simp only [setattrReplaceT, Bool.not_true, Bool.false_eq_true, if_false, e1, ecols, hj, Option.bind_some, evec,
    setNameT, enew]
  simp only [allocVec, upd_upd_same]

/-- … hence `t.name = src` changes what `t` shows and nothing else; in particular `src` shows what it showed (`setAttr_frame`) -/
theorem setattr_keeps_source (fpOf : VecVal → Int) (h : Heap) (wf : WF h) (t src ot os j oc : Nat) (cols : List Nat) (sv : VecVal)
    (data : VecVal) (ht : h.root t = some ot) (hs : h.root src = some os) (hot : h.obj ot = some (.tab cols))
    (hsv : h.vecOf os = some sv) (hj : cols[j]? = some oc) (r' o : Nat) (hr' : h.root r' = some o) (hne : o ≠ ot) :
    (setattrReplaceT true data h ot os j).view r' = h.view r' := by
  rw [setattrReplaceT_eq_step fpOf h wf t src ot os j oc cols sv data ht hs hot hsv hj]
  exact C01.setAttr_frame fpOf h wf t j src r' ot o ht hr' hne

/-! ### multi-name selection -/

theorem lt_of_vecOf (h : Heap) (wf : WF h) (os : List Nat) (hv : ∀ o ∈ os, ∃ x, h.vecOf o = some x) : ∀ o ∈ os, o < h.next := by
  intro o ho
  obtain ⟨x, hx⟩ := hv o ho
  unfold vecOf obj at hx
  cases hobj : h.objs o with
  | none => simp [hobj] at hx
  | some ob => exact wf.lt_of_some hobj

/-- **`t['a', 'b', …]`, translated** (`col.copy()` for every found column, then `Table(selected_cols)`, which copies again), is
    the model's `alloc` of a table showing the found columns, in a heap that differs from `h` by unreachable new objects only -/
theorem selectT_eq_alloc (h : Heap) (wf : WF h) (found : List Nat) (hv : ∀ o ∈ found, ∃ x, h.vecOf o = some x) :
    selectT h found = (h.allocVecs (found.filterMap h.vecOf)).1.alloc (.tab (found.filterMap h.vecOf)) := by
  have hlt := lt_of_vecOf h wf found hv
  obtain ⟨wf1, b, c, d, e, f, g⟩ := allocVecs_spec h (contents h found) wf
  have hsel : ∀ o ∈ (h.allocVecs (contents h found)).2, ∃ x, (h.allocVecs (contents h found)).1.vecOf o = some x := by
    intro o ho
    rw [e] at ho
    have hm := List.mem_range'_1.mp ho
    obtain ⟨x, fp, hx⟩ := g o hm.1 hm.2
    exact ⟨x, by simp [vecOf, obj, hx]⟩
  have hlt1 : ∀ o ∈ (h.allocVecs (contents h found)).2, o < (h.allocVecs (contents h found)).1.next := by
    intro o ho
    rw [e] at ho
    have hm := List.mem_range'_1.mp ho
    rw [b]; exact hm.2
  simp only [selectT, forEach_copy_eq found h hlt]
  rw [tableInitT_eq_alloc _ _ hlt1, contents_eq_filterMap _ _ hsel, f, contents_eq_filterMap h found hv]

/-- … so `dst = t['a', 'b', …]` shows the found columns, and is a `derive` step from a well-formed heap in which every older
    handle shows what it showed: `write_result_keeps_operands` / `write_operand_keeps_result` apply to it -/
theorem select_is_derive (fpOf : VecVal → Int) (h : Heap) (wf : WF h) (found : List Nat) (dst : Nat)
    (hv : ∀ o ∈ found, ∃ x, h.vecOf o = some x) :
    let h1 := (h.allocVecs (found.filterMap h.vecOf)).1
    bindT (selectT h found) dst = step fpOf h1 (.derive dst (.tab (found.filterMap h.vecOf))) ∧
    WF h1 ∧ h1.roots = h.roots ∧ ∀ k, k < h.next → h1.objs k = h.objs k := by
  obtain ⟨wf1, b, c, d, e, f, g⟩ := allocVecs_spec h (found.filterMap h.vecOf) wf
  refine ⟨?_, wf1, c, d⟩
  simp only [bindT, selectT_eq_alloc h wf found hv, step]

/-! ### non-vacuity: the translated functions on a concrete heap -/

private def v1 : VecVal := { data := [1, 2, 3], dtype := some ⟨.int, false⟩, name := some "a" }
private def v2 : VecVal := { data := [4, 5, 6], dtype := some ⟨.int, false⟩, name := some "b" }
private def v9 : VecVal := { data := [9, 2, 3], dtype := some ⟨.int, false⟩, name := some "a" }
private def fp0 : VecVal → Int := fun _ => 0
/-- handle 0: a vector (object 0); handle 1: a table (object 3) over the column objects 1, 2 -/
private def h0 : Heap := run fp0 Heap.empty [.derive 0 (.vec v1), .derive 1 (.tab [v1, v2])]

example : h0.vecOf 0 = some v1 ∧ h0.columnsOf 3 = [1, 2] ∧ h0.next = 4 := by decide

/-- `Table([d, t.b])`: new objects 4, 5 under a new table 6; a write through `d` afterwards does not show in it -/
example :
    let h := bindT (tableInitT h0 [0, 2]) 5
    h.view 5 = some (.tab [v1, v2]) ∧ h.columnsOf 6 = [4, 5] ∧
    (step fp0 h (.mutate 0 v9)).view 5 = some (.tab [v1, v2]) ∧ (step fp0 h (.mutate 0 v9)).view 0 = some (.vec v9) := by decide

/-- the hypotheses of `tableInit_write_independent` are satisfiable -/
example : (step fp0 (bindT (tableInitT h0 [0, 2]) 5) (.mutate 5 v9)).view 0 = h0.view 0 :=
  (tableInit_write_independent fp0 h0 (C01.reachable_wf fp0 _) [0, 2] 5 0 0 v9
    (by intro o ho
        simp only [List.mem_cons, List.mem_nil_iff, or_false] at ho
        rcases ho with rfl | rfl
        · exact ⟨v1, by decide⟩
        · exact ⟨v2, by decide⟩)
    (by decide) (by decide)).2.1

/-- what the theorems rule out: a constructor that stores the incoming objects (`vec` instead of `vec.copy()`) gives a table in
    which a write through `d` shows -/
example :
    let p := forEachT (fun h o => (h, o)) h0 [0, 2]
    let h := bindT (newTabT p.1 p.2) 5
    (step fp0 h (.mutate 0 v9)).view 5 = some (.tab [v9, v2]) := by decide

/-- `t['b', 'a']` -/
example :
    let h := bindT (selectT h0 [2, 1]) 5
    h.view 5 = some (.tab [v2, v1]) ∧ (step fp0 h (.tabMutate 5 [v9, v9])).view 1 = some (.tab [v1, v2]) := by decide

/-- `t.b = d`: column 1 of the table becomes a new object showing `d` under the name "b"; `d` and `t.a` stay -/
example :
    let h := setattrReplaceT true default h0 3 0 1
    h.view 1 = some (.tab [v1, { v1 with name := some "b" }]) ∧ h.view 0 = some (.vec v1) ∧ h.columnsOf 3 = [1, 4] := by decide

/-- the hypotheses of `setattrReplaceT_eq_step` are satisfiable -/
example : setattrReplaceT true default h0 3 0 1 = step fp0 h0 (.setAttr 1 1 0) :=
  setattrReplaceT_eq_step fp0 h0 (C01.reachable_wf fp0 _) 1 0 3 0 1 2 [1, 2] v1 default (by decide) (by decide) (by decide)
    (by decide) (by decide)

/-- `t >> {'z': d}` -/
example :
    let h := bindT (rshiftDictT h0 3 [0] [some "z"]) 5
    h.view 5 = some (.tab [v1, v2, { v1 with name := some "z" }]) ∧ h.view 0 = some (.vec v1) ∧ h.view 1 = some (.tab [v1, v2]) ∧
    (step fp0 h (.mutate 0 v9)).view 5 = some (.tab [v1, v2, { v1 with name := some "z" }]) ∧
    (step fp0 h (.tabMutate 5 [v9, v9, v9])).view 1 = some (.tab [v1, v2]) := by decide

end Serif.Tie
