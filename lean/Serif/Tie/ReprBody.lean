/-
  Translation tie for the body lines of repr (C20).

  `harness/tr/reprbody.py` translates, statement by statement, from the current source (`Serif/Gen/TranslatedReprBody.lean`,
  regenerated on every run): `display.set_repr_rows`, `_needs_quote`, `_format_column` (whole), `_align_columns` (whole) and three
  slices of `_repr_table` (`max_preview`; `formatted_cols` after the `...` column was inserted; `lines` before the footer is appended).
  This file proves them equal to the model of `Serif/Model/Repr.lean`, for every column length, every limit, every number of columns:

    setReprRowsT_some, setReprRowsT_none      `set_repr_rows(n)` / `set_repr_rows(None)`  =  `n` / `Gen.reprRowsReset` (= `Gen.reprRowsDefault`)
    tableMaxPreviewT_eq, tableMaxPreviewT_noattr, budget_vector, budget_table
                                              the preview budget  =  `rows / 2` (vector) / the model's `tableK` (per-table `_repr_rows // 2`)
    formatColumnT_eq                          `_format_column`  =  the model's `formatColumn` followed by the padding (`padColumn`)
    formatColumnT_length, formatColumnT_line, formatColumnT_ellipsis
                                              line count = `n` if `n ≤ 2k` else `2k + 1` = length of the model's `preview`; line `i` is the text
                                              of preview entry `i`; the `...` line stands at position `k`
    alignColumnsT_eq, alignColumnsT_shape, colWidth_ge_body, colWidth_ge_header
                                              `_align_columns`: cell-wise padding to `colWidth`, right iff the dtype token is `int`/`float`
    tableFormattedColsT_eq, tableBody_eq      `formatted_cols`  =  the model's displayed columns formatted + the `...` column; the model's
                                              `tableBody` is its transposition `rowsOf`
    tableLinesT_eq, tableLinesT_length, rowsOf_row_length
                                              the lines: header rows, `rowsOf` the aligned columns joined by the gutter, the blank line
    line_despace, body_line_shows, header_line_shows
                                              alignment only adds spaces: a printed line is, spaces removed, its cells (`lineMatches`)
    needsQuoteT_eq, needsQuoteT_empty         `_needs_quote` on a string is the disjunction of its five tests

  Parameters / oracles (not translated): `str.ljust` / `str.rjust` (any functions in the `_eq` theorems; `pyLjust` / `pyRjust` defined here
  where "adds only spaces" is stated), the per-value `if`/`elif` chain of `_format_column` (instantiated with the model's `fmtShown`; tied to
  the source in Serif/Tie/Repr.lean), `_format_column` inside `_repr_table` (any function in `tableFormattedColsT_eq`), `str.isidentifier`,
  `str.isdigit`, `float()`, `str.lower`, `_get_reserved_names()`.
  The model has no padding and inlines `formatted_cols` in `tableBody`; `padColumn`, `colWidth`, `padFor`, `budget`, `fcolsCore` are defined
  here (`tableBody_eq` shows the model's `tableBody` is the translated `formatted_cols` read row by row).
  Supplementary (see Serif/Tie/Typing.lean).
-/
import Serif.Gen.TranslatedReprBody
import Serif.Props.C20

namespace Serif.Tie
open Serif Serif.Repr Serif.Gen.TRB

/-! ### the row limits: `set_repr_rows`, the per-table override, the default of `max_preview` -/

/-- `set_repr_rows(n)` makes `n` the global limit, whatever it was before -/
theorem setReprRowsT_some (old n : Nat) : setReprRowsT old (some n) = n := rfl

/-- `set_repr_rows(None)` resets the global to the literal the constant extraction reads (`Gen.reprRowsReset`), which is the value the
    module starts with (`Gen.reprRowsDefault`) -/
theorem setReprRowsT_none (old : Nat) :
    setReprRowsT old none = Gen.reprRowsReset ∧ setReprRowsT old none = Gen.reprRowsDefault := ⟨rfl, rfl⟩

/-- the per-table override of `_repr_table`: `tbl._repr_rows // 2` when it is set, else `None` (the global decides) -/
theorem tableMaxPreviewT_eq (r : Option Nat) : tableMaxPreviewT true r = r.map (· / 2) := by
  cases r <;> rfl

/-- an object without the attribute `_repr_rows` has no override -/
theorem tableMaxPreviewT_noattr (r : Option Nat) : tableMaxPreviewT false r = none := by
  cases r <;> rfl

/-- the preview budget `_format_column(col, max_preview)` works with when the global limit is `rows` -/
def budget (rows : Nat) (mp : Option Nat) : Nat := mp.getD (rows / 2)

/-- a vector is formatted with half the global limit (`reprVector` uses `rows / 2`) -/
theorem budget_vector (rows : Nat) : budget rows none = rows / 2 := rfl

/-- **the budget of a table is the model's `tableK`**: the table's own `_repr_rows // 2`, else half the global limit -/
theorem budget_table (rows : Nat) (t : Tab) : budget rows (tableMaxPreviewT true t.reprRows) = tableK rows t := by
  unfold tableK budget
  rw [tableMaxPreviewT_eq]
  cases t.reprRows <;> rfl

/-! ### `_format_column` -/

/-- the loop `for v in xs: out.append(f(v))` is the model's `mapRes` -/
theorem rb_pyForAppend_eq {α : Type} (f : α → Res String) (xs : List α) (out : List String) :
    pyForAppend f xs out = (match mapRes f xs with
      | .error e => .error e
      | .ok l => .ok (out ++ l)) := by
  induction xs generalizing out with
  | nil => simp [pyForAppend, mapRes]
  | cons a r ih =>
    simp only [pyForAppend, mapRes]
    cases f a with
    | error e => rfl
    | ok s =>
      simp only []
      rw [ih]
      cases mapRes f r with
      | error e => rfl
      | ok l => simp

/-- `col._dtype and col._dtype.kind in (int, float)` -/
def numericDType (dt : Option DType) : Bool :=
  match dt with
  | some d => [Kind.int, Kind.float].contains d.kind
  | none => false

/-- the last three statements of `_format_column`: every text padded to the longest one, numbers on the right -/
def padColumn (lj rj : String → Nat → String) (dt : Option DType) (out : List String) : List String :=
  out.map (fun s => (if numericDType dt then rj else lj) s (pyMax (out.map (·.length))))

/-- **`_format_column`, translated, is the model's `formatColumn` followed by the padding**, for every column (any length, any
    dtype), every global limit and every `max_preview`; it raises exactly when the model's does.  The per-value chain is the
    model's `fmtShown` (tied to the source by `fmtBranch_eq` / `fmtShown_eq` in Serif/Tie/Repr.lean). -/
theorem formatColumnT_eq (rows : Nat) (lj rj : String → Nat → String) (col : Col) (mp : Option Nat) :
    formatColumnT rows (fmtShown (col.dtype.map (·.kind))) lj rj col.cells col.dtype mp =
      (match formatColumn (budget rows mp) col with
       | .error e => .error e
       | .ok out => .ok (padColumn lj rj col.dtype out)) := by
  have hp : ∀ k : Nat, (if col.cells.length > k * 2 then
        (col.cells.take k).map Shown.cell ++ [Shown.ellipsis] ++ (col.cells.drop (col.cells.length - k)).map Shown.cell
      else col.cells.map Shown.cell) = preview k col.cells := fun _ => rfl
  have hpad : ∀ out : List String,
      (if (match col.dtype with
            | some dtype => [Kind.int, Kind.float].contains dtype.kind
            | none => false) = true then
        (Except.ok (out.map (fun s => rj s (if (!out.isEmpty) = true then pyMax (out.map (fun s => s.length)) else 0))) : Res (List String))
      else Except.ok (out.map (fun s => lj s (if (!out.isEmpty) = true then pyMax (out.map (fun s => s.length)) else 0)))) =
      Except.ok (padColumn lj rj col.dtype out) := by
    intro out
    have hn : (match col.dtype with
            | some dtype => [Kind.int, Kind.float].contains dtype.kind
            | none => false) = numericDType col.dtype := rfl
    rw [hn]
    unfold padColumn
    cases out with
    | nil => cases numericDType col.dtype <;> simp
    | cons a r => cases numericDType col.dtype <;> simp
  unfold formatColumnT formatColumn
  cases mp <;>
  · simp only [budget, Option.getD, rb_pyForAppend_eq, decide_eq_true_eq, List.nil_append, hp]
    cases mapRes (fmtShown (col.dtype.map (·.kind))) (preview _ col.cells) with
    | error e => rfl
    | ok out => exact hpad out

/-- **the number of body lines of a column of `n` values**: all of them when `n ≤ 2 * max_preview`, else `max_preview + 1 + max_preview` -/
theorem formatColumnT_length (rows : Nat) (lj rj : String → Nat → String) (col : Col) (mp : Option Nat) (lines : List String)
    (h : formatColumnT rows (fmtShown (col.dtype.map (·.kind))) lj rj col.cells col.dtype mp = .ok lines) :
    lines.length = (if col.cells.length > 2 * budget rows mp then 2 * budget rows mp + 1 else col.cells.length) ∧
      lines.length = (preview (budget rows mp) col.cells).length := by
  rw [formatColumnT_eq] at h
  split at h
  · cases h
  · rename_i out ho
    cases h
    have := formatColumn_length _ _ _ ho
    simp only [padColumn, List.length_map]
    exact ⟨by rw [this, C20.preview_length], this⟩

/-- **line `i` of the column is the padded text of entry `i` of the model's preview** -/
theorem formatColumnT_line (rows : Nat) (lj rj : String → Nat → String) (col : Col) (mp : Option Nat) (lines : List String)
    (h : formatColumnT rows (fmtShown (col.dtype.map (·.kind))) lj rj col.cells col.dtype mp = .ok lines)
    (i : Nat) (s : Shown Cell) (hs : (preview (budget rows mp) col.cells)[i]? = some s) :
    ∃ (t : String) (w : Nat), fmtShown (col.dtype.map (·.kind)) s = .ok t ∧
      lines[i]? = some ((if numericDType col.dtype then rj else lj) t w) := by
  rw [formatColumnT_eq] at h
  split at h
  · cases h
  · rename_i out ho
    cases h
    obtain ⟨t, ht, hi⟩ := mapRes_ok_getElem? ho i s hs
    exact ⟨t, pyMax (out.map (·.length)), ht, by simp [padColumn, hi]⟩

/-- **the `...` line stands at position `max_preview`** of a column longer than `2 * max_preview`, whatever the dtype -/
theorem formatColumnT_ellipsis (rows : Nat) (lj rj : String → Nat → String) (col : Col) (mp : Option Nat) (lines : List String)
    (h : formatColumnT rows (fmtShown (col.dtype.map (·.kind))) lj rj col.cells col.dtype mp = .ok lines)
    (hlong : col.cells.length > 2 * budget rows mp) :
    ∃ w : Nat, lines[budget rows mp]? = some ((if numericDType col.dtype then rj else lj) "..." w) := by
  obtain ⟨t, w, ht, hl⟩ := formatColumnT_line rows lj rj col mp lines h (budget rows mp) .ellipsis
    (C20.preview_ellipsis_position _ _ hlong)
  cases ht
  exact ⟨w, hl⟩

/-! ### list plumbing -/

theorem rb_foldl_append_map {α β : Type} (g : α → β) (l : List α) (init : List β) :
    l.foldl (fun acc x => acc ++ [g x]) init = init ++ l.map g := by
  induction l generalizing init with
  | nil => simp
  | cons a r ih => simp [ih]

theorem rb_ite_append {β : Type} (c : Prop) [Decidable c] (acc : List β) (a b : β) :
    (if c then acc ++ [a] else acc ++ [b]) = acc ++ [if c then a else b] := by
  split <;> rfl

theorem rb_range_map_getD {α β : Type} (l : List α) (d : α) (F : α → Nat → β) :
    (List.range l.length).map (fun c => F (l.getD c d) c) = l.zipIdx.map (fun p => F p.1 p.2) := by
  apply List.ext_getElem
  · simp
  · intro i h1 h2
    simp only [List.length_map, List.length_range] at h1
    simp [List.getD_eq_getElem?_getD, List.getElem?_eq_getElem h1]

theorem rb_range_map_getD' {α β : Type} (l : List α) (d : α) (G : α → β) :
    (List.range l.length).map (fun c => G (l.getD c d)) = l.map G := by
  apply List.ext_getElem
  · simp
  · intro i h1 h2
    simp only [List.length_map, List.length_range] at h1
    simp [List.getD_eq_getElem?_getD, List.getElem?_eq_getElem h1]

theorem rb_le_pyMax (l : List Nat) (x : Nat) (h : x ∈ l) : x ≤ pyMax l := by
  unfold pyMax
  suffices ∀ (init : Nat), (x ∈ l ∨ x ≤ init) → x ≤ l.foldl max init from this 0 (.inl h)
  clear h
  induction l with
  | nil => intro init h; rcases h with h | h; cases h; exact h
  | cons a r ih =>
    intro init h
    simp only [List.foldl_cons]
    apply ih
    rcases h with h | h
    · rcases List.mem_cons.mp h with rfl | h
      · exact .inr (Nat.le_max_right _ _)
      · exact .inl h
    · exact .inr (Nat.le_trans h (Nat.le_max_left _ _))

/-! ### `_align_columns` -/

/-- the width `_align_columns` gives column `c`: the longest body cell or header cell -/
def colWidth (fcols hdrs : List (List String)) (c : Nat) : Nat :=
  max (pyMax ((fcols.getD c []).map (·.length))) (pyMax (hdrs.map (fun row => (row.getD c "").length)))

/-- `col_widths` -/
def colWidths (fcols hdrs : List (List String)) : List Nat := (List.range fcols.length).map (colWidth fcols hdrs)

/-- which way column `c` is padded: to the right iff its displayed dtype token is `int` or `float` -/
def padFor (lj rj : String → Nat → String) (dts : List String) (c : Nat) : String → Nat → String :=
  if ["int", "float"].contains (dts.getD c "") then rj else lj

/-- **`_align_columns`, translated**: every body cell of column `c` is padded to `colWidth c`, every header cell likewise, in the
    column's direction; no cell is added, dropped or moved -/
theorem alignColumnsT_eq (lj rj : String → Nat → String) (fcols hdrs : List (List String)) (dts : List String) :
    alignColumnsT lj rj fcols hdrs dts =
      (fcols.zipIdx.map (fun p => p.1.map (fun s => padFor lj rj dts p.2 s (colWidth fcols hdrs p.2))),
       hdrs.map (fun row => row.zipIdx.map (fun p => padFor lj rj dts p.2 p.1 ((colWidths fcols hdrs).getD p.2 0)))) := by
  have hw : ∀ c, (max (if (!(fcols.getD c []).isEmpty) = true then pyMax ((fcols.getD c []).map fun s => s.length) else 0)
      (if (!hdrs.isEmpty) = true then pyMax ((List.range hdrs.length).map fun r => ((hdrs.getD r []).getD c "").length) else 0)) =
      colWidth fcols hdrs c := by
    intro c
    unfold colWidth
    have h1 : (if (!(fcols.getD c []).isEmpty) = true then pyMax ((fcols.getD c []).map fun s => s.length) else 0) =
        pyMax ((fcols.getD c []).map (·.length)) := by
      cases fcols.getD c [] <;> simp [pyMax]
    have h2 : (if (!hdrs.isEmpty) = true then pyMax ((List.range hdrs.length).map fun r => ((hdrs.getD r []).getD c "").length) else 0) =
        pyMax (hdrs.map (fun row => (row.getD c "").length)) := by
      rw [rb_range_map_getD' hdrs [] (fun row => (row.getD c "").length)]
      cases hdrs <;> simp [pyMax]
    rw [h1, h2]
  unfold alignColumnsT
  simp only [hw, rb_ite_append, rb_foldl_append_map, List.nil_append]
  refine Prod.ext ?_ ?_
  · simp only []
    rw [← rb_range_map_getD fcols [] (fun col c => col.map (fun s => padFor lj rj dts c s (colWidth fcols hdrs c)))]
    apply List.map_congr_left
    intro c hc
    have hc' : c < fcols.length := List.mem_range.mp hc
    have hg : ((List.range fcols.length).map (colWidth fcols hdrs)).getD c 0 = colWidth fcols hdrs c := by
      simp [List.getD_eq_getElem?_getD, hc']
    simp only [hg, padFor]
    split <;> rfl
  · simp only [colWidths, padFor]
    apply List.map_congr_left
    intro row _
    apply List.map_congr_left
    intro p _
    split <;> rfl

/-- nothing is lost: as many aligned columns as formatted columns, each as long as before; as many header rows, each as long as before -/
theorem alignColumnsT_shape (lj rj : String → Nat → String) (fcols hdrs : List (List String)) (dts : List String) :
    (alignColumnsT lj rj fcols hdrs dts).1.map (·.length) = fcols.map (·.length) ∧
    (alignColumnsT lj rj fcols hdrs dts).2.map (·.length) = hdrs.map (·.length) := by
  rw [alignColumnsT_eq]
  constructor
  · apply List.ext_getElem <;> simp
  · simp

/-- the width of a column is at least the length of each of its body cells … -/
theorem colWidth_ge_body (fcols hdrs : List (List String)) (c : Nat) (s : String) (hs : s ∈ fcols.getD c []) :
    s.length ≤ colWidth fcols hdrs c :=
  Nat.le_trans (rb_le_pyMax _ _ (List.mem_map.mpr ⟨s, hs, rfl⟩)) (Nat.le_max_left _ _)

/-- … and of each of its header cells -/
theorem colWidth_ge_header (fcols hdrs : List (List String)) (c : Nat) (row : List String) (hr : row ∈ hdrs) :
    (row.getD c "").length ≤ colWidth fcols hdrs c :=
  Nat.le_trans (rb_le_pyMax _ _ (List.mem_map.mpr ⟨row, hr, rfl⟩)) (Nat.le_max_right _ _)

/-! ### `str.ljust` / `str.rjust`: padding only adds spaces around the text -/

/-- Python's `s.ljust(w)` -/
def pyLjust (s : String) (w : Nat) : String := s ++ String.ofList (List.replicate (w - s.length) ' ')

/-- Python's `s.rjust(w)` -/
def pyRjust (s : String) (w : Nat) : String := String.ofList (List.replicate (w - s.length) ' ') ++ s

/-- `t` is `s` with spaces added in front and behind -/
def IsPadOf (t s : String) : Prop :=
  ∃ a b : Nat, t.toList = List.replicate a ' ' ++ s.toList ++ List.replicate b ' '

theorem isPadOf_refl (s : String) : IsPadOf s s := ⟨0, 0, by simp⟩

theorem pyLjust_isPad (s : String) (w : Nat) : IsPadOf (pyLjust s w) s :=
  ⟨0, w - s.length, by simp [pyLjust, String.toList_append]⟩

theorem pyRjust_isPad (s : String) (w : Nat) : IsPadOf (pyRjust s w) s :=
  ⟨w - s.length, 0, by simp [pyRjust, String.toList_append]⟩

theorem isPadOf_trans {u t s : String} (h1 : IsPadOf u t) (h2 : IsPadOf t s) : IsPadOf u s := by
  obtain ⟨a, b, h1⟩ := h1
  obtain ⟨a', b', h2⟩ := h2
  refine ⟨a + a', b' + b, ?_⟩
  rw [h1, h2, ← List.replicate_append_replicate, ← List.replicate_append_replicate]
  simp only [List.append_assoc]

/-- **stripping the spaces of a padded cell gives the spaces-stripped cell**: what `lineMatches` compares -/
theorem isPadOf_despace {t s : String} (h : IsPadOf t s) : despace t.toList = despace s.toList := by
  obtain ⟨a, b, h⟩ := h
  rw [h]
  simp [despace, List.filter_append]

/-- padding fills up to the width and never cuts -/
theorem pyLjust_length (s : String) (w : Nat) : (pyLjust s w).length = max w s.length := by
  simp only [pyLjust, ← String.length_toList, String.toList_append, List.length_append, String.toList_ofList, List.length_replicate]
  omega

theorem pyRjust_length (s : String) (w : Nat) : (pyRjust s w).length = max w s.length := by
  simp only [pyRjust, ← String.length_toList, String.toList_append, List.length_append, String.toList_ofList, List.length_replicate]
  omega

theorem padFor_isPad (dts : List String) (c : Nat) (s : String) (w : Nat) : IsPadOf (padFor pyLjust pyRjust dts c s w) s := by
  unfold padFor
  split
  · exact pyRjust_isPad s w
  · exact pyLjust_isPad s w

/-! ### the lines of `_repr_table` -/

/-- **the lines of `_repr_table` before the footer**: one line per header row, then one line per row index `r` of the first aligned
    column holding cell `r` of *every* aligned column in column order (the model's `rowsOf`), joined by the two-space gutter, then the
    empty line -/
theorem tableLinesT_eq (acols ahdrs : List (List String)) :
    tableLinesT acols ahdrs =
      ahdrs.map (pyJoin "  ") ++ (rowsOf (acols.headD []).length acols).map (pyJoin "  ") ++ [""] := by
  unfold tableLinesT rowsOf
  simp only [rb_foldl_append_map, List.nil_append, List.map_map]
  cases acols <;> simp [Function.comp_def]

/-- the number of lines: header rows + body rows + the blank line (the footer follows) -/
theorem tableLinesT_length (acols ahdrs : List (List String)) :
    (tableLinesT acols ahdrs).length = ahdrs.length + (acols.headD []).length + 1 := by
  rw [tableLinesT_eq]
  simp [rowsOf]
  omega

/-- every body row has exactly one cell per aligned column -/
theorem rowsOf_row_length (n : Nat) (cols : List (List String)) (row : List String) (h : row ∈ rowsOf n cols) :
    row.length = cols.length := by
  simp only [rowsOf, List.mem_map, List.mem_range] at h
  obtain ⟨r, _, rfl⟩ := h
  simp

/-! ### `formatted_cols` of `_repr_table`: the displayed columns, formatted, with the `...` column -/

theorem rb_pyMapM_eq {α β : Type} (f : α → Res β) (l : List α) : pyMapM f l = mapRes f l := by
  induction l with
  | nil => rfl
  | cons a r ih =>
    simp only [pyMapM, mapRes, ih]
    rfl

/-- `[f(l[i]) for i in idxs]` with every index in range is `f` mapped over the selected entries -/
theorem rb_mapRes_idx {α β : Type} (f : α → Res β) (l : List α) (idxs : List Nat) (h : ∀ i ∈ idxs, i < l.length) :
    mapRes (fun i => match l[i]? with | some c => f c | none => .error .index) idxs = mapRes f (idxs.filterMap (fun i => l[i]?)) := by
  induction idxs with
  | nil => rfl
  | cons i r ih =>
    have hi : i < l.length := h i List.mem_cons_self
    have hr := ih (fun j hj => h j (List.mem_cons_of_mem _ hj))
    simp only [mapRes, List.filterMap_cons, List.getElem?_eq_getElem hi, hr]

theorem rb_filterMap_range' {α : Type} (l : List α) (s k : Nat) (h : s + k ≤ l.length) :
    (List.range' s k).filterMap (fun i => l[i]?) = (l.drop s).take k := by
  induction k generalizing s with
  | zero => simp
  | succ k ih =>
    have hs : s < l.length := by omega
    rw [List.range'_succ, List.filterMap_cons, List.getElem?_eq_getElem hs, ih (s + 1) (by omega), List.drop_eq_getElem_cons hs,
      List.take_succ_cons]

theorem rb_range_add (k a : Nat) : (List.range k).map (· + a) = List.range' a k := by
  apply List.ext_getElem
  · simp
  · intro i h1 h2
    simp
    omega

/-- the entries of `cols` at `col_indices` are the model's displayed columns -/
theorem rb_shownIdx_filterMap {α : Type} (m : Nat) (cols : List α) :
    (if decide (cols.length > m * 2) = true then List.range m ++ pyRange (cols.length - m) cols.length else List.range cols.length).filterMap
      (fun i => cols[i]?) = shownCols m cols := by
  unfold shownCols pyRange
  by_cases h : cols.length > m * 2
  · have e : cols.length - (cols.length - m) = m := by omega
    simp only [h, decide_true, if_true, List.filterMap_append, e, rb_range_add]
    rw [List.range_eq_range', rb_filterMap_range' cols 0 m (by omega), rb_filterMap_range' cols (cols.length - m) m (by omega)]
    have ht : (cols.drop (cols.length - m)).take m = cols.drop (cols.length - m) :=
      List.take_of_length_le (by rw [List.length_drop]; omega)
    rw [ht, List.drop_zero]
  · simp only [h, decide_false, Bool.false_eq_true, if_false, List.range_eq_range']
    rw [rb_filterMap_range' cols 0 cols.length (by omega)]
    simp

theorem rb_shownIdx_lt {α : Type} (m : Nat) (cols : List α) :
    ∀ i ∈ (if decide (cols.length > m * 2) = true then List.range m ++ pyRange (cols.length - m) cols.length else List.range cols.length),
      i < cols.length := by
  intro i hi
  by_cases h : cols.length > m * 2
  · simp only [h, decide_true, if_true, List.mem_append, List.mem_range, pyRange, List.mem_map] at hi
    rcases hi with hi | ⟨j, hj, rfl⟩ <;> omega
  · simp only [h, decide_false, Bool.false_eq_true, if_false, List.mem_range] at hi
    exact hi

/-- the statements of the slice after `max_preview` is known (the same statements as in `tableFormattedColsT`; `rfl` below) -/
def fcolsCore {γ : Type} (m : Nat) (fc : γ → Option Nat → Res (List String)) (mp : Option Nat) (cols : List γ) :
    Res (List (List String)) :=
  let truncated := decide (cols.length > m * 2)
  let col_indices := if truncated then List.range m ++ pyRange (cols.length - m) cols.length else List.range cols.length
  match pyMapM (fun i => match cols[i]? with | some col => fc col mp | none => .error .index) col_indices with
  | .error e => .error e
  | .ok f => .ok (if truncated then pyInsert m ((List.range (f.getD 0 []).length).map (fun _ => "...")) f else f)

theorem tableFormattedColsT_core {γ : Type} (m : Nat) (fc : γ → Option Nat → Res (List String)) (has : Bool) (rr : Option Nat)
    (cols : List γ) : tableFormattedColsT m fc has rr cols = fcolsCore m fc (tableMaxPreviewT has rr) cols := rfl

/-- **`formatted_cols` of `_repr_table`, translated**: `_format_column` with the table's `max_preview`, applied to the model's displayed
    columns (`shownCols`: all of them, or the first and last `m`) in order — raising iff one of them raises, first failure first —,
    and, when columns are hidden, a column of `...` of the same number of lines inserted at position `m`.  Every column limit `m`,
    every number of columns, every `_format_column`. -/
theorem tableFormattedColsT_eq {γ : Type} (m : Nat) (fc : γ → Option Nat → Res (List String)) (has : Bool) (rr : Option Nat)
    (cols : List γ) :
    tableFormattedColsT m fc has rr cols =
      (match mapRes (fun c => fc c (tableMaxPreviewT has rr)) (shownCols m cols) with
       | .error e => .error e
       | .ok f => .ok (if cols.length > m * 2 then insertAt m (List.replicate (f.headD []).length "...") f else f)) := by
  rw [tableFormattedColsT_core]
  unfold fcolsCore
  simp only [rb_pyMapM_eq]
  rw [rb_mapRes_idx (fun c => fc c (tableMaxPreviewT has rr)) cols _ (rb_shownIdx_lt m cols), rb_shownIdx_filterMap]
  cases mapRes (fun c => fc c (tableMaxPreviewT has rr)) (shownCols m cols) with
  | error e => rfl
  | ok f =>
    have hrep : ∀ n : Nat, (List.range n).map (fun _ => "...") = List.replicate n "..." := by
      intro n
      apply List.ext_getElem <;> simp
    have hh : f.getD 0 [] = f.headD [] := by cases f <;> rfl
    simp only [hrep, hh, decide_eq_true_eq, pyInsert, insertAt]

/-- inserting the `...` column does not change the number of body lines read off the first column -/
theorem rb_head_insert (m : Nat) (f : List (List String)) :
    ((insertAt m (List.replicate (f.headD []).length "...") f).headD []).length = (f.headD []).length := by
  cases m <;> cases f <;> simp [insertAt]

/-- **the body of the model's `reprTable` is the transposition of the translated `formatted_cols`** (with the model's unpadded
    `formatColumn` as `_format_column`, the per-table override `t.reprRows` and the global limit `rows`): same rows, same cells, the
    `...` cells in the same column of every row; and it raises exactly when the translated code does -/
theorem tableBody_eq (rows m : Nat) (t : Tab) :
    tableBody (tableK rows t) m t.cols =
      (match tableFormattedColsT m (fun c mp => formatColumn (budget rows mp) c) true t.reprRows t.cols with
       | .error e => .error e
       | .ok f => .ok (rowsOf (f.headD []).length f)) := by
  rw [tableFormattedColsT_eq]
  simp only [budget_table]
  unfold tableBody
  cases mapRes (formatColumn (tableK rows t)) (shownCols m t.cols) with
  | error e => rfl
  | ok f =>
    simp only []
    split
    · rw [rb_head_insert]
    · rfl

/-! ### a printed line shows its cells: what the model's `lineMatches` compares -/

/-- cell by cell, the first row is the second with spaces added around the cells -/
inductive PadRow : List String → List String → Prop
  | nil : PadRow [] []
  | cons {p c : String} {ps cs : List String} : IsPadOf p c → PadRow ps cs → PadRow (p :: ps) (c :: cs)

/-- a line made of padded cells and the two-space gutter is, spaces removed, the concatenation of the cells, spaces removed -/
theorem line_despace (cells padded : List String) (h : PadRow padded cells) :
    despace (pyJoin "  " padded).toList = despace (cells.flatMap (·.toList)) := by
  induction h with
  | nil => simp [pyJoin, despace]
  | @cons p c ps cs hpc hrest ih =>
    cases hrest with
    | nil =>
      simp only [pyJoin, List.flatMap_cons, List.flatMap_nil, List.append_nil]
      rw [String.intercalate_singleton]
      exact isPadOf_despace hpc
    | @cons p2 c2 ps2 cs2 h2 hr2 =>
      simp only [pyJoin] at ih ⊢
      rw [String.intercalate_cons_cons]
      simp only [String.toList_append, List.flatMap_cons] at ih ⊢
      simp only [despace, List.filter_append] at ih ⊢
      rw [ih]
      have hp := isPadOf_despace hpc
      simp only [despace] at hp
      rw [hp]
      simp

/-- … for an aligned column cell in particular -/
theorem aligned_cells_isPad (dts : List String) (ws : List Nat) (cells : List String) :
    PadRow (cells.zipIdx.map (fun p => padFor pyLjust pyRjust dts p.2 p.1 (ws.getD p.2 0))) cells := by
  suffices ∀ k, PadRow ((cells.zipIdx k).map (fun p => padFor pyLjust pyRjust dts p.2 p.1 (ws.getD p.2 0))) cells from this 0
  induction cells with
  | nil => intro k; exact .nil
  | cons a r ih => intro k; exact .cons (padFor_isPad _ _ _ _) (ih (k + 1))

/-- **an aligned header line shows the header cells**: the line `_repr_table` prints for a header row is, modulo spaces, the row -/
theorem header_line_shows (fcols hdrs : List (List String)) (dts : List String) (row : List String) (hr : row ∈ hdrs) :
    ∃ line ∈ ((alignColumnsT pyLjust pyRjust fcols hdrs dts).2).map (pyJoin "  "),
      despace line.toList = despace (row.flatMap (·.toList)) := by
  rw [alignColumnsT_eq]
  refine ⟨pyJoin "  " (row.zipIdx.map (fun p => padFor pyLjust pyRjust dts p.2 p.1 ((colWidths fcols hdrs).getD p.2 0))), ?_, ?_⟩
  · simp only [List.map_map, List.mem_map]
    exact ⟨row, hr, rfl⟩
  · exact line_despace _ _ (aligned_cells_isPad dts (colWidths fcols hdrs) row)

theorem rb_cell_getD (dts : List String) (c w : Nat) (col : List String) (r : Nat) :
    IsPadOf ((col.map (fun s => padFor pyLjust pyRjust dts c s w)).getD r "") (col.getD r "") := by
  simp only [List.getD_eq_getElem?_getD, List.getElem?_map]
  cases col[r]? with
  | none => exact isPadOf_refl ""
  | some s => exact padFor_isPad dts c s w

/-- row `r` of the aligned columns is, cell by cell, row `r` of the formatted columns with spaces around the cells -/
theorem body_row_padRow (fcols hdrs : List (List String)) (dts : List String) (r : Nat) :
    PadRow ((alignColumnsT pyLjust pyRjust fcols hdrs dts).1.map (·.getD r "")) (fcols.map (·.getD r "")) := by
  rw [alignColumnsT_eq]
  simp only [List.map_map]
  generalize colWidth fcols hdrs = W
  suffices ∀ k, PadRow ((fcols.zipIdx k).map ((fun x => x.getD r "") ∘ fun p => p.1.map (fun s => padFor pyLjust pyRjust dts p.2 s (W p.2))))
      (fcols.map (·.getD r "")) from this 0
  induction fcols with
  | nil => intro k; exact .nil
  | cons a rest ih => intro k; exact .cons (rb_cell_getD dts k (W k) a r) (ih (k + 1))

/-- **alignment never changes the cell texts**: body line `r` that `_repr_table` prints (`"  ".join(col[r] for col in aligned_cols)`) is,
    spaces removed, the concatenation of cell `r` of every formatted column in column order — the test of the model's `lineMatches` -/
theorem body_line_shows (fcols hdrs : List (List String)) (dts : List String) (r : Nat) :
    despace (pyJoin "  " ((alignColumnsT pyLjust pyRjust fcols hdrs dts).1.map (·.getD r ""))).toList =
      despace ((fcols.map (·.getD r "")).flatMap (·.toList)) :=
  line_despace _ _ (body_row_padRow fcols hdrs dts r)

/-! ### `_needs_quote` -/

/-- `_needs_quote(name)` for a string: quoted iff empty, not an identifier, starting with a digit, parsing as a number, or (lower-cased)
    a reserved name; the checks in the source's order collapse to this disjunction -/
theorem needsQuoteT_eq (isid dig flt : String → Bool) (lw : String → String) (res : List String) (name : String) :
    needsQuoteT isid dig flt lw res name =
      (name == "" || !isid name || dig name || flt name || res.contains (lw name)) := by
  unfold needsQuoteT
  by_cases h1 : name = "" <;> cases h2 : isid name <;> cases h3 : dig name <;> cases h4 : flt name <;>
    cases h5 : res.contains (lw name) <;> simp [h1]

/-- the empty name is always quoted (it would otherwise print as nothing) -/
theorem needsQuoteT_empty (isid dig flt : String → Bool) (lw : String → String) (res : List String) :
    needsQuoteT isid dig flt lw res "" = true := by
  simp [needsQuoteT_eq]

/-! ### non-vacuity: the translated definitions evaluated on concrete inputs; the hypotheses are satisfiable -/

section Examples

private def cellOf (n : Nat) : Cell :=
  { isNone := false, eqEllipsis := false, isStr := false, num := some .finiteIntegral,
    str := toString n, repr := toString n, g := some (toString n), f1 := some (toString n ++ ".0"), iso := none }

private def colOf (name : String) (k : Kind) (vals : List Nat) : Col :=
  { name := some name, shownName := name, san := some name, lower := name, dtype := some ⟨k, false⟩, cells := vals.map cellOf }

example : setReprRowsT 12 (some 20) = 20 ∧ setReprRowsT 20 none = 12 := by decide
example : tableMaxPreviewT true (some 7) = some 3 ∧ tableMaxPreviewT true none = none ∧ tableMaxPreviewT false (some 7) = none := by decide

/-- 7 ints with the global limit 4: two rows, `...`, two rows, right-aligned to the widest text -/
example : (formatColumnT 4 (fmtShown (some .int)) pyLjust pyRjust ([1, 2, 3, 4, 5, 6, 100].map cellOf) (some ⟨.int, false⟩) none).toOption =
    some ["  1", "  2", "...", "  6", "100"] := by decide
/-- the per-call `max_preview` wins over the global limit; strings are left-aligned -/
example : (formatColumnT 4 (fmtShown (some .str)) pyLjust pyRjust ([1, 2, 30, 4, 5].map cellOf) (some ⟨.str, false⟩) (some 1)).toOption =
    some ["1  ", "...", "5  "] := by decide
/-- `n ≤ 2 * max_preview`: every row -/
example : (formatColumnT 4 (fmtShown (some .float)) pyLjust pyRjust ([1, 2, 3, 4].map cellOf) (some ⟨.float, false⟩) none).toOption =
    some ["1.0", "2.0", "3.0", "4.0"] := by decide
/-- a raising cell makes the column raise -/
example : (formatColumnT 4 (fmtShown (some .date)) pyLjust pyRjust ([1].map cellOf) (some ⟨.date, false⟩) none).toOption = none := by decide

example : alignColumnsT pyLjust pyRjust [["1", "22"], ["a", "b"]] [["num", "s"], ["[int]", "[str]"]] ["int", "str"] =
    ([["    1", "   22"], ["a    ", "b    "]], [["  num", "s    "], ["[int]", "[str]"]]) := by decide

example : tableLinesT [["    1", "   22"], ["a    ", "b    "]] [["  num", "s    "]] = ["  num  s    ", "    1  a    ", "   22  b    ", ""] := by
  decide

/-- three columns with the column limit 1: first, `...`, last; the table's own limit 2 (one head row, one tail row) wins over the global 12 -/
example : (tableFormattedColsT 1 (fun (c : Col) mp => formatColumn (budget 12 mp) c) true (some 2)
    [colOf "a" .int [1, 2, 3], colOf "b" .int [4, 5, 6], colOf "c" .int [7, 8, 9]]).toOption =
    some [["1", "...", "3"], ["...", "...", "..."], ["7", "...", "9"]] := by decide

example : needsQuoteT (fun s => s != "a b") (fun s => s == "1x") (fun s => s == "inf") id ["cols"] "cols" = true ∧
    needsQuoteT (fun s => s != "a b") (fun s => s == "1x") (fun s => s == "inf") id ["cols"] "price" = false ∧
    needsQuoteT (fun s => s != "a b") (fun s => s == "1x") (fun s => s == "inf") id ["cols"] "a b" = true ∧
    needsQuoteT (fun s => s != "a b") (fun s => s == "1x") (fun s => s == "inf") id ["cols"] "inf" = true := by decide

/-- the hypothesis of `line_despace` is satisfiable, and the conclusion is what `lineMatches` tests -/
example : PadRow ["  1", "a  "] ["1", "a"] := .cons (pyRjust_isPad "1" 3) (.cons (pyLjust_isPad "a" 3) .nil)
example : lineMatches ["1", "x y"] (pyJoin "  " [pyRjust "1" 3, pyLjust "x y" 5]) = true := by decide

end Examples

end Serif.Tie
