/-
  Translation tie for `Table._build_column_map`: the loop body translated statement by statement from the source
  (Gen.T.buildColumnMapStepT: the `is None` tests, the `in seen` test, the two f-strings, the `sep` conditional, the update
  of `seen`) is the model's `stepAcc`, for every `seen`, column index and stored name — with the model's `sanitizeCore` as
  `_sanitize_user_name` (hand-modelled: regular expressions; tied by the correspondence check of C17) and `showNat` as `str(idx)`.
  Supplementary (see Serif/Tie/Typing.lean).
-/
import Serif.Gen.Translated
import Serif.Model.Names

namespace Serif.Tie
open Serif Serif.Names Serif.Gen.T

theorem buildColumnMapStep_eq (seen : List Str) (idx : Nat) (nm : Option Str) :
    buildColumnMapStepT sanitizeCore showNat seen idx nm = stepAcc seen idx nm := by
  unfold buildColumnMapStepT stepAcc baseOf
  cases nm with
  | none => simp [colN]
  | some n =>
    simp only
    cases sanitizeCore n with
    | none => simp [colN]
    | some base =>
      simp only
      split
      · simp [indexed, endsWithU]
      · rfl

theorem buildFrom_eq (names : List (Option Str)) (idx : Nat) (seen : List Str) (map : Dict Str Nat) :
    ((names.zipIdx idx).foldl (fun (st : Dict Str Nat × List Str) p =>
      let r := buildColumnMapStepT sanitizeCore showNat st.2 p.2 p.1
      (Dict.upsert st.1 r.1 (fun _ => p.2), r.2)) (map, seen)).1 = buildFrom idx seen map names := by
  induction names generalizing idx seen map with
  | nil => rfl
  | cons nm rest ih =>
    simp only [List.zipIdx_cons, List.foldl_cons, buildFrom]
    rw [buildColumnMapStep_eq]
    exact ih (idx + 1) _ _

/-- the whole of `Table._build_column_map`, translated, is the model's `buildColumnMap` for every list of stored names -/
theorem buildColumnMap_eq (names : List (Option Str)) :
    buildColumnMapT sanitizeCore showNat names = buildColumnMap names :=
  buildFrom_eq names 0 [] []

end Serif.Tie
