/-
  Translation tie for the *storage protocol* (C15, and the refusal clause of C01): every function of the library that stores into a
  vector's or table's storage tuple `_underlying` — `Vector.__init__`, `Vector._promote`, `Vector.__setitem__`, `Table.__init__`
  (through `super().__init__`), `Table._swap_columns` and the roll-back loop of `Table.__setitem__` — sliced to the statements that
  touch storage identity or the alias tracker and translated statement by statement (`Serif/Gen/TranslatedStorageProto.lean`,
  regenerated on every run), keeps the model's invariant `RegExact` (Serif/Proofs/AliasHeap.lean: an object is registered under an
  identity iff it is live and its storage has that identity) on every path, normal or raising, for every tracker state, every object,
  every choice of new storage identities by the allocator (reused ones included) and every outcome of the conditions that are not about
  storage; and on the paths the model describes it computes exactly the model's `swapStorage` / `step (.create ·)` / `step (.write ·)`.

  The model's operations `register`, `unregister`, `checkWritable` used by the generated definitions are the ones
  Serif/Tie/AliasTracker.lean ties to the tracker's own source.  Supplementary (see Serif/Tie/Typing.lean).
-/
import Serif.Gen.TranslatedStorageProto
import Serif.Proofs.AliasHeap

set_option linter.unusedSimpArgs false
set_option linter.unusedVariables false

namespace Serif.Tie
open Serif Serif.AState Serif.Gen.SP

/-! ### vocabulary -/

/-- a property of the tracker state that holds however the method ends (normally, or by an exception at any point) -/
def PostM (P : AState → Prop) : M AState → Prop
  | .ok st => P st
  | .error (st, _) => P st

/-- the invariant of the model, for a state in which the objects `os` are live -/
def Inv (os : List Nat) (st : AState) : Prop := RegExact st ∧ ∀ o ∈ os, st.alive o = true

/-- `Inv` is satisfiable: one vector over storage 5 -/
example : Inv [0] (AState.init.step (.create 5 [1, 2])).1 :=
  ⟨create_exact _ _ _ regExact_init, by decide⟩

theorem alive_iff_store (st : AState) (o : Nat) : st.alive o = true ↔ ∃ s, st.store o = some s := by
  simp [alive, Option.isSome_iff_exists]

/-! ### the bracket `unregister old; assign; register new` is the model's `swapStorage` -/

theorem bracket_eq (st : AState) (o s s' : Nat) (h : st.store o = some s) :
    ((st.unregister o (idOf st o)).setStore o (some s')).register o s' = st.swapStorage o s' := by
  simp [swapStorage, idOf, h]

theorem register_store (st : AState) (o s : Nat) : (st.register o s).store = st.store := by
  unfold register; split <;> rfl

theorem unregister_store (st : AState) (o s : Nat) : (st.unregister o s).store = st.store := by
  unfold unregister; split <;> rfl

theorem swapStorage_store (st : AState) (o s' x : Nat) :
    (st.swapStorage o s').store x = if x = o ∧ st.alive o = true then some s' else st.store x := by
  unfold swapStorage
  cases h : st.store o with
  | none =>
    by_cases e : x = o
    · subst e; simp [alive, h]
    · simp [e]
  | some s =>
    simp only [register_store, setStore, unregister_store]
    by_cases e : x = o
    · subst e; simp [alive, h]
    · simp [e]

theorem swapStorage_alive (st : AState) (o s' x : Nat) : (st.swapStorage o s').alive x = st.alive x := by
  unfold alive
  rw [swapStorage_store]
  by_cases e : x = o ∧ st.alive o = true
  · rw [if_pos e]; obtain ⟨e1, e2⟩ := e; subst e1; simpa [alive] using e2
  · rw [if_neg e]

theorem checkWritable_alive (st : AState) (s x : Nat) : (st.checkWritable s).1.alive x = st.alive x := by
  simp [alive, checkWritable_store]

theorem inv_swap (os : List Nat) (st : AState) (o s' : Nat) (h : Inv os st) : Inv os (st.swapStorage o s') :=
  ⟨swapStorage_exact st o s' h.1, fun x hx => by rw [swapStorage_alive]; exact h.2 x hx⟩

theorem inv_check (os : List Nat) (st : AState) (s : Nat) (h : Inv os st) : Inv os (st.checkWritable s).1 :=
  ⟨checkWritable_exact st s h.1, fun x hx => by rw [checkWritable_alive]; exact h.2 x hx⟩

/-- the bracket as the generated code spells it keeps the invariant (for a live object) -/
theorem inv_bracket (os : List Nat) (st : AState) (o s' : Nat) (h : Inv os st) (ho : st.alive o = true) :
    Inv os (((st.unregister o (idOf st o)).setStore o (some s')).register o s') := by
  obtain ⟨s, hs⟩ := (alive_iff_store st o).mp ho
  rw [bracket_eq st o s s' hs]
  exact inv_swap os st o s' h

theorem idOf_swap (st : AState) (o s' : Nat) (ho : st.alive o = true) : idOf (st.swapStorage o s') o = s' := by
  simp [idOf, swapStorage_store, ho]

/-! ### `Table._swap_columns` -/

/-- `Table._swap_columns`, translated, is the model's `swapStorage` -/
theorem tableSwapColumns_eq (E : Env) (st : AState) (self s new_cols : Nat) (h : st.store self = some s) :
    tableSwapColumnsT E st self new_cols = .ok (st.swapStorage self new_cols) := by
  simp [tableSwapColumnsT, bracket_eq st self s new_cols h, pure, Except.pure]

theorem tableSwapColumns_exact (E : Env) (os : List Nat) (st : AState) (self new_cols : Nat) (h : Inv os st)
    (hs : st.alive self = true) : PostM (Inv os) (tableSwapColumnsT E st self new_cols) := by
  obtain ⟨s, hs'⟩ := (alive_iff_store st self).mp hs
  rw [tableSwapColumns_eq E st self s new_cols hs']
  exact inv_swap os st self new_cols h

/-! ### `Vector._promote` -/

/-- `Vector._promote`, translated: nothing happens (already the target kind / refused), or the storage is swapped by the protocol -/
theorem vectorPromote_cases (E : Env) (st : AState) (self s a b c : Nat) (h : st.store self = some s) :
    vectorPromoteT E st self a b c = .ok st ∨ vectorPromoteT E st self a b c = .error (st, Exc.raised)
    ∨ ∃ n, n ∈ [a, b, c] ∧ vectorPromoteT E st self a b c = .ok (st.swapStorage self n) := by
  unfold vectorPromoteT
  simp only [bind, Except.bind, pure, Except.pure, throw, throwThe, MonadExceptOf.throw, bracket_eq st self s _ h]
  repeat' split
  all_goals first
    | exact Or.inl rfl
    | exact Or.inr (Or.inl rfl)
    | exact Or.inr (Or.inr ⟨a, by simp, rfl⟩)
    | exact Or.inr (Or.inr ⟨b, by simp, rfl⟩)
    | exact Or.inr (Or.inr ⟨c, by simp, rfl⟩)

/-- each promotion really swaps: `int → float` takes the first bracket -/
theorem vectorPromote_float (E : Env) (st : AState) (self s a b c : Nat) (h : st.store self = some s)
    (h0 : E.exits 0 = false) (h1 : E.returns 0 = false) (h2 : E.cond 0 = true) :
    vectorPromoteT E st self a b c = .ok (st.swapStorage self a) := by
  simp [vectorPromoteT, h0, h1, h2, bracket_eq st self s _ h, pure, Except.pure]

theorem vectorPromote_exact (E : Env) (os : List Nat) (st : AState) (self a b c : Nat) (h : Inv os st)
    (hs : st.alive self = true) : PostM (fun st' => Inv os st' ∧ st'.alive self = true) (vectorPromoteT E st self a b c) := by
  obtain ⟨s, hs'⟩ := (alive_iff_store st self).mp hs
  rcases vectorPromote_cases E st self s a b c hs' with e | e | ⟨n, _, e⟩ <;> rw [e]
  · exact ⟨h, hs⟩
  · exact ⟨h, hs⟩
  · exact ⟨inv_swap os st self n h, by rw [swapStorage_alive]; exact hs⟩

/-! ### `Vector.__init__` (and `Table.__init__`, which reaches it through `super().__init__`) -/

/-- second initialisation of a live object (`Vector(…)` returned a ready `Table`): the model's `swapStorage` -/
theorem vectorInit_eq_swap (E : Env) (st : AState) (self s pd ti : Nat) (h : st.store self = some s) :
    vectorInitT E st self pd ti = .ok (st.swapStorage self (if E.cond 0 then pd else ti)) := by
  unfold vectorInitT swapStorage
  simp only [h, bind, Except.bind, pure, Except.pure]
  cases hc : E.cond 0 <;> simp [idOf, setStore, register_store]

/-- first initialisation of the object just allocated (`st.next`): the model's `step (.create s c)` — the translated code does the
    registry part, the contents of the storage (`setData`) are the allocator's -/
theorem vectorInit_eq_create (E : Env) (st : AState) (pd ti : Nat) (c : List Nat) (h : st.store st.next = none) :
    (vectorInitT E { st with next := st.next + 1 } st.next pd ti).map (fun r => r.setData (if E.cond 0 then pd else ti) c)
      = .ok (st.step (.create (if E.cond 0 then pd else ti) c)).1 := by
  unfold vectorInitT
  simp only [h, bind, Except.bind, pure, Except.pure, step]
  cases hc : E.cond 0 <;>
    simp [idOf, setStore, register, liveRefs, alive, setData, setReg, Except.map] <;> split <;> rfl

theorem vectorInit_exact (E : Env) (os : List Nat) (st : AState) (self pd ti : Nat) (h : Inv os st)
    (hs : st.alive self = true) : PostM (Inv os) (vectorInitT E st self pd ti) := by
  obtain ⟨s, hs'⟩ := (alive_iff_store st self).mp hs
  rw [vectorInit_eq_swap E st self s pd ti hs']
  exact inv_swap os st self _ h

/-- a new object: exact afterwards, whatever identity the allocator hands out -/
theorem vectorInit_exact_new (E : Env) (st : AState) (pd ti : Nat) (h : RegExact st) :
    PostM RegExact (vectorInitT E { st with next := st.next + 1 } st.next pd ti) := by
  have hn : st.store st.next = none := (h.fresh st.next (Nat.le_refl _)).1
  have key := vectorInit_eq_create E st pd ti [] hn
  have hx := create_exact st (if E.cond 0 then pd else ti) [] h
  cases hr : vectorInitT E { st with next := st.next + 1 } st.next pd ti with
  | error e => rw [hr] at key; simp [Except.map] at key
  | ok r =>
    rw [hr] at key
    simp only [Except.map, Except.ok.injEq] at key
    rw [← key] at hx
    exact ⟨hx.users, hx.exact, hx.nodup, hx.fresh⟩

theorem tableInit_exact (E Ei : Env) (os : List Nat) (st : AState) (self pd ti : Nat) (h : Inv os st)
    (hs : st.alive self = true) : PostM (Inv os) (tableInitT E st self Ei pd ti) := by
  have hv := vectorInit_exact Ei os st self pd ti h hs
  unfold tableInitT
  simp only [bind, Except.bind, pure, Except.pure, throw, throwThe, MonadExceptOf.throw]
  cases he : E.exits 0
  · cases hr : vectorInitT Ei st self pd ti with
    | error e => rw [hr] at hv; simpa using hv
    | ok v => rw [hr] at hv; simpa using hv
  · simpa [PostM] using h

/-- `Table.__init__` (first run, on the object just allocated) adds nothing to `Vector.__init__`'s protocol -/
theorem tableInit_eq (E Ei : Env) (st : AState) (self pd ti : Nat) (h : E.exits 0 = false) :
    tableInitT E st self Ei pd ti = vectorInitT Ei st self pd ti := by
  unfold tableInitT
  simp only [h, bind, Except.bind, pure, Except.pure]
  cases vectorInitT Ei st self pd ti <;> rfl

/-! ### `Vector.__setitem__` -/

/-- every path through `Vector.__setitem__` — refused by the tracker, left by any other exception before or after the promotion,
    with or without `self._promote(…)`, over empty storage (no check) or not — leaves the registry exact -/
theorem vectorSetitem_exact (E Ep : Env) (os : List Nat) (st : AState) (self n a b c : Nat) (h : Inv os st)
    (hs : st.alive self = true) : PostM (Inv os) (vectorSetitemT E st self n Ep a b c) := by
  have hs' : ∀ k, (st.checkWritable k).1.alive self = true := fun k => by rw [checkWritable_alive]; exact hs
  unfold vectorSetitemT
  simp only [bind, Except.bind, pure, Except.pure, throw, throwThe, MonadExceptOf.throw]
  repeat' split
  all_goals first
    | exact h
    | exact inv_check _ _ _ h
    | exact inv_bracket _ _ _ _ h hs
    | exact inv_bracket _ _ _ _ (inv_check _ _ _ h) (hs' _)
    | (rename_i err heq; obtain ⟨st', e⟩ := err
       first
        | (have hp := vectorPromote_exact Ep os st self a b c h hs; rw [heq] at hp; exact hp.1)
        | (have hp := vectorPromote_exact Ep os (st.checkWritable (idOf st self)).1 self a b c (inv_check _ _ _ h) (hs' _)
           rw [heq] at hp; exact hp.1))
    | (rename_i v heq
       first
        | (have hp := vectorPromote_exact Ep os st self a b c h hs; rw [heq] at hp; exact inv_bracket _ _ _ _ hp.1 hp.2)
        | (have hp := vectorPromote_exact Ep os (st.checkWritable (idOf st self)).1 self a b c (inv_check _ _ _ h) (hs' _)
           rw [heq] at hp; exact inv_bracket _ _ _ _ hp.1 hp.2))

/-- the registry part of the model's `step (.write o s' c)` (the model inlines it; `writeProto_step` below) -/
def writeProto (st : AState) (o s' : Nat) : AState × Bool :=
  match st.store o with
  | none => (st, false)
  | some s =>
    if s = 0 then (st.swapStorage o s', false)
    else if (st.checkWritable s).2 then ((st.checkWritable s).1.swapStorage o s', false)
    else ((st.checkWritable s).1, true)

theorem setData_register (st : AState) (o s x : Nat) (c : List Nat) :
    (st.setData x c).register o s = (st.register o s).setData x c := by
  have e : (st.setData x c).liveRefs s = st.liveRefs s := rfl
  unfold register
  rw [e]
  split <;> rfl

theorem setData_unregister (st : AState) (o s x : Nat) (c : List Nat) :
    (st.setData x c).unregister o s = (st.unregister o s).setData x c := by
  have e : (st.setData x c).liveRefs s = st.liveRefs s := rfl
  unfold unregister
  rw [e, setData_reg]
  split <;> rfl

theorem setData_swapStorage (st : AState) (o s' x : Nat) (c : List Nat) :
    (st.setData x c).swapStorage o s' = (st.swapStorage o s').setData x c := by
  unfold swapStorage
  simp only [setData_store]
  cases st.store o with
  | none => rfl
  | some s =>
    simp only [setData_unregister]
    show ((((st.unregister o s).setStore o (some s')).setData x c).register o s') = _
    exact setData_register _ o s' x c

theorem setData_checkWritable (st : AState) (s x : Nat) (c : List Nat) :
    (st.setData x c).checkWritable s = ((st.checkWritable s).1.setData x c, (st.checkWritable s).2) := by
  have e : (st.setData x c).liveRefs s = st.liveRefs s := rfl
  unfold checkWritable
  rw [e, setData_reg]
  split <;> rfl

/-- `writeProto` is what the model's write step does to registry and storage map; the step only adds the contents of the new storage -/
theorem writeProto_step (st : AState) (o s s' : Nat) (c : List Nat) (h : st.store o = some s) :
    (st.step (.write o s' c)).2 = (writeProto st o s').2 ∧
    (st.step (.write o s' c)).1 = if (writeProto st o s').2 then (writeProto st o s').1 else (writeProto st o s').1.setData s' c := by
  simp only [step, writeProto, h]
  by_cases h0 : s = 0
  · simp [h0, setData_swapStorage]
  · simp only [h0, if_false]
    cases hw : (st.checkWritable s).2 <;> simp [hw, setData_swapStorage]

/-- **`Vector.__setitem__`, translated, is the model's write step** on the paths the model describes (the assignment is not left by an
    exception other than AliasError and needs no promotion), provided a storage tuple is falsy exactly when it is the empty tuple `()`,
    identity 0 (the guard `if self._underlying:`) -/
theorem vectorSetitem_eq_write (E Ep : Env) (st : AState) (self s n a b c : Nat) (h : st.store self = some s)
    (ht : ∀ x, E.truth x = (x != 0)) (hx0 : E.exits 0 = false)
    (hnp : (E.cond 0 && E.cond 1 && (E.exits 1 || E.cond 2)) = false) :
    vectorSetitemT E st self n Ep a b c =
      if (writeProto st self n).2 then .error ((writeProto st self n).1, Exc.aliasError) else .ok (writeProto st self n).1 := by
  have hid : idOf st self = s := by simp [idOf, h]
  have hcs : (st.checkWritable s).1.store self = some s := by rw [checkWritable_store]; exact h
  have hid' : idOf (st.checkWritable s).1 self = s := by simp [idOf, hcs]
  have hb := bracket_eq st self s n h
  have hb' := bracket_eq (st.checkWritable s).1 self s n hcs
  rw [hid] at hb
  rw [hid'] at hb'
  unfold vectorSetitemT writeProto
  simp only [bind, Except.bind, pure, Except.pure, throw, throwThe, MonadExceptOf.throw, hid, ht, h, hx0]
  by_cases h0 : s = 0
  · subst h0
    cases h1 : E.cond 0 <;> cases h2 : E.cond 1 <;> cases h3 : E.exits 1 <;> cases h4 : E.cond 2 <;>
      simp_all
  · cases hw : (st.checkWritable s).2 <;> cases h1 : E.cond 0 <;> cases h2 : E.cond 1 <;> cases h3 : E.exits 1 <;>
      cases h4 : E.cond 2 <;> simp_all

/-- with a promotion on the way (`int` vector, `float` value): the check, the promotion's swap, then the write's swap — the model's
    `write` followed by `swap` -/
theorem vectorSetitem_eq_promote (E Ep : Env) (st : AState) (self s n a b c : Nat) (h : st.store self = some s) (hs0 : s ≠ 0)
    (ht : ∀ x, E.truth x = (x != 0)) (hw : (st.checkWritable s).2 = true) (hx0 : E.exits 0 = false) (hx1 : E.exits 1 = false)
    (h0 : E.cond 0 = true) (h1 : E.cond 1 = true) (h2 : E.cond 2 = true)
    (p0 : Ep.exits 0 = false) (p1 : Ep.returns 0 = false) (p2 : Ep.cond 0 = true) :
    vectorSetitemT E st self n Ep a b c = .ok (((writeProto st self a).1).swapStorage self n) := by
  have hid : idOf st self = s := by simp [idOf, h]
  have hcs : (st.checkWritable s).1.store self = some s := by rw [checkWritable_store]; exact h
  have hal : ((st.checkWritable s).1.swapStorage self a).alive self = true := by
    rw [swapStorage_alive]; simp [alive, hcs]
  obtain ⟨s2, hs2⟩ := (alive_iff_store _ _).mp hal
  have hpr := vectorPromote_float Ep (st.checkWritable s).1 self s a b c hcs p0 p1 p2
  have hb := bracket_eq _ self s2 n hs2
  unfold vectorSetitemT writeProto
  simp only [bind, Except.bind, pure, Except.pure, throw, throwThe, MonadExceptOf.throw, hid, ht, h, hx0, hx1, h0, h1, h2, hw, hpr]
  simp [hs0, hb]

/-! ### the roll-back loop of `Table.__setitem__` -/

/-- what the restore loop does, in the model's vocabulary: every column whose storage is no longer the remembered one is swapped back -/
def restoreModel (st : AState) (before : List (Nat × Nat)) : AState :=
  before.foldl (fun st p => if st.store p.1 = some p.2 then st else st.swapStorage p.1 p.2) st

theorem tableSetitemLoop_eq (E : Env) (before : List (Nat × Nat)) (st : AState) (hl : ∀ p ∈ before, st.alive p.1 = true) :
    tableSetitemLoopT E before st = .ok (restoreModel st before) := by
  induction before generalizing st with
  | nil => rfl
  | cons p rest ih =>
    obtain ⟨col, und⟩ := p
    obtain ⟨s, hs⟩ := (alive_iff_store st col).mp (hl (col, und) (by simp))
    have hid : idOf st col = s := by simp [idOf, hs]
    unfold tableSetitemLoopT
    simp only [bind, Except.bind, pure, Except.pure, hid, restoreModel, List.foldl_cons, hs]
    by_cases e : s = und
    · subst e
      simp only [bne_self_eq_false, Bool.false_eq_true, if_false, if_true]
      exact ih st (fun p hp => hl p (by simp [hp]))
    · have e' : (s != und) = true := by simpa using e
      have e2 : ¬ (some s = some und) := by simpa using e
      have hb := bracket_eq st col s und hs
      rw [hid] at hb
      simp only [e', if_true, e2, if_false, hb]
      exact ih _ (fun p hp => by rw [swapStorage_alive]; exact hl p (by simp [hp]))

theorem restoreModel_inv (os : List Nat) (before : List (Nat × Nat)) (st : AState) (h : Inv os st) :
    Inv os (restoreModel st before) := by
  induction before generalizing st with
  | nil => exact h
  | cons p rest ih =>
    simp only [restoreModel, List.foldl_cons]
    split
    · exact ih st h
    · exact ih _ (inv_swap os st p.1 p.2 h)

/-- a column put back stays put: later iterations that remember the same tuple for it do not touch it -/
theorem restoreModel_keeps (before : List (Nat × Nat)) (st : AState) (col und : Nat) (h : st.store col = some und)
    (hc : ∀ u, (col, u) ∈ before → u = und) : (restoreModel st before).store col = some und := by
  induction before generalizing st with
  | nil => exact h
  | cons p rest ih =>
    obtain ⟨c2, u2⟩ := p
    simp only [restoreModel, List.foldl_cons]
    split
    · exact ih st h (fun u hu => hc u (by simp [hu]))
    · rename_i hne
      refine ih _ ?_ (fun u hu => hc u (by simp [hu]))
      rw [swapStorage_store]
      by_cases e : col = c2
      · subst e
        have := hc u2 (by simp)
        subst this
        exact absurd h hne
      · simp [e, h]

/-- **the roll-back restores every column's storage**: after the loop each live column holds the very tuple remembered for it -/
theorem restoreModel_restores (before : List (Nat × Nat)) (st : AState) (col und : Nat) (hm : (col, und) ∈ before)
    (hl : st.alive col = true) (hc : ∀ u, (col, u) ∈ before → u = und) : (restoreModel st before).store col = some und := by
  induction before generalizing st with
  | nil => cases hm
  | cons p rest ih =>
    obtain ⟨c2, u2⟩ := p
    simp only [restoreModel, List.foldl_cons]
    by_cases e : c2 = col
    · subst e
      have hu : u2 = und := hc u2 (by simp)
      subst hu
      have hrest : ∀ u, (c2, u) ∈ rest → u = u2 := fun u hu => hc u (by simp [hu])
      split
      · rename_i heq; exact restoreModel_keeps rest st c2 u2 heq hrest
      · exact restoreModel_keeps rest _ c2 u2 (by simp [swapStorage_store, hl]) hrest
    · have hm' : (col, und) ∈ rest := by
        rcases List.mem_cons.mp hm with hh | hh
        · cases hh; exact absurd rfl e
        · exact hh
      have hrest : ∀ u, (col, u) ∈ rest → u = und := fun u hu => hc u (by simp [hu])
      split
      · exact ih st hm' hl hrest
      · exact ih _ hm' (by rw [swapStorage_alive]; exact hl) hrest

/-- `Table.__setitem__`: whatever `_assign_cells` did before it raised (as long as it kept the registry exact and the columns alive —
    it is a sequence of `Vector.__setitem__` on the columns), the restore loop leaves the registry exact; and so does the normal path -/
theorem tableSetitem_exact (E : Env) (cols : List Nat) (assign_cells : AState → M AState) (st : AState) (self : Nat)
    (h : Inv cols st) (hac : ∀ st, Inv cols st → PostM (Inv cols) (assign_cells st)) :
    PostM (Inv cols) (tableSetitemT E cols assign_cells st self) := by
  have h1 := hac st h
  unfold tableSetitemT
  simp only [bind, Except.bind, pure, Except.pure, throw, throwThe, MonadExceptOf.throw]
  cases hr : assign_cells st with
  | ok st' => rw [hr] at h1; simpa using h1
  | error err =>
    obtain ⟨st', e⟩ := err
    rw [hr] at h1
    have hl : ∀ p ∈ cols.map (fun col => (col, idOf st col)), st'.alive p.1 = true := by
      intro p hp
      obtain ⟨c, hc, rfl⟩ := List.mem_map.mp hp
      exact h1.2 c hc
    simp only [tableSetitemLoop_eq E _ st' hl]
    exact restoreModel_inv cols _ st' h1

/-- and after a failed assignment every column holds the storage it held before (identity, not just contents) -/
theorem tableSetitem_restores (E : Env) (cols : List Nat) (assign_cells : AState → M AState) (st : AState) (self : Nat)
    (h : Inv cols st) (hac : ∀ st, Inv cols st → PostM (Inv cols) (assign_cells st)) (st' : AState) (e : Exc)
    (hr : tableSetitemT E cols assign_cells st self = .error (st', e)) : ∀ c ∈ cols, st'.store c = st.store c := by
  have h1 := hac st h
  unfold tableSetitemT at hr
  simp only [bind, Except.bind, pure, Except.pure, throw, throwThe, MonadExceptOf.throw] at hr
  cases hr2 : assign_cells st with
  | ok st2 => rw [hr2] at hr; simp at hr
  | error err =>
    obtain ⟨st2, e2⟩ := err
    rw [hr2] at hr h1
    have hl : ∀ p ∈ cols.map (fun col => (col, idOf st col)), st2.alive p.1 = true := by
      intro p hp
      obtain ⟨c, hc, rfl⟩ := List.mem_map.mp hp
      exact h1.2 c hc
    simp only [tableSetitemLoop_eq E _ st2 hl, Except.error.injEq, Prod.mk.injEq] at hr
    intro c hc
    obtain ⟨s, hs⟩ := (alive_iff_store st c).mp (h.2 c hc)
    rw [← hr.1, hs]
    apply restoreModel_restores _ st2 c s
    · exact List.mem_map.mpr ⟨c, hc, by simp [idOf, hs]⟩
    · exact h1.2 c hc
    · intro u hu
      obtain ⟨c', _, he⟩ := List.mem_map.mp hu
      simp only [Prod.mk.injEq] at he
      obtain ⟨e1, e2⟩ := he
      subst e1
      simp [idOf, hs] at e2
      exact e2.symm

/-! ### the translator covered every store -/

/-- every function of the package that stores into `_underlying` is one of those tied above (the generated list is what the AST scan
    of every module found; a store anywhere else makes the translator drop `assignmentSites`, and this module stops building) -/
example : assignmentSites = ["Table.__setitem__", "Table._swap_columns", "Vector.__init__", "Vector.__setitem__", "Vector._promote"] := by
  decide

/-! ### what goes wrong without the bracket -/

/-- how a run ended -/
def outcome : M AState → Option Exc
  | .ok _ => none
  | .error (_, e) => some e

/-- the state a run ended in -/
def final : M AState → AState
  | .ok st => st
  | .error (st, _) => st


/-- the shape of a store that forgets the old identity: `self._underlying = new_tuple; _ALIAS_TRACKER.register(self, id(new_tuple))` -/
def assignWithoutUnregister (st : AState) (o n : Nat) : AState := (st.setStore o (some n)).register o n

/-- it breaks the invariant: vector 0 over storage 5 is pointed at storage 6 and stays registered under 5 -/
example :
    let st := (AState.init.step (.create 5 [1])).1
    RegExact st ∧ ¬ RegExact (assignWithoutUnregister st 0 6) := by
  refine ⟨create_exact _ _ _ regExact_init, ?_⟩
  intro h
  have := h.exact 5 0 (by decide) (by decide)
  revert this
  decide

/-- and the broken invariant shows: the freed identity 5 is handed to a brand-new vector, whose first write is refused although nothing
    shares its storage; after the translated bracket (`tableSwapColumnsT`) the same history accepts the write -/
example :
    let st := (AState.init.step (.create 5 [1])).1
    (((assignWithoutUnregister st 0 6).step (.create 5 [7])).1.step (.write 1 8 [9])).2 = true
    ∧ (((final (tableSwapColumnsT ⟨fun s => s != 0, fun _ => false, fun _ => false, fun _ => false⟩ st 0 6)).step
          (.create 5 [7])).1.step (.write 1 8 [9])).2 = false := by
  decide

/-- unregistering a *stale* identity is as bad: `Vector.__setitem__` without the re-binding `underlying = self._underlying` after
    `self._promote(…)` would do exactly this (unregister under the pre-promotion identity 5 while registered under 7) -/
example :
    let st := (AState.init.step (.create 5 [1])).1.swapStorage 0 7
    ¬ RegExact (((st.unregister 0 5).setStore 0 (some 6)).register 0 6) := by
  intro st h
  have := h.exact 7 0 (by decide) (by decide)
  revert this
  decide

/-! ### non-vacuity: the translated methods run on concrete states -/

/-- conditions all false, no early exit, `()` is identity 0 -/
def envPlain : Env := ⟨fun s => s != 0, fun _ => false, fun _ => false, fun _ => false⟩
/-- the path of `__setitem__` that promotes (`updates`, typed column, kind differs) / of `_promote` that takes the first bracket -/
def envPromote : Env := ⟨fun s => s != 0, fun _ => true, fun _ => false, fun _ => false⟩

/-- two vectors over one caller-supplied tuple (storage 5) -/
def twoSharing : AState := AState.init.run [.create 5 [1, 2], .create 5 [1, 2]]

/-- `v[0] = 9` through vector 0 is refused with AliasError and nothing is re-registered; after vector 1 is collected the same
    assignment is accepted: vector 0 moves to storage 6, is registered there and nowhere else -/
example :
    outcome (vectorSetitemT envPlain twoSharing 0 6 envPlain 7 8 9) = some Exc.aliasError
    ∧ (final (vectorSetitemT envPlain twoSharing 0 6 envPlain 7 8 9)).reg 5 = [0, 1]
    ∧ outcome (vectorSetitemT envPlain (twoSharing.step (.drop 1)).1 0 6 envPlain 7 8 9) = none
    ∧ (final (vectorSetitemT envPlain (twoSharing.step (.drop 1)).1 0 6 envPlain 7 8 9)).reg 5 = []
    ∧ (final (vectorSetitemT envPlain (twoSharing.step (.drop 1)).1 0 6 envPlain 7 8 9)).reg 6 = [0]
    ∧ (final (vectorSetitemT envPlain (twoSharing.step (.drop 1)).1 0 6 envPlain 7 8 9)).store 0 = some 6 := by
  decide

/-- an empty vector (storage 0 = `()`, shared by every empty vector) is never checked: two empty vectors, the write through one is
    accepted; with a `truth` that called `()` truthy the tracker would have refused it -/
example :
    let st := AState.init.run [.create 0 [], .create 0 []]
    outcome (vectorSetitemT envPlain st 0 6 envPlain 7 8 9) = none
    ∧ outcome (vectorSetitemT ⟨fun _ => true, fun _ => false, fun _ => false, fun _ => false⟩ st 0 6 envPlain 7 8 9)
        = some Exc.aliasError := by
  decide

/-- an assignment that promotes on the way (`int` vector, `float` value): storage 5 → 7 (`_promote`) → 6; neither 5 nor 7 keeps
    a registration -/
example :
    let st := (AState.init.step (.create 5 [1, 2])).1
    let r := vectorSetitemT envPromote st 0 6 envPromote 7 8 9
    outcome r = none ∧ (final r).reg 5 = [] ∧ (final r).reg 7 = [] ∧ (final r).reg 6 = [0] ∧ (final r).store 0 = some 6 := by
  decide

/-- `Vector.__init__` on a new object, then again on the same object (`Vector(…)` returning a ready `Table`): the first registration
    is dropped -/
example :
    let r1 := vectorInitT envPlain { AState.init with next := 1 } 0 3 11
    let r2 := vectorInitT envPlain (final r1) 0 3 12
    (final r1).reg 11 = [0] ∧ (final r2).reg 11 = [] ∧ (final r2).reg 12 = [0] ∧ (final r2).store 0 = some 12 := by
  decide

/-- the roll-back: a table (object 0) with columns 1 and 2 over storages 11 and 12; `_assign_cells` writes column 1 (storage 20) and then
    raises; the restore loop points column 1 back at storage 11 and moves its registration with it -/
example :
    let st := AState.init.run [.create 10 [], .create 11 [1], .create 12 [2]]
    let r := tableSetitemT envPlain [1, 2] (fun st => .error ((st.step (.write 1 20 [9])).1, Exc.raised)) st 0
    outcome r = some Exc.raised ∧ (final r).store 1 = some 11 ∧ (final r).reg 11 = [1] ∧ (final r).reg 20 = []
    ∧ (final r).store 2 = some 12 := by
  decide

/-- the hypothesis of `tableSetitem_exact` is satisfiable: an `_assign_cells` that swaps a column's storage and raises -/
example : ∀ st, Inv [1, 2] st → PostM (Inv [1, 2]) ((fun st => .error (st.swapStorage 1 20, Exc.raised) : AState → M AState) st) :=
  fun st h => inv_swap [1, 2] st 1 20 h

/-- the hypotheses of `vectorSetitem_eq_write` are satisfiable -/
example : (∀ x, envPlain.truth x = (x != 0)) ∧ envPlain.exits 0 = false
    ∧ (envPlain.cond 0 && envPlain.cond 1 && (envPlain.exits 1 || envPlain.cond 2)) = false := ⟨fun _ => rfl, rfl, rfl⟩

end Serif.Tie
