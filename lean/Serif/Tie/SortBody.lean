/-
  Translation tie for the bodies of `Table.sort_by` and `Vector.sort_by` (C14).  `Serif/Tie/Sort.lean` ties the None flag of the sort
  key; this file ties everything around it.  `harness/tr/sortbody.py` translates, statement by statement and in the source's order
  (`Serif/Gen/TranslatedSortBody.lean`, regenerated on every run):

    sortByKeysT      the isinstance chain that normalises `by` (one key / non-empty sequence / SerifValueError / SerifTypeError)
    sortByRevFlagsT  the isinstance chain that normalises `reverse` (one bool broadcast with `[reverse] * len(keys)`, a sequence of
                     the same length, SerifValueError for another length, SerifTypeError)
    resolveColumnT   `Table._resolve_column` (str -> `self[name]`, Vector -> itself, else SerifTypeError)
    sortByResolveT   `resolved = []`, `nrows = len(self)`, the loop `_resolve_column` + length check + `append`
    sortByIndicesT   `indices = list(range(nrows))` and the loop over `reversed(list(zip(resolved, rev_flags)))` that sorts the index
                     list with `indices.sort(key=key_fn, reverse=rev)`, `key_fn(i) = (flag, data[i])`
    sortByGatherT    the loop that rebuilds every column as `[src[i] for i in indices]`
    tableSortByT     the chain of these parts with the empty-table shortcut between resolution and sorting
    vectorSortByT    `sorted(self._underlying, key=key_fn, reverse=reverse)` with `key_fn(x) = (flag, x if x is not None else 0)`

  and this file proves them equal to the model (`Serif/Model/Sort.lean`) for every table, every `by`, every `reverse`, every
  `na_last`, every row count:  `sortByKeys_eq` (= `normBy`), `sortByRevFlags_eq` (= `normRev`), `resolveColumn_eq` and
  `sortByResolve_eq` (= `resolve`), `sortByIndices_eq` (= `sortIndices`, i.e. `sortKeys` last key first), `sortByGather_eq`
  (= `gather` of every column), `tableSortBy_eq` (= `sortByTable` followed by `gather`; the shortcut is what the model's remark says:
  `sortIndices_zero`), `vectorSortBy_eq` (= `sortByVector`).

  Parameters of the translated functions, and what the theorems assume of them:
    * `pySort` / `pySorted` -- CPython's `list.sort(key=, reverse=)` / `sorted(…, key=, reverse=)`.  ASSUMED (hypothesis `StableSort`,
      stated below, nothing else): it is the model's stable insertion sort `isort` on the order "may stay in front of" induced by
      Python's `<` on the key tuples (`tupleLt`: first components, then `valLt` on the cells) -- with `reverse=True` the converse
      order, ties still in input order.  `refSort_stable` shows the hypothesis is satisfiable.
    * `flagT` -- the first component of the key tuple; translated and tied in `Serif/Tie/Sort.lean` (`tableSortFlagT`,
      `vectorSortFlagT`, `translated_flags_ok : flagOK …`).  The table theorems hold for EVERY flag (as the model is stated for every
      `tbl`); `vectorSortBy_eq` needs that the flag separates None from the values (`flagOK_separates`: every `flagOK` flag does),
      because the source replaces None by `0` in the value component and the model compares None with nothing.
    * `getitem` -- `self[name]` for a str (`none`: SerifKeyError).  `lenSelf` -- `len(self)` (tied in `Serif/Tie/Tab.lean`).
    * `zero` -- whatever cell the `0` that stands in for None is; `dflt` -- the value of an out-of-range `src[i]` (never reached).

  The Python arguments are seen through `PyArg` / `PySpec` (generated file); `byArgOf`, `revArgOf`, `keySrcOf` map them to the model's
  `ByArg`, `RevArg`, `KeySrc`, and every value of the model's types is such a view (`byArgOf_pyOfByArg`, `revArgOf_pyOfRevArg`;
  `tableSortBy_eq_model` is the tie stated on the model's own types).  `resolveKey` is an additional definition: the model's
  `resolve` inlines `_resolve_column`; `resolve_cons` proves that `resolve` is `resolveKey` + length check, key by key.
  Names of columns / vectors, dtypes and the `Vector` / `Table` constructors are outside (a column is its data).
  Supplementary (see Serif/Tie/Typing.lean).
-/
import Serif.Gen.TranslatedSortBody
import Serif.Model.Sort
import Serif.Proofs.Sort

namespace Serif.Tie
open Serif Serif.Sort Serif.Gen.TSB

/-! ### what the parameters of the translated functions stand for -/

/-- Python's `<` on the key tuples `(flag, v)`: the first components decide unless they are equal (`False < True`), then the
    value components are compared (`valLt`, the model's `<` on cells) -/
def tupleLt (a b : Bool × Cell) : Bool := if a.1 == b.1 then valLt a.2 b.2 else (!a.1 && b.1)

/-- the order `list.sort(key=…, reverse=rev)` / `sorted(…, key=…, reverse=rev)` realises: "may stay in front of" -/
def sortLE {α : Type} (key : α → Bool × Cell) (rev : Bool) (a b : α) : Bool :=
  if rev then !(tupleLt (key a) (key b)) else !(tupleLt (key b) (key a))

/-- THE assumption on CPython's `list.sort` / `sorted`: a stable sort by the key order — the model's `isort` -/
def StableSort {α : Type} (pySort : (α → Bool × Cell) → Bool → List α → List α) : Prop :=
  ∀ key rev l, pySort key rev l = isort (sortLE key rev) l

/-- a function that satisfies the assumption (used in the examples below) -/
def refSort {α : Type} (key : α → Bool × Cell) (rev : Bool) (l : List α) : List α := isort (sortLE key rev) l

theorem refSort_stable {α : Type} : StableSort (refSort (α := α)) := fun _ _ _ => rfl

/-- `Table._resolve_column` on the model's view of one key -/
def resolveKey : KeySrc → Res (List Cell)
  | .missing => .error .key
  | .bad => .error .type
  | .cells c => .ok c

/-- the model's `resolve` is: `_resolve_column`, then the length check, for every key in order -/
theorem resolve_cons (n : Nat) (k : KeySrc) (ks : List KeySrc) :
    resolve n (k :: ks) =
      match resolveKey k with
      | .error e => .error e
      | .ok c =>
        if c.length != n then .error .value
        else match resolve n ks with
          | .ok cs => .ok (c :: cs)
          | .error e => .error e := by
  cases k <;> rfl

def keySrcOf (getitem : String → Option (List Cell)) : PySpec → KeySrc
  | .str name => match getitem name with
    | none => .missing
    | some c => .cells c
  | .vector c => .cells c
  | .other => .bad

def byArgOf (getitem : String → Option (List Cell)) : PyArg PySpec → ByArg
  | .single x => .single (keySrcOf getitem x)
  | .seq xs => .seq (xs.map (keySrcOf getitem))
  | .other => .other

def revArgOf : PyArg Bool → RevArg
  | .single b => .one b
  | .seq bs => .many bs
  | .other => .other

/-! ### the pieces -/

theorem resolveColumn_eq (g : String → Option (List Cell)) (spec : PySpec) :
    resolveColumnT g spec = resolveKey (keySrcOf g spec) := by
  cases spec with
  | str name =>
    simp only [resolveColumnT, keySrcOf]
    cases g name <;> rfl
  | vector c => rfl
  | other => rfl

theorem sortByKeys_eq (g : String → Option (List Cell)) (by_ : PyArg PySpec) :
    normBy (byArgOf g by_) =
      match sortByKeysT by_ with
      | .error e => .error e
      | .ok keys => .ok (keys.map (keySrcOf g)) := by
  cases by_ with
  | single x => rfl
  | seq xs => cases xs <;> rfl
  | other => rfl

theorem sortByRevFlags_eq (reverse : PyArg Bool) (keys : List PySpec) :
    sortByRevFlagsT reverse keys = normRev keys.length (revArgOf reverse) := by
  cases reverse with
  | single b => rfl
  | seq bs =>
    simp only [sortByRevFlagsT, normRev, revArgOf, pyBool, List.map_id']
  | other => rfl

/-- the body of the resolve loop -/
private def resolveStep (g : String → Option (List Cell)) (n : Nat) (resolved : List (List Cell)) (spec : PySpec) :
    Res (List (List Cell)) :=
  match resolveColumnT g spec with
  | .error e => .error e
  | .ok col => if col.length != n then .error .value else .ok (resolved ++ [col])

private theorem resolveStep_eq (g : String → Option (List Cell)) (n : Nat) (acc : List (List Cell)) (spec : PySpec) :
    resolveStep g n acc spec =
      match resolveKey (keySrcOf g spec) with
      | .error e => .error e
      | .ok c => if c.length != n then .error .value else .ok (acc ++ [c]) := by
  unfold resolveStep
  rw [resolveColumn_eq]

private theorem resolveLoop (g : String → Option (List Cell)) (n : Nat) (keys : List PySpec) (acc : List (List Cell)) :
    keys.foldlM (resolveStep g n) acc
      = match resolve n (keys.map (keySrcOf g)) with
        | .error e => .error e
        | .ok cs => .ok (acc ++ cs) := by
  induction keys generalizing acc with
  | nil => simp [resolve, pure, Except.pure]
  | cons k ks ih =>
    rw [List.foldlM_cons, List.map_cons, resolve_cons, resolveStep_eq]
    cases resolveKey (keySrcOf g k) with
    | error e => rfl
    | ok c =>
      by_cases h : (c.length != n) = true
      · simp only [h, ↓reduceIte]; rfl
      · simp only [h, Bool.false_eq_true, ↓reduceIte, bind, Except.bind]
        rw [ih]
        cases resolve n (ks.map (keySrcOf g)) with
        | error e => rfl
        | ok cs => simp

theorem sortByResolve_eq (g : String → Option (List Cell)) (n : Nat) (keys : List PySpec) :
    sortByResolveT g n keys =
      match resolve n (keys.map (keySrcOf g)) with
      | .error e => .error e
      | .ok cs => .ok (cs, n) := by
  show (match keys.foldlM (resolveStep g n) [] with
    | .error e => (.error e : Res (List (List Cell) × Nat))
    | .ok resolved => .ok (resolved, n)) = _
  rw [resolveLoop]
  cases resolve n (keys.map (keySrcOf g)) with
  | error e => rfl
  | ok cs => simp

theorem sortByIndices_eq (tbl : Bool → Bool → Bool → Bool) (pySort : (Nat → Bool × Cell) → Bool → List Nat → List Nat)
    (hs : StableSort pySort) (naLast : Bool) (n : Nat) (cols : List (List Cell)) (revs : List Bool) :
    sortByIndicesT tbl pySort naLast n cols revs = sortIndices tbl naLast (cols.zip revs) n := by
  unfold sortByIndicesT sortIndices sortKeys
  rw [← List.map_reverse, List.foldl_map]
  show List.foldl _ _ _ = _
  congr 1
  funext idx kr
  show pySort _ _ _ = _
  rw [hs]
  rfl

private theorem gatherLoop {β : Type} (d : β) (idx : List Nat) (cols : List (List β)) (acc : List (List β)) :
    cols.foldl (fun new_cols col =>
      let src := col
      let new_data := idx.map fun i => src.getD i d
      new_cols ++ [new_data]) acc = acc ++ cols.map (fun src => gather d src idx) := by
  induction cols generalizing acc with
  | nil => simp
  | cons c cs ih =>
    rw [List.foldl_cons, ih, List.map_cons, List.append_assoc]
    rfl

theorem sortByGather_eq {β : Type} (d : β) (cols : List (List β)) (idx : List Nat) :
    sortByGatherT d cols idx = cols.map (fun src => gather d src idx) := by
  unfold sortByGatherT
  simp only [gatherLoop, List.nil_append]

/-! ### Table.sort_by, whole body -/

private theorem foldl_isort_nil {α : Type} (les : List (α → α → Bool)) :
    les.foldl (fun idx le => isort le idx) [] = [] := by
  induction les with
  | nil => rfl
  | cons le les ih => exact ih

/-- the model's remark on the empty-table shortcut: with no rows the index list is empty … -/
theorem sortIndices_zero (tbl : Bool → Bool → Bool → Bool) (naLast : Bool) (keys : List (List Cell × Bool)) :
    sortIndices tbl naLast keys 0 = [] := by
  unfold sortIndices sortKeys
  exact foldl_isort_nil _

/-- … and gathering through it gives empty columns -/
theorem gather_nil {β : Type} (d : β) (src : List β) : gather d src [] = [] := rfl

/-- what `Table.sort_by` returns according to the model: refusal, or every column gathered through the sorted index list -/
def tableResult {β : Type} (tbl : Bool → Bool → Bool → Bool) (d : β) (cols : List (List β)) (n : Nat) (by_ : ByArg)
    (rev : RevArg) (naLast : Bool) : Res (List (List β)) :=
  match sortByTable tbl n by_ rev naLast with
  | .error e => .error e
  | .ok idx => .ok (cols.map (fun src => gather d src idx))

theorem tableSortBy_eq {β : Type} (g : String → Option (List Cell)) (tbl : Bool → Bool → Bool → Bool)
    (pySort : (Nat → Bool × Cell) → Bool → List Nat → List Nat) (hs : StableSort pySort) (d : β)
    (cols : List (List β)) (n : Nat) (by_ : PyArg PySpec) (reverse : PyArg Bool) (naLast : Bool) :
    tableSortByT g tbl pySort d cols n by_ reverse naLast
      = tableResult tbl d cols n (byArgOf g by_) (revArgOf reverse) naLast := by
  unfold tableSortByT tableResult sortByTable validate validateKeys
  rw [sortByKeys_eq]
  cases sortByKeysT by_ with
  | error e => rfl
  | ok keys =>
    simp only [List.length_map]
    rw [sortByRevFlags_eq]
    cases normRev keys.length (revArgOf reverse) with
    | error e => rfl
    | ok revs =>
      simp only [sortByResolve_eq]
      cases resolve n (keys.map (keySrcOf g)) with
      | error e => rfl
      | ok cs =>
        simp only [sortByIndices_eq _ _ hs, sortByGather_eq]
        by_cases hn : n = 0
        · subst hn
          simp [sortIndices_zero, gather_nil]
        · simp [hn]

/-- every request of the model is the view of some Python call: the tie above is about all of `ByArg` × `RevArg` -/
def specOfKeySrc : KeySrc → PySpec
  | .missing => .str "?"
  | .bad => .other
  | .cells c => .vector c

def pyOfByArg : ByArg → PyArg PySpec
  | .single k => .single (specOfKeySrc k)
  | .seq ks => .seq (ks.map specOfKeySrc)
  | .other => .other

def pyOfRevArg : RevArg → PyArg Bool
  | .one b => .single b
  | .many bs => .seq bs
  | .other => .other

theorem keySrcOf_specOfKeySrc (k : KeySrc) : keySrcOf (fun _ => none) (specOfKeySrc k) = k := by
  cases k <;> rfl

theorem byArgOf_pyOfByArg (b : ByArg) : byArgOf (fun _ => none) (pyOfByArg b) = b := by
  cases b with
  | single k => simp [pyOfByArg, byArgOf, keySrcOf_specOfKeySrc]
  | seq ks =>
    simp only [pyOfByArg, byArgOf, List.map_map]
    congr 1
    induction ks with
    | nil => rfl
    | cons k ks ih => simp [keySrcOf_specOfKeySrc, ih]
  | other => rfl

theorem revArgOf_pyOfRevArg (r : RevArg) : revArgOf (pyOfRevArg r) = r := by
  cases r <;> rfl

/-- the tie stated on the model's own argument types: for every `ByArg`, `RevArg`, row count, table and flag setting -/
theorem tableSortBy_eq_model {β : Type} (tbl : Bool → Bool → Bool → Bool)
    (pySort : (Nat → Bool × Cell) → Bool → List Nat → List Nat) (hs : StableSort pySort) (d : β)
    (cols : List (List β)) (n : Nat) (by_ : ByArg) (rev : RevArg) (naLast : Bool) :
    tableSortByT (fun _ => none) tbl pySort d cols n (pyOfByArg by_) (pyOfRevArg rev) naLast
      = tableResult tbl d cols n by_ rev naLast := by
  rw [tableSortBy_eq _ _ _ hs, byArgOf_pyOfByArg, revArgOf_pyOfRevArg]

/-! ### Vector.sort_by -/

/-- the key tuples of `Vector.sort_by` (None replaced by `0` in the value component) compare like the model's key order, as soon
    as the flag separates None from the values -/
private theorem vectorKey_lt (tbl : Bool → Bool → Bool → Bool) (zero : Cell) (rev naLast : Bool)
    (hsep : tbl true rev naLast ≠ tbl false rev naLast) (a b : Elem) :
    tupleLt (tbl a.1.isNone rev naLast, (if !a.1.isNone then a.1 else zero))
            (tbl b.1.isNone rev naLast, (if !b.1.isNone then b.1 else zero))
      = keyLt (fun n => tbl n rev naLast) a.1 b.1 := by
  unfold tupleLt keyLt
  rcases a with ⟨a, ia⟩
  rcases b with ⟨b, ib⟩
  cases a <;> cases b
  · cases zero <;> simp [valLt]
  · have h1 : (tbl true rev naLast == tbl false rev naLast) = false := by simpa using hsep
    simp [h1]
  · have h1 : (tbl false rev naLast == tbl true rev naLast) = false := by simpa using (Ne.symm hsep)
    simp [h1]
  · simp

theorem vectorSortBy_eq (tbl : Bool → Bool → Bool → Bool) (zero : Cell)
    (pySorted : (Elem → Bool × Cell) → Bool → List Elem → List Elem) (hs : StableSort pySorted)
    (data : List Elem) (rev naLast : Bool) (hsep : tbl true rev naLast ≠ tbl false rev naLast) :
    vectorSortByT tbl zero pySorted data rev naLast = sortByVector tbl rev naLast data := by
  unfold vectorSortByT sortByVector
  show pySorted _ _ _ = _
  rw [hs]
  congr 1
  funext a b
  unfold sortLE elemLE pyLE
  rw [vectorKey_lt tbl zero rev naLast hsep a b, vectorKey_lt tbl zero rev naLast hsep b a]

/-- a flag that meets the model's requirement `flagOK` separates None from the values -/
theorem flagOK_separates {tbl : Bool → Bool → Bool → Bool} (h : flagOK tbl = true) (rev naLast : Bool) :
    tbl true rev naLast ≠ tbl false rev naLast := by
  have h' := h
  simp only [flagOK, List.all_cons, List.all_nil, Bool.and_true, Bool.and_eq_true, beq_iff_eq] at h'
  cases rev <;> cases naLast <;> simp_all

/-! ### consequences: the translated bodies with the flags of this run meet the contract of C14 -/

/-- the contract `checkSorted` holds of the result of the sort loop (C14's `checkSorted_iff_eq`, right to left) -/
private theorem checkSorted_sortKeys {α : Type} [BEq α] [LawfulBEq α] {les : List (α → α → Bool)}
    (h : ∀ le ∈ les, TotalPreorder le) (l : List α) : checkSorted les l (sortKeys les l) = true := by
  rw [Sort.checkSorted_iff]
  exact ⟨Sort.sortKeys_perm les l, Sort.sortKeys_sorted h l, fun a _ => filter_sortKeys_allTied h a l⟩

/-- `Table.sort_by` as translated, with any flag that satisfies `flagOK` (C14 `flag_table_ok`: the flag of this run does) and
    CPython's sort stable: a well-formed request is answered by gathering every column through an index list that passes the
    executable contract `checkTable` of C14 (permutation, lexicographic order of the keys, stability) -/
theorem tableSortBy_meets_contract {β : Type} (g : String → Option (List Cell)) {tbl : Bool → Bool → Bool → Bool}
    (hf : flagOK tbl = true) (pySort : (Nat → Bool × Cell) → Bool → List Nat → List Nat) (hs : StableSort pySort) (d : β)
    (cols : List (List β)) (n : Nat) (by_ : PyArg PySpec) (reverse : PyArg Bool) (naLast : Bool)
    {keys : List (List Cell × Bool)} (hv : validate n (byArgOf g by_) (revArgOf reverse) = .ok keys) :
    ∃ p, tableSortByT g tbl pySort d cols n by_ reverse naLast = .ok (cols.map (fun src => gather d src p)) ∧
      checkTable naLast keys n p = true := by
  refine ⟨sortIndices tbl naLast keys n, ?_, ?_⟩
  · rw [tableSortBy_eq _ _ _ hs, tableResult, sortByTable_ok hv]
  · rw [sortIndices_eq_spec hf, checkTable]
    exact checkSorted_sortKeys (specRows_totalPreorder naLast keys) _

/-- and a request that does not pass the validation is refused with the model's error -/
theorem tableSortBy_refused {β : Type} (g : String → Option (List Cell)) (tbl : Bool → Bool → Bool → Bool)
    (pySort : (Nat → Bool × Cell) → Bool → List Nat → List Nat) (hs : StableSort pySort) (d : β)
    (cols : List (List β)) (n : Nat) (by_ : PyArg PySpec) (reverse : PyArg Bool) (naLast : Bool)
    {e : Err} (hv : validate n (byArgOf g by_) (revArgOf reverse) = .error e) :
    tableSortByT g tbl pySort d cols n by_ reverse naLast = .error e := by
  rw [tableSortBy_eq _ _ _ hs, tableResult]
  simp [sortByTable, hv]

/-- `Vector.sort_by` as translated, with a `flagOK` flag: the result passes the executable contract `checkVector` of C14 -/
theorem vectorSortBy_meets_contract {tbl : Bool → Bool → Bool → Bool} (hf : flagOK tbl = true) (zero : Cell)
    (pySorted : (Elem → Bool × Cell) → Bool → List Elem → List Elem) (hs : StableSort pySorted)
    (data : List Elem) (rev naLast : Bool) :
    checkVector rev naLast data (vectorSortByT tbl zero pySorted data rev naLast) = true := by
  rw [vectorSortBy_eq tbl zero pySorted hs data rev naLast (flagOK_separates hf rev naLast), sortByVector_eq_spec hf, checkVector]
  exact checkSorted_sortKeys (specElems_totalPreorder rev naLast) _

/-- the flags extracted on this run satisfy the hypotheses above -/
theorem run_flags_ok : flagOK Gen.sortFlagTable = true ∧ flagOK Gen.sortFlagVector = true := by decide

/-- the defaults of the two signatures: `reverse=False, na_last=True` -/
theorem sortBy_defaults : tableSortByDefaultsT = (.single false, true) ∧ vectorSortByDefaultsT = (false, true) :=
  ⟨rfl, rfl⟩

/-! ### non-vacuity: the translated functions evaluated on concrete inputs (with the reference sort for `list.sort`) -/

/-- a table with columns a = [1, None, 0, 1], b = [0, 1, None, 0], c = [10, 11, 12, 13] -/
private def gi : String → Option (List Cell)
  | "a" => some [some 1, none, some 0, some 1]
  | "b" => some [some 0, some 1, none, some 0]
  | _ => none

private def tcols : List (List Nat) := [[1, 100, 0, 1], [0, 1, 100, 0], [10, 11, 12, 13]]

/-- `t.sort_by(["a", t.b], reverse=[True, False], na_last=False)`: the model's example (index list [1, 0, 3, 2]) -/
example : tableSortByT gi Gen.sortFlagTable refSort 0 tcols 4
    (.seq [.str "a", .vector [some 0, some 1, none, some 0]]) (.seq [true, false]) false
    = .ok [[100, 1, 1, 0], [1, 0, 0, 100], [11, 10, 13, 12]] := by rfl

/-- `t.sort_by("a", reverse=True)`: descending, ties (rows 0 and 3) in input order, None last -/
example : tableSortByT gi Gen.sortFlagTable refSort 0 tcols 4 (.single (.str "a")) (.single true) true
    = .ok [[1, 1, 0, 100], [0, 0, 100, 1], [10, 13, 12, 11]] := by rfl

/-- refusals: empty key list, unknown name, a non-key, wrong number of flags, a key of another length, bad `by`, bad `reverse` -/
example : tableSortByT gi Gen.sortFlagTable refSort 0 tcols 4 (.seq []) (.single false) true = .error .value := by rfl
example : tableSortByT gi Gen.sortFlagTable refSort 0 tcols 4 (.seq [.str "a", .str "zz"]) (.single false) true = .error .key := by
  rfl
example : tableSortByT gi Gen.sortFlagTable refSort 0 tcols 4 (.seq [.other, .str "zz"]) (.single false) true = .error .type := by
  rfl
example : tableSortByT gi Gen.sortFlagTable refSort 0 tcols 4 (.single (.str "a")) (.seq [true, false]) true = .error .value := by
  rfl
example : tableSortByT gi Gen.sortFlagTable refSort 0 tcols 4 (.single (.vector [some 1])) (.single false) true = .error .value := by
  rfl
example : tableSortByT gi Gen.sortFlagTable refSort 0 tcols 4 .other (.single false) true = .error .type := by rfl
example : tableSortByT gi Gen.sortFlagTable refSort 0 tcols 4 (.single (.str "a")) .other true = .error .type := by rfl
/-- the error of `reverse` comes before the errors of the keys, the error of `by` before both -/
example : tableSortByT gi Gen.sortFlagTable refSort 0 tcols 4 (.single (.str "zz")) .other true = .error .type := by rfl
example : tableSortByT gi Gen.sortFlagTable refSort 0 tcols 4 (.seq []) .other true = .error .value := by rfl

/-- the empty-table shortcut -/
example : tableSortByT (fun _ => some []) Gen.sortFlagTable refSort 0 [[], [], ([] : List Nat)] 0 (.single (.str "a")) (.single true) true
    = .ok [[], [], []] := by rfl

/-- `Vector([1, None, True, 0, 1.0]).sort_by(reverse=True)` (the model's example), None replaced by a `0` that ranks anywhere -/
example : vectorSortByT Gen.sortFlagVector (some 7) refSort [(some 1, 1), (none, 0), (some 1, 2), (some 0, 3), (some 1, 4)] true true
    = [(some 1, 1), (some 1, 2), (some 1, 4), (some 0, 3), (none, 0)] := by decide

/-- the hypotheses of the theorems are satisfiable: `refSort` is a stable sort, the flags of this run are `flagOK` -/
example : StableSort (refSort (α := Nat)) ∧ StableSort (refSort (α := Elem)) ∧ flagOK Gen.sortFlagTable = true :=
  ⟨refSort_stable, refSort_stable, run_flags_ok.1⟩

example : validate 4 (byArgOf gi (.seq [.str "a", .vector [some 0, some 1, none, some 0]])) (revArgOf (.seq [true, false]))
    = .ok [([some 1, none, some 0, some 1], true), ([some 0, some 1, none, some 0], false)] := by rfl

/-- the separation hypothesis of `vectorSortBy_eq` holds for the flag of this run … -/
example (rev naLast : Bool) : Gen.sortFlagVector true rev naLast ≠ Gen.sortFlagVector false rev naLast :=
  flagOK_separates run_flags_ok.2 rev naLast

/-- … and it is not superfluous: with a constant flag the `0` that replaces None is compared with the values (the source then
    moves the None in front of the 1), which the model does not describe -/
example : vectorSortByT (fun _ _ _ => false) (some 0) refSort [(some 1, 0), (none, 1)] false true
    ≠ sortByVector (fun _ _ _ => false) false true [(some 1, 0), (none, 1)] := by decide

end Serif.Tie
