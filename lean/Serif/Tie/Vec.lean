/-
  Translation tie for the elementwise helpers (C05, C06): the per-element rules of `Vector._elementwise_operation`
  (`None if (x is None or y is None) else op_func(x, y)` in the Vector and the iterable branch, `None if x is None else
  op_func(x, other)` for a scalar), of `Vector._elementwise_compare` (`False if … else bool(op(x, y))`) and of
  `Vector._unary_operation`, and the order of the operand branches with their length checks, translated from the source
  (`Serif/Gen/TranslatedVec.lean`), are the model's `Vec.cell`, `Vec.cmpCell`, `Vec.cell1` and `Vec.apply` — for every scalar
  operation (which may raise), every operand and all elements.  Supplementary (see Serif/Tie/Typing.lean).
-/
import Serif.Gen.TranslatedVec
import Serif.Model.Vec

namespace Serif.Tie
open Serif Serif.Vec Serif.Gen.TV

variable {α β γ : Type}

theorem arithCellVec_eq (op : α → β → Res γ) (x : Option α) (y : Option β) : arithCellVecT op x y = cell op x y := by
  cases x <;> cases y <;> simp [arithCellVecT, cell]
  split <;> simp_all

theorem arithCellSeq_eq (op : α → β → Res γ) (x : Option α) (y : Option β) : arithCellSeqT op x y = cell op x y := by
  cases x <;> cases y <;> simp [arithCellSeqT, cell]
  split <;> simp_all

theorem arithCellScalar_eq (op : α → β → Res γ) (s : β) (x : Option α) : arithCellScalarT op s x = cell op x (some s) := by
  cases x <;> simp [arithCellScalarT, cell]
  split <;> simp_all

theorem cmpCellVec_eq (op : α → β → Res Bool) (x : Option α) (y : Option β) : cmpCellVecT op x y = cmpCell op x y := by
  cases x <;> cases y <;> rfl

theorem cmpCellSeq_eq (op : α → β → Res Bool) (x : Option α) (y : Option β) : cmpCellSeqT op x y = cmpCell op x y := by
  cases x <;> cases y <;> rfl

theorem cmpCellScalar_eq (op : α → β → Res Bool) (s : β) (x : Option α) : cmpCellScalarT op s x = cmpCell op x (some s) := by
  cases x <;> rfl

theorem unaryCell_eq (f : α → Res γ) (x : Option α) : unaryCellT f x = cell1 f x := by
  cases x <;> simp [unaryCellT, cell1]
  split <;> simp_all

/-- the whole of `_elementwise_operation` on a 1-D vector: the translated branch order and length checks around the translated
    per-element rules are the model's `elementwise` -/
theorem elementwise_eq (op : α → β → Res γ) (xs : Col α) (o : Operand β) :
    arithBranchesT (match o with | .vec _ _ => true | _ => false) (match o with | .seq _ => true | _ => false)
      xs.length ((o.len?).getD 0)
      (match o with | .vec ys _ => zipCells (arithCellVecT op) xs ys | _ => .error .other)
      (match o with | .seq ys => zipCells (arithCellSeqT op) xs ys | _ => .error .other)
      (match o with | .scalar s => mapRes (arithCellScalarT op s) xs | _ => .error .other)
    = elementwise op xs o := by
  have h1 : arithCellVecT op = cell op := by funext x y; exact arithCellVec_eq op x y
  have h2 : arithCellSeqT op = cell op := by funext x y; exact arithCellSeq_eq op x y
  cases o with
  | vec ys d => simp [arithBranchesT, elementwise, apply, seqOp, Operand.len?, h1]
  | seq ys => simp [arithBranchesT, elementwise, apply, seqOp, Operand.len?, h2]
  | scalar s =>
    have h3 : arithCellScalarT op s = fun x => cell op x (some s) := by funext x; exact arithCellScalar_eq op s x
    simp [arithBranchesT, elementwise, apply, scalarOp, h3]

/-- the same for `_elementwise_compare` (before the result is wrapped as a non-nullable bool vector) -/
theorem compare_eq (op : α → β → Res Bool) (xs : Col α) (o : Operand β) :
    cmpBranchesT (match o with | .vec _ _ => true | _ => false) (match o with | .seq _ => true | _ => false)
      xs.length ((o.len?).getD 0)
      (match o with | .vec ys _ => zipCells (cmpCellVecT op) xs ys | _ => .error .other)
      (match o with | .seq ys => zipCells (cmpCellSeqT op) xs ys | _ => .error .other)
      (match o with | .scalar s => mapRes (cmpCellScalarT op s) xs | _ => .error .other)
    = apply (cmpCell op) xs o := by
  have h1 : cmpCellVecT op = cmpCell op := by funext x y; exact cmpCellVec_eq op x y
  have h2 : cmpCellSeqT op = cmpCell op := by funext x y; exact cmpCellSeq_eq op x y
  cases o with
  | vec ys d => simp [cmpBranchesT, apply, seqOp, Operand.len?, h1]
  | seq ys => simp [cmpBranchesT, apply, seqOp, Operand.len?, h2]
  | scalar s =>
    have h3 : cmpCellScalarT op s = fun x => cmpCell op x (some s) := by funext x; exact cmpCellScalar_eq op s x
    simp [cmpBranchesT, apply, scalarOp, h3]

end Serif.Tie
