/-
  Translation tie for what happens AROUND the hash loops of the joins (C09, C10; the same code serves C11) and of group-by (C13; the
  aggregate pieces serve C12).  The generated file `Serif/Gen/TranslatedAssemble.lean` (harness/tr/assemble.py, regenerated from the
  source on every run) holds, statement by statement,
    for each of `Table.inner_join`, `Table.join`, `Table.full_join`: the key columns (`left_keys`, `right_keys`), the key tuple of a
    row in the build and in the probe loop, the initial `result_data`, every group of loops that appends one cell per column
    (`emitRowT<Tag><k>`; recognised by `_JoinMethod.cell_group`, which the existing tie `Serif/Tie/Join.lean` abstracts to one output
    pair), the dispatch pair -> group (`emitPairT<Tag>`), and the end of the method (empty-result test, wrapping of the buffers into
    named Vectors, `Table(result_cols)`);
    for `Table.window`: the key tuple of a row, `row_keys` (pre-allocated, filled by index), `compute_group_values`, `expand_to_rows`,
    the two statements that make one built-in column, the copied key columns; for `Table.aggregate`: the key tuple, the key columns
    built from `group_items`, `aggregate_col`.
  Here they are proved equal to the model — `Join.keyTuples`, `Join.resultCols`, `Join.assemble`; `Group.rowKeys`,
  `Group.computeGroupValues`, `Group.expandToRows`, `Group.windowCol`, `Group.aggCol`, the key-column part of
  `Group.windowCells` / `Group.aggregateCells` and the names `Group.uniquifyAll` hands out — for ALL inputs.
  Parameters of the translation, instantiated here as the model reads them: `getitem` / `data[i]` (a cell, None out of range:
  `getCell`, `pyListGet`), `nameOf` (`col._name`), `Vector` (the constructor: `mkVec` infers the dtype with `Join.colDType`),
  `len(self)` (`Tab.nrows`), `uniquify` (`Group.uniquify`), `sanitize` / `make_agg_name` and the reducers (arbitrary functions).
  Hypotheses that appear: output pairs have a shape for which the method has a group of appends (`ShapeIn shapesT<Tag>`, proved for
  everything `joinCore` returns: `joinCore_shape_*`), row indices are in range / key tuples have `len(over)` components (true for
  what `partition` and `rowKeys` produce).  Supplementary (see Serif/Tie/Typing.lean): if the source is rewritten in an idiom the
  translator does not understand this module does not build, which is recorded and is not by itself a violation.
-/
import Serif.Gen.TranslatedAssemble
import Serif.Tie.Join
import Serif.Proofs.Group

set_option linter.unusedSimpArgs false
set_option linter.unusedVariables false

namespace Serif.Tie
open Serif Serif.Join Serif.Gen.TA Serif.Gen.TR

/-! ## 1. Joins -/

section cells
variable {α C V : Type}

/-! ### list lemmas about buffers addressed by position -/

private theorem modify_at_length (pre : List (List α)) (m : List α) (rest : List (List α)) (f : List α → List α) (i : Nat)
    (hi : i = pre.length) : (pre ++ m :: rest).modify i f = pre ++ f m :: rest := by
  subst hi
  induction pre with
  | nil => simp [List.modify_cons]
  | cons p ps ih => simp [List.modify_cons, ih]

/-- `for k, col in enumerate(cols): append_cols[base + k](g(col))` appends `g col` to the buffers `base ..` -/
theorem appendCols_fold (g : C → α) (cols : List C) (base s : Nat) (pre mid post : List (List α))
    (hp : pre.length = base + s) (hm : mid.length = cols.length) :
    (cols.zipIdx s).foldl (fun rd p => pyAppendAt rd (base + p.2) (g p.1)) (pre ++ mid ++ post)
      = pre ++ List.zipWith (fun b c => b ++ [g c]) mid cols ++ post := by
  induction cols generalizing s pre mid with
  | nil => cases mid <;> simp_all
  | cons c cs ih =>
    cases mid with
    | nil => simp at hm
    | cons m ms =>
      simp only [List.zipIdx_cons, List.foldl_cons]
      have h1 : pyAppendAt (pre ++ (m :: ms) ++ post) (base + s) (g c) = (pre ++ [m ++ [g c]]) ++ ms ++ post := by
        unfold pyAppendAt
        rw [List.append_assoc, List.cons_append, modify_at_length _ _ _ _ _ hp.symm]
        simp
      rw [h1, ih (s + 1) (pre ++ [m ++ [g c]]) ms (by simp [hp]; omega) (by simpa using hm)]
      simp

/-- `for k in range(n): append_cols[base + k](v)` -/
theorem appendConst_fold (v : α) (n base s : Nat) (pre mid post : List (List α))
    (hp : pre.length = base + s) (hm : mid.length = n) :
    (List.range' s n).foldl (fun rd k => pyAppendAt rd (base + k) v) (pre ++ mid ++ post)
      = pre ++ mid.map (· ++ [v]) ++ post := by
  induction n generalizing s pre mid with
  | zero => cases mid <;> simp_all
  | succ n ih =>
    cases mid with
    | nil => simp at hm
    | cons m ms =>
      simp only [List.range'_succ, List.foldl_cons]
      have h1 : pyAppendAt (pre ++ (m :: ms) ++ post) (base + s) v = (pre ++ [m ++ [v]]) ++ ms ++ post := by
        unfold pyAppendAt
        rw [List.append_assoc, List.cons_append, modify_at_length _ _ _ _ _ hp.symm]
        simp
      rw [h1, ih (s + 1) (pre ++ [m ++ [v]]) ms (by simp [hp]; omega) (by simpa using hm)]
      simp

/-- `for k, orig in enumerate(cols): result_cols.append(Vector(result_data[base + k], name=orig._name))` -/
theorem wrap_fold (mk : List α → Option String → V) (nameOf : C → Option String) (cs : List C) (base s : Nat)
    (pre mid post : List (List α)) (hp : pre.length = base + s) (hm : mid.length = cs.length) (acc : List V) :
    (cs.zipIdx s).foldl (fun acc p => acc ++ [mk (pyBuf (pre ++ mid ++ post) (base + p.2)) (nameOf p.1)]) acc
      = acc ++ List.zipWith (fun c a => mk a (nameOf c)) cs mid := by
  induction cs generalizing s pre mid acc with
  | nil => simp
  | cons c cs ih =>
    cases mid with
    | nil => simp at hm
    | cons m ms =>
      have hl : pre ++ (m :: ms) ++ post = (pre ++ [m]) ++ ms ++ post := by simp
      have hb : pyBuf ((pre ++ [m]) ++ ms ++ post) (base + s) = m := by
        unfold pyBuf
        rw [← hp]; simp
      rw [hl]
      simp only [List.zipIdx_cons, List.foldl_cons, hb]
      rw [ih (s + 1) (pre ++ [m]) ms (by simp [hp]; omega) (by simpa using hm)]
      simp

end cells

/-! ### one appended row -/

section rows
variable {α C V : Type} (pad : α) (cells : C → List α)

/-- the parameter `getitem` of the translation instantiated as the model reads a cell: `col[i]`, None out of range -/
def getCell (c : C) (i : Nat) : α := (cells c)[i]?.getD pad

/-- the model's view of one appended output row: every buffer gets the cell of its column (`Join.rowAt`: `col[idx]` or None) -/
def appendRow (lcols rcols : List (List α)) (rd : List (List α)) (p : Pair) : List (List α) :=
  List.zipWith (fun b v => b ++ [v]) rd (rowAt pad lcols p.1 ++ rowAt pad rcols p.2)

theorem appendRow_length (lcols rcols : List (List α)) (rd : List (List α)) (p : Pair)
    (h : rd.length = lcols.length + rcols.length) : (appendRow pad lcols rcols rd p).length = lcols.length + rcols.length := by
  simp [appendRow, rowAt, h]

private theorem split_buffers (rd : List (List α)) (a b : Nat) (h : rd.length = a + b) :
    ∃ A B, rd = A ++ B ∧ A.length = a ∧ B.length = b :=
  ⟨rd.take a, rd.drop a, (List.take_append_drop a rd).symm, by simp [h], by simp [h]⟩

/-- the three forms a group of appends has in the source (left cells | None, then right cells | None), as folds -/
def emitSS (lc rc : List C) (rd : List (List α)) (i j : Nat) : List (List α) :=
  rc.zipIdx.foldl (fun rd p => pyAppendAt rd (lc.length + p.2) (getCell pad cells p.1 j))
    (lc.zipIdx.foldl (fun rd p => pyAppendAt rd p.2 (getCell pad cells p.1 i)) rd)

def emitSN (lc rc : List C) (rd : List (List α)) (i : Nat) : List (List α) :=
  (List.range rc.length).foldl (fun rd k => pyAppendAt rd (lc.length + k) pad)
    (lc.zipIdx.foldl (fun rd p => pyAppendAt rd p.2 (getCell pad cells p.1 i)) rd)

def emitNS (lc rc : List C) (rd : List (List α)) (j : Nat) : List (List α) :=
  rc.zipIdx.foldl (fun rd p => pyAppendAt rd (lc.length + p.2) (getCell pad cells p.1 j))
    ((List.range lc.length).foldl (fun rd k => pyAppendAt rd k pad) rd)

private theorem leftCells (lc : List C) (A B : List (List α)) (hA : A.length = lc.length) (i : Nat) :
    lc.zipIdx.foldl (fun rd p => pyAppendAt rd p.2 (getCell pad cells p.1 i)) (A ++ B)
      = List.zipWith (fun b c => b ++ [getCell pad cells c i]) A lc ++ B := by
  have := appendCols_fold (fun c => getCell pad cells c i) lc 0 0 [] A B rfl hA
  simpa using this

private theorem rightCells (lc rc : List C) (A' B : List (List α)) (hA : A'.length = lc.length) (hB : B.length = rc.length) (j : Nat) :
    rc.zipIdx.foldl (fun rd p => pyAppendAt rd (lc.length + p.2) (getCell pad cells p.1 j)) (A' ++ B)
      = A' ++ List.zipWith (fun b c => b ++ [getCell pad cells c j]) B rc := by
  have := appendCols_fold (fun c => getCell pad cells c j) rc lc.length 0 A' B [] (by simpa using hA) hB
  simpa using this

private theorem leftNone (n : Nat) (A B : List (List α)) (hA : A.length = n) :
    (List.range n).foldl (fun rd k => pyAppendAt rd k pad) (A ++ B) = A.map (· ++ [pad]) ++ B := by
  have := appendConst_fold pad n 0 0 [] A B rfl hA
  rw [List.range_eq_range']
  simpa using this

private theorem rightNone (a n : Nat) (A' B : List (List α)) (hA : A'.length = a) (hB : B.length = n) :
    (List.range n).foldl (fun rd k => pyAppendAt rd (a + k) pad) (A' ++ B) = A' ++ B.map (· ++ [pad]) := by
  have := appendConst_fold pad n a 0 A' B [] (by simpa using hA) hB
  rw [List.range_eq_range']
  simpa using this

private theorem zipWith_cells (A : List (List α)) (cs : List C) (i : Nat) :
    List.zipWith (fun b c => b ++ [getCell pad cells c i]) A cs
      = List.zipWith (fun b v => b ++ [v]) A (rowAt pad (cs.map cells) (some i)) := by
  simp [rowAt, List.zipWith_map_right, cellAt, getCell]

private theorem map_none (A : List (List α)) (cs : List C) (hA : A.length = cs.length) :
    A.map (· ++ [pad]) = List.zipWith (fun b v => b ++ [v]) A (rowAt pad (cs.map cells) none) := by
  simp only [rowAt, cellAt, List.map_map]
  induction A generalizing cs with
  | nil => simp
  | cons a as ih =>
    cases cs with
    | nil => simp at hA
    | cons c cs => simp [ih cs (by simpa using hA)]

theorem emitSS_eq (lc rc : List C) (rd : List (List α)) (h : rd.length = lc.length + rc.length) (i j : Nat) :
    emitSS pad cells lc rc rd i j = appendRow pad (lc.map cells) (rc.map cells) rd (some i, some j) := by
  obtain ⟨A, B, rfl, hA, hB⟩ := split_buffers rd _ _ h
  unfold emitSS appendRow
  rw [leftCells pad cells lc A B hA, rightCells pad cells lc rc _ B (by simp [hA]) hB,
    List.zipWith_append (by simp [rowAt, hA]), zipWith_cells, zipWith_cells]

theorem emitSN_eq (lc rc : List C) (rd : List (List α)) (h : rd.length = lc.length + rc.length) (i : Nat) :
    emitSN pad cells lc rc rd i = appendRow pad (lc.map cells) (rc.map cells) rd (some i, none) := by
  obtain ⟨A, B, rfl, hA, hB⟩ := split_buffers rd _ _ h
  unfold emitSN appendRow
  rw [leftCells pad cells lc A B hA, rightNone pad lc.length rc.length _ B (by simp [hA]) hB,
    List.zipWith_append (by simp [rowAt, hA]), zipWith_cells, map_none pad cells B rc hB]

theorem emitNS_eq (lc rc : List C) (rd : List (List α)) (h : rd.length = lc.length + rc.length) (j : Nat) :
    emitNS pad cells lc rc rd j = appendRow pad (lc.map cells) (rc.map cells) rd (none, some j) := by
  obtain ⟨A, B, rfl, hA, hB⟩ := split_buffers rd _ _ h
  unfold emitNS appendRow
  rw [leftNone pad lc.length A B hA, rightCells pad cells lc rc _ B (by simp [hA]) hB,
    List.zipWith_append (by simp [rowAt, hA]), zipWith_cells, map_none pad cells A lc hA]

/-! #### the groups of the three methods are these forms (definitional: each `for` of the source is one of the folds) -/

theorem emitRowInner0_eq (lc rc : List C) (rd : List (List α)) (i j : Nat) :
    emitRowTInner0 pad (getCell pad cells) lc rc rd i j = emitSS pad cells lc rc rd i j := rfl
theorem emitRowLeft0_eq (lc rc : List C) (rd : List (List α)) (i j : Nat) :
    emitRowTLeft0 pad (getCell pad cells) lc rc rd i j = emitSS pad cells lc rc rd i j := rfl
theorem emitRowLeft1_eq (lc rc : List C) (rd : List (List α)) (i : Nat) :
    emitRowTLeft1 pad (getCell pad cells) lc rc rd i = emitSN pad cells lc rc rd i := rfl
theorem emitRowFull0_eq (lc rc : List C) (rd : List (List α)) (i j : Nat) :
    emitRowTFull0 pad (getCell pad cells) lc rc rd i j = emitSS pad cells lc rc rd i j := rfl
theorem emitRowFull1_eq (lc rc : List C) (rd : List (List α)) (i : Nat) :
    emitRowTFull1 pad (getCell pad cells) lc rc rd i = emitSN pad cells lc rc rd i := rfl
theorem emitRowFull2_eq (lc rc : List C) (rd : List (List α)) (j : Nat) :
    emitRowTFull2 pad (getCell pad cells) lc rc rd j = emitNS pad cells lc rc rd j := rfl

/-- a pair has one of the shapes for which the method has a group of appends (`shapesT<Tag>` is generated from the source) -/
def ShapeIn (shapes : List (Bool × Bool)) (p : Pair) : Prop := (p.1.isSome, p.2.isSome) ∈ shapes

/-- every output pair of `inner_join` runs a group of appends that appends the model's row -/
theorem emitPairInner_eq (lc rc : List C) (rd : List (List α)) (h : rd.length = lc.length + rc.length) (p : Pair)
    (hp : ShapeIn shapesTInner p) :
    emitPairTInner pad (getCell pad cells) lc rc rd p = appendRow pad (lc.map cells) (rc.map cells) rd p := by
  obtain ⟨_ | i, _ | j⟩ := p <;> simp [ShapeIn, shapesTInner] at hp
  exact (emitRowInner0_eq pad cells lc rc rd i j).trans (emitSS_eq pad cells lc rc rd h i j)

theorem emitPairLeft_eq (lc rc : List C) (rd : List (List α)) (h : rd.length = lc.length + rc.length) (p : Pair)
    (hp : ShapeIn shapesTLeft p) :
    emitPairTLeft pad (getCell pad cells) lc rc rd p = appendRow pad (lc.map cells) (rc.map cells) rd p := by
  obtain ⟨_ | i, _ | j⟩ := p <;> simp [ShapeIn, shapesTLeft] at hp
  · exact (emitRowLeft1_eq pad cells lc rc rd i).trans (emitSN_eq pad cells lc rc rd h i)
  · exact (emitRowLeft0_eq pad cells lc rc rd i j).trans (emitSS_eq pad cells lc rc rd h i j)

theorem emitPairFull_eq (lc rc : List C) (rd : List (List α)) (h : rd.length = lc.length + rc.length) (p : Pair)
    (hp : ShapeIn shapesTFull p) :
    emitPairTFull pad (getCell pad cells) lc rc rd p = appendRow pad (lc.map cells) (rc.map cells) rd p := by
  obtain ⟨_ | i, _ | j⟩ := p <;> simp [ShapeIn, shapesTFull] at hp
  · exact (emitRowFull2_eq pad cells lc rc rd j).trans (emitNS_eq pad cells lc rc rd h j)
  · exact (emitRowFull1_eq pad cells lc rc rd i).trans (emitSN_eq pad cells lc rc rd h i)
  · exact (emitRowFull0_eq pad cells lc rc rd i j).trans (emitSS_eq pad cells lc rc rd h i j)

end rows

/-! ### all rows: `result_data` after the loops is the model's `resultCols` -/

section buffers
variable {α C V : Type} (pad : α) (cells : C → List α)

private theorem foldl_congr_inv {σ π : Type} (f g : σ → π → σ) (I : σ → Prop) (P : π → Prop)
    (hfg : ∀ s p, I s → P p → f s p = g s p) (hI : ∀ s p, I s → I (g s p)) (ps : List π) (hP : ∀ p ∈ ps, P p) (s : σ) (hs : I s) :
    ps.foldl f s = ps.foldl g s := by
  induction ps generalizing s with
  | nil => rfl
  | cons p ps ih =>
    simp only [List.foldl_cons]
    rw [hfg s p hs (hP p (by simp))]
    exact ih (fun q hq => hP q (by simp [hq])) _ (hI s p hs)

private theorem zipWith_sel {π : Type} (sel : List (π → α)) (acc : List π) (p : π) :
    List.zipWith (fun b v => b ++ [v]) (sel.map (fun s => acc.map s)) (sel.map (fun s => s p))
      = sel.map (fun s => (acc ++ [p]).map s) := by
  induction sel with
  | nil => rfl
  | cons s ss ih => simp [ih]

private theorem foldl_sel {π : Type} (sel : List (π → α)) (ps acc : List π) :
    ps.foldl (fun rd p => List.zipWith (fun b v => b ++ [v]) rd (sel.map (fun s => s p))) (sel.map (fun s => acc.map s))
      = sel.map (fun s => (acc ++ ps).map s) := by
  induction ps generalizing acc with
  | nil => simp
  | cons p ps ih =>
    simp only [List.foldl_cons, zipWith_sel, ih]
    simp

/-- appending the model's row for every output pair to empty buffers gives the model's `resultCols` -/
theorem appendRows_eq (L R : Tab α) (ps : List Pair) :
    ps.foldl (appendRow pad L.cols R.cols) ((List.range (L.cols.length + R.cols.length)).map (fun _ => []))
      = resultCols pad L R ps := by
  have hsel := foldl_sel (L.cols.map (fun c (p : Pair) => cellAt pad c p.1) ++ R.cols.map (fun c (p : Pair) => cellAt pad c p.2)) ps []
  have hinit : (List.range (L.cols.length + R.cols.length)).map (fun _ => ([] : List α))
      = (L.cols.map (fun c (p : Pair) => cellAt pad c p.1) ++ R.cols.map (fun c (p : Pair) => cellAt pad c p.2)).map
          (fun s => ([] : List Pair).map s) := by
    simp [List.map_const', Function.comp_def, List.replicate_append_replicate]
  have hf : appendRow pad L.cols R.cols = fun rd p => List.zipWith (fun b v => b ++ [v]) rd
      ((L.cols.map (fun c (p : Pair) => cellAt pad c p.1) ++ R.cols.map (fun c (p : Pair) => cellAt pad c p.2)).map (fun s => s p)) := by
    funext rd p
    simp [appendRow, rowAt, Function.comp_def]
  rw [hinit, hf, hsel]
  simp [resultCols, Function.comp_def]

/-- the model's tables, from the lists of columns the translation works on (`nameOf` = `col._name`, `cells` = the values) -/
def tabOf (nameOf : C → Option String) (cs : List C) : Tab α := { names := cs.map nameOf, cols := cs.map cells }

private theorem init_length (n : Nat) : ((List.range n).map (fun _ => ([] : List α))).length = n := by simp

/-- `inner_join`: `result_data` after all output pairs ran their group of appends -/
theorem resultDataInner_eq (nameOf : C → Option String) (lc rc : List C) (ps : List Pair) (hps : ∀ p ∈ ps, ShapeIn shapesTInner p) :
    ps.foldl (emitPairTInner pad (getCell pad cells) lc rc) (resultDataInitTInner lc rc)
      = resultCols pad (tabOf cells nameOf lc) (tabOf cells nameOf rc) ps := by
  rw [← appendRows_eq]
  simp only [tabOf, List.length_map]
  exact foldl_congr_inv _ _ (fun rd => rd.length = lc.length + rc.length) (ShapeIn shapesTInner)
    (fun rd p h hp => emitPairInner_eq pad cells lc rc rd h p hp)
    (fun rd p h => by simpa using appendRow_length pad (lc.map cells) (rc.map cells) rd p (by simpa using h))
    ps hps _ (by simp [resultDataInitTInner])

theorem resultDataLeft_eq (nameOf : C → Option String) (lc rc : List C) (ps : List Pair) (hps : ∀ p ∈ ps, ShapeIn shapesTLeft p) :
    ps.foldl (emitPairTLeft pad (getCell pad cells) lc rc) (resultDataInitTLeft lc rc)
      = resultCols pad (tabOf cells nameOf lc) (tabOf cells nameOf rc) ps := by
  rw [← appendRows_eq]
  simp only [tabOf, List.length_map]
  exact foldl_congr_inv _ _ (fun rd => rd.length = lc.length + rc.length) (ShapeIn shapesTLeft)
    (fun rd p h hp => emitPairLeft_eq pad cells lc rc rd h p hp)
    (fun rd p h => by simpa using appendRow_length pad (lc.map cells) (rc.map cells) rd p (by simpa using h))
    ps hps _ (by simp [resultDataInitTLeft])

theorem resultDataFull_eq (nameOf : C → Option String) (lc rc : List C) (ps : List Pair) (hps : ∀ p ∈ ps, ShapeIn shapesTFull p) :
    ps.foldl (emitPairTFull pad (getCell pad cells) lc rc) (resultDataInitTFull lc rc)
      = resultCols pad (tabOf cells nameOf lc) (tabOf cells nameOf rc) ps := by
  rw [← appendRows_eq]
  simp only [tabOf, List.length_map]
  exact foldl_congr_inv _ _ (fun rd => rd.length = lc.length + rc.length) (ShapeIn shapesTFull)
    (fun rd p h hp => emitPairFull_eq pad cells lc rc rd h p hp)
    (fun rd p h => by simpa using appendRow_length pad (lc.map cells) (rc.map cells) rd p (by simpa using h))
    ps hps _ (by simp [resultDataInitTFull])

end buffers

/-! ### the end of the methods: empty-result test and wrapping into named Vectors -/

section finish
variable {α C : Type} (pad : α) (cells : C → List α) (nameOf : C → Option String) (tagOf : α → Tag)

/-- what the model observes of a result column: name, values, inferred dtype -/
abbrev VecOut (α : Type) := Option String × List α × Option DType

/-- the parameter `Vector` of the translation: `Vector(data, name=name)`, its dtype inferred as the model does (`Join.colDType`) -/
def mkVec (data : List α) (name : Option String) : VecOut α := (name, data, colDType tagOf data)

/-- `Table(result_cols)` as the model's `Out` (`Table(())` = no columns) -/
def outOf (vs : List (VecOut α)) : Out α := { names := vs.map (·.1), cols := vs.map (·.2.1), dtypes := vs.map (·.2.2) }

/-- the two wrapping loops over `result_data = A ++ B` -/
theorem wrap_eq {V : Type} (mk : List α → Option String → V) (lc rc : List C) (A B : List (List α))
    (hA : A.length = lc.length) (hB : B.length = rc.length) :
    rc.zipIdx.foldl (fun acc p => acc ++ [mk (pyBuf (A ++ B) (lc.length + p.2)) (nameOf p.1)])
      (lc.zipIdx.foldl (fun acc p => acc ++ [mk (pyBuf (A ++ B) p.2) (nameOf p.1)]) [])
    = List.zipWith (fun c a => mk a (nameOf c)) lc A ++ List.zipWith (fun c a => mk a (nameOf c)) rc B := by
  have h1 := wrap_fold mk nameOf lc 0 0 [] A B rfl hA []
  have h2 := wrap_fold mk nameOf rc lc.length 0 A B [] (by simpa using hA) hB
  simp only [List.nil_append, Nat.zero_add, List.append_nil] at h1 h2
  rw [h1, h2]

private theorem zipWith_left {β γ : Type} (f : C → γ) (cs : List C) (A : List β) (h : A.length = cs.length) :
    List.zipWith (fun x _ => f x) cs A = cs.map f := by
  induction cs generalizing A with
  | nil => simp
  | cons c cs ih => cases A with
    | nil => simp at h
    | cons a as => simp [ih as (by simpa using h)]

private theorem zipWith_right {β γ : Type} (g : β → γ) (cs : List C) (A : List β) (h : A.length = cs.length) :
    List.zipWith (fun _ y => g y) cs A = A.map g := by
  induction cs generalizing A with
  | nil => cases A <;> simp_all
  | cons c cs ih => cases A with
    | nil => simp at h
    | cons a as => simp [ih as (by simpa using h)]

private theorem zipWith_names (cs : List C) (A : List (List α)) (h : A.length = cs.length) :
    (List.zipWith (fun c a => mkVec tagOf a (nameOf c)) cs A).map (·.1) = cs.map nameOf := by
  simp only [List.map_zipWith, mkVec]; exact zipWith_left nameOf cs A h

private theorem zipWith_cols (cs : List C) (A : List (List α)) (h : A.length = cs.length) :
    (List.zipWith (fun c a => mkVec tagOf a (nameOf c)) cs A).map (·.2.1) = A := by
  simp only [List.map_zipWith, mkVec]; simpa using zipWith_right (fun a => a) cs A h

private theorem zipWith_dtypes (cs : List C) (A : List (List α)) (h : A.length = cs.length) :
    (List.zipWith (fun c a => mkVec tagOf a (nameOf c)) cs A).map (·.2.2) = A.map (colDType tagOf) := by
  simp only [List.map_zipWith, mkVec]; exact zipWith_right (colDType tagOf) cs A h

/-- wrapped buffers, observed -/
theorem outOf_wrap (lc rc : List C) (A B : List (List α)) (hA : A.length = lc.length) (hB : B.length = rc.length) :
    outOf (List.zipWith (fun c a => mkVec tagOf a (nameOf c)) lc A ++ List.zipWith (fun c a => mkVec tagOf a (nameOf c)) rc B)
      = { names := lc.map nameOf ++ rc.map nameOf, cols := A ++ B, dtypes := (A ++ B).map (colDType tagOf) } := by
  simp only [outOf, List.map_append, zipWith_names nameOf tagOf lc A hA, zipWith_names nameOf tagOf rc B hB,
    zipWith_cols nameOf tagOf lc A hA, zipWith_cols nameOf tagOf rc B hB, zipWith_dtypes nameOf tagOf lc A hA,
    zipWith_dtypes nameOf tagOf rc B hB]

private theorem resultCols_split (lc rc : List C) (ps : List Pair) :
    ∃ A B, resultCols pad (tabOf cells nameOf lc) (tabOf cells nameOf rc) ps = A ++ B ∧ A.length = lc.length ∧ B.length = rc.length :=
  ⟨_, _, rfl, by simp [tabOf], by simp [tabOf]⟩

private theorem len0 : (fun (col : List α) => col.length == 0) = List.isEmpty := by
  funext col; cases col <;> rfl

/-- the end of `inner_join` on the model's buffers is the model's `assemble` -/
theorem finishInner_eq (lc rc : List C) (nL nR : Nat) (ps : List Pair) :
    outOf (finishTInner nameOf (mkVec tagOf) lc rc nL nR (resultCols pad (tabOf cells nameOf lc) (tabOf cells nameOf rc) ps))
      = assemble pad tagOf .inner (tabOf cells nameOf lc) (tabOf cells nameOf rc) ps := by
  obtain ⟨A, B, hAB, hA, hB⟩ := resultCols_split pad cells nameOf lc rc ps
  unfold finishTInner assemble shortcut
  simp only [len0, hAB]
  split
  · rfl
  · exact (congrArg outOf (wrap_eq nameOf (mkVec tagOf) lc rc A B hA hB)).trans (outOf_wrap nameOf tagOf lc rc A B hA hB)

/-- the end of `join` (left join); `left_nrows` is `len(self)`, the model's `Tab.nrows` -/
theorem finishLeft_eq (lc rc : List C) (nR : Nat) (ps : List Pair) :
    outOf (finishTLeft nameOf (mkVec tagOf) lc rc (tabOf cells nameOf lc).nrows nR
        (resultCols pad (tabOf cells nameOf lc) (tabOf cells nameOf rc) ps))
      = assemble pad tagOf .left (tabOf cells nameOf lc) (tabOf cells nameOf rc) ps := by
  obtain ⟨A, B, hAB, hA, hB⟩ := resultCols_split pad cells nameOf lc rc ps
  unfold finishTLeft assemble shortcut
  simp only [hAB]
  split
  · rfl
  · exact (congrArg outOf (wrap_eq nameOf (mkVec tagOf) lc rc A B hA hB)).trans (outOf_wrap nameOf tagOf lc rc A B hA hB)

/-- the end of `full_join` -/
theorem finishFull_eq (lc rc : List C) (ps : List Pair) :
    outOf (finishTFull nameOf (mkVec tagOf) lc rc (tabOf cells nameOf lc).nrows (tabOf cells nameOf rc).nrows
        (resultCols pad (tabOf cells nameOf lc) (tabOf cells nameOf rc) ps))
      = assemble pad tagOf .full (tabOf cells nameOf lc) (tabOf cells nameOf rc) ps := by
  obtain ⟨A, B, hAB, hA, hB⟩ := resultCols_split pad cells nameOf lc rc ps
  unfold finishTFull assemble shortcut
  simp only [hAB]
  split
  · rfl
  · exact (congrArg outOf (wrap_eq nameOf (mkVec tagOf) lc rc A B hA hB)).trans (outOf_wrap nameOf tagOf lc rc A B hA hB)

/-! ### the methods from `result_data = ...` to `return Table(result_cols)` -/

/-- `Table.inner_join` after the loops decided the output pairs `ps`: initial buffers, one group of appends per pair, empty-result
    test, wrapping — translated — is the model's `Join.assemble .inner`, for all tables (given as lists of columns) and all lists
    of pairs of the shapes the method emits -/
theorem assembleInner_eq (lc rc : List C) (nL nR : Nat) (ps : List Pair) (hps : ∀ p ∈ ps, ShapeIn shapesTInner p) :
    outOf (assembleTInner pad (getCell pad cells) nameOf (mkVec tagOf) lc rc nL nR ps)
      = assemble pad tagOf .inner (tabOf cells nameOf lc) (tabOf cells nameOf rc) ps := by
  unfold assembleTInner
  simp only [resultDataInner_eq pad cells nameOf lc rc ps hps]
  exact finishInner_eq pad cells nameOf tagOf lc rc nL nR ps

theorem assembleLeft_eq (lc rc : List C) (nR : Nat) (ps : List Pair) (hps : ∀ p ∈ ps, ShapeIn shapesTLeft p) :
    outOf (assembleTLeft pad (getCell pad cells) nameOf (mkVec tagOf) lc rc (tabOf cells nameOf lc).nrows nR ps)
      = assemble pad tagOf .left (tabOf cells nameOf lc) (tabOf cells nameOf rc) ps := by
  unfold assembleTLeft
  simp only [resultDataLeft_eq pad cells nameOf lc rc ps hps]
  exact finishLeft_eq pad cells nameOf tagOf lc rc nR ps

theorem assembleFull_eq (lc rc : List C) (ps : List Pair) (hps : ∀ p ∈ ps, ShapeIn shapesTFull p) :
    outOf (assembleTFull pad (getCell pad cells) nameOf (mkVec tagOf) lc rc (tabOf cells nameOf lc).nrows
        (tabOf cells nameOf rc).nrows ps)
      = assemble pad tagOf .full (tabOf cells nameOf lc) (tabOf cells nameOf rc) ps := by
  unfold assembleTFull
  simp only [resultDataFull_eq pad cells nameOf lc rc ps hps]
  exact finishFull_eq pad cells nameOf tagOf lc rc ps

end finish

/-! ### key columns and the key tuple of a row -/

section keys
variable {α C : Type}

theorem leftKeysInner_eq (pairs : List (C × C)) : leftKeysTInner pairs = pairs.map (·.1) := rfl
theorem rightKeysInner_eq (pairs : List (C × C)) : rightKeysTInner pairs = pairs.map (·.2) := rfl
theorem leftKeysLeft_eq (pairs : List (C × C)) : leftKeysTLeft pairs = pairs.map (·.1) := rfl
theorem rightKeysLeft_eq (pairs : List (C × C)) : rightKeysTLeft pairs = pairs.map (·.2) := rfl
theorem leftKeysFull_eq (pairs : List (C × C)) : leftKeysTFull pairs = pairs.map (·.1) := rfl
theorem rightKeysFull_eq (pairs : List (C × C)) : rightKeysTFull pairs = pairs.map (·.2) := rfl

/-- the model's `keyTuples` (components seen through their equality class) from the per-row key of the source -/
private theorem keyTuples_of (keyT : (List Cell → Nat → Cell) → List (List Cell) → Nat → List Cell)
    (h : ∀ g cols i, keyT g cols i = cols.map (fun col => g col i)) (n : Nat) (cols : List (List Cell)) :
    ((List.range n).map (fun i => keyT (getCell Cell.none id) cols i)).map (·.map Cell.eq) = keyTuples n cols := by
  simp [keyTuples, h, getCell, Function.comp_def]

/-- `key = tuple(col[row_idx] for col in right_keys)` for every row of the build loop, and the same for the probe loop, are the
    key lists the model's `Join.run` feeds to `joinCore` (`kp` = the validated key pairs) -/
theorem buildKeysInner_eq (n : Nat) (kp : List (List Cell × List Cell)) :
    (buildKeysTInner (getCell Cell.none id) (rightKeysTInner kp) n).map (·.map Cell.eq) = keyTuples n (kp.map (·.2)) :=
  keyTuples_of buildKeyTInner (fun _ _ _ => rfl) n _
theorem probeKeysInner_eq (n : Nat) (kp : List (List Cell × List Cell)) :
    (probeKeysTInner (getCell Cell.none id) (leftKeysTInner kp) n).map (·.map Cell.eq) = keyTuples n (kp.map (·.1)) :=
  keyTuples_of probeKeyTInner (fun _ _ _ => rfl) n _
theorem buildKeysLeft_eq (n : Nat) (kp : List (List Cell × List Cell)) :
    (buildKeysTLeft (getCell Cell.none id) (rightKeysTLeft kp) n).map (·.map Cell.eq) = keyTuples n (kp.map (·.2)) :=
  keyTuples_of buildKeyTLeft (fun _ _ _ => rfl) n _
theorem probeKeysLeft_eq (n : Nat) (kp : List (List Cell × List Cell)) :
    (probeKeysTLeft (getCell Cell.none id) (leftKeysTLeft kp) n).map (·.map Cell.eq) = keyTuples n (kp.map (·.1)) :=
  keyTuples_of probeKeyTLeft (fun _ _ _ => rfl) n _
theorem buildKeysFull_eq (n : Nat) (kp : List (List Cell × List Cell)) :
    (buildKeysTFull (getCell Cell.none id) (rightKeysTFull kp) n).map (·.map Cell.eq) = keyTuples n (kp.map (·.2)) :=
  keyTuples_of buildKeyTFull (fun _ _ _ => rfl) n _
theorem probeKeysFull_eq (n : Nat) (kp : List (List Cell × List Cell)) :
    (probeKeysTFull (getCell Cell.none id) (leftKeysTFull kp) n).map (·.map Cell.eq) = keyTuples n (kp.map (·.1)) :=
  keyTuples_of probeKeyTFull (fun _ _ _ => rfl) n _

/-- the source computes the key inside the loop (`for i in range(n): key = ...; <body>`); the translated loops of
    `Serif/Gen/TranslatedRel.lean` run over the list of keys with their positions: the same thing -/
theorem rangeLoop_eq_zipIdx {σ κ : Type} (step : σ → κ → Nat → σ) (keyOf : Nat → κ) (n s : Nat) (st : σ) :
    (List.range' s n).foldl (fun st i => step st (keyOf i) i) st
      = (((List.range' s n).map keyOf).zipIdx s).foldl (fun st p => step st p.1 p.2) st := by
  induction n generalizing s st with
  | zero => rfl
  | succ n ih => simp only [List.range'_succ, List.map_cons, List.zipIdx_cons, List.foldl_cons]; exact ih _ _

theorem rangeLoopM_eq_zipIdx {σ κ : Type} (step : σ → κ → Nat → Except Err σ) (keyOf : Nat → κ) (n s : Nat) (st : σ) :
    (List.range' s n).foldlM (fun st i => step st (keyOf i) i) st
      = (((List.range' s n).map keyOf).zipIdx s).foldlM (fun st p => step st p.1 p.2) st := by
  induction n generalizing s st with
  | zero => rfl
  | succ n ih =>
    simp only [List.range'_succ, List.map_cons, List.zipIdx_cons, List.foldlM_cons]
    cases step st (keyOf s) s with
    | error e => rfl
    | ok st' => exact ih _ _

end keys

/-! ### the pairs the loops produce have the shapes for which the method has a group of appends -/

section shapes
variable {K : Type} [DecidableEq K]

private theorem emit_shape (outer : Bool) (i : Nat) (b : List Nat) (p : Pair) (h : p ∈ emit outer i b) :
    p.1.isSome = true ∧ (p.2.isSome = true ∨ outer = true) := by
  unfold emit at h
  split at h
  · split at h
    · simp at h; subst h; simp [*]
    · simp at h
  · simp at h; obtain ⟨j, _, rfl⟩ := h; simp

private theorem probe_shape (outer chkL : Bool) (ix : Index K) (lk : List K) (i : Nat) (seen : List K) (r : List Pair × List Nat)
    (h : probe outer chkL ix lk i seen = .ok r) : ∀ p ∈ r.1, p.1.isSome = true ∧ (p.2.isSome = true ∨ outer = true) := by
  induction lk generalizing i seen r with
  | nil => simp [probe] at h; subst h; simp
  | cons k ks ih =>
    unfold probe at h
    split at h
    · cases h
    · split at h
      · cases h
      · rename_i ps m heq
        cases h
        intro p hp
        simp only [List.mem_append] at hp
        rcases hp with hp | hp
        · exact emit_shape _ _ _ _ hp
        · exact ih _ _ _ heq p hp

private theorem sweep_shape (nR : Nat) (m : List Nat) (p : Pair) (h : p ∈ sweep nR m) : p.1.isSome = false ∧ p.2.isSome = true := by
  simp [sweep] at h; obtain ⟨j, _, rfl⟩ := h; simp

private theorem joinCore_ok (kind : JKind) (e : String) (lk rk : List K) (ps : List Pair) (h : joinCore kind e lk rk = .ok ps) :
    ∃ ps' m, probe (kind != .inner) (chkLeft kind e) (build (chkRight kind e) rk).1 lk 0 [] = .ok (ps', m)
      ∧ ps = if kind = .full then ps' ++ sweep rk.length m else ps' := by
  unfold joinCore at h
  dsimp only at h
  by_cases hc : (chkRight kind e && !(build (chkRight kind e) rk).2.isEmpty) = true
  · rw [if_pos hc] at h; cases h
  · rw [if_neg hc] at h
    cases hp : probe (kind != .inner) (chkLeft kind e) (build (chkRight kind e) rk).1 lk 0 [] with
    | error er => rw [hp] at h; cases h
    | ok r =>
      obtain ⟨ps', m⟩ := r
      rw [hp] at h
      dsimp only at h
      exact ⟨ps', m, rfl, (Except.ok.inj h).symm⟩

theorem joinCore_shape_inner (e : String) (lk rk : List K) (ps : List Pair) (h : joinCore .inner e lk rk = .ok ps) :
    ∀ p ∈ ps, ShapeIn shapesTInner p := by
  obtain ⟨ps', m, hp, rfl⟩ := joinCore_ok _ _ _ _ _ h
  intro p hm
  have := probe_shape _ _ _ _ _ _ _ hp p hm
  obtain ⟨a, b⟩ := p
  cases a <;> cases b <;> simp [ShapeIn, shapesTInner] at this ⊢

theorem joinCore_shape_left (e : String) (lk rk : List K) (ps : List Pair) (h : joinCore .left e lk rk = .ok ps) :
    ∀ p ∈ ps, ShapeIn shapesTLeft p := by
  obtain ⟨ps', m, hp, rfl⟩ := joinCore_ok _ _ _ _ _ h
  intro p hm
  have := probe_shape _ _ _ _ _ _ _ hp p hm
  obtain ⟨a, b⟩ := p
  cases a <;> cases b <;> simp [ShapeIn, shapesTLeft] at this ⊢

theorem joinCore_shape_full (e : String) (lk rk : List K) (ps : List Pair) (h : joinCore .full e lk rk = .ok ps) :
    ∀ p ∈ ps, ShapeIn shapesTFull p := by
  obtain ⟨ps', m, hp, rfl⟩ := joinCore_ok _ _ _ _ _ h
  intro p hm
  simp only [↓reduceIte, List.mem_append] at hm
  obtain ⟨a, b⟩ := p
  rcases hm with hm | hm
  · have := probe_shape _ _ _ _ _ _ _ hp _ hm
    cases a <;> cases b <;> simp [ShapeIn, shapesTFull] at this ⊢
  · have := sweep_shape _ _ _ hm
    cases a <;> cases b <;> simp [ShapeIn, shapesTFull] at this ⊢

end shapes

/-! ### the two ties together: loops (Serif/Tie/Join.lean) and assembly -/

section whole
variable {α C K : Type} [DecidableEq K] (pad : α) (cells : C → List α) (nameOf : C → Option String) (tagOf : α → Tag)

/-- `inner_join` after key validation, wholly from translated pieces: the translated loops (`joinCoreTInner`) decide the output pairs,
    the translated assembly turns them into the result — equal to the model's `joinCore` followed by `assemble`, for all key lists,
    every `expect` value and all tables -/
theorem innerJoin_translated (e : String) (lkeys rkeys : List K) (lc rc : List C) (nL nR : Nat) :
    (joinCoreTInner (chkRight .inner e) (chkLeft .inner e) lkeys rkeys).map
        (fun ps => outOf (assembleTInner pad (getCell pad cells) nameOf (mkVec tagOf) lc rc nL nR ps))
      = (joinCore .inner e lkeys rkeys).map (assemble pad tagOf .inner (tabOf cells nameOf lc) (tabOf cells nameOf rc)) := by
  rw [joinCoreInner_eq]
  cases h : joinCore .inner e lkeys rkeys with
  | error er => rfl
  | ok ps => simp only [Except.map]; rw [assembleInner_eq pad cells nameOf tagOf lc rc nL nR ps (joinCore_shape_inner e lkeys rkeys ps h)]

theorem leftJoin_translated (e : String) (lkeys rkeys : List K) (lc rc : List C) (nR : Nat) :
    (joinCoreTLeft (chkRight .left e) (chkLeft .left e) lkeys rkeys).map
        (fun ps => outOf (assembleTLeft pad (getCell pad cells) nameOf (mkVec tagOf) lc rc (tabOf cells nameOf lc).nrows nR ps))
      = (joinCore .left e lkeys rkeys).map (assemble pad tagOf .left (tabOf cells nameOf lc) (tabOf cells nameOf rc)) := by
  rw [joinCoreLeft_eq]
  cases h : joinCore .left e lkeys rkeys with
  | error er => rfl
  | ok ps => simp only [Except.map]; rw [assembleLeft_eq pad cells nameOf tagOf lc rc nR ps (joinCore_shape_left e lkeys rkeys ps h)]

theorem fullJoin_translated (e : String) (lkeys rkeys : List K) (lc rc : List C) :
    (joinCoreTFull (chkRight .full e) (chkLeft .full e) lkeys rkeys).map
        (fun ps => outOf (assembleTFull pad (getCell pad cells) nameOf (mkVec tagOf) lc rc (tabOf cells nameOf lc).nrows
          (tabOf cells nameOf rc).nrows ps))
      = (joinCore .full e lkeys rkeys).map (assemble pad tagOf .full (tabOf cells nameOf lc) (tabOf cells nameOf rc)) := by
  rw [joinCoreFull_eq]
  cases h : joinCore .full e lkeys rkeys with
  | error er => rfl
  | ok ps => simp only [Except.map]; rw [assembleFull_eq pad cells nameOf tagOf lc rc ps (joinCore_shape_full e lkeys rkeys ps h)]

end whole

/-! ## 2. Group-by: `Table.window` and `Table.aggregate` around the partition loop -/

section groupby
open Serif.Group
variable {K α β V : Type} [DecidableEq K]

/-- `[data[i] for i in rows]` is the model's `gather` when the row indices are in range (they are: the partition index holds
    row numbers of the table, and the column was checked to have `nrows` cells) -/
theorem gather_eq (pad : α) (data : List α) (rows : List Nat) (h : ∀ i ∈ rows, i < data.length) :
    rows.map (fun i => pyListGet pad data i) = gather data rows := by
  unfold gather
  induction rows with
  | nil => rfl
  | cons i is ih =>
    have hi : i < data.length := h i (by simp)
    simp only [List.map_cons, List.filterMap_cons, List.getElem?_eq_getElem hi, pyListGet, Option.getD_some]
    rw [← ih (fun j hj => h j (by simp [hj]))]
    rfl

/-- `compute_group_values` translated = the model's `computeGroupValues` -/
theorem computeGroupValuesWin_eq (pad : α) (data : List α) (groups : Dict K (List Nat)) (f : List α → β)
    (h : ∀ g ∈ groups, ∀ i ∈ g.2, i < data.length) :
    computeGroupValuesTWin pad id groups data f = computeGroupValues data groups f := by
  unfold computeGroupValuesTWin computeGroupValues
  exact foldl_congr_inv _ _ (fun _ => True) (fun g => ∀ i ∈ g.2, i < data.length)
    (fun out g _ hg => by
      obtain ⟨k, rows⟩ := g
      show Dict.upsert out k (fun _ => f (rows.map (fun i => pyListGet pad data i))) = _
      rw [gather_eq pad data rows hg])
    (fun _ _ _ => trivial) groups h _ trivial

omit [DecidableEq K] in
private theorem mapM_range_items {γ : Type} (keys : List K) (g : K → Res γ) :
    (List.range keys.length).mapM (fun i => (pyListItem keys i).bind g) = keys.mapM g := by
  induction keys with
  | nil => rfl
  | cons k ks ih =>
    rw [List.length_cons, List.range_succ_eq_map, List.mapM_cons, List.mapM_cons, List.mapM_map]
    have : ((fun i => (pyListItem (k :: ks) i).bind g) ∘ Nat.succ) = (fun i => (pyListItem ks i).bind g) := by
      funext i; simp [pyListItem]
    rw [this, ih]
    simp [pyListItem, Except.bind]

private theorem mapM_dictItem (gm : Dict K β) (keys : List K) : keys.mapM (pyDictItem gm) = expandToRows gm keys := by
  induction keys with
  | nil => rfl
  | cons k ks ih =>
    rw [List.mapM_cons, ih]
    unfold pyDictItem
    conv => rhs; unfold expandToRows
    cases Dict.get? gm k with
    | none => rfl
    | some v => cases expandToRows gm ks <;> rfl

/-- `expand_to_rows` translated = the model's `expandToRows` (with `row_keys` the keys of the rows, `nrows` their number) -/
theorem expandToRowsWin_eq (gm : Dict K β) (keys : List K) : expandToRowsTWin keys keys.length gm = expandToRows gm keys := by
  unfold expandToRowsTWin
  rw [mapM_range_items, mapM_dictItem]

private theorem partition_rows_lt (keys : List K) : ∀ g ∈ partition keys, ∀ i ∈ g.2, i < keys.length := by
  intro g hg i hi
  rw [partition_eq] at hg
  obtain ⟨k, _, rfl⟩ := List.mem_map.mp hg
  have := (mem_rowsOf keys k i).mp hi
  by_cases hl : i < keys.length
  · exact hl
  · rw [List.getElem?_eq_none (by omega)] at this; cases this

/-- one built-in column of `window`: `compute_group_values` then `expand_to_rows`, translated, is the model's `windowCol` (what C13
    is proved about), for every column with at least `nrows` cells, every reducer and every key list; the column is appended
    under the name `uniquify` hands out -/
theorem windowColWin_eq (pad : α) (data : List α) (keys : List K) (f : List α → β) (hlen : keys.length ≤ data.length)
    (sanitize : List α → String → String) (mk : List β → String → V) (sfx : Nat → String) (suffix : String)
    (rc : List V) (used : List String) :
    windowColTWin pad id sanitize mk (Group.uniquify sfx) (partition keys) keys keys.length data f suffix (rc, used)
      = (windowCol data keys f).map (fun rows =>
          (rc ++ [mk rows (Group.uniquify sfx used (sanitize data suffix)).1], (Group.uniquify sfx used (sanitize data suffix)).2)) := by
  unfold windowColTWin windowCol
  simp only []
  rw [computeGroupValuesWin_eq pad data (partition keys) f
    (fun g hg i hi => Nat.lt_of_lt_of_le (partition_rows_lt keys g hg i hi) hlen), expandToRowsWin_eq]
  cases expandToRows (computeGroupValues data (partition keys) f) keys <;> rfl

private theorem foldl_snoc_map {γ δ : Type} (l : List γ) (g : γ → δ) (acc : List δ) :
    l.foldl (fun out x => out ++ [g x]) acc = acc ++ l.map g := by
  induction l generalizing acc with
  | nil => simp
  | cons x xs ih => simp [ih]

omit [DecidableEq K] in
/-- `aggregate_col` translated: the appended column is the model's `aggCol` (one call of `func` per group, in `group_items` order) -/
theorem aggregateColAgg_eq (pad : α) (data : List α) (groups : Dict K (List Nat)) (f : List α → β)
    (h : ∀ g ∈ groups, ∀ i ∈ g.2, i < data.length)
    (mkName : List α → String → String) (mk : List β → String → V) (sfx : Nat → String) (suffix : String)
    (rc : List V) (used : List String) :
    aggregateColTAgg pad id mkName mk (Group.uniquify sfx) groups data f suffix (rc, used)
      = (rc ++ [mk (aggCol data groups f) (Group.uniquify sfx used (mkName data suffix)).1],
         (Group.uniquify sfx used (mkName data suffix)).2) := by
  unfold aggregateColTAgg aggCol
  have hfold : groups.foldl (fun out (g : K × List Nat) => out ++ [f (g.2.map (fun i => pyListGet pad data i))]) []
      = groups.map (fun g => f (gather data g.2)) := by
    rw [foldl_congr_inv _ (fun out g => out ++ [f (gather data g.2)]) (fun _ => True) (fun g => ∀ i ∈ g.2, i < data.length)
      (fun out g _ hg => by rw [gather_eq pad data g.2 hg]) (fun _ _ _ => trivial) groups h _ trivial, foldl_snoc_map]
    simp
  exact congrArg (fun out => (rc ++ [mk out (Group.uniquify sfx used (mkName data suffix)).1],
    (Group.uniquify sfx used (mkName data suffix)).2)) hfold

end groupby

/-! ### key columns of the results, names handed out by `uniquify` -/

section keycols
open Serif.Group
variable {C ρ κ V : Type}

theorem pyOrStr_eq (x : Option String) (d : String) : pyOrStr x d = nameOr x d := rfl

/-- the set `used` after the successive `uniquify` calls for `names` -/
def usedAfter (sfx : Nat → String) (names : List String) (used : List String) : List String :=
  names.foldl (fun u n => (Group.uniquify sfx u n).2) used

/-- window: the key columns are the `over` columns themselves (`list(col)`), named `col._name or "key"` made unique — the first
    `len(over)` columns of the model's `window` (`windowCells`: `OutCells.objs c.objs`; names: `uniquifyAll` over `rawNames`) -/
theorem keyColsWin_fold (nameOf : C → Option String) (listOf : C → List ρ) (mk : List ρ → String → V) (sfx : Nat → String)
    (over : List C) (acc : List V) (used : List String) :
    over.foldl (fun (st : List V × List String) col =>
        ((st.1 ++ [mk (listOf col) (Group.uniquify sfx st.2 (pyOrStr (nameOf col) "key")).1]),
          (Group.uniquify sfx st.2 (pyOrStr (nameOf col) "key")).2)) (acc, used)
      = (acc ++ List.zipWith mk (over.map listOf) (uniquifyAll sfx (over.map (fun c => nameOr (nameOf c) "key")) used),
         usedAfter sfx (over.map (fun c => nameOr (nameOf c) "key")) used) := by
  induction over generalizing acc used with
  | nil => simp [uniquifyAll, usedAfter]
  | cons c cs ih =>
    simp only [pyOrStr_eq] at ih ⊢
    simp only [List.foldl_cons, List.map_cons, uniquifyAll, List.zipWith_cons_cons]
    rw [ih]
    simp [usedAfter]

theorem keyColsWin_eq (nameOf : C → Option String) (listOf : C → List ρ) (mk : List ρ → String → V) (sfx : Nat → String)
    (over : List C) (used : List String) :
    keyColsTWin nameOf listOf mk (Group.uniquify sfx) over used
      = (List.zipWith mk (over.map listOf) (uniquifyAll sfx (over.map (fun c => nameOr (nameOf c) "key")) used),
         usedAfter sfx (over.map (fun c => nameOr (nameOf c) "key")) used) := by
  have := keyColsWin_fold nameOf listOf mk sfx over [] used
  simp only [List.nil_append] at this
  exact this

/-- aggregate: key column `idx` holds component `idx` of every group key, in `group_items` order — the model's
    `groups.filterMap (fun g => g.1[idx]?)` (`aggregateCells`) when every key tuple has `len(over)` components -/
theorem keyColsAgg_fold (pad : κ) (nameOf : C → Option String) (mk : List κ → String → V) (sfx : Nat → String)
    (groups : List (List κ × List Nat)) (over : List C) (s : Nat) (hk : ∀ g ∈ groups, s + over.length ≤ g.1.length)
    (acc : List V) (used : List String) :
    (over.zipIdx s).foldl (fun (st : List V × List String) (p : C × Nat) =>
        ((st.1 ++ [mk (groups.map (fun g => pyListGet pad g.1 p.2)) (Group.uniquify sfx st.2 (pyOrStr (nameOf p.1) "key")).1]),
          (Group.uniquify sfx st.2 (pyOrStr (nameOf p.1) "key")).2)) (acc, used)
      = (acc ++ List.zipWith mk ((List.range' s over.length).map (fun idx => groups.filterMap (fun g => g.1[idx]?)))
            (uniquifyAll sfx (over.map (fun c => nameOr (nameOf c) "key")) used),
         usedAfter sfx (over.map (fun c => nameOr (nameOf c) "key")) used) := by
  induction over generalizing s acc used with
  | nil => simp [uniquifyAll, usedAfter]
  | cons c cs ih =>
    have hcol : groups.map (fun g => pyListGet pad g.1 s) = groups.filterMap (fun g => g.1[s]?) := by
      clear ih
      induction groups with
      | nil => rfl
      | cons g gs ihg =>
        have hg : s < g.1.length := by have := hk g (by simp); simp at this; omega
        simp only [List.map_cons, List.filterMap_cons, List.getElem?_eq_getElem hg, pyListGet, Option.getD_some]
        rw [← ihg (fun g' hg' => hk g' (by simp [hg']))]
        rfl
    simp only [pyOrStr_eq] at ih ⊢
    simp only [List.zipIdx_cons, List.foldl_cons, hcol]
    rw [ih (s + 1) (fun g hg => by have := hk g hg; simp at this; omega)]
    simp [usedAfter, uniquifyAll, List.range'_succ]

theorem keyColsAgg_eq (pad : κ) (nameOf : C → Option String) (mk : List κ → String → V) (sfx : Nat → String)
    (groups : List (List κ × List Nat)) (over : List C) (hk : ∀ g ∈ groups, g.1.length = over.length) (used : List String) :
    keyColsTAgg pad nameOf mk (Group.uniquify sfx) groups over used
      = (List.zipWith mk ((List.range over.length).map (fun idx => groups.filterMap (fun g => g.1[idx]?)))
            (uniquifyAll sfx (over.map (fun c => nameOr (nameOf c) "key")) used),
         usedAfter sfx (over.map (fun c => nameOr (nameOf c) "key")) used) := by
  have := keyColsAgg_fold pad nameOf mk sfx groups over 0 (fun g hg => by rw [hk g hg]; omega) [] used
  rw [List.range_eq_range']
  simp only [List.nil_append] at this
  exact this

end keycols

/-! ### the key tuple of a row and `row_keys` -/

section rowkeys
open Serif.Group
variable {κ : Type}

private theorem range_map_get {γ δ : Type} (l : List γ) (d : γ) (F : γ → δ) :
    (List.range l.length).map (fun k => F (pyListGet d l k)) = l.map F := by
  apply List.ext_getElem
  · simp
  · intro i h1 h2
    simp at h1
    simp [pyListGet, h1]

private theorem map_get_eq_filterMap (pad : κ) (over : List (List κ)) (i : Nat) (h : ∀ c ∈ over, i < c.length) :
    over.map (fun c => pyListGet pad c i) = over.filterMap (·[i]?) := by
  induction over with
  | nil => rfl
  | cons c cs ih =>
    have hc : i < c.length := h c (by simp)
    simp only [List.map_cons, List.filterMap_cons, List.getElem?_eq_getElem hc, pyListGet, Option.getD_some]
    rw [← ih (fun c' hc' => h c' (by simp [hc']))]
    rfl

/-- `key = tuple(over_data[k][i] for k in range(pk_len))` is row `i` of the model's `rowKeys` (all key columns have a cell `i`) -/
theorem rowKeyWin_eq (pad : κ) (over : List (List κ)) (i : Nat) (h : ∀ c ∈ over, i < c.length) :
    rowKeyTWin pad (overDataTWin id over) over.length i = over.filterMap (·[i]?) := by
  unfold rowKeyTWin overDataTWin
  rw [show over.map (fun c => id c) = over from List.map_id' over, range_map_get over [] (fun c => pyListGet pad c i), map_get_eq_filterMap pad over i h]

theorem rowKeyAgg_eq (pad : κ) (over : List (List κ)) (i : Nat) (h : ∀ c ∈ over, i < c.length) :
    rowKeyTAgg pad over over.length i = over.filterMap (·[i]?) := by
  unfold rowKeyTAgg
  rw [range_map_get over [] (fun c => pyListGet pad c i), map_get_eq_filterMap pad over i h]

private theorem fill_by_index {γ : Type} (f : Nat → γ) (x : γ) (n k : Nat) (hk : k ≤ n) :
    (List.range k).foldl (fun rk i => rk.set i (f i)) (List.replicate n x) = (List.range k).map f ++ List.replicate (n - k) x := by
  induction k with
  | zero => simp
  | succ k ih =>
    rw [List.range_succ, List.foldl_append, ih (by omega)]
    simp only [List.foldl_cons, List.foldl_nil, List.map_append, List.map_cons, List.map_nil]
    rw [List.set_append_right _ _ (by simp)]
    have : n - k = (n - (k + 1)) + 1 := by omega
    rw [this, List.replicate_succ]
    simp

/-- `row_keys = [None] * nrows` filled by `row_keys[i] = key` in the partition loop is the model's `rowKeys` (which `windowCol`
    uses both for the partition index and for `expand_to_rows`) — whatever the placeholder was -/
theorem rowKeysWin_eq (pad : κ) (noneKey : List κ) (over : List (List κ)) (nrows : Nat) (h : ∀ c ∈ over, c.length = nrows) :
    rowKeysTWin pad noneKey (overDataTWin id over) over.length nrows = rowKeys over nrows := by
  unfold rowKeysTWin rowKeys
  show (List.range nrows).foldl (fun rk i => rk.set i (rowKeyTWin pad (overDataTWin id over) over.length i)) (List.replicate nrows noneKey) = _
  rw [fill_by_index (fun i => rowKeyTWin pad (overDataTWin id over) over.length i) noneKey nrows nrows (Nat.le_refl _)]
  simp only [Nat.sub_self, List.replicate_zero, List.append_nil]
  apply List.map_congr_left
  intro i hi
  exact rowKeyWin_eq pad over i (fun c hc => by rw [h c hc]; simpa using hi)

end rowkeys

/-! ## non-vacuity: the translated definitions evaluated on concrete inputs; the hypotheses used above are satisfiable -/

section examples
open Serif.Group

/-- two small tables as lists of (name, cells) -/
def exL : List (Option String × List Nat) := [(some "k", [1, 2, 1]), (some "a", [10, 20, 30])]
def exR : List (Option String × List Nat) := [(some "k", [2, 3, 2]), (none, [7, 8, 9])]
def exGet (c : Option String × List Nat) (i : Nat) : Nat := c.2[i]?.getD 0

-- full join of keys [1,2,1] / [2,3,2]: padded rows, matched rows, the unmatched right row last (0 plays None)
example : assembleTFull 0 exGet (·.1) (fun d n => (n, d)) exL exR 3 3
      [(some 0, none), (some 1, some 0), (some 1, some 2), (some 2, none), (none, some 1)]
    = [(some "k", [1, 2, 2, 1, 0]), (some "a", [10, 20, 20, 30, 0]), (some "k", [0, 2, 2, 0, 3]), (none, [0, 7, 9, 0, 8])] := by
  decide

-- inner join: a result without rows is `Table(())`; with rows, left columns then right columns
example : assembleTInner 0 exGet (·.1) (fun d n => (n, d)) exL exR 3 3 [] = [] := by decide
example : assembleTInner 0 exGet (·.1) (fun d n => (n, d)) exL exR 3 3 [(some 1, some 0), (some 1, some 2)]
    = [(some "k", [2, 2]), (some "a", [20, 20]), (some "k", [2, 2]), (none, [7, 9])] := by decide

-- left join of an empty left table is `Table(())`; otherwise unmatched left rows are padded on the right
example : assembleTLeft 0 exGet (·.1) (fun d n => (n, d)) exL exR 0 3 [] = ([] : List (Option String × List Nat)) := by decide
example : assembleTLeft 0 exGet (·.1) (fun d n => (n, d)) exL exR 3 3 [(some 0, none), (some 1, some 0)]
    = [(some "k", [1, 2]), (some "a", [10, 20]), (some "k", [0, 2]), (none, [0, 7])] := by decide

-- one group of appends on buffers that already hold a row
example : emitRowTFull2 0 exGet exL exR [[1], [10], [0], [0]] 2 = [[1, 0], [10, 0], [0, 2], [0, 9]] := by decide

-- key tuples: composite key (k, a) of every left row
example : probeKeysTInner exGet (leftKeysTInner [(exL[0]!, exR[0]!), (exL[1]!, exR[1]!)]) 3 = [[1, 10], [2, 20], [1, 30]] := by decide

-- the shape hypotheses are satisfiable, and not trivially true
example : ∀ p ∈ [((some 1, some 0) : Pair), (some 1, some 2)], ShapeIn shapesTInner p := by simp [ShapeIn, shapesTInner]
example : ¬ ShapeIn shapesTInner (some 0, none) := by simp [ShapeIn, shapesTInner]
example : ShapeIn shapesTFull (none, some 1) ∧ ¬ ShapeIn shapesTLeft (none, some 1) := by simp [ShapeIn, shapesTFull, shapesTLeft]

-- window: per-row sums of the groups 2, 9, 2, 1, 9; the name `x_sum` is taken, so the column is called `x_sum2`
example : (windowColTWin (none : Option Int) id (fun _ s => "x_" ++ s) (fun rows n => (n, rows))
      (Group.uniquify (fun i => if i = 2 then "2" else "?")) (partition [2, 9, 2, 1, 9]) [2, 9, 2, 1, 9] 5
      [some 5, none, some 7, some 1, none] sumF "sum" ([], ["x_sum"])).toOption
    = some ([("x_sum2", [12, 0, 12, 1, 0])], ["x_sum2", "x_sum"]) := by decide

-- expand_to_rows: a key without group value is a KeyError, a short `row_keys` an IndexError
example : expandToRowsTWin [1, 2, 1] 3 [(1, 10), (2, 20)] = .ok [10, 20, 10] := by decide
example : expandToRowsTWin [1, 2] 2 [(1, 10)] = .error Err.key := by decide
example : expandToRowsTWin [1] 2 [(1, 10)] = .error Err.index := by decide

-- compute_group_values and aggregate_col on the partition of [2, 9, 2, 1, 9]
example : computeGroupValuesTWin (none : Option Int) id (partition [2, 9, 2, 1, 9]) [some 5, none, some 7, some 1, none] sumF
    = [(2, 12), (9, 0), (1, 1)] := by decide
example : aggregateColTAgg (none : Option Int) id (fun _ s => "x_" ++ s) (fun out n => (n, out))
      (Group.uniquify (fun _ => "?")) (partition [2, 9, 2, 1, 9]) [some 5, none, some 7, some 1, none] countF "count" ([], [])
    = ([("x_count", [2, 0, 1])], ["x_count"]) := by decide

-- key columns: window copies the columns, aggregate takes one row per group; two unnamed key columns get `key`, `key2`
example : (keyColsTWin (·.1) (·.2) (fun l n => (n, l)) (Group.uniquify (fun i => if i = 2 then "2" else "?"))
      [((none : Option String), [1, 2, 1]), (some "", [5, 6, 5])] []).1 = [("key", [1, 2, 1]), ("key2", [5, 6, 5])] := by decide
example : (keyColsTAgg 0 (·.1) (fun l n => (n, l)) (Group.uniquify (fun _ => "?"))
      (partition [[1, 5], [2, 6], [1, 5]]) [((some "a" : Option String), ()), (some "b", ())] []).1
    = [("a", [1, 2]), ("b", [5, 6])] := by decide

-- row_keys of a two-column key over three rows
example : rowKeysTWin 0 [] (overDataTWin id [[1, 2, 1], [5, 6, 5]]) 2 3 = [[1, 5], [2, 6], [1, 5]] := by decide
example : rowKeysTWin 0 [] (overDataTWin id [[1, 2, 1], [5, 6, 5]]) 2 3 = rowKeys [[1, 2, 1], [5, 6, 5]] 3 := by decide

-- the range hypotheses of the group-by theorems hold for what `partition` produces
example : ∀ g ∈ partition [2, 9, 2, 1, 9], ∀ i ∈ g.2, i < 5 := by decide

end examples

end Serif.Tie
