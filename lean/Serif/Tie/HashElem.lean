/-
  Translation tie for the element hash of fingerprints (C16): `Vector._hash_element` — the whole dispatch: None, objects with a
  callable `fingerprint`, float / NaN, set / list / tuple (member hashes, a set's in ascending order, folded from the starting value
  of the kind and length), hashable objects, the `hash(repr(x))` fallback — with `_is_hashable`, `Vector._compute_fingerprint_full`
  and `Vector._invalidate_fp`, translated statement by statement from the source (`Serif/Gen/TranslatedHashElem.lean`, written by
  harness/tr/hashelem.py on every run), are the model's `FP.Elem.hash` / `FP.fpElems` (Model/Fingerprint.lean).

  A Python object is the record of the interpreter's answers to the questions `_hash_element` asks (`Gen.THE.PyObj`); `toElem` reads
  such an object as the model's element tree `FP.Elem` (the abstraction the C16 harness applies in `_wire_tree`): a scalar is a leaf
  carrying its hash (None / NaN: the literals `Gen.NONE_HASH` / `Gen.NAN_HASH` the model reads from the source), a container is
  `.seq kind members`, a set's members in ascending hash order.  `hashElement_eq` holds for every object whose containers have a
  (kind, length) the model's table of starting values `Gen.fpSeeds` covers (`tabulated`: kinds 1–3, at most 6 members) — the model
  has no starting value beyond the table (`FP.seedOf` answers 0 there), so this restriction is the model's, not the translation's —
  and for every `sort` that meets the specification of `list.sort()` on ints (`SortSpec`: ascending rearrangement).
  The rolling loops with the element hashes as inputs and the memo logic are tied in Serif/Tie/Fingerprint.lean; the starting
  value translated here is proved to be the one translated there (`Gen.T.hashSequenceSeedT`) by unfolding, so a changed multiplier
  in the source is followed by both.  Supplementary (see Serif/Tie/Typing.lean).
-/
import Serif.Gen.TranslatedHashElem
import Serif.Tie.Fingerprint

namespace Serif.Tie
open Serif Serif.Gen.THE

/-! ### vocabulary -/

/-- the specification of the oracle `list.sort()` on a list of ints: the result is ascending and a rearrangement of the list -/
def SortSpec (sort : List Int → List Int) : Prop :=
  ∀ l, (sort l).Pairwise (· ≤ ·) ∧ (sort l).Perm l

/-- the order the model expects a set's members in: ascending hash -/
def sortByHash (es : List FP.Elem) : List FP.Elem := es.mergeSort (fun a b => decide (a.hash ≤ b.hash))

mutual
/-- the element of the model (`FP.Elem`) a Python object is -/
def toElem : PyObj → FP.Elem
  | .mk a items =>
    if a.isNone then .leaf (Gen.NONE_HASH : Int)
    else if a.hasattrFingerprint && a.callableFingerprint then .leaf a.fingerprint
    else if a.isinstance .float then .leaf (if a.isnan then (Gen.NAN_HASH : Int) else a.hash)
    else if a.isinstance .set then .seq 1 (sortByHash (toElems items))
    else if a.isinstance .tuple then .seq 2 (toElems items)
    else if a.isinstance .list then .seq 3 (toElems items)
    else if a.hashRaises then .leaf a.reprHash
    else .leaf a.hash
def toElems : List PyObj → List FP.Elem
  | [] => []
  | x :: xs => toElem x :: toElems xs
end

mutual
/-- every container inside the element has a kind and a length the model's table of starting values covers -/
def tabulated : FP.Elem → Bool
  | .leaf _ => true
  | .seq k es => (k == 1 || k == 2 || k == 3) && decide (es.length ≤ 6) && tabulatedList es
def tabulatedList : List FP.Elem → Bool
  | [] => true
  | e :: es => tabulated e && tabulatedList es
end

theorem tabulatedList_iff (es : List FP.Elem) : tabulatedList es = true ↔ ∀ e ∈ es, tabulated e = true := by
  induction es with
  | nil => simp [tabulatedList]
  | cons e es ih => simp [tabulatedList, ih]

theorem toElems_eq_map (xs : List PyObj) : toElems xs = xs.map toElem := by
  induction xs with
  | nil => rfl
  | cons x xs ih => simp [toElems, ih]

theorem hashElementListT_eq_map (P B : Int) (sort : List Int → List Int) (xs : List PyObj) :
    hashElementListT P B sort xs = xs.map (hashElementT P B sort) := by
  induction xs with
  | nil => rfl
  | cons x xs ih => simp [hashElementListT, ih]

/-! ### the sorted members of a set -/

theorem sortByHash_perm (es : List FP.Elem) : (sortByHash es).Perm es := List.mergeSort_perm _ _

theorem sortByHash_hashes (sort : List Int → List Int) (hs : SortSpec sort) (es : List FP.Elem) :
    (sortByHash es).map FP.Elem.hash = sort (es.map FP.Elem.hash) := by
  apply List.Perm.eq_of_pairwise (le := (· ≤ ·))
  · intro a b _ _ h1 h2; exact Int.le_antisymm h1 h2
  · have h := List.pairwise_mergeSort (le := fun (a b : FP.Elem) => decide (a.hash ≤ b.hash))
      (fun a b c h1 h2 => by
        simp only [decide_eq_true_eq] at *
        exact Int.le_trans h1 h2)
      (fun a b => by
        simp only [Bool.or_eq_true, decide_eq_true_eq]
        exact Int.le_total _ _) es
    unfold sortByHash
    rw [List.pairwise_map]
    exact h.imp (fun h => by simpa using h)
  · exact (hs _).1
  · exact ((sortByHash_perm es).map _).trans (hs _).2.symm

/-! ### the container branch -/

theorem seedOk_of_small (k n : Nat) (hk : (k == 1 || k == 2 || k == 3) = true) (hn : n ≤ 6) :
    Gen.T.hashSequenceSeedT FP.P k n = FP.seedOf k n := by
  have hk' : k = 1 ∨ k = 2 ∨ k = 3 := by simpa [or_assoc] using hk
  have : n = 0 ∨ n = 1 ∨ n = 2 ∨ n = 3 ∨ n = 4 ∨ n = 5 ∨ n = 6 := by omega
  rcases hk' with h | h | h <;> subst h <;> rcases this with h | h | h | h | h | h | h <;> subst h <;> decide +kernel

/-- the loop of the container branch as translated here (`h = (h * B + item_hash) % P` over the member hashes), from a starting
    value `s0` that is the translated starting value of kind `k` and this many members, on the hashes of the members `es` (in the
    order they are folded in) is the model's hash of the container -/
theorem container_eq (k : Nat) (es : List FP.Elem) (ht : tabulated (.seq k es) = true) (s0 : Int)
    (hs0 : s0 = Gen.T.hashSequenceSeedT FP.P k (es.map FP.Elem.hash).length) :
    (es.map FP.Elem.hash).foldl (fun (h : Int) (item_hash : Int) => Int.fmod ((h * FP.B) + item_hash) FP.P) s0
    = (FP.Elem.seq k es).hash := by
  have hseed : Gen.T.hashSequenceSeedT FP.P k es.length = FP.seedOf k es.length := by
    simp only [tabulated, Bool.and_eq_true, decide_eq_true_eq] at ht
    exact seedOk_of_small _ _ ht.1.1 ht.1.2
  rw [← hashSequence_eq k es hseed, hs0]
  rfl

/-! ### the dispatch -/

mutual
/-- **the translated `Vector._hash_element` is the model's `Elem.hash`**, for every Python object (any nesting of sets, lists and
    tuples, any answers of the interpreter — the order of the tests decides) whose containers are within the model's table of
    starting values, and every `sort` that sorts -/
theorem hashElement_eq (sort : List Int → List Int) (hs : SortSpec sort) :
    (x : PyObj) → tabulated (toElem x) = true → hashElementT FP.P FP.B sort x = (toElem x).hash
  | .mk a items, ht => by
    unfold hashElementT
    unfold toElem at ht ⊢
    simp only [PyObj.ans]
    rcases Bool.eq_false_or_eq_true a.isNone with h1 | h1
    · simp only [h1, ↓reduceIte, FP.Elem.hash]; decide
    simp only [h1, Bool.false_eq_true, ↓reduceIte] at ht ⊢
    rcases Bool.eq_false_or_eq_true (a.hasattrFingerprint && a.callableFingerprint) with h2 | h2
    · simp only [h2, ↓reduceIte, FP.Elem.hash]
    simp only [h2, Bool.false_eq_true, ↓reduceIte] at ht ⊢
    rcases Bool.eq_false_or_eq_true (a.isinstance PyCls.float) with h3 | h3
    · simp only [h3, ↓reduceIte, FP.Elem.hash]
      rcases Bool.eq_false_or_eq_true a.isnan with h3n | h3n
      · simp only [h3n, ↓reduceIte]; decide
      · simp only [h3n, Bool.false_eq_true, ↓reduceIte]
    simp only [h3, Bool.false_eq_true, ↓reduceIte] at ht ⊢
    rcases Bool.eq_false_or_eq_true (a.isinstance PyCls.set) with h4 | h4
    · -- a set: the members' hashes, sorted
      simp only [h4, Bool.true_or, ↓reduceIte] at ht ⊢
      have hm : ∀ e ∈ toElems items, tabulated e = true := by
        simp only [tabulated, Bool.and_eq_true] at ht
        intro e he
        exact (tabulatedList_iff _).mp ht.2 e ((sortByHash_perm _).mem_iff.mpr he)
      rw [hashElementList_eq sort hs items ((tabulatedList_iff _).mpr hm), ← sortByHash_hashes sort hs]
      exact container_eq 1 _ ht _ rfl
    simp only [h4, Bool.false_eq_true, Bool.false_or, ↓reduceIte] at ht ⊢
    rcases Bool.eq_false_or_eq_true (a.isinstance PyCls.tuple) with h5 | h5
    · -- a tuple
      simp only [h5, Bool.or_true, ↓reduceIte] at ht ⊢
      have hl : tabulatedList (toElems items) = true := by
        simp only [tabulated, Bool.and_eq_true] at ht
        exact ht.2
      rw [hashElementList_eq sort hs items hl]
      exact container_eq 2 _ ht _ rfl
    simp only [h5, Bool.false_eq_true, Bool.or_false, ↓reduceIte] at ht ⊢
    rcases Bool.eq_false_or_eq_true (a.isinstance PyCls.list) with h6 | h6
    · -- a list
      simp only [h6, ↓reduceIte] at ht ⊢
      have hl : tabulatedList (toElems items) = true := by
        simp only [tabulated, Bool.and_eq_true] at ht
        exact ht.2
      rw [hashElementList_eq sort hs items hl]
      exact container_eq 3 _ ht _ rfl
    simp only [h6, Bool.false_eq_true, ↓reduceIte, isHashableT, PyObj.ans]
    rcases Bool.eq_false_or_eq_true a.hashRaises with h7 | h7
    · simp [h7, FP.Elem.hash]
    · simp [h7, FP.Elem.hash]
/-- … and the comprehension `[Vector._hash_element(elem) for elem in x]` yields the model's hashes of the members -/
theorem hashElementList_eq (sort : List Int → List Int) (hs : SortSpec sort) :
    (xs : List PyObj) → tabulatedList (toElems xs) = true →
      hashElementListT FP.P FP.B sort xs = (toElems xs).map FP.Elem.hash
  | [], _ => rfl
  | x :: xs, ht => by
    simp only [toElems, tabulatedList, Bool.and_eq_true] at ht
    simp only [hashElementListT, toElems, List.map_cons]
    rw [hashElement_eq sort hs x ht.1, hashElementList_eq sort hs xs ht.2]
end

/-! ### `_is_hashable`, `_compute_fingerprint_full`, `_invalidate_fp` -/

/-- `_is_hashable(x)` is "`hash(x)` does not raise" -/
theorem isHashable_eq (x : PyObj) : isHashableT x = !x.ans.hashRaises := by
  unfold isHashableT
  cases x.ans.hashRaises <;> rfl

/-- **the translated `Vector._compute_fingerprint_full`** — the loop over the elements with the translated `_hash_element` inside —
    **is the model's fingerprint of the element trees** (`FP.fpElems`), for every vector of objects -/
theorem computeFingerprintFull_elems_eq (sort : List Int → List Int) (hs : SortSpec sort) (xs : List PyObj)
    (ht : tabulatedList (toElems xs) = true) :
    computeFingerprintFullT FP.P FP.B sort xs = FP.fpElems (toElems xs) := by
  have hmap : xs.map (hashElementT FP.P FP.B sort) = (toElems xs).map FP.Elem.hash := by
    rw [← hashElementListT_eq_map]; exact hashElementList_eq sort hs xs ht
  unfold FP.fpElems
  rw [← computeFingerprintFull_eq, ← hmap]
  unfold computeFingerprintFullT Gen.T.computeFingerprintFullT
  rw [List.foldl_map]
  rfl

/-- `_invalidate_fp` clears the memo … -/
theorem invalidateFp_eq (fp : Option Int) : invalidateFpT fp = none := rfl

/-- … which is what the model's write does to the written vector's memo (`Heap.setVec`) … -/
theorem invalidateFp_setVec (h : Heap) (o : Nat) (v v0 : VecVal) (fp : Option Int) (ho : h.obj o = some (.vec v0 fp)) :
    (h.setVec o v).objs o = some (.vec v (invalidateFpT fp)) := by
  simp [Heap.setVec, ho, Heap.upd, invalidateFpT]

/-- … and what `Table.fingerprint` does before it asks `Vector.fingerprint` (the memo logic tied in Tie/Fingerprint.lean) -/
theorem tableFingerprint_invalidates (compute : Int) (fp : Option Int) :
    Gen.T.tableFingerprintT compute fp = Gen.T.vectorFingerprintT compute (invalidateFpT fp) := rfl

/-! ### non-vacuity -/

/-- `SortSpec` is satisfiable: merge sort meets it -/
theorem sortSpec_mergeSort : SortSpec (fun l => l.mergeSort (fun a b => decide (a ≤ b))) := by
  intro l
  refine ⟨?_, List.mergeSort_perm _ _⟩
  have h := List.pairwise_mergeSort (le := fun (a b : Int) => decide (a ≤ b))
    (fun a b c h1 h2 => by
      simp only [decide_eq_true_eq] at *
      exact Int.le_trans h1 h2)
    (fun a b => by
      simp only [Bool.or_eq_true, decide_eq_true_eq]
      exact Int.le_total _ _) l
  exact h.imp (fun h => by simpa using h)

/-- an insertion sort the kernel can run (for the examples below) -/
def insertInt (a : Int) : List Int → List Int
  | [] => [a]
  | b :: bs => if a ≤ b then a :: b :: bs else b :: insertInt a bs
def isort : List Int → List Int
  | [] => []
  | a :: as => insertInt a (isort as)

theorem insertInt_perm (a : Int) (l : List Int) : (insertInt a l).Perm (a :: l) := by
  induction l with
  | nil => exact List.Perm.refl _
  | cons b bs ih =>
    unfold insertInt
    split
    · exact List.Perm.refl _
    · exact (List.Perm.cons b ih).trans (List.Perm.swap a b bs)

theorem insertInt_pairwise (a : Int) (l : List Int) (h : l.Pairwise (· ≤ ·)) : (insertInt a l).Pairwise (· ≤ ·) := by
  induction l with
  | nil => simp [insertInt]
  | cons b bs ih =>
    have hb := List.pairwise_cons.mp h
    unfold insertInt
    split
    · rename_i hab
      refine List.pairwise_cons.mpr ⟨?_, h⟩
      intro x hx
      rcases List.mem_cons.mp hx with rfl | hx
      · exact hab
      · exact Int.le_trans hab (hb.1 x hx)
    · rename_i hab
      refine List.pairwise_cons.mpr ⟨?_, ih hb.2⟩
      intro x hx
      rcases List.mem_cons.mp ((insertInt_perm a bs).mem_iff.mp hx) with rfl | hx
      · omega
      · exact hb.1 x hx

/-- … and so does the insertion sort -/
theorem sortSpec_isort : SortSpec isort := by
  intro l
  induction l with
  | nil => exact ⟨List.Pairwise.nil, List.Perm.refl _⟩
  | cons a as ih =>
    exact ⟨insertInt_pairwise a _ ih.1, (insertInt_perm a _).trans (List.Perm.cons a ih.2)⟩

section examples

/-- the answers about an int-like scalar of hash `h` -/
def scalarAns (h : Int) : PyAns :=
  { isNone := false, hasattrFingerprint := false, callableFingerprint := false, fingerprint := 0, isinstance := fun _ => false,
    isnan := false, hashRaises := false, hash := h, reprHash := 0 }
def pyInt (h : Int) : PyObj := .mk (scalarAns h) []
def pyNone : PyObj := .mk { scalarAns 0 with isNone := true } []
def pyNan : PyObj := .mk { scalarAns 0 with isinstance := fun c => c == .float, isnan := true } []
def pyFloat (h : Int) : PyObj := .mk { scalarAns h with isinstance := fun c => c == .float } []
/-- a nested vector / table: an object with a callable `fingerprint` -/
def pyVec (fp : Int) (elems : List PyObj) : PyObj :=
  .mk { scalarAns 0 with hasattrFingerprint := true, callableFingerprint := true, fingerprint := fp, hashRaises := true } elems
def pyCont (c : PyCls) (xs : List PyObj) : PyObj := .mk { scalarAns 0 with isinstance := fun d => d == c, hashRaises := c != .tuple } xs
/-- an unhashable object that is no container (a dict, say) -/
def pyDict (reprHash : Int) : PyObj := .mk { scalarAns 0 with isinstance := fun c => c == .dict, hashRaises := true, reprHash := reprHash } []
/-- a frozenset is hashable and not one of the tested classes: `hash(x)` -/
def pyFrozenset (h : Int) (xs : List PyObj) : PyObj := .mk { scalarAns h with isinstance := fun c => c == .frozenset } xs

-- the dispatch, evaluated: None, NaN, a float, a nested vector, a dict, a frozenset
example : hashElementT FP.P FP.B isort pyNone = 11400714819323198485 := by decide +kernel
example : hashElementT FP.P FP.B isort pyNan = 16045690984503098046 := by decide +kernel
example : hashElementT FP.P FP.B isort (pyFloat 42) = 42 := by decide +kernel
example : hashElementT FP.P FP.B isort (pyVec 777 [pyInt 1]) = 777 := by decide +kernel
example : hashElementT FP.P FP.B isort (pyDict 99) = 99 := by decide +kernel
example : hashElementT FP.P FP.B isort (pyFrozenset 5 [pyInt 1]) = 5 := by decide +kernel
-- `()`, `[]`, `set()` hash to the starting values of the table
example : hashElementT FP.P FP.B isort (pyCont .tuple []) = FP.seedOf 2 0 := by decide +kernel
example : hashElementT FP.P FP.B isort (pyCont .list []) = FP.seedOf 3 0 := by decide +kernel
example : hashElementT FP.P FP.B isort (pyCont .set []) = FP.seedOf 1 0 := by decide +kernel
-- `(1, [2, None], {9, 3})`: the set's members are folded in ascending order, whatever order iteration yields them in
example : hashElementT FP.P FP.B isort (pyCont .tuple [pyInt 1, pyCont .list [pyInt 2, pyNone], pyCont .set [pyInt 9, pyInt 3]])
    = (FP.Elem.seq 2 [.leaf 1, .seq 3 [.leaf 2, .leaf (Gen.NONE_HASH : Int)], .seq 1 [.leaf 3, .leaf 9]]).hash := by decide +kernel
example : hashElementT FP.P FP.B isort (pyCont .set [pyInt 9, pyInt 3]) = hashElementT FP.P FP.B isort (pyCont .set [pyInt 3, pyInt 9]) := by
  decide +kernel
example : hashElementT FP.P FP.B isort (pyCont .list [pyInt 9, pyInt 3]) ≠ hashElementT FP.P FP.B isort (pyCont .list [pyInt 3, pyInt 9]) := by
  decide +kernel
-- `[0]`, `(0,)`, `{0}`, `0` are four different values
example : (List.map (hashElementT FP.P FP.B isort) [pyCont .list [pyInt 0], pyCont .tuple [pyInt 0], pyCont .set [pyInt 0], pyInt 0]).Nodup := by
  decide +kernel
-- the vector `[None, (1, 2), nan]`
example : computeFingerprintFullT FP.P FP.B isort [pyNone, pyCont .tuple [pyInt 1, pyInt 2], pyNan]
    = FP.fpElems [.leaf (Gen.NONE_HASH : Int), .seq 2 [.leaf 1, .leaf 2], .leaf (Gen.NAN_HASH : Int)] := by decide +kernel
-- the hypothesis of `hashElement_eq` is satisfiable on a nested object
example : tabulated (toElem (pyCont .tuple [pyInt 1, pyCont .list [pyInt 2, pyNone], pyNan])) = true := by decide +kernel
example : toElem (pyCont .tuple [pyInt 1, pyCont .list [pyInt 2, pyNone], pyNan])
    = .seq 2 [.leaf 1, .seq 3 [.leaf 2, .leaf (Gen.NONE_HASH : Int)], .leaf (Gen.NAN_HASH : Int)] := by rfl
-- the theorem applied to a set inside a tuple, `({9, 3}, 1)`: its hypotheses hold
example : hashElementT FP.P FP.B isort (pyCont .tuple [pyCont .set [pyInt 9, pyInt 3], pyInt 1])
    = (toElem (pyCont .tuple [pyCont .set [pyInt 9, pyInt 3], pyInt 1])).hash :=
  hashElement_eq isort sortSpec_isort _ (by
    simp [toElem, toElems, pyCont, pyInt, scalarAns, sortByHash, tabulated, tabulatedList]
    rw [tabulatedList_iff]
    intro e he
    have := (List.mergeSort_perm _ _).mem_iff.mp he
    simp only [List.mem_cons, List.not_mem_nil, or_false] at this
    rcases this with rfl | rfl <;> rfl)
-- … and it is needed: the model has no starting value for a tuple of seven
example : hashElementT FP.P FP.B isort (pyCont .tuple (List.replicate 7 (pyInt 0))) ≠ (FP.Elem.seq 2 (List.replicate 7 (.leaf 0))).hash := by
  decide +kernel

end examples

end Serif.Tie
