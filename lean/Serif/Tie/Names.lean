/-
  Translation tie for `table._resolve_binary_name` (C18): the function translated from the source equals the model's
  name rule for table-with-table arithmetic, for all pairs of optional names. Supplementary (see Serif/Tie/Typing.lean).
-/
import Serif.Gen.Translated
import Serif.Model.Expr

namespace Serif.Tie
open Serif Serif.Gen.T

theorem resolveBinaryName_eq (l r : Option String) :
    resolveBinaryNameT l r = Serif.X.resolveBinaryName l r := by
  unfold resolveBinaryNameT Serif.X.resolveBinaryName
  cases l <;> cases r <;> simp

end Serif.Tie
