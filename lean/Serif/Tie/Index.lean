/-
  Translation tie for `typeutils.slice_length`: the return expression translated from the source
  (Gen.T.sliceLengthT) is what the model's `Index.sliceLength` computes on the triple `s.indices(n)`.
  Supplementary (see Serif/Tie/Typing.lean).
-/
import Serif.Gen.Translated
import Serif.Model.Index

namespace Serif.Tie
open Serif Serif.Index Serif.Gen.T

theorem sliceLength_eq (n : Nat) (s : Slice) :
    sliceLength n s = (sliceTriple n s).map (fun t => (sliceLengthT t.1 t.2.1 t.2.2).toNat) := by
  unfold sliceLength sliceLengthT
  cases sliceTriple n s with
  | error e => rfl
  | ok t =>
    obtain ⟨a, b, c⟩ := t
    simp only [Except.map]
    congr 2
    by_cases h : c > 0 <;> simp [h]

end Serif.Tie
