/-
  Translation tie for the rest of `Vector.__setitem__` and for `Vector._promote` (C08; the "promotion on assignment" clause of C03):
  harness/tr/setitembody.py translates, statement by statement and in source order, into `Serif/Gen/TranslatedSetItemBody.lean`

  * the key dispatch of `__setitem__` and the collection of the `(idx, new_value)` list — one definition per branch
    (`maskCaseT`, `sliceCaseT`, `intCaseT`, `idxVecCaseT`, `idxListCaseT`, their loop bodies `…Loop<k>T`, the chain `collectUpdatesT`),
    with `typeutils.slice_length` (`sliceLengthT`): equal to the model's `buildUpdates` (`collectUpdatesT_eq`; per branch
    `maskCaseT_eq`, `sliceCaseT_eq`, `intCaseT_eq`, `idxVecCaseT_eq`, `idxListCaseT_eq`), and every collected position is a valid
    list index (`collectUpdatesT_bound`, with `slice_positions_bound` for `range(*key.indices(n))`);
  * `Vector._promote` (`promoteT`): equal to the model's `promoteState`, with the class of the object afterwards (`promoteT_eq`,
    `promoteT_atomic`);
  * the block `if updates:` (`typePhaseT`): equal to the model's `typePhase` (`typePhaseT_eq`);
  * the loop that writes the updates with Python's list indexing (`mutateLoopT`): never raises on collected positions and is the
    model's `applyUpdates` (`mutate_eq`);
  * the method (`setitemT`: tracker check, collect, type phase, promote, new tuple, storage swap, memo invalidation via the translated
    `_invalidate_fp`): equal to the model's `setitem` for every state, key, value, sharing flag, `_PROMOTABLE` relation and
    conversion oracle (`setitemT_eq`); hence `C08.vector_atomic` & co. are theorems about the translated code, in particular no
    field (and not the class) is assigned before the last step that can raise (`setitemT_atomic`).

  Oracles (fields of `Gen.SB.Ops`, instantiated with the model's own functions in `modelOps`): the outcome of
  `_alias.check_writable` (`shared` → AliasError; the tracker has its own tie, Tie/AliasTracker.lean), `slice.indices`
  (`sliceIndices`), `range` (`rangeList`), the loop `for val in new_values` (`foldTarget`, tied in Tie/Assign.lean), the element
  constructors (`conv`).  Not translated (object identity): `_check_duplicate`, `id(…)`, the tracker's `unregister` / `register`
  — their position among the stores is recorded in `setitemSequenceT` / `promoteSequenceT` and pinned by two `example`s below.
  Definitions added here to state the tie: `toNatUps` (translated positions are Python ints, the model's are naturals), `emap`,
  `stepOf` / `normI` / `okI` (the canonical form of a translated loop body), `InB`, `classAfter` (the model's state has no class
  component: the class after an assignment is a function of the dtype before and after).
  Supplementary (see Serif/Tie/Typing.lean).
-/
import Serif.Gen.TranslatedSetItemBody
import Serif.Model.Assign
import Serif.Proofs.Assign

set_option linter.unusedSimpArgs false
set_option linter.unusedVariables false

namespace Serif.Tie
open Serif Serif.Assign Serif.Gen.SB

def modelOps (P : Kind → Kind → Bool) (conv : Kind → Nat → Option Nat) (shared : Bool) : Ops where
  check_writable := if shared then some Err.alias else none
  slice_indices := fun s n => sliceIndices s.1 s.2.1 s.2.2 n
  range := rangeList
  target_of := foldTarget P conv
  conv := conv

def toNatUps (ups : List (Int × Cell)) : List (Nat × Cell) := ups.map (fun u => (u.1.toNat, u.2))

def stepOf {κ : Type} (norm : κ → Except Err Int) (updates : List (Int × Cell)) (k : κ) (c : Cell) :
    Except Err (List (Int × Cell)) :=
  match norm k with
  | .error e => .error e
  | .ok p => .ok (updates ++ [(p, c)])

def normI (n : Nat) (i : Int) : Except Err Int :=
  let j := if i < 0 then i + (n : Int) else i
  if 0 ≤ j ∧ j < (n : Int) then .ok j else .error Err.index

def okI (i : Int) : Except Err Int := .ok i

/-- `Except.map`, with the two equations as simp lemmas -/
def emap {α β : Type} (f : α → β) : Except Err α → Except Err β
  | .error e => .error e
  | .ok a => .ok (f a)

@[simp] theorem emap_ok {α β : Type} (f : α → β) (a : α) : emap f (.ok a : Except Err α) = .ok (f a) := rfl
@[simp] theorem emap_error {α β : Type} (f : α → β) (e : Err) : emap f (.error e : Except Err α) = .error e := rfl

theorem rematch {α : Type} (x : Except Err α) :
    (match x with | .error e => .error e | .ok u => .ok u) = x := by cases x <;> rfl

theorem emap_nil_append (x : Except Err (List (Nat × Cell))) :
    emap (fun r => toNatUps [] ++ r) x = x := by cases x <;> simp [toNatUps]

theorem toNatUps_append (a b : List (Int × Cell)) : toNatUps (a ++ b) = toNatUps a ++ toNatUps b := by
  simp [toNatUps]

theorem stepOf_ok {κ : Type} {norm : κ → Except Err Int} {k : κ} {p : Int} (h : norm k = .ok p)
    (u : List (Int × Cell)) (c : Cell) : stepOf norm u k c = .ok (u ++ [(p, c)]) := by simp [stepOf, h]

theorem stepOf_err {κ : Type} {norm : κ → Except Err Int} {k : κ} {e : Err} (h : norm k = .error e)
    (u : List (Int × Cell)) (c : Cell) : stepOf norm u k c = .error e := by simp [stepOf, h]

theorem forZip_stepOf (norm : Int → Except Err Int) (normM : Int → Except Err Nat)
    (h : ∀ k, normM k = emap Int.toNat (norm k)) (items : List Cell) (ra : Option Nat)
    (j : Nat) (ks : List Int) (acc : List (Int × Cell)) :
    emap toNatUps (forZip (nextItem items ra) (stepOf norm) j ks acc) =
      emap (fun r => toNatUps acc ++ r) (zipLoop normM items ra j ks) := by
  induction ks generalizing j acc with
  | nil => simp [forZip, zipLoop]
  | cons k ks ih =>
    cases hn : nextItem items ra j with
    | error e => simp [forZip, zipLoop, hn]
    | ok o =>
      cases o with
      | none => simp [forZip, zipLoop, hn]
      | some c =>
        cases hk : norm k with
        | error e => simp [forZip, zipLoop, hn, h k, hk, stepOf_err hk]
        | ok p =>
          simp only [forZip, zipLoop, hn, h k, hk, stepOf_ok hk, emap_ok]
          rw [ih (j + 1) (acc ++ [(p, c)])]
          cases zipLoop normM items ra (j + 1) ks with
          | error e => rfl
          | ok rest => simp [toNatUps]

theorem forEach_stepOf (norm : Int → Except Err Int) (normM : Int → Except Err Nat)
    (h : ∀ k, normM k = emap Int.toNat (norm k)) (c : Cell) (ks : List Int) (acc : List (Int × Cell)) :
    emap toNatUps (forEach (fun u k => stepOf norm u k c) ks acc) =
      emap (fun r => toNatUps acc ++ r) (scalarLoop normM c ks) := by
  induction ks generalizing acc with
  | nil => simp [forEach, scalarLoop]
  | cons k ks ih =>
    cases hk : norm k with
    | error e => simp [forEach, scalarLoop, h k, hk, stepOf_err hk]
    | ok p =>
      simp only [forEach, scalarLoop, h k, hk, stepOf_ok hk, emap_ok]
      rw [ih (acc ++ [(p, c)])]
      cases scalarLoop normM c ks with
      | error e => rfl
      | ok rest => simp [toNatUps]

theorem forZip_inv (Q : Int → Prop) (norm : Int → Except Err Int) (it : Nat → Except Err (Option Cell))
    (j : Nat) (ks : List Int) (acc ups : List (Int × Cell))
    (hn : ∀ k ∈ ks, ∀ p, norm k = .ok p → Q p) (ha : ∀ u ∈ acc, Q u.1)
    (h : forZip it (stepOf norm) j ks acc = .ok ups) : ∀ u ∈ ups, Q u.1 := by
  induction ks generalizing j acc with
  | nil => simp [forZip] at h; subst h; exact ha
  | cons k ks ih =>
    unfold forZip at h
    cases hi : it j with
    | error e => simp [hi] at h
    | ok o =>
      cases o with
      | none => simp [hi] at h; subst h; exact ha
      | some c =>
        cases hk : norm k with
        | error e => simp [hi, stepOf_err hk] at h
        | ok p =>
          simp only [hi, stepOf_ok hk] at h
          refine ih (j + 1) (acc ++ [(p, c)]) (fun k' hk' => hn k' (List.mem_cons_of_mem _ hk')) ?_ h
          intro u hu
          rcases List.mem_append.1 hu with hu | hu
          · exact ha u hu
          · simp at hu; subst hu; exact hn k (List.mem_cons_self ..) p hk

theorem forEach_inv (Q : Int → Prop) (norm : Int → Except Err Int) (c : Cell)
    (ks : List Int) (acc ups : List (Int × Cell))
    (hn : ∀ k ∈ ks, ∀ p, norm k = .ok p → Q p) (ha : ∀ u ∈ acc, Q u.1)
    (h : forEach (fun u k => stepOf norm u k c) ks acc = .ok ups) : ∀ u ∈ ups, Q u.1 := by
  induction ks generalizing acc with
  | nil => simp [forEach] at h; subst h; exact ha
  | cons k ks ih =>
    unfold forEach at h
    cases hk : norm k with
    | error e => simp [stepOf_err hk] at h
    | ok p =>
      simp only [stepOf_ok hk] at h
      refine ih (acc ++ [(p, c)]) (fun k' hk' => hn k' (List.mem_cons_of_mem _ hk')) ?_ h
      intro u hu
      rcases List.mem_append.1 hu with hu | hu
      · exact ha u hu
      · simp at hu; subst hu; exact hn k (List.mem_cons_self ..) p hk


/-! ### the translated loop bodies are `stepOf` of a normalisation -/

theorem iterL_eq (l : List Cell) : iterL l = nextItem l none := by
  funext j; simp [iterL, nextItem]

theorem iterV_seq (self : Cell) (items : List Cell) (len : LenB) (ra : Option Nat) :
    iterV (.seq self items len ra) = nextItem items ra := by
  funext j; rfl

theorem normIdx_emap (n : Nat) (k : Int) : normIdx n k = emap Int.toNat (normI n k) := by
  unfold normIdx normI
  simp only
  generalize (if k < 0 then k + (n : Int) else k) = j
  by_cases hc : 0 ≤ j ∧ j < (n : Int) <;> simp [hc]

theorem okInt_emap (k : Int) : okInt k = emap Int.toNat (okI k) := rfl

theorem maskLoop1_eq (value : Value) (n : Nat) : maskCaseLoop1T value n = stepOf okI := by
  funext u k c; rfl
theorem maskLoop2_eq (value : Value) (n : Nat) : maskCaseLoop2T value n = fun u k => stepOf okI u k value.asCell := by
  funext u k; rfl
theorem sliceLoop1_eq (value : Value) (n : Nat) : sliceCaseLoop1T value n = stepOf okI := by
  funext u k c; rfl

theorem idxBody_eq (n : Nat) (u : List (Int × Cell)) (idx : Int) (c : Cell) :
    (let idx := if decide (idx < (0 : Int)) then idx + (n : Int) else idx
     if !(decide ((0 : Int) ≤ idx ∧ idx < (n : Int))) then (.error Err.index : Except Err (List (Int × Cell))) else
     let updates := u ++ [(idx, c)]
     .ok updates) = stepOf (normI n) u idx c := by
  simp only [stepOf, normI, decide_eq_true_eq]
  generalize (if idx < 0 then idx + (n : Int) else idx) = j
  by_cases hc : 0 ≤ j ∧ j < (n : Int) <;> simp [hc]

theorem idxVecLoop1_eq (value : Value) (n : Nat) : idxVecCaseLoop1T value n = stepOf (normI n) := by
  funext u k c; exact idxBody_eq n u k c
theorem idxVecLoop2_eq (value : Value) (n : Nat) :
    idxVecCaseLoop2T value n = fun u k => stepOf (normI n) u k value.asCell := by
  funext u k; exact idxBody_eq n u k _
theorem idxListLoop1_eq (value : Value) (n : Nat) : idxListCaseLoop1T value n = stepOf (normI n) := by
  funext u k c; exact idxBody_eq n u k c
theorem idxListLoop2_eq (value : Value) (n : Nat) :
    idxListCaseLoop2T value n = fun u k => stepOf (normI n) u k value.asCell := by
  funext u k; exact idxBody_eq n u k _

/-! ### the True positions -/

theorem trueIndices_from (i : Nat) (bs : List Bool) :
    (enumerateFrom (i : Int) bs).filterMap (fun (i, flag) => if flag then some i else none) =
      (trueIdxFrom i bs).map Int.ofNat := by
  induction bs generalizing i with
  | nil => rfl
  | cons b bs ih =>
    have := ih (i + 1)
    simp only [Int.natCast_add, Int.cast_ofNat_Int] at this
    cases b <;> simp [enumerateFrom, trueIdxFrom, List.filterMap_cons, this]

theorem trueIndices_eq (bs : List Bool) :
    (enumerate bs).filterMap (fun (i, flag) => if flag then some i else none) = (trueIdx bs).map Int.ofNat :=
  trueIndices_from 0 bs

theorem zipLoop_map {κ κ' : Type} (f : κ → κ') (norm : κ' → Except Err Nat) (items : List Cell) (ra : Option Nat)
    (j : Nat) (ks : List κ) :
    zipLoop norm items ra j (ks.map f) = zipLoop (fun k => norm (f k)) items ra j ks := by
  induction ks generalizing j with
  | nil => rfl
  | cons k ks ih => simp only [List.map_cons, zipLoop, ih]

theorem scalarLoop_map {κ κ' : Type} (f : κ → κ') (norm : κ' → Except Err Nat) (c : Cell) (ks : List κ) :
    scalarLoop norm c (ks.map f) = scalarLoop (fun k => norm (f k)) c ks := by
  induction ks with
  | nil => rfl
  | cons k ks ih => simp only [List.map_cons, scalarLoop, ih]

theorem okInt_ofNat : (fun k : Nat => okInt (Int.ofNat k)) = okNat := by
  funext k; simp [okInt, okNat]

/-! ### the branches of the key dispatch -/

theorem maskCaseT_eq (O : Ops) (bs : List Bool) (value : Value) (n : Nat) :
    emap toNatUps (maskCaseT O bs value n (isSeqV value) []) = maskUpdates bs value n := by
  unfold maskCaseT maskUpdates
  by_cases h : bs.length = n
  · subst h
    simp only [bne_self_eq_false, ne_eq, not_true_eq_false, if_false, Bool.false_eq_true, trueIndices_eq]
    cases value with
    | scalar c =>
      simp only [isSeqV, Bool.false_eq_true, if_false, maskLoop2_eq, Value.asCell]
      rw [forEach_stepOf okI okInt okInt_emap, scalarLoop_map, okInt_ofNat, emap_nil_append]
    | seq self items len ra =>
      simp only [isSeqV, if_true, lenV]
      cases hl : lenOf items len with
      | error e => rfl
      | ok m =>
        simp only [List.length_map]
        by_cases hm : (trueIdx bs).length = m
        · subst hm
          simp only [bne_self_eq_false, ne_eq, not_true_eq_false, if_false, Bool.false_eq_true, maskLoop1_eq, iterV_seq]
          rw [forZip_stepOf okI okInt okInt_emap, zipLoop_map, okInt_ofNat, emap_nil_append]
        · have h2 : ((((trueIdx bs).length : Nat) : Int) != (m : Int)) = true := by
            simp; omega
          simp [h2, hm]
  · have h1 : (((bs.length : Nat) : Int) != (n : Int)) = true := by simp; omega
    simp [h1, h]


theorem sliceLen_toNat (s e st : Int) :
    Int.toNat (max (0 : Int) (Int.fdiv ((e - s) + (st - (if decide (st > (0 : Int)) then (1 : Int) else (-1 : Int)))) st)) =
      sliceLength s e st := by
  unfold sliceLength
  simp only [decide_eq_true_eq]
  generalize Int.fdiv _ _ = q
  omega

theorem max_bne (q : Int) (m : Nat) : ((max (0 : Int) q) != (m : Int)) = decide (q.toNat ≠ m) := by
  by_cases h : q.toNat = m
  · have : max (0 : Int) q = (m : Int) := by omega
    simp [h, this]
  · have : max (0 : Int) q ≠ (m : Int) := by omega
    simp [h, this]

theorem sliceCaseT_eq (P : Kind → Kind → Bool) (conv : Kind → Nat → Option Nat) (shared : Bool)
    (a b c : Option Int) (value : Value) (n : Nat) :
    emap toNatUps (sliceCaseT (modelOps P conv shared) (a, b, c) value n (isSeqV value) []) =
      sliceUpdates a b c value n := by
  unfold sliceCaseT sliceUpdates sliceLengthT
  simp only [modelOps]
  cases hs : sliceIndices a b c n with
  | error e => rfl
  | ok t =>
    obtain ⟨s, e, st⟩ := t
    simp only
    cases value with
    | scalar c =>
      simp only [isSeqV, Bool.false_eq_true, if_false, sliceLoop1_eq, iterL_eq, sliceLen_toNat, Value.asCell]
      rw [forZip_stepOf okI okInt okInt_emap, emap_nil_append]
    | seq self items len ra =>
      simp only [isSeqV, if_true, lenV]
      cases hl : lenOf items len with
      | error e => rfl
      | ok m =>
        simp only [max_bne, decide_eq_true_eq]
        have hq : ∀ q : Int, q.toNat = sliceLength s e st → 
            (if ¬ q.toNat = m then (Except.error Err.value : Except Err (List (Nat × Cell))) else zipLoop okInt items ra 0 (rangeList s e st)) =
            (if sliceLength s e st ≠ m then Except.error Err.value else zipLoop okInt items ra 0 (rangeList s e st)) := by
          intro q hq; rw [hq]
        by_cases hm : sliceLength s e st = m
        · have : (Int.fdiv (e - s + (st - if st > 0 then 1 else -1)) st).toNat = m := hm
          simp only [this, hm, ne_eq, not_true_eq_false, if_false, sliceLoop1_eq, iterV_seq]
          rw [forZip_stepOf okI okInt okInt_emap, emap_nil_append]
        · have : ¬ (Int.fdiv (e - s + (st - if st > 0 then 1 else -1)) st).toNat = m := hm
          simp [this, hm]

theorem intCaseT_eq (O : Ops) (i : Int) (value : Value) (n : Nat) :
    emap toNatUps (intCaseT O i value n (isSeqV value) []) =
      (match normIdx n i with
       | .error e => .error e
       | .ok p => .ok [(p, value.asCell)]) := by
  have := idxBody_eq n [] i value.asCell
  unfold intCaseT
  rw [this, normIdx_emap]
  simp only [stepOf]
  cases normI n i <;> simp [toNatUps]

theorem idxCase_eq (is : List Int) (value : Value) (n : Nat)
    (r : Except Err (List (Int × Cell)))
    (hr : r = (if isSeqV value then
      match lenV value with
      | .error e => .error e
      | .ok len_value =>
      if ((is.length : Int) != len_value) then .error Err.value else
      forZip (iterV value) (stepOf (normI n)) 0 is []
    else
      forEach (fun u k => stepOf (normI n) u k value.asCell) is [])) :
    emap toNatUps r = idxUpdates is value n := by
  subst hr
  unfold idxUpdates
  cases value with
  | scalar c =>
    simp only [isSeqV, Bool.false_eq_true, if_false, Value.asCell]
    rw [forEach_stepOf (normI n) (normIdx n) (normIdx_emap n), emap_nil_append]
  | seq self items len ra =>
    simp only [isSeqV, if_true, lenV]
    cases hl : lenOf items len with
    | error e => rfl
    | ok m =>
      simp only
      by_cases hm : is.length = m
      · subst hm
        simp only [bne_self_eq_false, ne_eq, not_true_eq_false, if_false, Bool.false_eq_true, iterV_seq]
        rw [forZip_stepOf (normI n) (normIdx n) (normIdx_emap n), emap_nil_append]
      · have h2 : (((is.length : Nat) : Int) != (m : Int)) = true := by simp; omega
        simp [h2, hm]

theorem idxVecCaseT_eq (O : Ops) (is : List Int) (value : Value) (n : Nat) :
    emap toNatUps (idxVecCaseT O is value n (isSeqV value) []) = idxUpdates is value n := by
  apply idxCase_eq
  unfold idxVecCaseT
  rw [idxVecLoop1_eq, idxVecLoop2_eq]
  rfl

theorem idxListCaseT_eq (O : Ops) (is : List Int) (value : Value) (n : Nat) :
    emap toNatUps (idxListCaseT O is value n (isSeqV value) []) = idxUpdates is value n := by
  apply idxCase_eq
  unfold idxListCaseT
  rw [idxListLoop1_eq, idxListLoop2_eq]
  rfl

/-- the key dispatch and the collection of the updates, translated, is the model's `buildUpdates` (positions read as
    naturals) -/
theorem collectUpdatesT_eq (P : Kind → Kind → Bool) (conv : Kind → Nat → Option Nat) (shared : Bool)
    (key : Key) (value : Value) (n : Nat) :
    emap toNatUps (collectUpdatesT (modelOps P conv shared) key value n) = buildUpdates key value n := by
  unfold collectUpdatesT buildUpdates
  cases key with
  | int i => exact intCaseT_eq _ i value n
  | slice a b c => exact sliceCaseT_eq P conv shared a b c value n
  | maskList bs => exact maskCaseT_eq _ bs value n
  | maskVec bs => exact maskCaseT_eq _ bs value n
  | idxVec is => exact idxVecCaseT_eq _ is value n
  | idxList is => exact idxListCaseT_eq _ is value n
  | bad => rfl


theorem mem_rangeList {s e st x : Int} (h : x ∈ rangeList s e st) :
    ∃ k : Nat, k < rangeLen s e st ∧ x = s + (k : Int) * st := by
  simp only [rangeList, List.mem_map, List.mem_range] at h
  obtain ⟨k, hk, rfl⟩ := h
  exact ⟨k, hk, rfl⟩

theorem rangeList_bound_pos {s e st : Int} {n : Nat} (hst : st > 0) (hs : 0 ≤ s) (he : e ≤ n)
    {x : Int} (h : x ∈ rangeList s e st) : 0 ≤ x ∧ x < n := by
  obtain ⟨k, hk, rfl⟩ := mem_rangeList h
  simp only [rangeLen, hst, if_true] at hk
  by_cases hse : s < e
  · simp only [hse, if_true] at hk
    have hq : 0 ≤ (e - s - 1) / st := Int.ediv_nonneg (by omega) (by omega)
    have hk' : (k : Int) ≤ (e - s - 1) / st := by omega
    have := (Int.le_ediv_iff_mul_le hst).1 hk'
    have hk0 : 0 ≤ (k : Int) * st := Int.mul_nonneg (by omega) (by omega)
    omega
  · simp [hse] at hk

theorem rangeList_bound_neg {s e st : Int} {n : Nat} (hst : st < 0) (hs : s < n) (he : -1 ≤ e)
    {x : Int} (h : x ∈ rangeList s e st) : 0 ≤ x ∧ x < n := by
  obtain ⟨k, hk, rfl⟩ := mem_rangeList h
  have hst' : ¬ st > 0 := by omega
  simp only [rangeLen, hst', if_false, hst, if_true] at hk
  by_cases hse : e < s
  · simp only [hse, if_true] at hk
    have hq : 0 ≤ (s - e - 1) / (-st) := Int.ediv_nonneg (by omega) (by omega)
    have hk' : (k : Int) ≤ (s - e - 1) / (-st) := by omega
    have := (Int.le_ediv_iff_mul_le (by omega : (0:Int) < -st)).1 hk'
    have hk0 : 0 ≤ (k : Int) * (-st) := Int.mul_nonneg (by omega) (by omega)
    have : (k : Int) * (-st) = - ((k : Int) * st) := by rw [Int.mul_neg]
    omega
  · simp [hse] at hk

theorem slice_positions_bound {a b c : Option Int} {n : Nat} {s e st : Int}
    (h : sliceIndices a b c n = .ok (s, e, st)) {x : Int} (hx : x ∈ rangeList s e st) : 0 ≤ x ∧ x < n := by
  unfold sliceIndices at h
  simp only at h
  split at h
  · cases h
  · rename_i h0
    injection h with h
    simp only [Prod.mk.injEq] at h
    obtain ⟨hs, he, hst⟩ := h
    rw [hst] at hs he
    rcases Int.lt_or_gt_of_ne h0 with hneg | hpos
    · rw [hst] at hneg
      apply rangeList_bound_neg hneg _ _ hx
      · subst hs; cases a <;> simp only <;> split <;> omega
      · subst he; cases b <;> simp only <;> split <;> omega
    · rw [hst] at hpos
      apply rangeList_bound_pos hpos _ _ hx
      · subst hs; cases a <;> simp only <;> split <;> omega
      · subst he; cases b <;> simp only <;> split <;> omega

/-! ### every collected position is a valid list index -/

/-- `0 ≤ p < n` -/
def InB (n : Nat) (p : Int) : Prop := 0 ≤ p ∧ p < (n : Int)

theorem normI_bound {n : Nat} {k p : Int} (h : normI n k = .ok p) : InB n p := by
  unfold normI at h
  simp only at h
  generalize (if k < 0 then k + (n : Int) else k) = j at h
  by_cases hc : 0 ≤ j ∧ j < (n : Int)
  · simp [hc] at h; subst h; exact hc
  · simp [hc] at h

theorem okI_bound (n : Nat) (ks : List Int) (hks : ∀ k ∈ ks, InB n k) :
    ∀ k ∈ ks, ∀ p, okI k = .ok p → InB n p := by
  intro k hk p h
  injection h with h
  subst h
  exact hks k hk

theorem trueIdxFrom_bound (i : Nat) (bs : List Bool) : ∀ k ∈ trueIdxFrom i bs, i ≤ k ∧ k < i + bs.length := by
  induction bs generalizing i with
  | nil => simp [trueIdxFrom]
  | cons b bs ih =>
    intro k hk
    cases b
    · simp only [trueIdxFrom, Bool.false_eq_true, if_false] at hk
      have := ih (i + 1) k hk
      simp only [List.length_cons]; omega
    · simp only [trueIdxFrom, if_true, List.mem_cons] at hk
      rcases hk with hk | hk
      · subst hk; simp only [List.length_cons]; omega
      · have := ih (i + 1) k hk
        simp only [List.length_cons]; omega

theorem trueIdx_InB (bs : List Bool) : ∀ k ∈ (trueIdx bs).map Int.ofNat, InB bs.length k := by
  intro k hk
  simp only [List.mem_map] at hk
  obtain ⟨j, hj, rfl⟩ := hk
  have := trueIdxFrom_bound 0 bs j hj
  unfold InB
  simp only [Int.ofNat_eq_natCast]
  omega

theorem nil_InB (n : Nat) : ∀ u ∈ ([] : List (Int × Cell)), InB n u.1 := by simp

theorem maskCaseT_bound (O : Ops) (bs : List Bool) (value : Value) (n : Nat) (ups : List (Int × Cell))
    (h : maskCaseT O bs value n (isSeqV value) [] = .ok ups) : ∀ u ∈ ups, InB n u.1 := by
  unfold maskCaseT at h
  by_cases hl : bs.length = n
  · subst hl
    simp only [bne_self_eq_false, Bool.false_eq_true, if_false, trueIndices_eq] at h
    cases value with
    | scalar c =>
      simp only [isSeqV, Bool.false_eq_true, if_false, maskLoop2_eq] at h
      exact forEach_inv (InB _) okI _ _ [] ups (okI_bound _ _ (trueIdx_InB bs)) (nil_InB _) h
    | seq self items len ra =>
      simp only [isSeqV, if_true, lenV] at h
      cases hl : lenOf items len with
      | error e => simp [hl] at h
      | ok m =>
        simp only [hl] at h
        split at h
        · cases h
        · rw [maskLoop1_eq] at h
          exact forZip_inv (InB _) okI _ _ _ [] ups (okI_bound _ _ (trueIdx_InB bs)) (nil_InB _) h
  · have h1 : (((bs.length : Nat) : Int) != (n : Int)) = true := by simp; omega
    simp [h1] at h

theorem sliceCaseT_bound (P : Kind → Kind → Bool) (conv : Kind → Nat → Option Nat) (shared : Bool)
    (a b c : Option Int) (value : Value) (n : Nat) (ups : List (Int × Cell))
    (h : sliceCaseT (modelOps P conv shared) (a, b, c) value n (isSeqV value) [] = .ok ups) : ∀ u ∈ ups, InB n u.1 := by
  unfold sliceCaseT sliceLengthT at h
  simp only [modelOps] at h
  cases hs : sliceIndices a b c n with
  | error e => simp [hs] at h
  | ok t =>
    obtain ⟨s, e, st⟩ := t
    simp only [hs] at h
    have hk : ∀ k ∈ rangeList s e st, InB n k := fun k hk => slice_positions_bound hs hk
    cases value with
    | scalar c =>
      simp only [isSeqV, Bool.false_eq_true, if_false, sliceLoop1_eq] at h
      exact forZip_inv (InB _) okI _ _ _ [] ups (okI_bound _ _ hk) (nil_InB _) h
    | seq self items len ra =>
      simp only [isSeqV, if_true, lenV] at h
      cases hl : lenOf items len with
      | error e => simp [hl] at h
      | ok m =>
        simp only [hl] at h
        generalize (max (0 : Int) _) = q at h
        split at h
        · cases h
        · rw [sliceLoop1_eq] at h
          exact forZip_inv (InB _) okI _ _ _ [] ups (okI_bound _ _ hk) (nil_InB _) h

theorem intCaseT_bound (O : Ops) (i : Int) (value : Value) (n : Nat) (ups : List (Int × Cell))
    (h : intCaseT O i value n (isSeqV value) [] = .ok ups) : ∀ u ∈ ups, InB n u.1 := by
  have := idxBody_eq n [] i value.asCell
  unfold intCaseT at h
  rw [this] at h
  unfold stepOf at h
  cases hn : normI n i with
  | error e => simp [hn] at h
  | ok p =>
    simp only [hn, List.nil_append] at h
    injection h with h
    subst h
    intro u hu
    simp at hu
    subst hu
    exact normI_bound hn

theorem idxCase_bound (is : List Int) (value : Value) (n : Nat) (ups : List (Int × Cell))
    (h : (if isSeqV value then
      match lenV value with
      | .error e => .error e
      | .ok len_value =>
      if ((is.length : Int) != len_value) then .error Err.value else
      forZip (iterV value) (stepOf (normI n)) 0 is []
    else
      forEach (fun u k => stepOf (normI n) u k value.asCell) is []) = .ok ups) : ∀ u ∈ ups, InB n u.1 := by
  have hn : ∀ k ∈ is, ∀ p, normI n k = .ok p → InB n p := fun k _ p hp => normI_bound hp
  cases value with
  | scalar c =>
    simp only [isSeqV, Bool.false_eq_true, if_false] at h
    exact forEach_inv (InB _) (normI n) _ _ [] ups hn (nil_InB _) h
  | seq self items len ra =>
    simp only [isSeqV, if_true, lenV] at h
    cases hl : lenOf items len with
    | error e => simp [hl] at h
    | ok m =>
      simp only [hl] at h
      split at h
      · cases h
      · exact forZip_inv (InB _) (normI n) _ _ _ [] ups hn (nil_InB _) h

theorem collectUpdatesT_bound (P : Kind → Kind → Bool) (conv : Kind → Nat → Option Nat) (shared : Bool)
    (key : Key) (value : Value) (n : Nat) (ups : List (Int × Cell))
    (h : collectUpdatesT (modelOps P conv shared) key value n = .ok ups) : ∀ u ∈ ups, InB n u.1 := by
  unfold collectUpdatesT at h
  cases key with
  | int i => exact intCaseT_bound _ i value n ups h
  | slice a b c => exact sliceCaseT_bound P conv shared a b c value n ups h
  | maskList bs => exact maskCaseT_bound _ bs value n ups h
  | maskVec bs => exact maskCaseT_bound _ bs value n ups h
  | idxVec is =>
    apply idxCase_bound is value n ups
    simp only [idxVecCaseT, idxVecLoop1_eq, idxVecLoop2_eq] at h
    exact h
  | idxList is =>
    apply idxCase_bound is value n ups
    simp only [idxListCaseT, idxListLoop1_eq, idxListLoop2_eq] at h
    exact h
  | bad => cases h


/-! ### the MUTATE loop -/

theorem pyIndex_inb {len : Nat} {i : Int} (h : InB len i) : pyIndex len i = some i.toNat := by
  unfold InB at h
  unfold pyIndex
  have : ¬ i < 0 := by omega
  simp [this, h]

theorem mutateLoop_ok (l : List Cell) (i : Int) (c : Cell) (h : InB l.length i) :
    mutateLoopT l i c = .ok (l.set i.toNat c) := by
  have hlt : i.toNat < l.length := by unfold InB at h; omega
  unfold mutateLoopT pyGet pySet
  rw [pyIndex_inb h]
  simp [List.getElem?_eq_getElem hlt]

/-- the loop that writes the updates never raises on positions that are valid indices, and is `applyUpdates` -/
theorem mutate_eq (ups : List (Int × Cell)) (l : List Cell) (h : ∀ u ∈ ups, InB l.length u.1) :
    forEach (fun data_list ((idx, new_val) : Int × Cell) => mutateLoopT data_list idx new_val) ups l =
      .ok (applyUpdates l (toNatUps ups)) := by
  induction ups generalizing l with
  | nil => rfl
  | cons u ups ih =>
    obtain ⟨i, c⟩ := u
    have hi : InB l.length i := h (i, c) (List.mem_cons_self ..)
    simp only [forEach, mutateLoop_ok l i c hi]
    rw [ih (l.set i.toNat c) (by
      intro u hu
      rw [List.length_set]
      exact h u (List.mem_cons_of_mem _ hu))]
    simp [applyUpdates, toNatUps]

/-! ### `_promote` -/

/-- the class of the object after an assignment that took the state from `s` to `s'`: a `_Date` object whose column kind went
    from date to datetime becomes a plain `Vector`; nothing else changes the class -/
def classAfter (s s' : VState) (cls : PyClass) : PyClass :=
  if s.dtype.map (·.kind) = some Kind.date ∧ s'.dtype.map (·.kind) = some Kind.datetime ∧ cls = PyClass._Date
  then PyClass.Vector else cls

theorem tupleOf_eq_convAll (conv : Kind → Nat → Option Nat) (k : Kind) (l : List Cell) :
    tupleOf (fun x => if x.tag != Tag.none then construct conv k x else some x) l = convAll conv k l := by
  induction l with
  | nil => rfl
  | cons c cs ih =>
    obtain ⟨tag, uid⟩ := c
    cases tag with
    | none => simp only [tupleOf, convAll, convCell, bne_self_eq_false, Bool.false_eq_true, if_false, ih]; rfl
    | ty k' =>
      have hne : (Tag.ty k' != Tag.none) = true := by simp
      simp only [tupleOf, convAll, convCell, hne, if_true, ih]; rfl

theorem dtypeOf_some {s : VState} {d : DType} (h : s.dtype = some d) : dtypeOf s = d := by
  simp [dtypeOf, h]

theorem classAfter_same (s s' : VState) (cls : PyClass) (h : s'.dtype.map (·.kind) = s.dtype.map (·.kind)) :
    classAfter s s' cls = cls := by
  unfold classAfter
  split
  · rename_i hh
    rw [h] at hh
    obtain ⟨a, b, _⟩ := hh
    rw [a] at b
    cases b
  · rfl

theorem classAfter_notdate (s s' : VState) (cls : PyClass) (h : s.dtype.map (·.kind) ≠ some Kind.date) :
    classAfter s s' cls = cls := by
  simp [classAfter, h]

theorem promoteT_eq (P : Kind → Kind → Bool) (conv : Kind → Nat → Option Nat) (shared : Bool)
    (k : Kind) (d : DType) (s : VState) (cls : PyClass) (hd : s.dtype = some d) :
    promoteT (modelOps P conv shared) k s cls =
      ((promoteState conv k d s).1, (promoteState conv k d s).2, classAfter s (promoteState conv k d s).2 cls) := by
  have hdo := dtypeOf_some hd
  unfold promoteT promoteState promoteVec
  simp only [hdo, modelOps, tupleOf_eq_convAll]
  by_cases h1 : d.kind = k
  · simp [h1, classAfter_same]
  · have h1' : (d.kind == k) = false := by simp [h1]
    simp only [h1', Bool.false_eq_true, if_false, h1]
    by_cases h2 : k = .float ∧ d.kind = .int
    · obtain ⟨rfl, h2⟩ := h2
      have hnd : s.dtype.map (·.kind) ≠ some Kind.date := by simp [hd, h2]
      cases hc : convAll conv .float s.data <;> simp [h2, hc, classAfter_notdate _ _ _ hnd, dtypeOf, hd]
    · by_cases h3 : k = .complex ∧ (d.kind = .int ∨ d.kind = .float)
      · obtain ⟨rfl, h3⟩ := h3
        have hnd : s.dtype.map (·.kind) ≠ some Kind.date := by rcases h3 with h3 | h3 <;> simp [hd, h3]
        rcases h3 with h3 | h3 <;>
          cases hc : convAll conv .complex s.data <;> simp [h3, hc, classAfter_notdate _ _ _ hnd, dtypeOf, hd]
      · by_cases h4 : k = .datetime ∧ d.kind = .date
        · obtain ⟨rfl, h4⟩ := h4
          cases hc : convAll conv .datetime s.data with
          | none => simp [h4, hc, classAfter_same]
          | some nt =>
            by_cases hcl : cls = PyClass._Date <;> simp [h4, hc, classAfter, dtypeOf, hd, hcl]
        · have e2 : (k == Kind.float && d.kind == Kind.int) = false := by
            cases hh : (k == Kind.float && d.kind == Kind.int) <;> simp_all
          have e3 : (k == Kind.complex && [Kind.int, Kind.float].contains d.kind) = false := by
            cases hh : (k == Kind.complex && [Kind.int, Kind.float].contains d.kind) <;> simp_all
          have e4 : (k == Kind.datetime && d.kind == Kind.date) = false := by
            cases hh : (k == Kind.datetime && d.kind == Kind.date) <;> simp_all
          have m2 : (k == Kind.float && d.kind == Kind.int) = false := e2
          simp only [e2, e3, e4, Bool.false_eq_true, if_false]
          have f2 : ¬ ((k = Kind.float && d.kind = Kind.int) = true) := by simp_all
          have f3 : ¬ ((k = Kind.complex && (d.kind = Kind.int || d.kind = Kind.float)) = true) := by simp_all
          have f4 : ¬ ((k = Kind.datetime && d.kind = Kind.date) = true) := by simp_all
          simp [f2, f3, f4, classAfter_same]


/-! ### the type phase -/

theorem snd_toNatUps (ups : List (Int × Cell)) : (toNatUps ups).map (·.2) = ups.map (fun (_, v) => v) := by
  simp [toNatUps]

theorem typePhaseT_eq (P : Kind → Kind → Bool) (conv : Kind → Nat → Option Nat) (shared : Bool)
    (ups : List (Int × Cell)) (s : VState) (cls : PyClass) :
    typePhaseT (modelOps P conv shared) ups s.data s cls =
      ((typePhase P conv ((toNatUps ups).map (·.2)) s).1, (typePhase P conv ((toNatUps ups).map (·.2)) s).2,
        classAfter s (typePhase P conv ((toNatUps ups).map (·.2)) s).2 cls,
        (typePhase P conv ((toNatUps ups).map (·.2)) s).2.data) := by
  rw [snd_toNatUps]
  by_cases hv : ups = []
  · subst hv
    simp only [List.map_nil]
    rw [typePhase_trivial P conv _ s (Or.inl rfl)]
    simp [typePhaseT, classAfter_same]
  · have hvals : ups.map (fun (_, v) => v) ≠ [] := by simpa using hv
    have hne : (!ups.isEmpty) = true := by cases ups <;> simp_all
    generalize hvs : ups.map (fun (_, v) => v) = vals at hvals
    unfold typePhaseT
    simp only [hne, if_true, hvs]
    cases hd : s.dtype with
    | none =>
      rw [typePhase_trivial P conv _ s (Or.inr hd)]
      simp [hd, classAfter_same]
    | some d =>
      have hdo := dtypeOf_some hd
      simp only [hdo, Option.isSome_some, Bool.true_and]
      by_cases ho : d.kind = .object
      · rw [typePhase_object P conv vals s d hd ho hvals]
        have hh : vals.any (fun v => v.tag == Tag.none) = hasNone vals := rfl
        simp only [ho, bne_self_eq_false, Bool.false_eq_true, if_false, hh]
        have hcl : ∀ b, classAfter s { s with dtype := some ⟨.object, b⟩ } cls = cls := by
          intro b; apply classAfter_notdate; simp [hd, ho]
        obtain ⟨dk, dn⟩ := d
        obtain ⟨sd, sdt, sn, sf⟩ := s
        simp only at hd ho hcl ⊢
        subst hd ho
        cases dn <;> cases hasNone vals <;> simp [hcl, dtypeOf, classAfter_same]
      · rw [typePhase_eq P conv vals s d hd ho hvals]
        have ho' : (d.kind != Kind.object) = true := by simp [ho]
        simp only [ho', if_true, modelOps]
        cases hf : foldTarget P conv d vals with
        | error e => simp [classAfter_same]
        | ok target =>
          simp only
          by_cases hk : target.kind = d.kind
          · have hk' : (target.kind != d.kind) = false := by simp [hk]
            simp only [hk', Bool.false_eq_true, if_false, hk, if_true]
            have hcl : ∀ b, classAfter s { s with dtype := some ⟨d.kind, b⟩ } cls = cls := by
              intro b; apply classAfter_same; simp [hd]
            obtain ⟨dk, dn⟩ := d
            obtain ⟨sd, sdt, sn, sf⟩ := s
            simp only at hd hk hcl ⊢
            subst hd
            cases hb : target.nullable <;> cases dn <;> simp [hcl, dtypeOf, classAfter_same]
          · have hk' : (target.kind != d.kind) = true := by simp [hk]
            simp only [hk', if_true, hk, if_false]
            have hpt := promoteT_eq P conv shared target.kind d s cls hd
            simp only [modelOps] at hpt
            rw [hpt]
            unfold promoteState
            cases hp : promoteVec d.kind target.kind with
            | none => simp [classAfter_same]
            | some k' =>
              have := promoteVec_eq hp; subst this
              simp only [hk, if_false]
              cases hc : convAll conv target.kind s.data with
              | none => simp [classAfter_same]
              | some cvt =>
                have hcl : ∀ dt b, classAfter s { s with data := dt, dtype := some ⟨target.kind, b⟩ } cls =
                    classAfter s { s with data := cvt, dtype := some ⟨target.kind, d.nullable⟩ } cls := by
                  intro dt b; simp [classAfter]
                cases hb : target.nullable <;> cases hn : d.nullable <;> simp [dtypeOf, hcl]


/-! ### the method -/

/-- **`Vector.__setitem__`, translated, is the model's `setitem`** — for every promotability relation, conversion oracle,
    sharing flag, key, value, vector state and class of the object; the class afterwards is `classAfter`. -/
theorem setitemT_eq (P : Kind → Kind → Bool) (conv : Kind → Nat → Option Nat) (shared : Bool)
    (key : Key) (value : Value) (s : VState) (cls : PyClass) :
    setitemT (modelOps P conv shared) key value s cls =
      ((setitem P conv shared key value s).1, (setitem P conv shared key value s).2,
        classAfter s (setitem P conv shared key value s).2 cls) := by
  unfold setitemT setitem
  by_cases hsh : (!s.data.isEmpty && shared) = true
  · have hw : (if (!s.data.isEmpty) = true then (modelOps P conv shared).check_writable else none) = some Err.alias := by
      simp only [Bool.and_eq_true] at hsh
      simp [modelOps, hsh.1, hsh.2]
    simp only [hw, hsh, if_true]
    simp [classAfter_same]
  · have hw : (if (!s.data.isEmpty) = true then (modelOps P conv shared).check_writable else none) = none := by
      cases he : (!s.data.isEmpty) <;> cases shared <;> simp_all [modelOps]
    simp only [hw, hsh, Bool.false_eq_true, if_false]
    have hc := collectUpdatesT_eq P conv shared key value s.data.length
    cases hcu : collectUpdatesT (modelOps P conv shared) key value s.data.length with
    | error e =>
      rw [hcu] at hc
      simp only [emap_error] at hc
      rw [← hc]
      simp [classAfter_same]
    | ok ups =>
      rw [hcu] at hc
      simp only [emap_ok] at hc
      rw [← hc]
      have hb := collectUpdatesT_bound P conv shared key value _ ups hcu
      simp only
      rw [typePhaseT_eq]
      rcases typePhase_result P conv ((toNatUps ups).map (·.2)) s with ⟨e, he⟩ | ⟨s1, he, _, _, hlen, _⟩
      · rw [he]
      · rw [he]
        simp only
        rw [mutate_eq ups s1.data (by rw [hlen]; exact hb)]
        simp [materialise, invalidateFpT, classAfter]


/-- no field of the object (and not its class) is assigned before the last step that can raise: when the translated method
    raises, state and class are what they were -/
theorem setitemT_atomic (P : Kind → Kind → Bool) (conv : Kind → Nat → Option Nat) (shared : Bool)
    (key : Key) (value : Value) (s : VState) (cls : PyClass) (e : Err)
    (h : (setitemT (modelOps P conv shared) key value s cls).1 = some e) :
    (setitemT (modelOps P conv shared) key value s cls).2 = (s, cls) := by
  rw [setitemT_eq] at h ⊢
  have := setitem_err_unchanged P conv shared key value s e h
  simp only [this]
  rw [classAfter_same _ _ _ rfl]

/-- `_promote` alone: refusing or failing while converting stores nothing -/
theorem promoteT_atomic (P : Kind → Kind → Bool) (conv : Kind → Nat → Option Nat) (shared : Bool)
    (k : Kind) (d : DType) (s : VState) (cls : PyClass) (hd : s.dtype = some d) (e : Err)
    (h : (promoteT (modelOps P conv shared) k s cls).1 = some e) :
    (promoteT (modelOps P conv shared) k s cls).2 = (s, cls) := by
  rw [promoteT_eq P conv shared k d s cls hd] at h ⊢
  rcases promoteState_cases conv k d s with ⟨e', he⟩ | ⟨he, _⟩ | ⟨data', _, _, he⟩
  · simp only [he]; rw [classAfter_same _ _ _ rfl]
  · simp only [he]; rw [classAfter_same _ _ _ rfl]
  · rw [he] at h; cases h

/-- the order of the effectful steps, as read off the source: in `__setitem__` nothing is stored before `_promote` has returned,
    the tracker is told to forget the old storage before the new one is stored and told about the new one after the memo is
    dropped; in each branch of `_promote` the conversion of all elements precedes the first store, the dtype is set last
    (and the class, in the date branch, after it) -/
example : setitemSequenceT =
    ["alias.check_writable", "raise", "call _promote", "store _dtype", "store _dtype", "alias.unregister",
     "store _underlying", "call _invalidate_fp", "alias.register"] := by decide
example : promoteSequenceT =
    ["raise",
     "convert", "alias.unregister", "store _underlying", "alias.register", "store _dtype",
     "convert", "alias.unregister", "store _underlying", "alias.register", "store _dtype",
     "convert", "alias.unregister", "store _underlying", "alias.register", "store _dtype", "store __class__",
     "raise"] := by decide

/-! ### non-vacuity: the translated functions on concrete inputs -/

private def cI (u : Nat) : Cell := ⟨.ty .int, u⟩
private def cF (u : Nat) : Cell := ⟨.ty .float, u⟩
private def cD (u : Nat) : Cell := ⟨.ty .date, u⟩
private def cN : Cell := ⟨.none, 0⟩
private def conv1 : Kind → Nat → Option Nat := fun _ u => if u = 13 then none else some (u + 100)
private def sInt : VState := ⟨[cI 1, cI 2, cI 3, cI 4], some ⟨.int, false⟩, none, some [cI 1, cI 2, cI 3, cI 4]⟩
private def sDate : VState := ⟨[cD 1, cN], some ⟨.date, true⟩, none, none⟩
private def O1 : Ops := modelOps genP conv1 false

-- v[-1] = 9 : the last cell, memo dropped
example : setitemT O1 (.int (-1)) (.scalar (cI 9)) sInt .Vector =
    (none, ⟨[cI 1, cI 2, cI 3, cI 9], some ⟨.int, false⟩, none, none⟩, .Vector) := by decide +kernel
-- v[4] = 9 : SerifIndexError, nothing changed
example : setitemT O1 (.int 4) (.scalar (cI 9)) sInt .Vector = (some .index, sInt, .Vector) := by decide +kernel
-- v[::-2] = [7, 2.5] : positions 3 and 1, the column is promoted to float (every element converted), dtype set
example : setitemT O1 (.slice none none (some (-2))) (.seq (cI 0) [cI 7, cF 8] .ok none) sInt .Vector =
    (none, ⟨[cF 101, cF 8, cF 103, cI 7], some ⟨.float, false⟩, none, none⟩, .Vector) := by decide +kernel
-- v[1:3] = [7] : SerifValueError (slice_length 2, one value)
example : setitemT O1 (.slice (some 1) (some 3) none) (.seq (cI 0) [cI 7] .ok none) sInt .Vector =
    (some .value, sInt, .Vector) := by decide +kernel
-- v[[True, False, True, False]] = None : two cells, nullable flag set
example : setitemT O1 (.maskList [true, false, true, false]) (.scalar cN) sInt .Vector =
    (none, ⟨[cN, cI 2, cN, cI 4], some ⟨.int, true⟩, none, none⟩, .Vector) := by decide +kernel
-- v[[0, -1]] = <iterator that raises at its second item> : the exception, nothing changed
example : setitemT O1 (.idxList [0, -1]) (.seq (cI 0) [cI 7, cI 8] .ok (some 1)) sInt .Vector =
    (some .other, sInt, .Vector) := by decide +kernel
-- a float whose conversion of an existing element raises (uid 13): nothing changed
example : setitemT O1 (.int 0) (.scalar (cF 8)) ⟨[cI 13, cI 2], some ⟨.int, false⟩, none, none⟩ .Vector =
    (some .other, ⟨[cI 13, cI 2], some ⟨.int, false⟩, none, none⟩, .Vector) := by decide +kernel
-- a shared storage tuple: refused by the tracker before anything else
example : setitemT (modelOps genP conv1 true) (.int 0) (.scalar (cI 9)) sInt .Vector = (some .alias, sInt, .Vector) := by
  decide +kernel
-- a `_Date` object receiving a datetime: elements converted, None kept, dtype datetime, class switched to Vector
example : setitemT O1 (.int 0) (.scalar ⟨.ty .datetime, 5⟩) sDate ._Date =
    (none, ⟨[⟨.ty .datetime, 5⟩, cN], some ⟨.datetime, true⟩, none, none⟩, .Vector) := by decide +kernel
example : promoteT O1 .datetime sDate ._Date =
    (none, ⟨[⟨.ty .datetime, 101⟩, cN], some ⟨.datetime, true⟩, none, none⟩, .Vector) := by decide +kernel
example : promoteT O1 .str sInt .Vector = (some .type, sInt, .Vector) := by decide +kernel
example : sliceLengthT O1 (some 1, none, some (-1)) 4 = .ok 2 := by decide +kernel
-- Python's list indexing: `l[-1] = x` wraps, `l[4] = x` on four elements raises
example : pySet [cI 1, cI 2] (-1) (cI 9) = .ok [cI 1, cI 9] := by decide +kernel
example : pySet [cI 1, cI 2] 2 (cI 9) = .error .other := by decide +kernel

end Serif.Tie

#print axioms Serif.Tie.setitemT_eq
#print axioms Serif.Tie.setitemT_atomic
#print axioms Serif.Tie.collectUpdatesT_eq
#print axioms Serif.Tie.collectUpdatesT_bound
#print axioms Serif.Tie.promoteT_eq
#print axioms Serif.Tie.typePhaseT_eq
#print axioms Serif.Tie.mutate_eq
