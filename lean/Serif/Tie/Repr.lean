/-
  Translation tie for `display._format_column` (C20): the symmetric preview — `list(vals[:k]) + ['...'] + list(vals[len(vals)-k:])`
  when `len(vals) > k * 2`, else every value — and the `if`/`elif` chain that picks the formatting rule of one previewed value,
  translated from the source (`Serif/Gen/TranslatedRepr.lean`, regenerated on every run), are the model's `Repr.preview` and
  `Repr.fmtCell` — for every column length, preview size, dtype kind and cell.  The texts themselves (`str`, `repr`, `:g`, `:.1f`,
  `isoformat`) and the float rule's `is_whole` test stay oracles / hand-modelled (`Repr.isWhole`).
  Supplementary (see Serif/Tie/Typing.lean).
-/
import Serif.Gen.TranslatedRepr

namespace Serif.Tie
open Serif Serif.Repr Serif.Gen.TD

/-- the translated preview is the model's, for every list and every preview size -/
theorem preview_eq {α : Type} (k : Nat) (xs : List α) : previewT k xs = preview k xs := rfl

/-- what each label of the dispatch chain stands for, on the model's cell -/
def render (c : Cell) : Fmt → Res String
  | .lit s => .ok s
  | .floatRule => do
      let whole ← isWhole c
      if whole then need c.f1 else need c.g
  | .str => .ok c.str
  | .iso => need c.iso
  | .repr => .ok c.repr

/-- the translated `if`/`elif` chain selects, for every dtype kind and every cell, the rule the model's `fmtCell` applies -/
theorem fmtBranch_eq (kind : Option Kind) (c : Cell) :
    render c (fmtBranchT kind c.eqEllipsis c.isNone c.isStr) = fmtCell kind c := by
  unfold fmtBranchT fmtCell
  cases c.eqEllipsis <;> cases c.isNone <;> simp [render]
  all_goals
    cases kind with
    | none => cases c.isStr <;> simp [render]
    | some k => cases k <;> cases c.isStr <;> simp [render]

/-- a previewed column is formatted entry by entry with that rule; the placeholder is the literal `'...'` -/
theorem fmtShown_eq (kind : Option Kind) (s : Shown Cell) :
    fmtShown kind s = (match s with
      | .ellipsis => .ok "..."
      | .cell c => render c (fmtBranchT kind c.eqEllipsis c.isNone c.isStr)) := by
  cases s with
  | ellipsis => rfl
  | cell c => simp [fmtShown, fmtBranch_eq]

/-- non-vacuity: 7 values with a preview of 2 show the first two, the placeholder, the last two -/
example : previewT 2 [1, 2, 3, 4, 5, 6, 7] = [.cell 1, .cell 2, .ellipsis, .cell 6, .cell 7] := by decide

end Serif.Tie
