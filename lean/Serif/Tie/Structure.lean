/-
  Translation tie for the structural table operations (C02, and the `rename_columns` clause of C08).

  `Serif/Gen/TranslatedStructure.lean` is written by `harness/tr/structure.py` from the current text of
  `Table.rename_columns`, `Table.T`, `Table.__lshift__`, `Table.__rshift__`, `Table.__iter__`, `Row.__init__` / `set_index` /
  `_underlying` / `__getitem__` / `__iter__` (src/serif/table.py) and of the Table dispatch of `Vector.__new__` and the value
  part of `Vector.__lshift__` (src/serif/vector.py), statement by statement (each Lean step carries the Python statement it
  stands for as a comment).  This file proves the translated functions equal to the hand-written models for every table:

    rename_columns  = Assign.renameColumns (hence renameSim / renameApply)        for all name lists, all raise positions
    T               = Tab.transpose                                                for every rectangular table
    <<              = Tab.appendRows (table operand), Tab.appendRow (one cell per column)
    >>              = Tab.stackCols (Table, Vector, iterable and dict operands)
    iter / Row      = Tab.rows, Tab.row, cell (i, j) of the row view = cell i of column j

  so that C02's `stack_preserves_left`, `stack_rect`, `append_rows_every_column`, `append_row_every_column`,
  `transpose_transpose`, `transpose_rect`, `row_index_eq_columns`, `iter_eq_index` and C08's `rename_columns_atomic`,
  `rename_columns_ok` are theorems about a mechanical translation of what the code says now.  The hypothesis `Rect cols n`
  ("every column has `_length` cells") is the class invariant that `Table.__init__` establishes (Serif/Tie/Tab.lean,
  `tableInit_rect`) and C02 `rect_invariant` maintains.  Supplementary (see Serif/Tie/Typing.lean).
-/
import Serif.Gen.TranslatedStructure
import Serif.Model.Assign
import Serif.Proofs.Tab
import Serif.Tie.Tab
import Serif.Props.C08

namespace Serif.Tie
open Serif Serif.Tab Serif.Assign Serif.Gen.TS

/-! ### rename_columns -/

/-- the inner loop (`for col in self._underlying: if col._name == old: col._name = new; break`) renames the first match,
    i.e. is the model's `renameOne`, leaving the names alone when nothing matches -/
theorem renameFirstT_eq (old new : Option Nat) (names : List (Option Nat)) :
    renameFirstT old new names = (renameOne names old new).getD names := by
  induction names with
  | nil => simp [renameFirstT, renameOne]
  | cons x xs ih =>
    unfold renameFirstT
    by_cases h : (x == old) = true
    · simp [renameOne, List.findIdx?_cons, h]
    · have h' : (x == old) = false := by simpa using h
      rw [ih]
      simp only [renameOne, List.findIdx?_cons, h', Bool.false_eq_true, ↓reduceIte]
      cases hf : xs.findIdx? (fun y => y == old) with
      | none => simp
      | some i => simp

/-- one iteration of the simulation loop is the model's `renameOne` (`simulated.index(old)`, then `simulated[idx] = new`) -/
theorem renameSimStep_eq (simulated : List (Option Nat)) (old new : Option Nat) :
    renameSimStepT simulated (old, new) =
    (match renameOne simulated old new with
      | none => .error Err.key
      | some s => .ok s) := by
  simp only [renameSimStepT, listIndex, renameOne]
  cases simulated.findIdx? (fun y => y == old) <;> rfl

/-- the simulation loop, from any pair number `j` and any intermediate list of names: it raises exactly when the model's
    `renameSim` does, with the same exception, and otherwise ends with the same simulated names -/
theorem renameSimLoop_eq (raiseAt : Option Nat) (j : Nat) (pairs : List (Option Nat × Option Nat)) (s : List (Option Nat)) :
    (match renameSim raiseAt j pairs s with
      | .error e => (forRaising raiseAt renameSimStepT j pairs s).1 = some e
      | .ok s' => forRaising raiseAt renameSimStepT j pairs s = (none, s')) := by
  induction pairs generalizing j s with
  | nil => simp [forRaising, renameSim]
  | cons p rest ih =>
    obtain ⟨old, new⟩ := p
    unfold forRaising renameSim
    by_cases hr : raiseAt = some j
    · simp [hr]
    · simp only [hr, ↓reduceIte]
      rw [renameSimStep_eq]
      cases h : renameOne s old new with
      | none => simp
      | some s' => simpa using ih (j + 1) s'

/-- when the simulation went through, the apply loop neither raises nor skips: it is the model's `renameApply` -/
theorem renameApplyLoop_eq (raiseAt : Option Nat) (j : Nat) (pairs : List (Option Nat × Option Nat))
    (s r names : List (Option Nat)) (hsim : renameSim raiseAt j pairs s = .ok r) :
    forRaising raiseAt renameApplyStepT j pairs names = (none, renameApply pairs names) := by
  induction pairs generalizing j s names with
  | nil => simp [forRaising, renameApply]
  | cons p rest ih =>
    obtain ⟨old, new⟩ := p
    unfold renameSim at hsim
    by_cases hr : raiseAt = some j
    · simp [hr] at hsim
    · simp only [hr, ↓reduceIte] at hsim
      cases h : renameOne s old new with
      | none => simp [h] at hsim
      | some s' =>
        simp only [h] at hsim
        unfold forRaising
        simp only [hr, ↓reduceIte, renameApplyStepT]
        rw [ih (j + 1) s' _ hsim, renameFirstT_eq]
        cases h2 : renameOne names old new <;> simp [renameApply, h2]

/-- **`Table.rename_columns`, translated statement by statement, is the model's `renameColumns`** — for all lists of old and
    new names, every position at which iterating them may raise, and every list of column names -/
theorem renameColumns_eq (olds news : List (Option Nat)) (raiseAt : Option Nat) (names : List (Option Nat)) :
    renameColumnsT olds news raiseAt names = renameColumns olds news raiseAt names := by
  unfold renameColumnsT renameColumns
  by_cases hl : olds.length = news.length
  · simp only [hl, bne_self_eq_false, Bool.false_eq_true, ↓reduceIte, ne_eq, not_true_eq_false]
    have hs := renameSimLoop_eq raiseAt 0 (olds.zip news) names
    cases h : renameSim raiseAt 0 (olds.zip news) names with
    | error e =>
      rw [h] at hs
      cases hf : forRaising raiseAt renameSimStepT 0 (olds.zip news) names with
      | mk o st => rw [hf] at hs; simp only at hs; subst hs; rfl
    | ok r =>
      rw [h] at hs
      simp only at hs
      rw [hs]
      exact renameApplyLoop_eq raiseAt 0 _ names r names h
  · have : (olds.length != news.length) = true := by simpa using hl
    simp [this, hl]

/-- in particular the two passes are the model's `renameSim` and `renameApply` (what `rename_columns_atomic` and
    `rename_columns_ok` of C08 are about): a refused call leaves the names alone, an accepted one applies `renameApply` -/
theorem renameColumns_passes (olds news : List (Option Nat)) (raiseAt : Option Nat) (names : List (Option Nat))
    (hl : olds.length = news.length) :
    renameColumnsT olds news raiseAt names =
      (match renameSim raiseAt 0 (olds.zip news) names with
       | .error e => (some e, names)
       | .ok _ => (none, renameApply (olds.zip news) names)) := by
  rw [renameColumns_eq]
  simp only [renameColumns, hl, ne_eq, not_true_eq_false, ↓reduceIte]
  rfl

/-- C08 `rename_columns_atomic`, read on the translation: a `rename_columns` that raises (length mismatch, a missing old name at
    any position, name lists that raise while being read) leaves every column name as it was -/
theorem renameColumnsT_atomic (olds news : List (Option Nat)) (raiseAt : Option Nat) (names : List (Option Nat)) (e : Err)
    (h : (renameColumnsT olds news raiseAt names).1 = some e) : (renameColumnsT olds news raiseAt names).2 = names := by
  rw [renameColumns_eq] at h ⊢
  exact Serif.C08.rename_columns_atomic olds news raiseAt names e h

/-- C08 `rename_columns_ok`, read on the translation: a successful call applied exactly the sequential first-match renaming -/
theorem renameColumnsT_ok (olds news : List (Option Nat)) (raiseAt : Option Nat) (names names' : List (Option Nat))
    (h : renameColumnsT olds news raiseAt names = (none, names')) :
    olds.length = news.length ∧ renameSpec (olds.zip news) names = some names' := by
  rw [renameColumns_eq] at h
  exact Serif.C08.rename_columns_ok olds news raiseAt names names' h

example : renameColumnsT [some 1, some 2] [some 2, some 3] none [some 1, some 2, some 1] = (none, [some 3, some 2, some 1]) := by decide
example : renameColumnsT [some 1, some 1] [some 2, some 2] none [some 1, some 2, some 1] = (none, [some 2, some 2, some 2]) := by decide
example : renameColumnsT [some 1, some 9] [some 2, some 3] none [some 1, some 2] = (some Err.key, [some 1, some 2]) := by decide
example : renameColumnsT [some 1] [some 2, some 3] none [some 1] = (some Err.value, [some 1]) := by decide
example : renameColumnsT [some 1, some 2] [some 5, some 6] (some 1) [some 1, some 2] = (some Err.other, [some 1, some 2]) := by decide
example : renameColumnsT [none] [some 4] none [some 1, none] = (none, [some 1, some 4]) := by decide

/-! ### `Table(initial)`, `Vector(<tuple of Vectors>)`, `Table.T` -/

/-- `Table(cols)` for columns of one length `n` (at least one column): the table of these columns with `_length = n` -/
theorem mkTable_rect {α : Type} (cols : List (List α)) (n : Nat) (h : Rect cols n) (hne : cols ≠ []) :
    mkTable cols = .ok { cols := cols, length := n } := by
  unfold mkTable
  rw [tableInitLength_eq]
  cases cols with
  | nil => exact absurd rfl hne
  | cons c cs =>
    have hc : c.length = n := h c List.mem_cons_self
    have hr : rectB (c :: cs) n = true := (rectB_iff _ _).mpr h
    simp [hc, hr]

theorem mkTable_nil {α : Type} : mkTable ([] : List (List α)) = .ok { cols := [], length := 0 } := by
  rfl

/-- a constructed table is rectangular with `_length` rows: `mkTable` refuses everything else -/
theorem mkTable_ok_rect {α : Type} (cols : List (List α)) (t : Tbl α) (h : mkTable cols = .ok t) :
    t.cols = cols ∧ Rect cols t.length := by
  unfold mkTable at h
  cases hl : Serif.Gen.TT.tableInitLengthT (cols.map List.length) with
  | error e => simp [hl] at h
  | ok n =>
    simp only [hl, Except.ok.injEq] at h
    subst h
    exact ⟨rfl, (tableInit_rect cols n hl).1⟩

private theorem mem_distinct (l : List Nat) : ∀ y ∈ distinct l, y ∈ l := by
  induction l with
  | nil => simp [distinct]
  | cons x xs ih =>
    intro y hy
    simp only [distinct, List.mem_cons, List.mem_filter] at hy
    rcases hy with rfl | ⟨hy, _⟩
    · exact List.mem_cons_self
    · exact List.mem_cons_of_mem _ (ih y hy)

/-- `len({len(x) for x in initial}) == 1` holds for a non-empty rectangular list of columns -/
theorem distinct_const (l : List Nat) (n : Nat) (h : ∀ x ∈ l, x = n) (hne : l ≠ []) : (distinct l).length = 1 := by
  cases l with
  | nil => exact absurd rfl hne
  | cons x xs =>
    have hx : x = n := h x List.mem_cons_self
    have : (distinct xs).filter (fun y => y != x) = [] := by
      rw [List.filter_eq_nil_iff]
      intro y hy
      have := h y (List.mem_cons_of_mem _ (mem_distinct xs y hy))
      simp [this, hx]
    simp [distinct, this]

/-- `Vector(cols)` for a non-empty tuple of Vectors of one length is the Table of these columns -/
theorem vectorOfVectors_rect {α : Type} (cols : List (List α)) (n : Nat) (h : Rect cols n) (hne : cols ≠ []) :
    vectorOfVectorsT cols = .ok (some { cols := cols, length := n }) := by
  unfold vectorOfVectorsT
  have h1 : (distinct (cols.map List.length)).length = 1 := by
    apply distinct_const _ n
    · intro x hx
      simp only [List.mem_map] at hx
      obtain ⟨c, hc, rfl⟩ := hx
      exact h c hc
    · simpa using hne
  have h2 : cols.isEmpty = false := by cases cols <;> simp_all
  simp [h1, h2, mkTable_rect cols n h hne]

/-- whatever Table `Vector(cols)` returns is rectangular and has exactly the given columns -/
theorem vectorOfVectors_ok_rect {α : Type} (cols : List (List α)) (t : Tbl α) (h : vectorOfVectorsT cols = .ok (some t)) :
    t.cols = cols ∧ Rect cols t.length := by
  unfold vectorOfVectorsT at h
  simp only at h
  by_cases h1 : (!cols.isEmpty) = true
  · rw [if_pos h1] at h
    by_cases h2 : ((distinct (cols.map List.length)).length == 1) = true
    · rw [if_pos h2] at h
      cases hm : mkTable cols with
      | error e => rw [hm] at h; cases h
      | ok t' =>
        rw [hm] at h
        simp only [Except.ok.injEq, Option.some.injEq] at h
        subst h
        exact mkTable_ok_rect cols t' hm
    · rw [if_neg h2] at h; cases h
  · rw [if_neg h1] at h; cases h

/-- `tuple(col[row_idx] for col in self._underlying)` is the model's `row` -/
theorem genRow_eq {α : Type} (cols : List (List α)) (n i : Nat) (h : Rect cols n) (hi : i < n) :
    genE (fun col => getItem col i) cols = .ok (row cols i) := by
  induction cols with
  | nil => simp [genE, row]
  | cons c cs ih =>
    have hc : c.length = n := h c List.mem_cons_self
    have hcs : Rect cs n := fun x hx => h x (List.mem_cons_of_mem _ hx)
    have hci : c[i]? = some (c[i]'(by omega)) := List.getElem?_eq_getElem (by omega)
    have hg : getItem c i = .ok (c[i]'(by omega)) := by simp [getItem, hci]
    unfold genE
    simp only [hg, ih hcs, row, List.filterMap_cons, hci]

/-- the row loop of `T` (`rows = []; for row_idx in range(num_rows): …; rows.append(row)`) from any accumulated prefix -/
theorem transposeLoop_eq {α : Type} (cols : List (List α)) (n : Nat) (h : Rect cols n) (l : List Nat) (acc : List (List α))
    (hl : ∀ i ∈ l, i < n) :
    forE (transposeStepT cols) l acc = .ok (acc ++ l.map (row cols)) := by
  induction l generalizing acc with
  | nil => simp [forE]
  | cons i is ih =>
    unfold forE
    simp only [transposeStepT]
    rw [genRow_eq cols n i h (hl i List.mem_cons_self)]
    simp only
    rw [ih _ (fun k hk => hl k (List.mem_cons_of_mem _ hk))]
    simp

/-- **`Table.T` of a 2-D table, translated statement by statement, is the model's `transpose`**: for every rectangular table
    (`n` rows) the result is the Table whose columns are the rows; its `_length` is the former width (0 when there was no row,
    in which case the result has no column at all) -/
theorem tableT_eq {α : Type} (cols : List (List α)) (n : Nat) (h : Rect cols n) (higher : Except Err (Tbl α)) :
    transposeT 2 cols n higher =
      .ok { cols := transpose cols n, length := if n = 0 then 0 else cols.length } := by
  unfold transposeT
  simp only [beq_self_eq_true, ↓reduceIte]
  rw [transposeLoop_eq cols n h (List.range n) [] (by simp)]
  simp only [List.nil_append]
  by_cases hn : n = 0
  · subst hn; simp [transpose, rows, mkTable_nil]
  · have hrect : Rect (rows cols n) cols.length := by
      intro r hr
      simp only [rows, List.mem_map, List.mem_range] at hr
      obtain ⟨i, hi, rfl⟩ := hr
      exact row_length cols n i h hi
    have hne : rows cols n ≠ [] := by
      intro he
      have := rows_length cols n
      rw [he] at this
      simp at this; omega
    simp only [hn, ↓reduceIte, transpose]
    exact mkTable_rect (rows cols n) cols.length hrect hne

/-- C02 `transpose_transpose`, read on the translation: `t.T.T` has the columns and the `_length` of `t` -- for a table with at
    least one row and one column (the translated `T` of a table without rows is the table without columns: `rows = []`,
    `Table([])`, so its columns are not recovered; the model's `transpose` is given the width explicitly) -/
theorem tableT_twice {α : Type} (cols : List (List α)) (n : Nat) (h : Rect cols n) (hn : n ≠ 0) (hne : cols ≠ [])
    (higher : Except Err (Tbl α)) :
    (match transposeT 2 cols n higher with
      | .ok t => transposeT 2 t.cols t.length higher
      | .error e => .error e) = .ok { cols := cols, length := n } := by
  rw [tableT_eq cols n h higher]
  have hr : Rect (transpose cols n) cols.length := by
    intro r hr
    simp only [transpose, rows, List.mem_map, List.mem_range] at hr
    obtain ⟨i, hi, rfl⟩ := hr
    exact row_length cols n i h hi
  have hl : cols.length ≠ 0 := by simpa using hne
  simp only [hn, ↓reduceIte]
  rw [tableT_eq (transpose cols n) cols.length hr higher, transpose_transpose_cols cols n h]
  simp [hl, transpose, rows_length]

/-- the other branch is the parameter (tables of tables: outside C02) -/
theorem tableT_higher {α : Type} (k : Nat) (hk : k ≠ 2) (cols : List (List α)) (n : Nat) (higher : Except Err (Tbl α)) :
    transposeT k cols n higher = higher := by
  simp [transposeT, hk]

/-- a ragged "table" is not silently transposed: the translated `T` raises IndexError where the model drops cells
    (so `Rect` is needed in `tableT_eq`, and it is what the class invariant provides) -/
example : transposeT 2 [[1, 2], [3]] 2 (.error Err.other) = .error Err.index := by decide
example : transposeT 2 [[1, 2, 3], [4, 5, 6]] 3 (.error Err.other) = .ok { cols := [[1, 4], [2, 5], [3, 6]], length := 2 } := by decide
example : transposeT 2 [[], []] 0 (.error Err.other) = .ok { cols := ([] : List (List Nat)), length := 0 } := by decide
example : Rect [[1, 2, 3], [4, 5, 6]] 3 := by intro c hc; simp at hc; rcases hc with rfl | rfl <;> rfl
example : vectorOfVectorsT [[1, 2], [3, 4]] = .ok (some { cols := [[1, 2], [3, 4]], length := 2 }) := by decide
example : vectorOfVectorsT [[1, 2], [3]] = .ok none := by decide
example : vectorOfVectorsT ([] : List (List Nat)) = .ok none := by decide

/-! ### generators -/

/-- a generator whose element expression never raises is a `map` -/
theorem genE_ok_map {α β : Type} (f : α → Except Err β) (g : α → β) (l : List α) (h : ∀ x ∈ l, f x = .ok (g x)) :
    genE f l = .ok (l.map g) := by
  induction l with
  | nil => rfl
  | cons x xs ih =>
    unfold genE
    rw [h x List.mem_cons_self, ih (fun y hy => h y (List.mem_cons_of_mem _ hy))]
    rfl

/-! ### `Vector.__lshift__` (values) and `Table.__lshift__` -/

/-- the cells the right operand of `column << other` contributes -/
def _root_.Serif.Gen.TS.VOther.cells {α : Type} : VOther α → List α
  | .vector data _ => data
  | .iterable items => items
  | .scalar x => [x]

/-- `column << other` never yields anything but the column's cells followed by the operand's cells … -/
theorem vecLshift_ok {α : Type} (x : List α) (d : Option DType) (o : VOther α) (r : List α) (h : vecLshiftT x d o = .ok r) :
    r = x ++ o.cells := by
  cases o with
  | vector data schema =>
    simp only [vecLshiftT] at h
    by_cases hm : vecLshiftMismatchT d schema = true
    · rw [if_pos hm] at h; cases h
    · rw [if_neg hm] at h; simp only [Except.ok.injEq] at h; exact h.symm
  | iterable items => simp only [vecLshiftT, Except.ok.injEq] at h; exact h.symm
  | scalar v => simp only [vecLshiftT, Except.ok.injEq] at h; exact h.symm

/-- … and it does yield them unless both sides are typed, non-nullable and of different kinds (SerifTypeError) -/
theorem vecLshift_eq {α : Type} (x : List α) (d : Option DType) (o : VOther α)
    (hsafe : ∀ data sd os, o = .vector data (some os) → d = some sd → (sd.nullable || os.nullable || sd.kind == os.kind) = true) :
    vecLshiftT x d o = .ok (x ++ o.cells) := by
  cases o with
  | vector data schema =>
    simp only [vecLshiftT, VOther.cells]
    have hm : vecLshiftMismatchT d schema = false := by
      cases d with
      | none => rfl
      | some sd =>
        cases schema with
        | none => rfl
        | some os =>
          have := hsafe data sd os rfl rfl
          simp only [vecLshiftMismatchT]
          cases h1 : sd.nullable <;> cases h2 : os.nullable <;> simp_all
    simp [hm]
  | iterable items => rfl
  | scalar v => rfl

/-- the refusal is really there -/
example : vecLshiftT [1, 2] (some ⟨Kind.int, false⟩) (.vector [3] (some ⟨Kind.str, false⟩)) = .error Err.type := by decide
example : vecLshiftT [1, 2] (some ⟨Kind.int, false⟩) (.vector [3] (some ⟨Kind.str, true⟩)) = .ok [1, 2, 3] := by decide

private theorem zip_map_append {α : Type} (a b : List (List α)) :
    (a.zip b).map (fun p => p.1 ++ p.2) = appendRows a b := by
  induction a generalizing b with
  | nil => simp [appendRows]
  | cons c cs ih =>
    cases b with
    | nil => simp [appendRows]
    | cons d ds => simp [appendRows, ih]

private theorem zip_map_append_item {α : Type} (a : List (List α)) (vals : List α) :
    (a.zip vals).map (fun p => p.1 ++ [p.2]) = appendRow a vals := by
  unfold appendRow
  induction a generalizing vals with
  | nil => simp [appendRows]
  | cons c cs ih =>
    cases vals with
    | nil => simp [appendRows]
    | cons d ds => simp [appendRows, ih]

/-- **`table << other_table`, translated statement by statement**: when the column-wise `x << y` is concatenation of cells
    (`vecLshift_eq`), the new columns handed to `Vector(...)` are the model's `appendRows` -/
theorem lshift_table_eq {α β : Type} (shiftCol : List α → List α → Except Err (List α)) (shiftItem : List α → β → Except Err (List α))
    (hshift : ∀ x y, shiftCol x y = .ok (x ++ y)) (a b : List (List α)) (hw : a.length = b.length) :
    lshiftT shiftCol shiftItem a (.table b) = vectorOfVectorsT (appendRows a b) := by
  simp only [lshiftT, zipStrict, hw, bne_self_eq_false, Bool.false_eq_true, ↓reduceIte]
  rw [genE_ok_map _ (fun p => p.1 ++ p.2) _ (fun p _ => hshift p.1 p.2), zip_map_append]

/-- … so for rectangular operands of one width (at least one column) the result is the Table with columns `appendRows a b`
    and `_length = n + m` -/
theorem lshift_table_rect {α β : Type} (shiftCol : List α → List α → Except Err (List α)) (shiftItem : List α → β → Except Err (List α))
    (hshift : ∀ x y, shiftCol x y = .ok (x ++ y)) (a b : List (List α)) (n m : Nat) (ha : Rect a n) (hb : Rect b m)
    (hw : a.length = b.length) (hne : a ≠ []) :
    lshiftT shiftCol shiftItem a (.table b) = .ok (some { cols := appendRows a b, length := n + m }) := by
  rw [lshift_table_eq shiftCol shiftItem hshift a b hw]
  apply vectorOfVectors_rect _ _ (appendRows_rect a b n m ha hb)
  intro he
  have := appendRows_length a b hw
  rw [he] at this
  cases a with
  | nil => exact hne rfl
  | cons _ _ => simp at this

/-- a different number of columns is refused (ValueError) -/
theorem lshift_table_width {α β : Type} (shiftCol : List α → List α → Except Err (List α)) (shiftItem : List α → β → Except Err (List α))
    (a b : List (List α)) (hw : a.length ≠ b.length) :
    lshiftT shiftCol shiftItem a (.table b) = .error Err.value := by
  have : (a.length != b.length) = true := by simpa using hw
  simp [lshiftT, this]

/-- **`table << [v0, v1, …]`, translated statement by statement**: one cell per column, the model's `appendRow` -/
theorem lshift_items_eq {α : Type} (shiftCol : List α → List α → Except Err (List α)) (shiftItem : List α → α → Except Err (List α))
    (hshift : ∀ x v, shiftItem x v = .ok (x ++ [v])) (a : List (List α)) (vals : List α) (hw : a.length = vals.length) :
    lshiftT shiftCol shiftItem a (.items vals) = vectorOfVectorsT (appendRow a vals) := by
  simp only [lshiftT, zipStrict, hw, bne_self_eq_false, Bool.false_eq_true, ↓reduceIte]
  rw [genE_ok_map _ (fun p => p.1 ++ [p.2]) _ (fun p _ => hshift p.1 p.2), zip_map_append_item]

theorem lshift_items_rect {α : Type} (shiftCol : List α → List α → Except Err (List α)) (shiftItem : List α → α → Except Err (List α))
    (hshift : ∀ x v, shiftItem x v = .ok (x ++ [v])) (a : List (List α)) (vals : List α) (n : Nat) (ha : Rect a n)
    (hw : a.length = vals.length) (hne : a ≠ []) :
    lshiftT shiftCol shiftItem a (.items vals) = .ok (some { cols := appendRow a vals, length := n + 1 }) := by
  rw [lshift_items_eq shiftCol shiftItem hshift a vals hw]
  have hb : Rect (vals.map (fun v => [v])) 1 := by
    intro c hc; simp only [List.mem_map] at hc; obtain ⟨v, _, rfl⟩ := hc; rfl
  have hw' : a.length = (vals.map (fun v => [v])).length := by simpa using hw
  apply vectorOfVectors_rect _ _ (appendRows_rect a _ n 1 ha hb)
  intro he
  have := appendRows_length a _ hw'
  rw [he] at this
  cases a with
  | nil => exact hne rfl
  | cons _ _ => simp at this

theorem lshift_items_width {α β : Type} (shiftCol : List α → List α → Except Err (List α)) (shiftItem : List α → β → Except Err (List α))
    (a : List (List α)) (vals : List β) (hw : a.length ≠ vals.length) :
    lshiftT shiftCol shiftItem a (.items vals) = .error Err.value := by
  have : (a.length != vals.length) = true := by simpa using hw
  simp [lshiftT, this]

/-- the hypotheses on `x << y` are met by the translated `Vector.__lshift__` (untyped columns; for typed ones `vecLshift_eq`) -/
example : ∀ x y : List Nat, (fun x y => vecLshiftT x none (.vector y none)) x y = .ok (x ++ y) := fun _ _ => rfl
example : ∀ (x : List Nat) (v : Nat), (fun x v => vecLshiftT x none (.scalar v)) x v = .ok (x ++ [v]) := fun _ _ => rfl
example : lshiftT (fun x y => vecLshiftT x none (.vector y none)) (fun x (v : Nat) => vecLshiftT x none (.scalar v))
    [[1, 2], [3, 4]] (.table [[5], [6]]) = .ok (some { cols := [[1, 2, 5], [3, 4, 6]], length := 3 }) := by decide
example : lshiftT (fun x y => vecLshiftT x none (.vector y none)) (fun x (v : Nat) => vecLshiftT x none (.scalar v))
    [[1, 2], [3, 4]] (.items [9, 8]) = .ok (some { cols := [[1, 2, 9], [3, 4, 8]], length := 3 }) := by decide
example : lshiftT (fun x y => vecLshiftT x none (.vector y none)) (fun x (v : Nat) => vecLshiftT x none (.scalar v))
    [[1, 2], [3, 4]] (.items [9]) = .error Err.value := by decide

/-! ### `Table.__rshift__` -/

/-- the cells a dict value contributes (`none`: a scalar, refused) -/
def _root_.Serif.Gen.TS.DictVal.cells? {α : Type} : DictVal α → Option (List α)
  | .vector data => some data
  | .iterable data => some data
  | .scalar => none

/-- the dict loop (`named_cols = []; for col_name, values in other.items(): …; named_cols.append(col)`) from any prefix:
    values that are vectors / iterables -- of the table's length when the table has a column, of any length when it has
    none (`if self._underlying and …`) -- are appended in order -/
theorem rshiftDictLoop_eq {α : Type} (cols : List (List α)) (n : Nat) (items : List (Name × DictVal α)) (ds acc : List (List α))
    (hds : items.map (fun it => it.2.cells?) = ds.map some) (hlen : cols ≠ [] → Rect ds n) :
    forE (rshiftDictStepT cols n) items acc = .ok (acc ++ ds) := by
  induction items generalizing ds acc with
  | nil =>
    cases ds with
    | nil => simp [forE]
    | cons _ _ => simp at hds
  | cons it rest ih =>
    cases ds with
    | nil => simp at hds
    | cons d ds' =>
      simp only [List.map_cons, List.cons.injEq] at hds
      obtain ⟨h1, h2⟩ := hds
      have hg : (!cols.isEmpty && d.length != n) = false := by
        cases cols with
        | nil => rfl
        | cons c cs =>
          have hd : d.length = n := hlen (by simp) d List.mem_cons_self
          simp [hd]
      have hstep : rshiftDictStepT cols n acc it = .ok (acc ++ [d]) := by
        obtain ⟨nm, v⟩ := it
        cases v with
        | vector data =>
          simp only [DictVal.cells?, Option.some.injEq] at h1; subst h1
          simp only [rshiftDictStepT, hg]; rfl
        | iterable data =>
          simp only [DictVal.cells?, Option.some.injEq] at h1; subst h1
          simp only [rshiftDictStepT, hg]; rfl
        | scalar => simp [DictVal.cells?] at h1
      unfold forE
      rw [hstep]
      simp only
      rw [ih ds' (acc ++ [d]) h2 (fun hc c hm => hlen hc c (List.mem_cons_of_mem _ hm))]
      simp

/-- **`table >> {name: values, …}`, translated statement by statement, is the model's `stackCols`** -/
theorem rshift_dict_eq {α : Type} (cols : List (List α)) (n : Nat) (dt : Option DType) (sb : Except Err Bool)
    (items : List (Name × DictVal α)) (ds : List (List α))
    (hds : items.map (fun it => it.2.cells?) = ds.map some) (hlen : Rect ds n) (h : Rect cols n) (hne : cols ≠ []) :
    rshiftT cols n dt sb (.dict items) = .ok (some { cols := stackCols cols ds, length := n }) := by
  simp only [rshiftT]
  rw [rshiftDictLoop_eq cols n items ds [] hds (fun _ => hlen)]
  have hr : Rect (cols ++ ds) n := by
    intro c hc
    rcases List.mem_append.mp hc with hc | hc
    · exact h c hc
    · exact hlen c hc
  simp only [List.nil_append]
  rw [mkTable_rect (cols ++ ds) n hr (by simp [hne])]
  rfl

/-- on a table without columns the length test is skipped (`if self._underlying and …`): the values only have to agree with
    each other (`Table(...)` checks that), whatever `_length` says -/
theorem rshift_dict_empty {α : Type} (n m : Nat) (dt : Option DType) (sb : Except Err Bool)
    (items : List (Name × DictVal α)) (ds : List (List α))
    (hds : items.map (fun it => it.2.cells?) = ds.map some) (hlen : Rect ds m) (hne : ds ≠ []) :
    rshiftT [] n dt sb (.dict items) = .ok (some { cols := stackCols [] ds, length := m }) := by
  simp only [rshiftT]
  rw [rshiftDictLoop_eq [] n items ds [] hds (fun h => absurd rfl h)]
  simp only [List.nil_append]
  rw [mkTable_rect ds m hlen hne]
  rfl

/-- a value of another length, and a scalar value, are refused (ValueError) when the table has a column -/
theorem rshift_dict_refuses {α : Type} (cols : List (List α)) (n : Nat) (dt : Option DType) (sb : Except Err Bool)
    (nm : Name) (v : DictVal α) (rest : List (Name × DictVal α)) (hne : cols ≠ [])
    (hbad : ∀ d, v.cells? = some d → d.length ≠ n) :
    rshiftT cols n dt sb (.dict ((nm, v) :: rest)) = .error Err.value := by
  have he : cols.isEmpty = false := by cases cols <;> simp_all
  simp only [rshiftT, forE]
  cases v with
  | vector data =>
    have : (data.length != n) = true := by simpa using hbad data rfl
    simp [rshiftDictStepT, he, this]
  | iterable data =>
    have : (data.length != n) = true := by simpa using hbad data rfl
    simp [rshiftDictStepT, he, this]
  | scalar => simp [rshiftDictStepT]

/-- **`table >> other_table`, translated statement by statement, is the model's `stackCols`**: a Table's `_dtype` is None
    (`Table.__init__`: `self._dtype = None`), so the type-safety refusal does not apply; the concatenated columns go to `Vector(…)` -/
theorem rshift_table_eq {α : Type} (a b : List (List α)) (n : Nat) (sb : Except Err Bool) (schema : Option DType) :
    rshiftT a n tableDtypeT sb (.table b schema) = vectorOfVectorsT (stackCols a b) := by
  simp [rshiftT, stackCols, rshiftMismatchT, tableDtypeT]

theorem rshift_table_rect {α : Type} (a b : List (List α)) (n : Nat) (sb : Except Err Bool) (schema : Option DType)
    (ha : Rect a n) (hb : Rect b n) (hne : a ≠ []) :
    rshiftT a n tableDtypeT sb (.table b schema) = .ok (some { cols := stackCols a b, length := n }) := by
  rw [rshift_table_eq]
  have hr : Rect (stackCols a b) n := by
    intro c hc
    rcases List.mem_append.mp hc with hc | hc
    · exact ha c hc
    · exact hb c hc
  exact vectorOfVectors_rect _ n hr (by simp [stackCols, hne])

/-- with a `_dtype` the refusal is exactly the documented one -/
theorem rshift_table_typed {α : Type} (a b : List (List α)) (n : Nat) (sb : Except Err Bool) (sd os : DType) :
    rshiftT a n (some sd) sb (.table b (some os)) =
      if !sd.nullable && !os.nullable && sd.kind != os.kind then .error Err.type else vectorOfVectorsT (stackCols a b) := by
  simp only [rshiftT, stackCols, rshiftMismatchT]
  rfl

/-- **`table >> vector` and `table >> iterable`**: one more column, the model's `stackCols a [v]` -/
theorem rshift_vector_eq {α : Type} (a : List (List α)) (v : List α) (n : Nat) (dt : Option DType) (sb : Except Err Bool) :
    rshiftT a n dt sb (.vector v) = vectorOfVectorsT (stackCols a [v]) ∧
    rshiftT a n dt sb (.iterable v) = vectorOfVectorsT (stackCols a [v]) := by
  simp [rshiftT, stackCols]

theorem rshift_vector_rect {α : Type} (a : List (List α)) (v : List α) (n : Nat) (dt : Option DType) (sb : Except Err Bool)
    (ha : Rect a n) (hv : v.length = n) :
    rshiftT a n dt sb (.vector v) = .ok (some { cols := stackCols a [v], length := n }) ∧
    rshiftT a n dt sb (.iterable v) = .ok (some { cols := stackCols a [v], length := n }) := by
  have hr : Rect (stackCols a [v]) n := by
    intro c hc
    rcases List.mem_append.mp hc with hc | hc
    · exact ha c hc
    · simp only [List.mem_singleton] at hc; rw [hc]; exact hv
  have := vectorOfVectors_rect (stackCols a [v]) n hr (by simp [stackCols])
  obtain ⟨h1, h2⟩ := rshift_vector_eq a v n dt sb
  exact ⟨h1.trans this, h2.trans this⟩

/-- whatever Table `>>` returns (any operand form) is rectangular and keeps the left columns in front
    (`stack_preserves_left` applies to it) -/
theorem rshift_ok_left {α : Type} (a : List (List α)) (n : Nat) (dt : Option DType) (sb : Except Err Bool) (o : ROther α) (t : Tbl α)
    (h : rshiftT a n dt sb o = .ok (some t)) : Rect t.cols t.length ∧ t.cols.take a.length = a := by
  have key : ∀ b, vectorOfVectorsT (a ++ b) = .ok (some t) → Rect t.cols t.length ∧ t.cols.take a.length = a := by
    intro b hb
    obtain ⟨h1, h2⟩ := vectorOfVectors_ok_rect _ t hb
    rw [h1]; exact ⟨h2, by simp⟩
  cases o with
  | dict items =>
    simp only [rshiftT] at h
    cases hl : forE (rshiftDictStepT a n) items [] with
    | error e => simp [hl] at h
    | ok named =>
      simp only [hl] at h
      cases hm : mkTable (a ++ named) with
      | error e => simp [hm] at h
      | ok t' =>
        simp only [hm, Except.ok.injEq, Option.some.injEq] at h
        subst h
        obtain ⟨h1, h2⟩ := mkTable_ok_rect _ t' hm
        rw [h1]; exact ⟨h2, by simp⟩
  | table b schema =>
    simp only [rshiftT] at h
    by_cases hm : rshiftMismatchT dt schema = true
    · rw [if_pos hm] at h; cases h
    · rw [if_neg hm] at h; exact key b h
  | vector v => exact key [v] (by simpa [rshiftT] using h)
  | iterable v => exact key [v] (by simpa [rshiftT] using h)
  | scalar x =>
    simp only [rshiftT] at h
    cases sb with
    | error e => simp at h
    | ok b => cases b <;> simp at h

example : rshiftT [[1, 2], [3, 4]] 2 none (.error Err.type) (.table [[5, 6]] none)
    = .ok (some { cols := [[1, 2], [3, 4], [5, 6]], length := 2 }) := by decide
example : rshiftT [[1, 2], [3, 4]] 2 none (.error Err.type) (.dict [(some 7, .iterable [5, 6]), (none, .vector [7, 8])])
    = .ok (some { cols := [[1, 2], [3, 4], [5, 6], [7, 8]], length := 2 }) := by decide
example : rshiftT [[1, 2], [3, 4]] 2 none (.error Err.type) (.dict [(some 7, .iterable [5, 6, 7])]) = .error Err.value := by decide
example : rshiftT [[1, 2], [3, 4]] 2 none (.error Err.type) (.dict [(some 7, (.scalar : DictVal Nat))]) = .error Err.value := by decide
/-- `t >> Vector(wrong length)`: a warning and a nested Vector, not a Table (outside C02, see DESIGN) -/
example : rshiftT [[1, 2], [3, 4]] 2 none (.error Err.type) (.vector [5]) = .ok none := by decide
example : rshiftT ([] : List (List Nat)) 0 none (.error Err.type) (.dict [(some 7, .iterable [5, 6, 7])])
    = .ok (some { cols := [[5, 6, 7]], length := 3 }) := by decide
example : rshiftT [[1, 2]] 2 none (.error Err.type) (.scalar 5) = .error Err.type := by decide
example : rshiftT ([] : List (List Nat)) 0 none (.ok false) (.scalar 5) = .ok none := by decide

/-! ### rows: `Table.__iter__`, `Row` -/

/-- the materialised row view (`tuple(row)`, what every inherited Vector method of a `Row` sees) is the model's `row` -/
theorem rowUnderlying_eq {α : Type} (cols : List (List α)) (n i : Nat) (h : Rect cols n) (hi : i < n) :
    rowUnderlyingT (rowInitT cols) i = .ok (row cols i) := genRow_eq cols n i h hi

/-- unpacking a row (`x, y, z = row`) gives the same cells -/
theorem rowIter_eq {α : Type} (cols : List (List α)) (n i : Nat) (h : Rect cols n) (hi : i < n) :
    rowIterT (rowInitT cols) i = .ok (row cols i) := genRow_eq cols n i h hi

/-- **`row[j]` is cell `i` of column `j`** (`row_index_eq_columns`): the translated `Row.__getitem__` reads exactly the cell
    the model's `row` has at position `j`, and raises IndexError exactly beyond the last column -/
theorem rowGetItem_eq {α : Type} (cols : List (List α)) (n i j : Nat) (h : Rect cols n) (hi : i < n) :
    (match rowGetItemT (rowInitT cols) i j with
      | .ok v => some v
      | .error _ => none) = (row cols i)[j]? ∧
    (j < cols.length → rowGetItemT (rowInitT cols) i j = (match (cols[j]?).bind (·[i]?) with
      | some v => .ok v
      | none => .error Err.index)) ∧
    (cols.length ≤ j → rowGetItemT (rowInitT cols) i j = .error Err.index) := by
  obtain ⟨hl, hg⟩ := row_eq_map cols n i h hi
  by_cases hj : j < cols.length
  · have hc : cols[j]? = some (cols[j]) := List.getElem?_eq_getElem hj
    have hlen : (cols[j]).length = n := h _ (List.getElem_mem hj)
    have hci : (cols[j])[i]? = some ((cols[j])[i]'(by omega)) := List.getElem?_eq_getElem (by omega)
    refine ⟨?_, fun _ => ?_, fun hge => absurd hj (by omega)⟩
    · rw [hg j hj, hci]; simp [rowGetItemT, rowInitT, getItem, hc, hci]
    · simp [rowGetItemT, rowInitT, getItem, hc, hci]
  · have hc : cols[j]? = none := List.getElem?_eq_none (by omega)
    have hr : (row cols i)[j]? = none := List.getElem?_eq_none (by omega)
    refine ⟨?_, fun hlt => absurd hlt hj, fun _ => ?_⟩
    · rw [hr]; simp [rowGetItemT, rowInitT, getItem, hc]
    · simp [rowGetItemT, rowInitT, getItem, hc]

/-- **iterating a table, translated statement by statement, yields the model's `rows`** (`iter_eq_index`, `shape`) -/
theorem tableIter_eq {α : Type} (cols : List (List α)) (n : Nat) (h : Rect cols n) :
    tableIterT cols n = .ok (rows cols n) := by
  unfold tableIterT rows
  exact genE_ok_map _ (row cols) _ (fun i hi => rowUnderlying_eq cols n i h (List.mem_range.mp hi))

example : tableIterT [[1, 2, 3], [4, 5, 6]] 3 = .ok [[1, 4], [2, 5], [3, 6]] := by decide
example : rowGetItemT (rowInitT [[1, 2, 3], [4, 5, 6]]) 2 1 = .ok 6 := by decide
example : rowGetItemT (rowInitT [[1, 2, 3], [4, 5, 6]]) 2 2 = .error Err.index := by decide
example : rowIterT (rowInitT [[1, 2, 3], [4, 5, 6]]) 1 = .ok [2, 5] := by decide
example : tableIterT ([] : List (List Nat)) 0 = .ok [] := by decide

end Serif.Tie
