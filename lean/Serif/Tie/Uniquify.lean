/-
  Translation tie for the output names of `Table.aggregate` / `Table.window` (C12, C13, C18).

  `Serif/Gen/TranslatedUniquify.lean` (regenerated on every run by harness/tr/uniquify.py from the text of src/serif/table.py) holds,
  for each of the two methods, the local function `uniquify` translated statement by statement (the closure set is an explicit
  state, the `while` loop is `whileFuel <condition> <body> fuel`), the local function that builds the candidate name of a built-in
  (`make_agg_name` / `sanitize`), and the naming skeleton of the method (the statements that touch the set of used names or the
  list of result columns, in source order).  This file proves them equal to the hand-written models **for all inputs**:

    * `uniquifyAgg_eq`, `uniquifyWin_eq`: the translated `uniquify` (result and new set) is `Group.uniquify` for every rendering
      `sfx` of the number, every list of used names and every name; `uniquifyAgg_eq_X`, `uniquifyWin_eq_X`: with `sfx = toString`
      its result is `X.uniquify` (the model behind C18);
    * `uniquifyFuelAgg_stable`, `uniquifyFuelWin_stable`: any fuel `≥ len(used) + 1` gives the same result, and
      `uniquifyAgg_exits` / `uniquifyWin_exits`: the loop condition is false for the name handed out — i.e. the bounded loop is
      the `while` loop;
    * `makeAggNameAgg_eq`, `makeAggNameWin_eq` (+ `_X`): the candidate names are `Group.aggName` / `X.aggCand` (window's
      `_sanitize_user_name(base) or "col"` needs: the sanitizer never returns the empty string — `sanitizeCore_ne_empty` shows the
      model's sanitizer does not);
    * `namesAgg_eq`, `namesWin_eq`: the naming skeleton is `Group.uniquifyAll sfx <raw names in column order> []`;
      `namesAgg_eq_rawNames`, `namesWin_eq_rawNames`, `aggregate_names_translated`, `window_names_translated`: … which is the list of
      column names of the model's `Group.aggregate` / `Group.window`; `namesAgg_eq_X`, `namesWin_eq_X`: … and `X.aggNames`.

  Parameters (not translated): `sfx`/`fmt` (how an f-string renders an integer; C12's `suffix_rendering_injective` is about
  `toString`), `sanitize_user_name` (tied in Serif/Tie/Sanitize.lean).
  Supplementary (see Serif/Tie/Typing.lean).
-/
import Serif.Gen.TranslatedUniquify
import Serif.Proofs.Group
import Serif.Proofs.ExprNames
import Serif.Proofs.Names

set_option linter.unusedSimpArgs false
set_option linter.unusedVariables false

namespace Serif.Tie
open Serif Serif.Gen.TU

/-! ### 1. `uniquify` -/

/-- the translated `while` loop (condition `f"{name}{i}" in used`, body `i += 1`) followed by `f"{name}{i}"` is the model's
    `uniqLoop`, for every fuel -/
theorem whileLoop_eq (sfx : Nat → String) (name : String) (used : List String) (fuel i : Nat) :
    name ++ sfx (whileFuel (fun i => used.contains (name ++ sfx i)) (fun i => let i : Nat := i + 1; i) fuel i)
      = Group.uniqLoop sfx name used fuel i := by
  induction fuel generalizing i with
  | zero => rfl
  | succ fuel ih =>
    simp only [whileFuel, Group.uniqLoop]
    split
    · exact ih (i + 1)
    · rfl

/-- `uniquify` of `Table.aggregate`, translated, is the model's: same name handed out, same new set -/
theorem uniquifyAgg_eq (sfx : Nat → String) (used : List String) (name : String) :
    uniquifyTAgg sfx used name = Group.uniquify sfx used name := by
  unfold uniquifyTAgg uniquifyFuelTAgg Group.uniquify
  cases h : used.contains name
  · rfl
  · simp only [Bool.not_true, Bool.false_eq_true, if_false, if_true, whileLoop_eq]

/-- `uniquify` of `Table.window`, translated, is the model's -/
theorem uniquifyWin_eq (sfx : Nat → String) (used : List String) (name : String) :
    uniquifyTWin sfx used name = Group.uniquify sfx used name := by
  unfold uniquifyTWin uniquifyFuelTWin Group.uniquify
  cases h : used.contains name
  · rfl
  · simp only [Bool.not_true, Bool.false_eq_true, if_false, if_true, whileLoop_eq]

/-- with more fuel than `used` has elements, the amount of fuel does not matter -/
theorem uniqLoop_fuel (sfx : Nat → String) (name : String) (hinj : ∀ i j, name ++ sfx i = name ++ sfx j → i = j)
    (used : List String) (f1 f2 i : Nat) (h1 : used.length < f1) (h2 : used.length < f2) :
    Group.uniqLoop sfx name used f1 i = Group.uniqLoop sfx name used f2 i := by
  obtain ⟨j1, _, e1, n1, m1⟩ := Group.uniqLoop_spec sfx name hinj f1 used i h1
  obtain ⟨j2, _, e2, n2, m2⟩ := Group.uniqLoop_spec sfx name hinj f2 used i h2
  have : j1 = j2 := by
    rcases Nat.lt_trichotomy j1 j2 with h | h | h
    · exact absurd (m2 j1 (by assumption) h) n1
    · exact h
    · exact absurd (m1 j2 (by assumption) h) n2
  rw [e1, e2, this]

theorem uniquifyFuelAgg_stable (sfx : Nat → String) (hinj : ∀ name i j, name ++ sfx i = name ++ sfx j → i = j)
    (used : List String) (name : String) (fuel : Nat) (hf : used.length + 1 ≤ fuel) :
    uniquifyFuelTAgg sfx fuel used name = uniquifyTAgg sfx used name := by
  unfold uniquifyTAgg uniquifyFuelTAgg
  cases h : used.contains name
  · rfl
  · simp only [Bool.not_true, Bool.false_eq_true, if_false, whileLoop_eq]
    rw [uniqLoop_fuel sfx name (hinj name) used fuel (used.length + 1) 2 (by omega) (by omega)]

theorem uniquifyFuelWin_stable (sfx : Nat → String) (hinj : ∀ name i j, name ++ sfx i = name ++ sfx j → i = j)
    (used : List String) (name : String) (fuel : Nat) (hf : used.length + 1 ≤ fuel) :
    uniquifyFuelTWin sfx fuel used name = uniquifyTWin sfx used name := by
  unfold uniquifyTWin uniquifyFuelTWin
  cases h : used.contains name
  · rfl
  · simp only [Bool.not_true, Bool.false_eq_true, if_false, whileLoop_eq]
    rw [uniqLoop_fuel sfx name (hinj name) used fuel (used.length + 1) 2 (by omega) (by omega)]

/-- the name handed out is not in the set (for the numbered names this is the negated `while` condition: the bounded loop ended
    because the condition became false, not because the fuel ran out), and the new set is the old one plus that name -/
theorem uniquifyAgg_exits (sfx : Nat → String) (hinj : ∀ name i j, name ++ sfx i = name ++ sfx j → i = j)
    (used : List String) (name : String) :
    used.contains (uniquifyTAgg sfx used name).1 = false ∧
      (uniquifyTAgg sfx used name).2 = (uniquifyTAgg sfx used name).1 :: used := by
  rw [uniquifyAgg_eq]
  obtain ⟨h1, h2⟩ := Group.uniquify_fresh sfx hinj used name
  exact ⟨by simpa using h1, h2⟩

theorem uniquifyWin_exits (sfx : Nat → String) (hinj : ∀ name i j, name ++ sfx i = name ++ sfx j → i = j)
    (used : List String) (name : String) :
    used.contains (uniquifyTWin sfx used name).1 = false ∧
      (uniquifyTWin sfx used name).2 = (uniquifyTWin sfx used name).1 :: used := by
  rw [uniquifyWin_eq]
  obtain ⟨h1, h2⟩ := Group.uniquify_fresh sfx hinj used name
  exact ⟨by simpa using h1, h2⟩

/-! #### the model behind C18 (`X.uniquify`, numbers rendered by `toString`) -/

theorem findFresh_eq_uniqLoop (name : String) (used : List String) (fuel i : Nat) (c : String)
    (h : X.findFresh name used fuel i = some c) : c = Group.uniqLoop toString name used fuel i := by
  induction fuel generalizing i with
  | zero => simp [X.findFresh] at h
  | succ fuel ih =>
    simp only [X.findFresh] at h
    simp only [Group.uniqLoop]
    split at h
    · rename_i hc; rw [if_pos hc]; exact ih (i + 1) h
    · rename_i hc; rw [if_neg hc]; cases h; rfl

/-- the two hand-written models of `uniquify` agree -/
theorem X_uniquify_eq (used : List String) (name : String) :
    X.uniquify used name = (Group.uniquify toString used name).1 := by
  unfold X.uniquify Group.uniquify
  cases h : used.contains name
  · rfl
  · obtain ⟨c, hc⟩ := X.findFresh_terminates name used
    simp only [if_true, hc, Option.getD_some]
    exact findFresh_eq_uniqLoop _ _ _ _ _ hc

theorem uniquifyAgg_eq_X (used : List String) (name : String) :
    (uniquifyTAgg toString used name).1 = X.uniquify used name := by
  rw [uniquifyAgg_eq, X_uniquify_eq]

theorem uniquifyWin_eq_X (used : List String) (name : String) :
    (uniquifyTWin toString used name).1 = X.uniquify used name := by
  rw [uniquifyWin_eq, X_uniquify_eq]

theorem X_uniqAll_eq (used l : List String) : X.uniqAll used l = Group.uniquifyAll toString l used := by
  induction l generalizing used with
  | nil => rfl
  | cons c cs ih =>
    simp only [X.uniqAll, Group.uniquifyAll]
    rw [X_uniquify_eq, ih]
    have : (Group.uniquify toString used c).2 = (Group.uniquify toString used c).1 :: used := by
      unfold Group.uniquify; split <;> rfl
    rw [this]

/-! ### 2. the candidate names: `make_agg_name` (aggregate) / `sanitize` (window) -/

/-- `col._name or "key"` / `col._name or "col"`: the translator's `pyOrStr` is the model's `nameOr` -/
theorem pyOrStr_eq (n : Option String) (d : String) : pyOrStr n d = Group.nameOr n d := by
  cases n <;> rfl

/-- what the model of C12 takes as an oracle field (`ValCol.san`: "the sanitised base name"): the code's
    `_sanitize_user_name(col._name or "col")`, `"col"` when that is `None` -/
def sanOf (san : String → Option String) (n : Option String) : String :=
  match san (Group.nameOr n "col") with
  | none => "col"
  | some s => s

theorem makeAggNameAgg_eq (san : String → Option String) (n : Option String) (fn : Group.Fn) :
    makeAggNameTAgg san n fn.suffix = Group.aggName (sanOf san n) fn := by
  unfold makeAggNameTAgg Group.aggName sanOf
  rw [pyOrStr_eq]
  dsimp only
  generalize san (Group.nameOr n "col") = r
  cases r <;> rfl

/-- window spells it `_sanitize_user_name(base) or "col"`: the same, as long as the sanitizer does not return `""` -/
theorem makeAggNameWin_eq_Agg (san : String → Option String) (n : Option String) (suffix : String)
    (h : san (Group.nameOr n "col") ≠ some "") :
    makeAggNameTWin san n suffix = makeAggNameTAgg san n suffix := by
  unfold makeAggNameTWin makeAggNameTAgg
  first
    | rfl          -- (window spelled like aggregate)
    | (rw [pyOrStr_eq]
       dsimp only
       generalize san (Group.nameOr n "col") = r at h
       cases r with
       | none => rfl
       | some s =>
         have : s ≠ "" := fun e => h (by rw [e])
         simp [pyOrStr, this])

theorem makeAggNameWin_eq (san : String → Option String) (n : Option String) (fn : Group.Fn)
    (h : san (Group.nameOr n "col") ≠ some "") :
    makeAggNameTWin san n fn.suffix = Group.aggName (sanOf san n) fn := by
  rw [makeAggNameWin_eq_Agg san n _ h, makeAggNameAgg_eq]

/-- the model behind C18 writes the same thing as `X.aggCand` -/
theorem aggCand_eq (san : String → Option String) (n : Option String) (f : X.AggFn) (given : String) :
    X.aggCand san n (some f) given = sanOf san n ++ "_" ++ f.suffix := by
  unfold X.aggCand sanOf Group.nameOr
  cases n <;> dsimp only <;> (generalize san _ = r; cases r <;> rfl)

theorem keyCand_eq (n : Option String) : X.keyCand n = Group.nameOr n "key" := by
  cases n <;> rfl

theorem makeAggNameAgg_eq_X (san : String → Option String) (n : Option String) (f : X.AggFn) (given : String) :
    makeAggNameTAgg san n f.suffix = X.aggCand san n (some f) given := by
  rw [aggCand_eq]
  unfold makeAggNameTAgg sanOf
  rw [pyOrStr_eq]
  dsimp only
  generalize san (Group.nameOr n "col") = r
  cases r <;> rfl

theorem makeAggNameWin_eq_X (san : String → Option String) (n : Option String) (f : X.AggFn) (given : String)
    (h : san (Group.nameOr n "col") ≠ some "") :
    makeAggNameTWin san n f.suffix = X.aggCand san n (some f) given := by
  rw [makeAggNameWin_eq_Agg san n _ h, makeAggNameAgg_eq_X]

/-- the hypothesis of the window theorems holds for the model of `_sanitize_user_name` (Serif/Tie/Sanitize.lean ties it to the
    code): it returns `None` or a non-empty string -/
theorem sanitizeCore_ne_empty (s : Names.Str) : Names.sanitizeCore s ≠ some [] := by
  unfold Names.sanitizeCore
  simp only []
  generalize Names.stripU (Names.subRuns false s) = a
  cases a with
  | nil => simp
  | cons c cs =>
    simp only [List.isEmpty_cons, Bool.false_eq_true, if_false, ne_eq, Option.some.injEq]
    unfold Names.finish Names.guardReserved Names.guardIndexed Names.prefixC
    intro h
    have hl := congrArg List.length h
    revert hl
    simp only []
    repeat' split
    all_goals simp

/-! ### 3. the naming skeleton: which names are registered, in which order -/

/-- the set of used names after the successive `uniquify` calls (the model's `uniquifyAll` returns the names only) -/
def usedAfter (sfx : Nat → String) : List String → List String → List String
  | [], used => used
  | n :: ns, used => usedAfter sfx ns (Group.uniquify sfx used n).2

/-- one block of the method: the candidates `raws` are uniquified one after the other and appended to the result -/
def stage (sfx : Nat → String) (raws : List String) (st : List String × List String) : List String × List String :=
  (usedAfter sfx raws st.1, st.2 ++ Group.uniquifyAll sfx raws st.1)

theorem usedAfter_append (sfx : Nat → String) (a b used : List String) :
    usedAfter sfx (a ++ b) used = usedAfter sfx b (usedAfter sfx a used) := by
  induction a generalizing used with
  | nil => rfl
  | cons x xs ih => simp only [List.cons_append, usedAfter, ih]

theorem uniquifyAll_append (sfx : Nat → String) (a b used : List String) :
    Group.uniquifyAll sfx (a ++ b) used = Group.uniquifyAll sfx a used ++ Group.uniquifyAll sfx b (usedAfter sfx a used) := by
  induction a generalizing used with
  | nil => rfl
  | cons x xs ih => simp only [List.cons_append, Group.uniquifyAll, usedAfter, ih]

theorem stage_stage (sfx : Nat → String) (a b : List String) (st : List String × List String) :
    stage sfx b (stage sfx a st) = stage sfx (a ++ b) st := by
  simp only [stage, usedAfter_append, uniquifyAll_append, List.append_assoc]

theorem stage_init (sfx : Nat → String) (raws : List String) :
    (stage sfx raws ([], [])).2 = Group.uniquifyAll sfx raws [] := by
  simp [stage]

/-- a `for` loop whose body registers one name per element -/
theorem fold_stage {γ : Type} (sfx : Nat → String) (raw : γ → String) (l : List γ)
    (step : List String × List String → γ → List String × List String) (st : List String × List String)
    (hstep : ∀ st c, step st c = stage sfx [raw c] st) :
    l.foldl step st = stage sfx (l.map raw) st := by
  induction l generalizing st with
  | nil => simp [stage, usedAfter, Group.uniquifyAll]
  | cons c cs ih =>
    rw [List.foldl_cons, hstep, ih, stage_stage]
    rfl

/-- `if xs: for x in xs: …` is the loop alone (an empty list runs it zero times) -/
theorem guard_fold {γ σ : Type} (l : List γ) (f : σ → γ → σ) (s : σ) :
    (if (!l.isEmpty) = true then l.foldl f s else s) = l.foldl f s := by
  cases l <;> rfl

/-- raw (pre-uniquify) names of a call, in column order, from the `_name`s of the columns -/
def rawOf (san : String → Option String) (over sum mean min max stdev count : List (Option String)) (apply : List String) :
    List String :=
  over.map (fun n => Group.nameOr n "key") ++
  sum.map (fun n => Group.aggName (sanOf san n) .sum) ++ mean.map (fun n => Group.aggName (sanOf san n) .mean) ++
  min.map (fun n => Group.aggName (sanOf san n) .min) ++ max.map (fun n => Group.aggName (sanOf san n) .max) ++
  count.map (fun n => Group.aggName (sanOf san n) .count) ++ stdev.map (fun n => Group.aggName (sanOf san n) .stdev) ++
  apply

/-- **aggregate**: the names given to the result columns — the key loop, the six built-in blocks in source order with their
    suffix literals, the `apply` loop, all sharing one `used_names` set — are the model's `uniquifyAll` of the raw names -/
theorem namesAgg_eq (sfx : Nat → String) (san : String → Option String)
    (over sum mean min max stdev count : List (Option String)) (apply : List String) :
    namesTAgg sfx san (over := over) (sum_over := sum) (mean_over := mean) (min_over := min) (max_over := max)
        (stdev_over := stdev) (count_over := count) (apply := apply)
      = Group.uniquifyAll sfx (rawOf san over sum mean min max stdev count apply) [] := by
  unfold namesTAgg
  simp only [guard_fold]
  rw [fold_stage sfx (fun n => Group.nameOr n "key") over,
      fold_stage sfx (fun n => Group.aggName (sanOf san n) .sum) sum,
      fold_stage sfx (fun n => Group.aggName (sanOf san n) .mean) mean,
      fold_stage sfx (fun n => Group.aggName (sanOf san n) .min) min,
      fold_stage sfx (fun n => Group.aggName (sanOf san n) .max) max,
      fold_stage sfx (fun n => Group.aggName (sanOf san n) .count) count,
      fold_stage sfx (fun n => Group.aggName (sanOf san n) .stdev) stdev,
      fold_stage sfx (fun n => n) apply]
  · simp only [stage_stage, stage_init, rawOf, List.map_id']
  all_goals
    intro st c
    simp only [appendColTAgg, uniquifyAgg_eq, pyOrStr_eq,
      show (Group.Fn.sum.suffix = "sum") from rfl]
    first
      | rfl
      | (rw [show "sum" = Group.Fn.sum.suffix from rfl, makeAggNameAgg_eq]; rfl)
      | (rw [show "mean" = Group.Fn.mean.suffix from rfl, makeAggNameAgg_eq]; rfl)
      | (rw [show "min" = Group.Fn.min.suffix from rfl, makeAggNameAgg_eq]; rfl)
      | (rw [show "max" = Group.Fn.max.suffix from rfl, makeAggNameAgg_eq]; rfl)
      | (rw [show "count" = Group.Fn.count.suffix from rfl, makeAggNameAgg_eq]; rfl)
      | (rw [show "stdev" = Group.Fn.stdev.suffix from rfl, makeAggNameAgg_eq]; rfl)

/-- **window**: the same skeleton (it calls `uniquify(sanitize(col, "<fn>"))` inline); `hsan`: the sanitizer never returns `""`
    (window writes `_sanitize_user_name(base) or "col"`) -/
theorem namesWin_eq (sfx : Nat → String) (san : String → Option String) (hsan : ∀ s, san s ≠ some "")
    (over sum mean min max stdev count : List (Option String)) (apply : List String) :
    namesTWin sfx san (over := over) (sum_over := sum) (mean_over := mean) (min_over := min) (max_over := max)
        (stdev_over := stdev) (count_over := count) (apply := apply)
      = Group.uniquifyAll sfx (rawOf san over sum mean min max stdev count apply) [] := by
  unfold namesTWin
  simp only [guard_fold]
  rw [fold_stage sfx (fun n => Group.nameOr n "key") over,
      fold_stage sfx (fun n => Group.aggName (sanOf san n) .sum) sum,
      fold_stage sfx (fun n => Group.aggName (sanOf san n) .mean) mean,
      fold_stage sfx (fun n => Group.aggName (sanOf san n) .min) min,
      fold_stage sfx (fun n => Group.aggName (sanOf san n) .max) max,
      fold_stage sfx (fun n => Group.aggName (sanOf san n) .count) count,
      fold_stage sfx (fun n => Group.aggName (sanOf san n) .stdev) stdev,
      fold_stage sfx (fun n => n) apply]
  · simp only [stage_stage, stage_init, rawOf, List.map_id']
  all_goals
    intro st c
    simp only [uniquifyWin_eq, pyOrStr_eq]
    first
      | rfl
      | (rw [show "sum" = Group.Fn.sum.suffix from rfl, makeAggNameWin_eq _ _ _ (hsan _)]; rfl)
      | (rw [show "mean" = Group.Fn.mean.suffix from rfl, makeAggNameWin_eq _ _ _ (hsan _)]; rfl)
      | (rw [show "min" = Group.Fn.min.suffix from rfl, makeAggNameWin_eq _ _ _ (hsan _)]; rfl)
      | (rw [show "max" = Group.Fn.max.suffix from rfl, makeAggNameWin_eq _ _ _ (hsan _)]; rfl)
      | (rw [show "count" = Group.Fn.count.suffix from rfl, makeAggNameWin_eq _ _ _ (hsan _)]; rfl)
      | (rw [show "stdev" = Group.Fn.stdev.suffix from rfl, makeAggNameWin_eq _ _ _ (hsan _)]; rfl)

/-! #### … which are the column names of the model's `aggregate` / `window` (C12, C13) -/

section whole
variable {κc ρ α β : Type}

/-- the raw names computed from the columns' `_name`s are the model's `rawNames`, when the model's oracle field `ValCol.san` is
    what the code computes from the column's name (`nm c` is the `_name` of value column `c`) -/
theorem rawOf_eq_rawNames (san : String → Option String) (a : Group.Args κc ρ α β) (nm : Group.ValCol → Option String)
    (h : ∀ p ∈ Group.builtinPlans a, p.2.san = sanOf san (nm p.2)) :
    rawOf san (a.over.map (·.name)) (a.sumOver.map nm) (a.meanOver.map nm) (a.minOver.map nm) (a.maxOver.map nm)
      (a.stdevOver.map nm) (a.countOver.map nm) (a.apply.map (·.name)) = Group.rawNames a := by
  have key : ∀ (fn : Group.Fn) (l : List Group.ValCol), (∀ c ∈ l, (fn, c) ∈ Group.builtinPlans a) →
      (l.map nm).map (fun n => Group.aggName (sanOf san n) fn) = (l.map (fun c => (fn, c))).map (fun p => Group.aggName p.2.san p.1) := by
    intro fn l hl
    rw [List.map_map, List.map_map]
    apply List.map_congr_left
    intro c hc
    have := h (fn, c) (hl c hc)
    simp only [Function.comp_def]
    rw [this]
  unfold rawOf Group.rawNames
  rw [key .sum _ (fun c hc => by simp [Group.builtinPlans, hc]), key .mean _ (fun c hc => by simp [Group.builtinPlans, hc]),
    key .min _ (fun c hc => by simp [Group.builtinPlans, hc]), key .max _ (fun c hc => by simp [Group.builtinPlans, hc]),
    key .count _ (fun c hc => by simp [Group.builtinPlans, hc]), key .stdev _ (fun c hc => by simp [Group.builtinPlans, hc])]
  simp only [Group.builtinPlans, List.map_append, List.map_map, Function.comp_def, List.append_assoc]

theorem namesAgg_eq_rawNames (sfx : Nat → String) (san : String → Option String) (a : Group.Args κc ρ α β)
    (nm : Group.ValCol → Option String) (h : ∀ p ∈ Group.builtinPlans a, p.2.san = sanOf san (nm p.2)) :
    namesTAgg sfx san (over := a.over.map (·.name)) (sum_over := a.sumOver.map nm) (mean_over := a.meanOver.map nm)
        (min_over := a.minOver.map nm) (max_over := a.maxOver.map nm) (stdev_over := a.stdevOver.map nm)
        (count_over := a.countOver.map nm) (apply := a.apply.map (·.name))
      = Group.uniquifyAll sfx (Group.rawNames a) [] := by
  rw [namesAgg_eq, rawOf_eq_rawNames san a nm h]

theorem namesWin_eq_rawNames (sfx : Nat → String) (san : String → Option String) (hsan : ∀ s, san s ≠ some "")
    (a : Group.Args κc ρ α β) (nm : Group.ValCol → Option String)
    (h : ∀ p ∈ Group.builtinPlans a, p.2.san = sanOf san (nm p.2)) :
    namesTWin sfx san (over := a.over.map (·.name)) (sum_over := a.sumOver.map nm) (mean_over := a.meanOver.map nm)
        (min_over := a.minOver.map nm) (max_over := a.maxOver.map nm) (stdev_over := a.stdevOver.map nm)
        (count_over := a.countOver.map nm) (apply := a.apply.map (·.name))
      = Group.uniquifyAll sfx (Group.rawNames a) [] := by
  rw [namesWin_eq sfx san hsan, rawOf_eq_rawNames san a nm h]

variable [DecidableEq κc]

/-- the column names of the model's `aggregate` result are the names the translated code hands out -/
theorem aggregate_names_translated (sfx : Nat → String) (san : String → Option String) (a : Group.Args κc ρ α β)
    (nm : Group.ValCol → Option String) (h : ∀ p ∈ Group.builtinPlans a, p.2.san = sanOf san (nm p.2))
    (cols : List (Group.OutCol κc ρ β)) (hc : Group.aggregate sfx a = .ok cols) :
    cols.map (·.name) =
      namesTAgg sfx san (over := a.over.map (·.name)) (sum_over := a.sumOver.map nm) (mean_over := a.meanOver.map nm)
        (min_over := a.minOver.map nm) (max_over := a.maxOver.map nm) (stdev_over := a.stdevOver.map nm)
        (count_over := a.countOver.map nm) (apply := a.apply.map (·.name)) := by
  rw [namesAgg_eq_rawNames sfx san a nm h, Group.aggregate_names sfx a cols hc]

/-- the column names of the model's `window` result are the names the translated code hands out -/
theorem window_names_translated (sfx : Nat → String) (san : String → Option String) (hsan : ∀ s, san s ≠ some "")
    (a : Group.Args κc ρ α β)
    (nm : Group.ValCol → Option String) (h : ∀ p ∈ Group.builtinPlans a, p.2.san = sanOf san (nm p.2))
    (cols : List (Group.OutCol κc ρ β)) (hc : Group.window sfx a = .ok cols) :
    cols.map (·.name) =
      namesTWin sfx san (over := a.over.map (·.name)) (sum_over := a.sumOver.map nm) (mean_over := a.meanOver.map nm)
        (min_over := a.minOver.map nm) (max_over := a.maxOver.map nm) (stdev_over := a.stdevOver.map nm)
        (count_over := a.countOver.map nm) (apply := a.apply.map (·.name)) := by
  rw [namesWin_eq_rawNames sfx san hsan a nm h, Group.window_names sfx a cols hc]

end whole

/-! #### … and the model behind C18 (`X.aggNames`) -/

theorem rawOf_eq_aggCands (san : String → Option String) (colNames : List (Option String)) (a : X.AggArgs) :
    rawOf san (a.keys.map (fun k => colNames.getD k none)) (a.sum.map (fun k => colNames.getD k none))
      (a.mean.map (fun k => colNames.getD k none)) (a.min.map (fun k => colNames.getD k none))
      (a.max.map (fun k => colNames.getD k none)) (a.stdev.map (fun k => colNames.getD k none))
      (a.count.map (fun k => colNames.getD k none)) (a.apply.map (·.1)) = X.aggCands san colNames a := by
  unfold rawOf X.aggCands X.AggArgs.flat
  simp only [List.map_append, List.map_map, Function.comp_def, aggCand_eq, keyCand_eq, List.append_assoc]
  rfl

theorem namesAgg_eq_X (san : String → Option String) (colNames : List (Option String)) (a : X.AggArgs) :
    namesTAgg toString san (over := a.keys.map (fun k => colNames.getD k none)) (sum_over := a.sum.map (fun k => colNames.getD k none))
      (mean_over := a.mean.map (fun k => colNames.getD k none)) (min_over := a.min.map (fun k => colNames.getD k none))
      (max_over := a.max.map (fun k => colNames.getD k none)) (stdev_over := a.stdev.map (fun k => colNames.getD k none))
      (count_over := a.count.map (fun k => colNames.getD k none)) (apply := a.apply.map (·.1)) = X.aggNames san colNames a := by
  rw [namesAgg_eq, rawOf_eq_aggCands, X.aggNames, X_uniqAll_eq]

theorem namesWin_eq_X (san : String → Option String) (hsan : ∀ s, san s ≠ some "") (colNames : List (Option String)) (a : X.AggArgs) :
    namesTWin toString san (over := a.keys.map (fun k => colNames.getD k none)) (sum_over := a.sum.map (fun k => colNames.getD k none))
      (mean_over := a.mean.map (fun k => colNames.getD k none)) (min_over := a.min.map (fun k => colNames.getD k none))
      (max_over := a.max.map (fun k => colNames.getD k none)) (stdev_over := a.stdev.map (fun k => colNames.getD k none))
      (count_over := a.count.map (fun k => colNames.getD k none)) (apply := a.apply.map (·.1)) = X.aggNames san colNames a := by
  rw [namesWin_eq toString san hsan, rawOf_eq_aggCands, X.aggNames, X_uniqAll_eq]

/-! ### 4. non-vacuity: the translated functions on concrete inputs, and satisfiable hypotheses -/

-- a free name is kept and registered; a taken one gets the first free number ≥ 2
example : uniquifyTAgg (fun i => toString i) ["b", "a"] "c" = ("c", ["c", "b", "a"]) := by decide +kernel
example : uniquifyTAgg (fun i => toString i) ["a3", "a2", "b", "a"] "a" = ("a4", ["a4", "a3", "a2", "b", "a"]) := by
  decide +kernel
example : uniquifyTWin (fun i => toString i) ["a3", "a2", "b", "a"] "a" = ("a4", ["a4", "a3", "a2", "b", "a"]) := by
  decide +kernel
-- the fuel is what bounds the loop: without enough of it the loop stops at a name that is still taken (so the hypothesis
-- `used.length + 1 ≤ fuel` of `uniquifyFuelAgg_stable` is needed), with more than enough nothing changes
example : uniquifyFuelTAgg (fun i => toString i) 1 ["a3", "a2", "b", "a"] "a" = ("a3", ["a3", "a3", "a2", "b", "a"]) := by
  decide +kernel
example : uniquifyFuelTAgg (fun i => toString i) 50 ["a3", "a2", "b", "a"] "a" = ("a4", ["a4", "a3", "a2", "b", "a"]) := by
  decide +kernel
-- the rendering matters: with a constant (non-injective) `fmt` the loop cannot find a free name — hence `hinj` in `_stable`/`_exits`
example : (uniquifyTAgg (fun _ => "x") ["ax", "a"] "a").1 = "ax" := by decide +kernel

/-- a sanitizer for the examples: lower-case letters kept, everything else dropped, `None` when nothing is left -/
private def demoSan (s : String) : Option String :=
  let t := String.ofList (s.toList.filter (fun c => decide ('a' ≤ c ∧ c ≤ 'z')))
  if t = "" then none else some t

private theorem demoSan_ne (s : String) : demoSan s ≠ some "" := by
  unfold demoSan
  simp only []
  split
  · simp
  · rename_i h; intro e; exact h (Option.some.inj e)

example : makeAggNameTAgg demoSan (some "Unit Price") "sum" = "nitrice_sum" := by decide +kernel
example : makeAggNameTAgg demoSan none "mean" = "col_mean" := by decide +kernel
example : makeAggNameTAgg demoSan (some "") "mean" = "col_mean" := by decide +kernel
example : makeAggNameTAgg demoSan (some "123") "max" = "col_max" := by decide +kernel
example : makeAggNameTWin demoSan (some "123") "max" = "col_max" := by decide +kernel
example : makeAggNameTWin demoSan (some "Unit Price") "sum" = "nitrice_sum" := by decide +kernel
-- a sanitizer that returns "" (excluded by `hsan`; `sanitizeCore_ne_empty`): aggregate's spelling and the models give "_sum",
-- window's `… or "col"` would give "col_sum" — the only input on which the two spellings differ
example : makeAggNameTAgg (fun _ => some "") (some "a") "sum" = "_sum" ∧
    X.aggCand (fun _ => some "") (some "a") (some .sum) "" = "_sum" := by decide +kernel

-- a whole call: two keys (one unnamed), the same column summed twice, a count of an unnamed column, and two custom entries whose
-- names collide with a built-in's and with a key's
example : namesTAgg (fun i => toString i) demoSan (over := [some "k", none]) (sum_over := [some "x", some "x"]) (mean_over := [])
      (min_over := []) (max_over := []) (stdev_over := [some "x"]) (count_over := [none]) (apply := ["x_sum", "k"])
    = ["k", "key", "x_sum", "x_sum2", "col_count", "x_stdev", "x_sum3", "k2"] := by decide +kernel
example : namesTWin (fun i => toString i) demoSan (over := [some "k", none]) (sum_over := [some "x", some "x"]) (mean_over := [])
      (min_over := []) (max_over := []) (stdev_over := [some "x"]) (count_over := [none]) (apply := ["x_sum", "k"])
    = ["k", "key", "x_sum", "x_sum2", "col_count", "x_stdev", "x_sum3", "k2"] := by decide +kernel
-- a numbered name that is itself taken later: "x_sum2" given by the user after the code handed it out
example : namesTAgg (fun i => toString i) demoSan (over := []) (sum_over := [some "x", some "x"]) (mean_over := [])
      (min_over := []) (max_over := []) (stdev_over := []) (count_over := []) (apply := ["x_sum2", "x_sum"])
    = ["x_sum", "x_sum2", "x_sum22", "x_sum3"] := by decide +kernel

-- the hypotheses of the corollaries are satisfiable: `hsan` by `demoSan` (above) and by the model of the real sanitizer …
example : ∀ s : String, (fun s : String => (Names.sanitizeCore s.toList).map String.ofList) s ≠ some "" := by
  intro s
  simp only []
  cases h : Names.sanitizeCore s.toList with
  | none => simp
  | some l =>
    have hl : l ≠ [] := fun e => sanitizeCore_ne_empty s.toList (by rw [h, e])
    intro e
    have := congrArg String.toList (Option.some.inj e)
    simp at this
    exact hl this
-- … and the oracle relation `h` by the example call of Props/C12 (each value column named by its own sanitised name)
example : ∀ p ∈ Group.builtinPlans Group.exampleArgs, p.2.san = sanOf demoSan ((fun c : Group.ValCol => some c.san) p.2) := by
  decide +kernel
example : (Group.aggregate (fun i => toString i) Group.exampleArgs).toOption.map (fun cols => cols.map (·.name)) =
    some (namesTAgg (fun i => toString i) demoSan (over := Group.exampleArgs.over.map (·.name))
      (sum_over := Group.exampleArgs.sumOver.map (fun c => some c.san)) (mean_over := []) (min_over := []) (max_over := [])
      (stdev_over := []) (count_over := []) (apply := Group.exampleArgs.apply.map (·.name))) := by decide +kernel

end Serif.Tie
