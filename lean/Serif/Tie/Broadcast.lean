/-
  Translation tie for attribute broadcasting (C05): `Vector.__getattr__` (the whole decision chain: no dtype, `object` kind,
  `getattr(kind, name, None) is None`, `callable`), `MethodProxy.__init__` / `__call__` (the `for` loop with its `is None` test), the
  property generator, the result construction `Vector(values)` without `dtype=`, `Vector.schema`, one representative of each shape of
  the explicit per-element wrappers of `_String` / `_Date` (every wrapper is translated and compared with its representative by the
  translator), the subclass dispatch of `Vector.__new__` and the names ordinary lookup answers -- translated statement by statement from
  the source (`Serif/Gen/TranslatedBroadcast.lean`, written by harness/tr/broadcast.py on every run) -- are the model's
  `Vec.broadcast` (= `mapRes (cell1 f)`), for every vector (typed or not, any length, None anywhere), every attribute name, every
  classification of the name on the dtype's class (`class_getattr`, `callable`: parameters) and every element method / property
  (`elem_call`, `elem_getattr`: parameters that may raise).

  The model (`Serif/Model/Vec.lean`) has one function for all of this, `broadcast f xs`: it takes the per-element function `f` as
  given and does not say how the code gets to it.  The additional definitions of this file state that path on the model's `Vec`:
    `AttrClass` / `classify`   how `__getattr__` sees the name on the dtype's class (missing / method / property);
    `attrAnswer`               what `v.<name>` is in terms of `broadcast`: AttributeError for an untyped (empty) vector, for an
                               `object` vector and for a missing name; a proxy for a method; the broadcast of the element property;
    `callAnswer`               what `v.<name>(*args, **kwargs)` is: the same refusals, the broadcast of the element method, TypeError
                               when the name is a property (its value, a Vector, is not callable);
  `getattr_eq` and `getattr_call_eq` prove the translated functions equal to them for all inputs; `methodProxyCall_eq`,
  `getattr_property_eq`, `wrapperMethod_eq`, `wrapperMethod0_eq`, `derivedMethod_eq` are the direct statements against `broadcast`.
  A translated function returns the arguments of its constructor call `Vector(values)` (`Gen.TBc.VectorCall`, `dtype = none`: no
  `dtype=`, inferred by `Vector.__new__`; the model does not carry the dtype of a broadcast result, C03/C04 own inference).
  `targetClass_date_iff` ties the translated subclass dispatch to the model's `Vec.isDate`.
  Supplementary (see Serif/Tie/Typing.lean).
-/
import Serif.Gen.TranslatedBroadcast
import Serif.Model.Vec
import Serif.Props.C05

namespace Serif.Tie
open Serif Serif.Vec Serif.Gen.TBc

variable {α β ν κ A P : Type}

/-! ### vocabulary of the statements -/

/-- a model vector as the object the translated functions read -/
def objOf (v : Vec α) : VectorObj α := { _underlying := v.data, _dtype := v.dtype }

/-- the outcome of a model broadcast as the outcome of the constructor call `Vector(values)` (no `dtype=`) -/
def callOfCol (r : Res (Col β)) : Res (VectorCall (Option β)) :=
  match r with
  | .error e => .error e
  | .ok vs => .ok { values := vs, dtype := none }

/-- how `Vector.__getattr__` sees a name on the class of the elements -/
inductive AttrClass where
  /-- `getattr(kind, name, None)` is None -/
  | missing
  /-- the class attribute is callable -/
  | method
  /-- the class attribute is not callable (a property, a slot, a constant) -/
  | property
  deriving DecidableEq, Repr

/-- the classification, from the two oracles of the translated `__getattr__` -/
def classify (class_getattr : Kind → ν → Option κ) (callable : κ → Bool) (k : Kind) (n : ν) : AttrClass :=
  match class_getattr k n with
  | none => .missing
  | some c => if callable c then .method else .property

/-- `v.<n>` on the model's vector, for a name that reaches `__getattr__`: `f` is the element property -/
def attrAnswer (cls : Kind → AttrClass) (f : α → Res β) (v : Vec α) (n : ν) : Res (GetAttrResult α β ν) :=
  match v.dtype with
  | none => .error .attr
  | some d =>
    if d.kind = .object then .error .attr
    else
      match cls d.kind with
      | .missing => .error .attr
      | .method => .ok (.proxy (methodProxyInitT (objOf v) n))
      | .property =>
        match broadcast f v.data with
        | .error e => .error e
        | .ok r => .ok (.vector { values := r, dtype := none })

/-- `v.<n>(*args, **kwargs)` on the model's vector, for a name that reaches `__getattr__`: `f` is the element method applied to the
    arguments.  A property gives a Vector (if no element raises), and calling a Vector is a TypeError -/
def callAnswer (cls : Kind → AttrClass) (f : α → Res β) (g : α → Res β) (v : Vec α) : Res (VectorCall (Option β)) :=
  match v.dtype with
  | none => .error .attr
  | some d =>
    if d.kind = .object then .error .attr
    else
      match cls d.kind with
      | .missing => .error .attr
      | .method => callOfCol (broadcast f v.data)
      | .property =>
        match broadcast g v.data with
        | .error e => .error e
        | .ok _ => .error .type

/-- `r(*args, **kwargs)` for the value `r` that `__getattr__` returned (additional definition: the call expression around the two
    translated functions; a `Vector` has no `__call__`) -/
def callResult (elem_call : α → ν → A → Res β) (r : Res (GetAttrResult α β ν)) (args : A) : Res (VectorCall (Option β)) :=
  match r with
  | .error e => .error e
  | .ok (.proxy p) => methodProxyCallT elem_call p args
  | .ok (.vector _) => .error .type

/-! ### the two loop forms -/

/-- `tuple(f(x) for x in l)` of the generated file is the model's `mapRes` -/
theorem tupleGenT_eq_mapRes {ε ρ : Type} (f : ε → Res ρ) (l : List ε) : tupleGenT f l = mapRes f l := by
  induction l with
  | nil => rfl
  | cons x xs ih =>
    simp only [tupleGenT, mapRes, ih]
    cases f x with
    | error e => rfl
    | ok r => cases mapRes f xs <;> rfl

/-- a generator whose element function is, element by element, the model's `cell1 f` (`None if x is None else f(x)`, `f` may raise)
    is the model's `broadcast f` -/
theorem tupleGen_eq_of_cell (f : α → Res β) (g : Option α → Res (Option β)) (hg : ∀ x, g x = cell1 f x) (xs : Col α) :
    tupleGenT g xs = broadcast f xs := by
  rw [tupleGenT_eq_mapRes]
  unfold broadcast
  congr 1
  funext x
  exact hg x

/-- the element rule as the translator writes it (`E if x is not None else None`, `E` may raise) is the model's `cell1` -/
theorem guardCell_eq (f : α → Res β) (x : Option α) :
    (match x with
     | none => .ok none
     | some x => (match f x with | .ok r => .ok (some r) | .error e => .error e)) = cell1 f x := by
  cases x with
  | none => rfl
  | some a => simp only [cell1]; cases f a <;> rfl

/-- a `for` loop whose body appends, to the list so far, what `cell1 f` gives for the element (or raises what it raises) computes
    `acc ++ broadcast f xs`, or raises what the first raising element raises -/
theorem forT_eq_of_step (f : α → Res β) (body : Col β → Option α → Res (Col β))
    (hbody : ∀ acc x, body acc x = (match cell1 f x with
                                     | .error e => .error e
                                     | .ok c => .ok (acc ++ [c])))
    (xs : Col α) (acc : Col β) :
    forT body xs acc = (match broadcast f xs with
                        | .error e => .error e
                        | .ok rs => .ok (acc ++ rs)) := by
  induction xs generalizing acc with
  | nil => simp [forT, broadcast, mapRes]
  | cons x xs ih =>
    unfold broadcast at ih ⊢
    simp only [forT, mapRes, hbody]
    cases cell1 f x with
    | error e => rfl
    | ok c =>
      simp only [ih]
      cases mapRes (cell1 f) xs <;> simp

/-! ### `Vector.schema`, `MethodProxy` -/

theorem schema_eq (v : Vec α) : schemaT (objOf v) = v.dtype := rfl

/-- `MethodProxy(v, n)(*args, **kwargs)`: the translated loop is the model's broadcast of the element method
    `fun a => getattr(a, n)(*args, **kwargs)`, for every vector, name, argument pack and element method -/
theorem methodProxyCall_eq (elem_call : α → ν → A → Res β) (v : Vec α) (n : ν) (args : A) :
    methodProxyCallT elem_call (methodProxyInitT (objOf v) n) args
      = callOfCol (broadcast (fun a => elem_call a n args) v.data) := by
  unfold methodProxyCallT
  simp only [methodProxyInitT, objOf]
  rw [forT_eq_of_step (fun a => elem_call a n args)]
  · unfold callOfCol
    cases broadcast (fun a => elem_call a n args) v.data <;> simp
  · intro acc x
    cases x with
    | none => rfl
    | some a =>
      simp only [cell1]
      cases elem_call a n args <;> rfl

/-- the same for any proxy object (whatever built it) -/
theorem methodProxyCall_eq' (elem_call : α → ν → A → Res β) (xs : Col α) (d : Option DType) (n : ν) (args : A) :
    methodProxyCallT elem_call (methodProxyInitT { _underlying := xs, _dtype := d } n) args
      = callOfCol (broadcast (fun a => elem_call a n args) xs) :=
  methodProxyCall_eq elem_call { data := xs, dtype := d } n args

/-! ### `Vector.__getattr__` -/

/-- the translated `__getattr__` is `attrAnswer` of the model's vector, for every vector, name, classification and element property -/
theorem getattr_eq (class_getattr : Kind → ν → Option κ) (callable : κ → Bool) (elem_getattr : α → ν → Res β)
    (v : Vec α) (n : ν) :
    getattrT class_getattr callable elem_getattr (objOf v) n
      = attrAnswer (fun k => classify class_getattr callable k n) (fun a => elem_getattr a n) v n := by
  unfold getattrT attrAnswer classify
  simp only [schema_eq]
  cases hd : v.dtype with
  | none => rfl
  | some d =>
    simp only []
    by_cases hk : d.kind = Kind.object
    · simp [hk]
    · have hk' : (d.kind == Kind.object) = false := by simpa using hk
      simp only [hk', hk, if_false, Bool.false_eq_true]
      cases hc : class_getattr d.kind n with
      | none => rfl
      | some c =>
        simp only []
        cases hcl : callable c with
        | true => simp
        | false =>
          simp only [Bool.false_eq_true, if_false]
          rw [tupleGen_eq_of_cell (fun a => elem_getattr a n)]
          · simp only [objOf]
            cases broadcast (fun a => elem_getattr a n) v.data <;> rfl
          · intro x
            cases x with
            | none => rfl
            | some a => simp only [cell1]; cases elem_getattr a n <;> rfl

/-- refusals: an untyped (empty) vector -/
theorem getattr_untyped (class_getattr : Kind → ν → Option κ) (callable : κ → Bool) (elem_getattr : α → ν → Res β)
    (xs : Col α) (n : ν) :
    getattrT class_getattr callable elem_getattr { _underlying := xs, _dtype := none } n = .error .attr := rfl

/-- refusals: an `object` vector, whatever the class says -/
theorem getattr_object (class_getattr : Kind → ν → Option κ) (callable : κ → Bool) (elem_getattr : α → ν → Res β)
    (xs : Col α) (b : Bool) (n : ν) :
    getattrT class_getattr callable elem_getattr { _underlying := xs, _dtype := some { kind := .object, nullable := b } } n
      = .error .attr := rfl

/-- refusals: the class has no such attribute -/
theorem getattr_missing (class_getattr : Kind → ν → Option κ) (callable : κ → Bool) (elem_getattr : α → ν → Res β)
    (v : Vec α) (d : DType) (n : ν) (hd : v.dtype = some d) (hc : class_getattr d.kind n = none) :
    getattrT class_getattr callable elem_getattr (objOf v) n = .error .attr := by
  rw [getattr_eq]
  unfold attrAnswer classify
  simp only [hd, hc]
  split <;> rfl

/-- a callable class attribute: the proxy over this vector and this name, nothing is evaluated yet -/
theorem getattr_method_eq (class_getattr : Kind → ν → Option κ) (callable : κ → Bool) (elem_getattr : α → ν → Res β)
    (v : Vec α) (d : DType) (n : ν) (c : κ) (hd : v.dtype = some d) (hk : d.kind ≠ .object)
    (hc : class_getattr d.kind n = some c) (hcl : callable c = true) :
    getattrT class_getattr callable elem_getattr (objOf v) n = .ok (.proxy (methodProxyInitT (objOf v) n)) := by
  rw [getattr_eq]
  unfold attrAnswer classify
  simp [hd, hk, hc, hcl]

/-- a non-callable class attribute (`dates.year`, `v.real`): the model's broadcast of the element property -/
theorem getattr_property_eq (class_getattr : Kind → ν → Option κ) (callable : κ → Bool) (elem_getattr : α → ν → Res β)
    (v : Vec α) (d : DType) (n : ν) (c : κ) (hd : v.dtype = some d) (hk : d.kind ≠ .object)
    (hc : class_getattr d.kind n = some c) (hcl : callable c = false) :
    getattrT class_getattr callable elem_getattr (objOf v) n
      = (match broadcast (fun a => elem_getattr a n) v.data with
         | .error e => .error e
         | .ok r => .ok (.vector { values := r, dtype := none })) := by
  rw [getattr_eq]
  unfold attrAnswer classify
  simp [hd, hk, hc, hcl]

/-- `v.<n>(*args, **kwargs)`: `__getattr__`, then the call of what it returned, is `callAnswer` of the model's vector -- in the
    method case the model's broadcast of the element method -/
theorem getattr_call_eq (class_getattr : Kind → ν → Option κ) (callable : κ → Bool) (elem_getattr : α → ν → Res β)
    (elem_call : α → ν → A → Res β) (v : Vec α) (n : ν) (args : A) :
    callResult elem_call (getattrT class_getattr callable elem_getattr (objOf v) n) args
      = callAnswer (fun k => classify class_getattr callable k n) (fun a => elem_call a n args) (fun a => elem_getattr a n) v := by
  rw [getattr_eq]
  unfold attrAnswer callAnswer
  cases v.dtype with
  | none => rfl
  | some d =>
    simp only []
    by_cases hk : d.kind = Kind.object
    · simp [hk, callResult]
    · simp only [hk, if_false]
      cases classify class_getattr callable d.kind n with
      | missing => rfl
      | method => exact methodProxyCall_eq elem_call v n args
      | property =>
        simp only []
        cases broadcast (fun a => elem_getattr a n) v.data <;> rfl

/-- the method case spelled out: `v.upper()`, `v.bit_length()`, `v.replace('a', 'b')` -/
theorem method_call_eq (class_getattr : Kind → ν → Option κ) (callable : κ → Bool) (elem_getattr : α → ν → Res β)
    (elem_call : α → ν → A → Res β) (v : Vec α) (d : DType) (n : ν) (c : κ) (args : A)
    (hd : v.dtype = some d) (hk : d.kind ≠ .object) (hc : class_getattr d.kind n = some c) (hcl : callable c = true) :
    callResult elem_call (getattrT class_getattr callable elem_getattr (objOf v) n) args
      = callOfCol (broadcast (fun a => elem_call a n args) v.data) := by
  rw [getattr_call_eq]
  unfold callAnswer classify
  simp [hd, hk, hc, hcl]

/-! ### the explicit wrappers of `_String` / `_Date` -/

/-- shape A (`def upper(self, *args, **kwargs)` and the other names of `stringWrapperNames` / `dateWrapperNames`) -/
theorem wrapperMethod_eq (elem_call : α → ν → A → Res β) (m : ν) (v : Vec α) (args : A) :
    wrapperMethodT elem_call m (objOf v) args = callOfCol (broadcast (fun a => elem_call a m args) v.data) := by
  unfold wrapperMethodT callOfCol
  rw [tupleGen_eq_of_cell (fun a => elem_call a m args)]
  · simp only [objOf]
    cases broadcast (fun a => elem_call a m args) v.data <;> rfl
  · intro x
    cases x with
    | none => rfl
    | some a => simp only [cell1]; cases elem_call a m args <;> rfl

/-- shape B (`def capitalize(self)`) -/
theorem wrapperMethod0_eq (elem_call0 : α → ν → Res β) (m : ν) (v : Vec α) :
    wrapperMethod0T elem_call0 m (objOf v) = callOfCol (broadcast (fun a => elem_call0 a m) v.data) := by
  unfold wrapperMethod0T callOfCol
  rw [tupleGen_eq_of_cell (fun a => elem_call0 a m)]
  · simp only [objOf]
    cases broadcast (fun a => elem_call0 a m) v.data <;> rfl
  · intro x
    cases x with
    | none => rfl
    | some a => simp only [cell1]; cases elem_call0 a m <;> rfl

/-- shape C (`def before(self, sep)`: the element expression `s.partition(sep)[0]` is the oracle) -/
theorem derivedMethod_eq (elem_expr : α → P → Res β) (v : Vec α) (params : P) :
    derivedMethodT elem_expr (objOf v) params = callOfCol (broadcast (fun a => elem_expr a params) v.data) := by
  unfold derivedMethodT callOfCol
  rw [tupleGen_eq_of_cell (fun a => elem_expr a params)]
  · simp only [objOf]
    cases broadcast (fun a => elem_expr a params) v.data <;> rfl
  · intro x
    cases x with
    | none => rfl
    | some a => simp only [cell1]; cases elem_expr a params <;> rfl

/-- an explicit wrapper answers exactly what the proxy would have answered had the name reached `__getattr__` -/
theorem wrapper_eq_proxy (elem_call : α → ν → A → Res β) (m : ν) (v : Vec α) (args : A) :
    wrapperMethodT elem_call m (objOf v) args = methodProxyCallT elem_call (methodProxyInitT (objOf v) m) args := by
  rw [wrapperMethod_eq, methodProxyCall_eq]

/-! ### consequences: the C05 theorems hold of the translated functions -/

/-- element `i` of `v.<n>(*args)` is the method of element `i`, None stays None, the length is kept (C05 `broadcast_pointwise`,
    `length_preserved_broadcast` read on the translated `MethodProxy.__call__`) -/
theorem methodProxyCall_pointwise (elem_call : α → ν → A → Res β) (v : Vec α) (n : ν) (args : A) (c : VectorCall (Option β))
    (h : methodProxyCallT elem_call (methodProxyInitT (objOf v) n) args = .ok c) (i : Nat) :
    c.values.length = v.data.length ∧ c.dtype = none ∧
    (v.data[i]? = some none → c.values[i]? = some none) ∧
    (∀ a, v.data[i]? = some (some a) → ∃ b, elem_call a n args = .ok b ∧ c.values[i]? = some (some b)) := by
  rw [methodProxyCall_eq] at h
  unfold callOfCol at h
  cases hb : broadcast (fun a => elem_call a n args) v.data with
  | error e => rw [hb] at h; cases h
  | ok r =>
    rw [hb] at h
    cases h
    exact ⟨Serif.C05.length_preserved_broadcast hb, rfl, Serif.C05.broadcast_pointwise hb i⟩

/-- a vector of None only: no element method is ever called, whatever it would do (C05 `broadcast_all_none`) -/
theorem methodProxyCall_all_none (elem_call : α → ν → A → Res β) (d : Option DType) (k : Nat) (n : ν) (args : A) :
    methodProxyCallT elem_call (methodProxyInitT { _underlying := List.replicate k none, _dtype := d } n) args
      = .ok { values := List.replicate k none, dtype := none } := by
  rw [methodProxyCall_eq', Serif.C05.broadcast_all_none]
  rfl

/-! ### which names reach `__getattr__`: the subclass dispatch and the class bodies -/

/-- the translated dispatch of `Vector.__new__` chooses `_Date` exactly when the model's `Vec.isDate` says so -/
theorem targetClass_date_iff (v : Vec α) : targetClassT v.dtype = .date ↔ v.isDate = true := by
  unfold Vec.isDate
  cases v.dtype with
  | none => simp [targetClassT]
  | some d =>
    obtain ⟨k, b⟩ := d
    cases k <;> simp [targetClassT]

/-- the dispatch, kind by kind -/
theorem targetClass_cases (d : DType) :
    targetClassT (some d) =
      (match d.kind with
       | .str => .string | .int => .int | .float => .float | .date => .date | _ => .vector) := by
  obtain ⟨k, b⟩ := d
  cases k <;> simp [targetClassT]

/-- a name in the object's attributes, in the body of its class or in the body of `Vector` never reaches `__getattr__` -/
theorem reaches_false_of_own (object_has : String → Bool) (d : Option DType) (n : String)
    (h : n ∈ ownNamesT (targetClassT d)) : reachesGetattrT object_has d n = false := by
  simp [reachesGetattrT, h]

/-- a name reaches `__getattr__` exactly when neither `object` nor the object / its class / `Vector` has it -/
theorem reaches_iff (object_has : String → Bool) (d : Option DType) (n : String) :
    reachesGetattrT object_has d n = true ↔ object_has n = false ∧ n ∉ ownNamesT (targetClassT d) := by
  simp [reachesGetattrT]

/-- every explicit wrapper of `_String` (all three shapes) is a name of the class body … -/
theorem string_wrappers_own : ∀ n ∈ stringWrapperNames ++ stringWrapper0Names ++ stringDerivedNames, n ∈ stringClassNames := by
  decide

/-- … and so is answered by the wrapper (`wrapperMethod_eq`, `wrapperMethod0_eq`, `derivedMethod_eq`), never by the proxy, on a
    str vector -/
theorem string_wrappers_not_broadcast (object_has : String → Bool) (b : Bool) (n : String)
    (h : n ∈ stringWrapperNames ++ stringWrapper0Names ++ stringDerivedNames) :
    reachesGetattrT object_has (some { kind := .str, nullable := b }) n = false := by
  apply reaches_false_of_own
  have := string_wrappers_own n h
  simp [targetClassT, ownNamesT, this]

/-- the public methods of the two classes that are NOT per-element wrappers of one of the three shapes (and so are not covered by
    `wrapperMethod_eq` / `wrapperMethod0_eq` / `derivedMethod_eq`): none in `_String`, `eomonth` in `_Date`.  A wrapper rewritten in
    another form lands in these lists and stops this theorem from checking -/
theorem other_methods : stringOtherNames = [] ∧ dateOtherNames = ["eomonth"] := by decide

theorem date_wrappers_own : ∀ n ∈ dateWrapperNames ++ dateWrapper0Names ++ dateDerivedNames, n ∈ dateClassNames := by
  decide

theorem date_wrappers_not_broadcast (object_has : String → Bool) (b : Bool) (n : String)
    (h : n ∈ dateWrapperNames ++ dateWrapper0Names ++ dateDerivedNames) :
    reachesGetattrT object_has (some { kind := .date, nullable := b }) n = false := by
  apply reaches_false_of_own
  have := date_wrappers_own n h
  simp [targetClassT, ownNamesT, this]

/-- `__getattr__` itself, `schema` (which it calls through `object.__getattribute__`) and `_underlying` (which it and the wrappers
    read) are found by ordinary lookup on every vector: the translated chain cannot re-enter itself -/
theorem getattr_reads_own (object_has : String → Bool) (d : Option DType) :
    reachesGetattrT object_has d "__getattr__" = false ∧ reachesGetattrT object_has d "schema" = false ∧
    reachesGetattrT object_has d "_underlying" = false := by
  have own : ∀ n, n ∈ vectorClassNames → n ∈ ownNamesT (targetClassT d) := by
    intro n hn
    simp [ownNamesT, hn]
  exact ⟨reaches_false_of_own _ _ _ (own _ (by decide)), reaches_false_of_own _ _ _ (own _ (by decide)),
    reaches_false_of_own _ _ _ (own _ (by decide))⟩

/-! ### non-vacuity: the translated functions on concrete inputs -/

section Examples

/-- a toy class: `int` has the methods "inc" (adds the argument) and "div" (divides 100 by the element: ZeroDivisionError on 0) and
    the property "real"; `str` has the method "upper"; nothing else exists -/
private def cg : Kind → String → Option Nat := fun k n =>
  if k = .int ∧ (n = "inc" ∨ n = "div") then some 0
  else if k = .int ∧ n = "real" then some 1
  else if k = .str ∧ n = "upper" then some 0
  else none
private def cl : Nat → Bool := fun c => c == 0
private def eg : Nat → String → Res Nat := fun a n => if n = "real" then .ok a else .error .attr
private def ec : Nat → String → Nat → Res Nat := fun a n k =>
  if n = "inc" then .ok (a + k) else if n = "div" then (if a = 0 then .error .other else .ok (100 / a)) else .error .attr

private def ints : Vec Nat := { data := [some 4, none, some 0, some 5], dtype := some { kind := .int, nullable := true } }

-- `ints.real`: a property, evaluated at once, None kept
example : getattrT cg cl eg (objOf ints) "real"
    = .ok (.vector { values := [some 4, none, some 0, some 5], dtype := none }) := by decide
-- `ints.inc`: a method, a proxy comes back and nothing is evaluated
example : getattrT cg cl eg (objOf ints) "inc" = .ok (.proxy (methodProxyInitT (objOf ints) "inc")) := by decide
-- `ints.inc(10)`
example : callResult ec (getattrT cg cl eg (objOf ints) "inc") 10
    = .ok { values := [some 14, none, some 10, some 15], dtype := none } := by decide
-- `ints.div()`: the element 0 raises, the whole call raises that
example : callResult ec (getattrT cg cl eg (objOf ints) "div") 0 = .error .other := by decide
-- … but not when the 0 is not there (None never reaches the method)
example : callResult ec (getattrT cg cl eg (objOf { ints with data := [some 4, none, none] }) "div") 0
    = .ok { values := [some 25, none, none], dtype := none } := by decide
-- `ints.real()`: the property's value is a Vector, which is not callable
example : callResult ec (getattrT cg cl eg (objOf ints) "real") 0 = .error .type := by decide
-- `ints.upper`: `int` has no `upper`
example : getattrT cg cl eg (objOf ints) "upper" = .error .attr := by decide
-- an empty vector without dtype, an `object` vector: AttributeError whatever the name
example : getattrT cg cl eg (objOf { data := [], dtype := none }) "real" = .error .attr := by decide
example : getattrT cg cl eg (objOf { data := [some 1], dtype := some { kind := .object, nullable := false } }) "real"
    = .error .attr := by decide
-- the explicit wrapper and the proxy on the same data
example : wrapperMethodT ec "inc" (objOf ints) 1 = .ok { values := [some 5, none, some 1, some 6], dtype := none } := by decide
example : wrapperMethod0T (fun a n => ec a n 0) "div" (objOf ints) = .error .other := by decide
example : derivedMethodT (fun a (p : Nat × Nat) => if a = p.1 then .error .value else .ok (a * p.2)) (objOf ints) (7, 2)
    = .ok { values := [some 8, none, some 0, some 10], dtype := none } := by decide
-- the empty typed vector
example : callResult ec (getattrT cg cl eg (objOf { data := [], dtype := some { kind := .int, nullable := false } }) "inc") 3
    = .ok { values := [], dtype := none } := by decide

-- the hypotheses of `getattr_method_eq` / `method_call_eq` / `getattr_property_eq` / `getattr_missing` are satisfiable
example : ints.dtype = some { kind := .int, nullable := true } ∧ ({ kind := .int, nullable := true } : DType).kind ≠ .object ∧
    cg .int "inc" = some 0 ∧ cl 0 = true ∧ cg .int "real" = some 1 ∧ cl 1 = false ∧ cg .int "upper" = none := by decide

-- which names reach `__getattr__` (with `object_has` = nothing, the dunder names of `object` aside)
example : reachesGetattrT (fun _ => false) (some { kind := .int, nullable := false }) "bit_length" = true := by decide
example : reachesGetattrT (fun _ => false) (some { kind := .int, nullable := false }) "real" = true := by decide
example : reachesGetattrT (fun _ => false) (some { kind := .date, nullable := false }) "year" = true := by decide
example : reachesGetattrT (fun _ => false) (some { kind := .int, nullable := false }) "upper" = true := by decide
example : reachesGetattrT (fun _ => false) (some { kind := .str, nullable := false }) "upper" = false := by decide
example : reachesGetattrT (fun _ => false) (some { kind := .str, nullable := false }) "before" = false := by decide
example : reachesGetattrT (fun _ => false) (some { kind := .date, nullable := false }) "replace" = false := by decide
example : reachesGetattrT (fun _ => false) (some { kind := .float, nullable := false }) "replace" = true := by decide
example : reachesGetattrT (fun _ => false) (some { kind := .float, nullable := false }) "is_integer" = true := by decide
-- names `Vector` answers itself, on every vector
example : ∀ n ∈ ["name", "max", "sum", "copy", "isna", "fillna", "cast", "T", "shape", "_underlying", "_dtype", "_name"],
    ∀ d ∈ [none, some ({ kind := .int, nullable := false } : DType), some { kind := .str, nullable := true }],
      reachesGetattrT (fun _ => false) d n = false := by decide
example : "upper" ∈ stringWrapperNames ∧ "capitalize" ∈ stringWrapper0Names ∧ "before" ∈ stringDerivedNames ∧
    "isoformat" ∈ dateWrapperNames ∧ "eomonth" ∈ dateOtherNames := by decide
example : targetClassT (some { kind := .str, nullable := true }) = .string ∧ targetClassT (none) = .vector ∧
    targetClassT (some { kind := .bool, nullable := false }) = .vector := by decide

end Examples

end Serif.Tie
