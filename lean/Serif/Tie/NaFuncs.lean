/-
  Translation tie for the None helpers of `Vector` (C06): `Vector.isna`, `Vector.dropna`, `Vector.fillna` (with
  `DataType.with_nullable`, `Vector.schema`, `Vector.copy()`) and the 1-D branches of `Vector.any` / `Vector.all` / `Vector.sum` / `Vector.min` / `Vector.max`, translated
  statement by statement from the source (`Serif/Gen/TranslatedNa.lean`, written by harness/tr/nafuncs.py on every run), are the
  model's `Vec.isna`, `Vec.dropna`, `Vec.withNullable`, `Vec.fillStandard`, `Vec.fillna`, `Vec.vany`, `Vec.vall`, `Vec.reduce` — for every
  vector (typed or not), every fill value (None included), every element type and every scalar semantics.

  A translated method returns the arguments of its constructor call `Vector(values, dtype=…)` (`Gen.TNa.VectorCall`); `callOf`
  reads a model vector `Vec α` as such a call.  The oracles of the translated `fillna` — `validate_scalar`, `infer_dtype`,
  `_promote` — are parameters; `fillna_eq_of_spec` holds for every triple of oracles that agrees with the model's typing functions
  (`validates`, the kind `infer` gives a one-element list, `promoteVec` + the element conversion) on the calls `fillna` makes, and
  `fillna_eq` instantiates it with the model's own (`promoteOp` below is `Vector._promote` as a state transformer; the model inlines
  it in `fillna`, `promoteOp_spec` proves the two readings equal).
  Supplementary (see Serif/Tie/Typing.lean).
-/
import Serif.Gen.TranslatedNa
import Serif.Model.Vec
import Serif.Props.C06

namespace Serif.Tie
open Serif Serif.Vec Serif.Gen.TNa

variable {α : Type}

/-! ### vocabulary of the statements -/

/-- a model vector read as the constructor call that builds it: `Vector(data, dtype=dtype)` -/
def callOf (v : Vec α) : VectorCall (Option α) := { values := v.data, dtype := v.dtype }

/-- the model's boolean vector (`isna`, comparisons) as a constructor call -/
def boolCallOf (b : BoolVec) : VectorCall Bool := { values := b.data, dtype := some b.dtype }

/-- the exact type of an optional scalar, for a classification `kindOf` of the non-None values (the model's `fillna` sees the
    fill value only through `kindOf`) -/
def tagOf (kindOf : α → Kind) : Option α → Tag
  | none => .none
  | some a => .ty (kindOf a)

/-- `Vector._promote(target)` as a state transformer on `(_underlying, _dtype)` (additional definition: the model has no
    function of this shape, `Vec.fillna` inlines it as the decision `promoteVec` plus the element conversion `conv target`
    applied by `fillWith`; `promoteOp_spec` / `promoteOp_fill` relate the two).  No dtype: `self._dtype.kind` raises
    AttributeError; already the target kind: nothing happens; a supported promotion converts every non-None element and
    changes the kind; anything else raises SerifTypeError. -/
def promoteOp (conv : Kind → α → α) (s : Col α × Option DType) (target : Kind) : Res (Col α × Option DType) :=
  match s.2 with
  | none => .error .attr
  | some d =>
    if d.kind = target then .ok s
    else
      match promoteVec d.kind target with
      | none => .error .type
      | some k' => .ok (s.1.map (Option.map (conv target)), some { kind := k', nullable := d.nullable })

/-- what the tie needs to know about a `_promote` oracle `P`, relative to the model's reading of `Vector._promote` (decision
    `promoteVec`, element conversion `conv`): on a typed vector whose kind is not yet the target, `P` raises SerifTypeError
    exactly when `promoteVec` refuses, and otherwise leaves the elements converted by `conv target` (None stays None). -/
structure PromoteSpec (conv : Kind → α → α)
    (P : Col α × Option DType → Kind → Res (Col α × Option DType)) : Prop where
  refuses : ∀ (xs : Col α) (d : DType) (k : Kind), d.kind ≠ k → promoteVec d.kind k = none →
    P (xs, some d) k = .error .type
  converts : ∀ (xs : Col α) (d : DType) (k k' : Kind), d.kind ≠ k → promoteVec d.kind k = some k' →
    ∃ d', P (xs, some d) k = .ok (xs.map (Option.map (conv k)), d')

/-- the hypotheses of `fillna_eq_of_spec` are satisfiable: `promoteOp` is such an oracle -/
theorem promoteOp_spec (conv : Kind → α → α) : PromoteSpec conv (promoteOp conv) where
  refuses := by
    intro xs d k hk hp
    simp [promoteOp, hk, hp]
  converts := by
    intro xs d k k' hk hp
    exact ⟨some { kind := k', nullable := d.nullable }, by simp [promoteOp, hk, hp]⟩

/-- `promoteOp` decides exactly like the model's `promoteVec` (on a typed vector) -/
theorem promoteOp_isOk (conv : Kind → α → α) (xs : Col α) (d : DType) (k : Kind) :
    (promoteOp conv (xs, some d) k).toBool = (promoteVec d.kind k).isSome := by
  by_cases hk : d.kind = k
  · simp [promoteOp, hk, promoteVec, Except.toBool]
  · cases hp : promoteVec d.kind k <;> simp [promoteOp, hk, hp, Except.toBool]

/-! ### small pieces -/

/-- `DataType.with_nullable` as translated, applied to an optional dtype the way `dropna` / `fillna` do
    (`d.with_nullable(n) if d is not None else None`), is the model's `withNullable` -/
theorem withNullable_eq (d : Option DType) (n : Bool) :
    (match d with | none => none | some d => some (withNullableT d n)) = withNullable d n := by
  cases d <;> rfl

/-- `Vector.schema()` as translated returns the `_dtype` field: the model's `Vec.dtype` is both -/
theorem schema_eq (d : Option DType) : schemaT d = d := rfl

/-- `self.copy()` as transcribed has the elements and the dtype of `self` -/
theorem copy_eq (xs : Col α) (d : Option DType) : copyT xs d = (xs, d) := rfl

/-- a generator `v for v in xs if v is not None` (translated as a `filterMap` whose function returns its non-None argument)
    is the model's `nonNone`; the side condition is discharged by the two cases of the translated `match` -/
theorem filterMap_nonNone (f : Option α → Option α) (xs : Col α) (hf : ∀ v, f v = v) :
    xs.filterMap f = nonNone xs := by
  have : f = id := funext hf
  subst this; rfl

/-- a generator `value if x is None else c(x) for x in xs` is the model's `fillWith c value` -/
theorem map_fillWith (f : Option α → Option α) (c : α → α) (x : Option α) (xs : Col α)
    (hf : ∀ e, f e = match e with | none => x | some a => some (c a)) : xs.map f = fillWith c x xs := by
  have : f = fun e => match e with | none => x | some a => some (c a) := funext hf
  subst this; rfl

/-- filling the promoted elements (`_promote` converted the non-None ones by `c`, then `value if x is None else x`, seen as
    elements of a vector) is the model's `fillWith c` -/
theorem promoteOp_fill (g : Option α → α) (c : α → α) (a : α) (xs : Col α)
    (hg : ∀ e, g e = match e with | none => a | some b => b) :
    ((xs.map (Option.map c)).map g).map some = fillWith c (some a) xs := by
  unfold fillWith
  induction xs with
  | nil => rfl
  | cons e es ih => cases e <;> simp_all

/-- `any(x is None for x in out)` as translated is the model's `out.any Option.isNone` -/
theorem anyIsNone_eq (out : Col α) : ((out.map (fun x => x.isNone)).any (fun b => b)) = out.any Option.isNone := by
  rw [List.any_map]
  rfl

/-! ### isna, dropna -/

/-- `Vector.isna()` as translated builds the model's `isna`: `tuple(elem is None …)`, dtype `DataType(bool)` -/
theorem isna_eq (v : Vec α) : isnaT v.data v.dtype = boolCallOf (isna v) := rfl

/-- `Vector.dropna()` as translated builds the model's `dropna`: the non-None elements, `_dtype.with_nullable(False)`
    (`None` stays `None`) -/
theorem dropna_eq (v : Vec α) : dropnaT v.data v.dtype = callOf (dropna v) := by
  obtain ⟨xs, dt⟩ := v
  unfold dropnaT
  rw [filterMap_nonNone]
  · cases dt <;> rfl
  · intro e; cases e <;> rfl

/-! ### fillna -/

/-- an exact instance of the column's kind is always accepted by `validate_scalar` (so the promotion branch never asks
    `_promote` for the kind the vector already has) -/
theorem validates_same_kind (d : DType) : validates d (.ty d.kind) = true := by
  simp [validates]

/-- the statements after the promotion `if` (fill, `new_nullable = any(x is None for x in out)`, `dtype.with_nullable`), in the
    form they take in the translated `fillna` once the generator is read as `fillWith id`, are the model's `fillStandard` -/
theorem fillStandard_eq (xs : Col α) (dt : Option DType) (x : Option α) :
    ({ values := fillWith id x xs,
       dtype := (match dt with
                 | none => none
                 | some d => some (withNullableT d (((fillWith id x xs).map (fun e => e.isNone)).any (fun b => b)))) }
      : VectorCall (Option α))
      = callOf (fillStandard { data := xs, dtype := dt } x) := by
  rw [anyIsNone_eq]
  cases dt <;> rfl

/-- **`Vector.fillna(value)` as translated is the model's `fillna`**, for every vector, every fill value (None included) and
    every triple of oracles that agrees with the model's typing functions on the calls made:
    `hV` — `validate_scalar(value, dtype)` returns iff the model's `validates` accepts the value's exact type;
    `hI` — `infer_dtype([value]).kind` is that type; `hP` — `_promote` behaves as the model reads it (`PromoteSpec`). -/
theorem fillna_eq_of_spec (kindOf : α → Kind) (conv : Kind → α → α)
    (V : Option α → DType → Bool) (I : List (Option α) → DType)
    (P : Col α × Option DType → Kind → Res (Col α × Option DType))
    (hV : ∀ a d, V (some a) d = validates d (.ty (kindOf a)))
    (hI : ∀ a, (I [some a]).kind = kindOf a)
    (hP : PromoteSpec conv P) (v : Vec α) (x : Option α) :
    fillnaT V I P v.data v.dtype x = (fillna kindOf conv v x).map callOf := by
  obtain ⟨xs, dt⟩ := v
  unfold fillnaT
  simp only [schema_eq, copy_eq]
  rw [map_fillWith (c := id) (x := x) (xs := xs)]
  · have hstd := fillStandard_eq xs dt x
    cases dt with
    | none => simp only [hstd]; rfl
    | some d =>
      simp only [hstd]
      cases x with
      | none => by_cases ho : d.kind = .object <;> simp [fillna, Except.map, ho]
      | some a =>
        simp only [hV, hI]
        by_cases ho : d.kind = .object
        · simp [fillna, Except.map, ho]
        · by_cases hv : validates d (.ty (kindOf a)) = true
          · simp [fillna, Except.map, ho, hv]
          · have hv' : validates d (.ty (kindOf a)) = false := by simpa using hv
            have hk : d.kind ≠ kindOf a := by
              intro h
              rw [← h, validates_same_kind] at hv'
              cases hv'
            cases hp : promoteVec d.kind (kindOf a) with
            | none =>
              simp [fillna, Except.map, ho, hv', hp, hP.refuses xs d _ hk hp]
            | some k' =>
              obtain ⟨d', hd'⟩ := hP.converts xs d _ k' hk hp
              simp only [fillna, Except.map, hv', hp, hd']
              rw [promoteOp_fill (c := conv (kindOf a)) (a := a)]
              · simp [callOf, ho]
              · intro e; cases e <;> rfl
  · intro e; cases e <;> rfl

/-- the oracles read off the model: `validate_scalar` is `validates` on the exact type, `infer_dtype` is `infer` on the exact
    types, `_promote` is `promoteOp` -/
theorem fillna_eq (kindOf : α → Kind) (conv : Kind → α → α) (v : Vec α) (x : Option α) :
    fillnaT (fun y d => validates d (tagOf kindOf y)) (fun l => infer (l.map (tagOf kindOf))) (promoteOp conv)
      v.data v.dtype x = (fillna kindOf conv v x).map callOf :=
  fillna_eq_of_spec kindOf conv _ _ _ (fun _ _ => rfl)
    (fun a => by simp [tagOf, infer, inferStep, inferKind]) (promoteOp_spec conv) v x

/-- in particular the refusal: the translated `fillna` raises (ValueError) exactly when the model's does -/
theorem fillna_refuses_iff (kindOf : α → Kind) (conv : Kind → α → α) (v : Vec α) (x : Option α) :
    (fillnaT (fun y d => validates d (tagOf kindOf y)) (fun l => infer (l.map (tagOf kindOf))) (promoteOp conv)
      v.data v.dtype x = .error .value) ↔ fillna kindOf conv v x = .error .value := by
  rw [fillna_eq]
  cases fillna kindOf conv v x <;> simp [Except.map]

/-! ### any, all -/

/-- the 1-D branch of `Vector.any()` as translated is the model's `vany`, for every truthiness -/
theorem any_eq (A : Arith α) (xs : Col α) (d : Option DType) : anyT A.truthy xs d = vany A xs := by
  unfold anyT
  rw [filterMap_nonNone]
  · rfl
  · intro v; cases v <;> rfl

/-- the 1-D branch of `Vector.all()` as translated is the model's `vall` -/
theorem all_eq (A : Arith α) (xs : Col α) (d : Option DType) : allT A.truthy xs d = vall A xs := by
  unfold allT
  rw [filterMap_nonNone]
  · rfl
  · intro v; cases v <;> rfl

/-- both are instances of the model's `reduce` (the shape C06's `reduction_skips_none` speaks about) -/
theorem any_all_reduce (truthy : α → Bool) (xs : Col α) (d : Option DType) :
    anyT truthy xs d = reduce (fun l => l.any truthy) xs ∧ allT truthy xs d = reduce (fun l => l.all truthy) xs := by
  constructor
  · unfold anyT
    rw [filterMap_nonNone]
    · rfl
    · intro v; cases v <;> rfl
  · unfold allT
    rw [filterMap_nonNone]
    · rfl
    · intro v; cases v <;> rfl

/-- the 1-D branches of `Vector.sum()`, `min()`, `max()` as translated — `f(v for v in self._underlying if v is not None)` for
    the built-in `f` — are the model's `reduce f`, whatever the built-in computes (a value, or an exception inside `ρ`) -/
theorem sum_eq {ρ : Type} (f : List α → ρ) (xs : Col α) (d : Option DType) : sumT f xs d = reduce f xs := by
  unfold sumT
  rw [filterMap_nonNone]
  · rfl
  · intro v; cases v <;> rfl

theorem min_eq {ρ : Type} (f : List α → ρ) (xs : Col α) (d : Option DType) : minT f xs d = reduce f xs := by
  unfold minT
  rw [filterMap_nonNone]
  · rfl
  · intro v; cases v <;> rfl

theorem max_eq {ρ : Type} (f : List α → ρ) (xs : Col α) (d : Option DType) : maxT f xs d = reduce f xs := by
  unfold maxT
  rw [filterMap_nonNone]
  · rfl
  · intro v; cases v <;> rfl

/-- instantiated with the model's readings of the built-ins: `vsum`, `vmin`, `vmax` -/
theorem vsum_vmin_vmax_eq (A : Arith α) (xs : Col α) (d : Option DType) :
    sumT (pySum A) xs d = vsum A xs ∧ minT (pyMin A) xs d = vmin A xs ∧ maxT (pyMax A) xs d = vmax A xs :=
  ⟨sum_eq _ xs d, min_eq _ xs d, max_eq _ xs d⟩

/-! ### what the tie buys: theorems of C06 read on the translated functions -/

/-- `C06.isna_spec` for the translated `isna`: a non-nullable bool vector of the same length that marks exactly the None
    positions -/
theorem isnaT_spec (xs : Col α) (d : Option DType) :
    (isnaT xs d).dtype = some { kind := .bool, nullable := false } ∧ (isnaT xs d).values.length = xs.length ∧
    ∀ (i : Nat) (x : Option α), xs[i]? = some x → (isnaT xs d).values[i]? = some (decide (x = none)) := by
  have h := C06.isna_spec (⟨xs, d⟩ : Vec α)
  rw [show isnaT xs d = boolCallOf (isna ⟨xs, d⟩) from isna_eq ⟨xs, d⟩]
  exact ⟨congrArg some h.1, h.2.1, h.2.2⟩

/-- `C06.dropna_eq_filter_isna` for the translated pair: `dropna` keeps exactly the elements `isna` does not mark, in order -/
theorem dropnaT_eq_filter_isnaT (xs : Col α) (d : Option DType) :
    (dropnaT xs d).values = ((xs.zip (isnaT xs d).values).filter (fun p => !p.2)).map (·.1) := by
  rw [show dropnaT xs d = callOf (dropna ⟨xs, d⟩) from dropna_eq ⟨xs, d⟩,
    show isnaT xs d = boolCallOf (isna ⟨xs, d⟩) from isna_eq ⟨xs, d⟩]
  exact C06.dropna_eq_filter_isna (⟨xs, d⟩ : Vec α)

/-- `C06.fillna_dropna_nonnullable` / `fillna_dropna_agree` for the translated `fillna` (any oracles as in
    `fillna_eq_of_spec`): what `fillna(a)`, `a` not None, returns reports itself non-nullable, holds no None, and has the
    length of the vector -/
theorem fillnaT_some_nonnullable (kindOf : α → Kind) (conv : Kind → α → α)
    (V : Option α → DType → Bool) (I : List (Option α) → DType)
    (P : Col α × Option DType → Kind → Res (Col α × Option DType))
    (hV : ∀ a d, V (some a) d = validates d (.ty (kindOf a)))
    (hI : ∀ a, (I [some a]).kind = kindOf a)
    (hP : PromoteSpec conv P) (xs : Col α) (d : Option DType) (a : α) (r : VectorCall (Option α))
    (h : fillnaT V I P xs d (some a) = .ok r) :
    reportsNullable r.dtype = false ∧ none ∉ r.values ∧ (nonNone r.values).length = xs.length := by
  have e : fillnaT V I P xs d (some a) = (fillna kindOf conv ⟨xs, d⟩ (some a)).map callOf :=
    fillna_eq_of_spec kindOf conv V I P hV hI hP ⟨xs, d⟩ (some a)
  rw [e] at h
  cases hr : fillna kindOf conv ⟨xs, d⟩ (some a) with
  | error e' => rw [hr] at h; cases h
  | ok r' =>
    rw [hr] at h
    have hr' : callOf r' = r := by simpa [Except.map] using h
    subst hr'
    have h1 := (C06.fillna_dropna_nonnullable (kindOf := kindOf) (conv := conv) (v := ⟨xs, d⟩) (a := a)).1 r' hr
    exact ⟨h1.1, h1.2, C06.fillna_dropna_agree hr⟩

/-! ### non-vacuity: the translated functions on concrete inputs -/

section examples
/-- scalars are naturals; "kind": below 100 an int, from 100 on a float; below 1000 … else a str -/
private def kindOf' (n : Nat) : Kind := if n < 100 then .int else if n < 1000 then .float else .str
private def V' : Option Nat → DType → Bool := fun y d => validates d (tagOf kindOf' y)
private def I' : List (Option Nat) → DType := fun l => infer (l.map (tagOf kindOf'))
private def P' := promoteOp (α := Nat) (fun _ n => n + 100)

example : isnaT [some 1, none, some 3] (some ⟨.int, true⟩)
    = { values := [false, true, false], dtype := some ⟨.bool, false⟩ } := by decide
example : dropnaT [some 1, none, some 3] (some ⟨.int, true⟩)
    = { values := [some 1, some 3], dtype := some ⟨.int, false⟩ } := by decide
example : dropnaT ([] : List (Option Nat)) none = { values := [], dtype := none } := by decide
-- compatible value: standard path, the result is no longer nullable
example : fillnaT V' I' P' [some 1, none] (some ⟨.int, true⟩) (some 7)
    = .ok { values := [some 1, some 7], dtype := some ⟨.int, false⟩ } := by decide
-- filling with None: nothing changes, still nullable
example : fillnaT V' I' P' [some 1, none] (some ⟨.int, true⟩) none
    = .ok { values := [some 1, none], dtype := some ⟨.int, true⟩ } := by decide
-- a float into an int column: copy, promote (elements converted), fill; non-nullable float
example : fillnaT V' I' P' [some 1, none] (some ⟨.int, true⟩) (some 150)
    = .ok { values := [some 101, some 150], dtype := some ⟨.float, false⟩ } := by decide
-- a str into an int column: `_promote` raises SerifTypeError, `fillna` raises ValueError
example : fillnaT V' I' P' [some 1, none] (some ⟨.int, true⟩) (some 5000) = .error .value := by decide
-- an object column takes anything; an untyped (empty) vector stays untyped
example : fillnaT V' I' P' [some 1, none] (some ⟨.object, true⟩) (some 5000)
    = .ok { values := [some 1, some 5000], dtype := some ⟨.object, false⟩ } := by decide
example : fillnaT V' I' P' [] none (some 5000) = .ok { values := [], dtype := none } := by decide
example : anyT (fun n : Nat => n != 0) [none, some 0, some 2] none = true
    ∧ allT (fun n : Nat => n != 0) [none, some 0, some 2] none = false
    ∧ allT (fun n : Nat => n != 0) [none, none] none = true := by decide
example : sumT List.sum [some 1, none, some 2] none = 3 ∧ maxT (fun l : List Nat => l.max?) [none, none] none = none := by decide
end examples

end Serif.Tie
