/-
  Translation tie for arithmetic and comparison on tables (C05, C18): `Table._table_elementwise_operation` (the
  `isinstance(other, Table)` dispatch, `tuple(op_func(col, other) for col in self.cols())`, the loop restoring `_name` / `_wild`, the
  width check, the `enumerate(zip(self.cols(), other.cols()))` loop with `_resolve_binary_name`, `Table(...)`), the fourteen binary
  dunders `__add__ … __rpow__` (which operator, which operand order), the unary dunders `__neg__`, `__pos__`, `__abs__`,
  `__invert__` and `Table._elementwise_compare` -- translated from the source (`Serif/Gen/TranslatedTableArith.lean`, written by
  harness/tr/tablearith.py on every run) -- are

    * the value model of C05 (`Serif/Model/Vec.lean`): `tableScalar`, `tableScalarRefl`, `tableTable`, `tableUnary`, for every table,
      every operand, every operator and every scalar semantics `S` (the column operation is the model's `vectorBinary`, which has its
      own ties; it may raise);
    * the name / dtype model of C18 (`Serif/Model/Expr.lean`): `tarithO`, `tarithV`, `tarithT`, for every oracle, call site, table and
      operand; and the name rule `table_arith_names` / `resolve_keeps_left_iff` restated on the translated function.

  The translated function is generic in the column type `κ`, the operand type `ω`, the result-column type `ρ` and the table type `τ`;
  the two models are two instantiations of its `Ops` (`vecOps`, `xOps`).  `tableElementwiseOperationT_other` / `_table` give its
  model-independent reading (one `tupleGen` per branch); everything else follows from them.

  The value model has no `Table._elementwise_compare`; the additional definition `tableCompare` of this file states it on the model's
  vocabulary (`mapRes` / `zipCells`-style sequencing, width check first) and `tableCompare_eq` proves the translated function equal to
  it; `tableCompare_columnwise` is the C05-style reading (column `j` of the result is `op(col_j, other_j)`).
  Supplementary (see Serif/Tie/Typing.lean).
-/
import Serif.Gen.TranslatedTableArith
import Serif.Gen.Translated
import Serif.Model.Vec
import Serif.Model.Expr
import Serif.Props.C05
import Serif.Props.C18
import Serif.Tie.Names

namespace Serif.Tie
open Serif Serif.Gen.TAr

namespace TableArith

variable {α β γ κ ω ρ τ : Type}

/-! ### sequencing -/

/-- the translated `tuple(f(a) for a in l)` is the model's `mapRes` -/
theorem tupleGen_eq_mapRes (f : α → Except Err β) (l : List α) : tupleGen f l = Serif.Vec.mapRes f l := by
  induction l with
  | nil => rfl
  | cons a as ih =>
    simp only [tupleGen, Serif.Vec.mapRes, ih]
    cases f a with
    | error e => rfl
    | ok b => cases Serif.Vec.mapRes f as <;> rfl

theorem tupleGen_congr {f g : α → Except Err β} {l : List α} (h : ∀ a, f a = g a) : tupleGen f l = tupleGen g l := by
  have : f = g := funext h
  rw [this]

theorem tupleGen_ok_length {f : α → Except Err β} {l : List α} {r : List β} (h : tupleGen f l = .ok r) :
    r.length = l.length := by
  rw [tupleGen_eq_mapRes] at h
  exact Serif.Vec.mapRes_ok_length h

/-- a loop that rewrites every result with its source element, run after the generator, is the generator of the rewritten results -/
theorem tupleGen_zipWith (f : α → Except Err β) (g : α → β → γ) (l : List α) :
    (match tupleGen f l with
     | .error e => (.error e : Except Err (List γ))
     | .ok rs => .ok (List.zipWith g l rs))
    = tupleGen (fun a => match f a with
                         | .error e => .error e
                         | .ok b => .ok (g a b)) l := by
  induction l with
  | nil => rfl
  | cons a as ih =>
    simp only [tupleGen]
    cases hfa : f a with
    | error e => rfl
    | ok b =>
      simp only []
      rw [← ih]
      cases tupleGen f as with
      | error e => rfl
      | ok bs => rfl

theorem enumerateFrom_length (k : Nat) (l : List α) : (enumerateFrom k l).length = l.length := by
  induction l generalizing k with
  | nil => rfl
  | cons a as ih => simp [enumerateFrom, ih]

theorem enumerateFrom_map_snd (k : Nat) (l : List α) : (enumerateFrom k l).map (·.2) = l := by
  induction l generalizing k with
  | nil => rfl
  | cons a as ih => simp [enumerateFrom, ih]

/-! ### the model-independent reading of `_table_elementwise_operation` -/

/-- what the non-Table branch does to one column: the column operation, then `_name` / `_wild` put back from the source column -/
def restoredCol (O : Ops κ ω ρ τ) (f : κ → ω → Except Err ρ) (o : ω) (c : κ) : Except Err ρ :=
  match f c o with
  | .error e => .error e
  | .ok r => .ok (O.set_wild (O.wild c) (O.set_name (O.name c) r))

/-- what the table-with-table loop does to one pair of columns: the column operation, the name given by
    `_resolve_binary_name`, `_wild = False` -/
def pairedCol (O : Ops κ ω ρ τ) (f : κ → ω → Except Err ρ) (p : κ × κ) : Except Err ρ :=
  match f p.1 (O.as_arg p.2) with
  | .error e => .error e
  | .ok r => .ok (O.set_wild false (O.set_name (O.resolve_binary_name (O.name p.1) (O.name p.2)).1 r))

theorem tableElementwiseOperationT_other (O : Ops κ ω ρ τ) (f : κ → ω → Except Err ρ) (cols : List κ) (o : ω) :
    tableElementwiseOperationT O cols (.other o) f =
      match tupleGen (restoredCol O f o) cols with
      | .error e => .error e
      | .ok rs => O.Table rs := by
  have h := tupleGen_zipWith (fun c => f c o) (fun c r => O.set_wild (O.wild c) (O.set_name (O.name c) r)) cols
  unfold tableElementwiseOperationT
  simp only []
  have h' : tupleGen (restoredCol O f o) cols =
      tupleGen (fun a => match f a o with
                         | .error e => .error e
                         | .ok b => .ok (O.set_wild (O.wild a) (O.set_name (O.name a) b))) cols := rfl
  rw [h', ← h]
  cases tupleGen (fun c => f c o) cols with
  | error e => rfl
  | ok rs => rfl

/-- the loop `for idx, (left, right) in enumerate(zip(…))` appends one `pairedCol` per pair, in order, and stops at the first
    column operation that raises; the warning list has no influence on the columns -/
theorem tableTable_loop (O : Ops κ ω ρ τ) (f : κ → ω → Except Err ρ) (items : List (Nat × κ × κ)) :
    ∀ (acc : List ρ) (w : List Warning),
      (match items.foldlM (tableTableStepT O f) (acc, w) with
       | .error e => (.error e : Except Err (List ρ))
       | .ok s => .ok s.1)
      = match tupleGen (pairedCol O f) (items.map (·.2)) with
        | .error e => .error e
        | .ok rs => .ok (acc ++ rs) := by
  induction items with
  | nil => intro acc w; simp [tupleGen, pure, Except.pure]
  | cons it rest ih =>
    intro acc w
    obtain ⟨idx, l, r⟩ := it
    simp only [List.foldlM_cons, List.map_cons, tupleGen, pairedCol]
    cases hf : f l (O.as_arg r) with
    | error e => simp [tableTableStepT, hf, bind, Except.bind]
    | ok c =>
      simp only [tableTableStepT, hf, bind, Except.bind]
      rw [ih]
      change (match tupleGen (pairedCol O f) (rest.map (·.2)) with
              | .error e => (.error e : Except Err (List ρ))
              | .ok rs => .ok ((acc ++ [O.set_wild false (O.set_name (O.resolve_binary_name (O.name l) (O.name r)).1 c)]) ++ rs)) = _
      cases tupleGen (pairedCol O f) (rest.map (·.2)) with
      | error e => rfl
      | ok rs => simp

theorem tableElementwiseOperationT_table (O : Ops κ ω ρ τ) (f : κ → ω → Except Err ρ) (a b : List κ) :
    tableElementwiseOperationT O a (.table b) f =
      if a.length ≠ b.length then .error (O.exc .ValueError)
      else match tupleGen (pairedCol O f) (a.zip b) with
        | .error e => .error e
        | .ok rs => O.Table rs := by
  have h := tableTable_loop O f (enumerate (a.zip b)) [] []
  rw [enumerate, enumerateFrom_map_snd] at h
  unfold tableElementwiseOperationT
  simp only [bne_iff_ne, ne_eq, ite_not]
  by_cases hw : a.length = b.length
  · simp only [hw, if_true]
    simp only [enumerate] at h ⊢
    cases hfold : List.foldlM (tableTableStepT O f) ([], []) (enumerateFrom 0 (a.zip b)) with
    | error e =>
      rw [hfold] at h
      cases hg : tupleGen (pairedCol O f) (a.zip b) with
      | error e' => rw [hg] at h; simp at h; simp [h]
      | ok rs => rw [hg] at h; simp at h
    | ok s =>
      rw [hfold] at h
      cases hg : tupleGen (pairedCol O f) (a.zip b) with
      | error e' => rw [hg] at h; simp at h
      | ok rs =>
        rw [hg] at h
        simp at h
        obtain ⟨rc, wl⟩ := s
        simp at h
        simp [h]
  · simp [hw]

/-- every binary dunder hands its own operator, in its own operand order, to `_table_elementwise_operation` -/
theorem tableBinaryT_eq (O : Ops κ ω ρ τ) (colop : Serif.Vec.BinOp → Bool → κ → ω → Except Err ρ) (o : Serif.Vec.BinOp)
    (refl : Bool) (cols : List κ) (other : Operand κ ω) :
    tableBinaryT O colop o refl cols other = tableElementwiseOperationT O cols other (colop o refl) := by
  cases o <;> cases refl <;> rfl

end TableArith

open TableArith

/-! ### the value model (C05, `Serif/Model/Vec.lean`) -/

section vec
variable {α β : Type}

/-- the value model's code of the exception classes (`ValueError` and `SerifValueError` are both `.value`, …) -/
def vecExc : PyExc → Err
  | .ValueError => .value | .TypeError => .type | .IndexError => .index | .KeyError => .key
  | .SerifValueError => .value | .SerifTypeError => .type | .SerifKeyError => .key | .SerifIndexError => .index

/-- the translated functions read on the value model: a column is a `Vec α` (elements and dtype), a result column is its elements,
    a column of the other table is handed to the column operation as `Operand.vec`, names and `_wild` are not carried, `Table(cols)`
    is the list of columns.  `rbn` (`_resolve_binary_name`) is arbitrary: it cannot influence values. -/
def vecOps (rbn : Option String → Option String → Option String × Option String) :
    Ops (Serif.Vec.Vec α) (Serif.Vec.Operand α) (Serif.Vec.Col β) (List (Serif.Vec.Col β)) :=
  { name := fun _ => none, wild := fun _ => false, set_name := fun _ r => r, set_wild := fun _ r => r,
    as_arg := fun c => .vec c.data c.dtype, Table := fun cols => .ok cols, resolve_binary_name := rbn, exc := vecExc }

variable (rbn : Option String → Option String → Option String × Option String)

/-- non-Table operand, any column operation `f` (it may raise): one `f(col, other)` per column, in column order, the first
    exception aborts -/
theorem tableElementwiseOperationT_vec_other (f : Serif.Vec.Vec α → Serif.Vec.Operand α → Res (Serif.Vec.Col β))
    (cols : List (Serif.Vec.Vec α)) (other : Serif.Vec.Operand α) :
    tableElementwiseOperationT (vecOps rbn) cols (.other other) f = Serif.Vec.mapRes (fun c => f c other) cols := by
  rw [tableElementwiseOperationT_other, ← tupleGen_eq_mapRes]
  have : tupleGen (restoredCol (vecOps rbn) f other) cols = tupleGen (fun c => f c other) cols := by
    apply tupleGen_congr
    intro c
    unfold restoredCol
    cases f c other <;> rfl
  rw [this]
  cases tupleGen (fun c => f c other) cols <;> rfl

/-- Table operand, any column operation: width check (ValueError), then one `f(left, right)` per pair of columns -/
theorem tableElementwiseOperationT_vec_table (f : Serif.Vec.Vec α → Serif.Vec.Operand α → Res (Serif.Vec.Col β))
    (a b : List (Serif.Vec.Vec α)) :
    tableElementwiseOperationT (vecOps rbn) a (.table b) f =
      if a.length ≠ b.length then .error .value
      else Serif.Vec.mapRes (fun p => f p.1 (.vec p.2.data p.2.dtype)) (a.zip b) := by
  rw [tableElementwiseOperationT_table, ← tupleGen_eq_mapRes]
  have : tupleGen (pairedCol (vecOps rbn) f) (a.zip b) = tupleGen (fun p => f p.1 (.vec p.2.data p.2.dtype)) (a.zip b) := by
    apply tupleGen_congr
    intro p
    unfold pairedCol
    have h2 : (vecOps (β := β) rbn).as_arg p.2 = .vec p.2.data p.2.dtype := rfl
    rw [h2]
    cases f p.1 (.vec p.2.data p.2.dtype) <;> rfl
  rw [this]
  by_cases hw : a.length = b.length
  · simp only [hw, ne_eq, not_true_eq_false, if_false]
    cases tupleGen (fun p => f p.1 (Serif.Vec.Operand.vec p.2.data p.2.dtype)) (a.zip b) <;> rfl
  · simp only [ne_eq, hw, not_false_eq_true, if_true]; rfl

/-- **`table <o> other`** (`__add__ … __pow__`, non-Table operand) is the model's `tableScalar`, for every operator, table, operand
    and scalar semantics -/
theorem tableBinaryT_eq_tableScalar (S : Serif.Vec.Sem α) (o : Serif.Vec.BinOp) (cols : List (Serif.Vec.Vec α))
    (other : Serif.Vec.Operand α) :
    tableBinaryT (vecOps rbn) (Serif.Vec.vectorBinary S) o false cols (.other other) = Serif.Vec.tableScalar S o cols other := by
  rw [tableBinaryT_eq, tableElementwiseOperationT_vec_other]; rfl

/-- **`other <o> table`** (`__radd__ … __rpow__`) is the model's `tableScalarRefl` -/
theorem tableBinaryT_eq_tableScalarRefl (S : Serif.Vec.Sem α) (o : Serif.Vec.BinOp) (cols : List (Serif.Vec.Vec α))
    (other : Serif.Vec.Operand α) :
    tableBinaryT (vecOps rbn) (Serif.Vec.vectorBinary S) o true cols (.other other) = Serif.Vec.tableScalarRefl S o cols other := by
  rw [tableBinaryT_eq, tableElementwiseOperationT_vec_other]; rfl

/-- **`table <o> table`** is the model's `tableTable` (width mismatch: ValueError; otherwise column by column) -/
theorem tableBinaryT_eq_tableTable (S : Serif.Vec.Sem α) (o : Serif.Vec.BinOp) (a b : List (Serif.Vec.Vec α)) :
    tableBinaryT (vecOps rbn) (Serif.Vec.vectorBinary S) o false a (.table b) = Serif.Vec.tableTable S o a b := by
  rw [tableBinaryT_eq, tableElementwiseOperationT_vec_table]; rfl

/-- the column-level unary operators on the value model: each is the broadcast of an element operation that may raise -/
def vecUnary (neg pos abs invert : α → Res β) : UnaryOps (Serif.Vec.Vec α) (Serif.Vec.Col β) :=
  { neg := fun c => Serif.Vec.broadcast neg c.data, pos := fun c => Serif.Vec.broadcast pos c.data,
    abs := fun c => Serif.Vec.broadcast abs c.data, invert := fun c => Serif.Vec.broadcast invert c.data }

/-- **`-table`, `+table`, `abs(table)`, `~table`** are the model's `tableUnary` of the respective element operation -/
theorem tableUnaryT_eq_tableUnary (neg pos abs invert : α → Res β) (cols : List (Serif.Vec.Vec α)) :
    table__neg__T (vecOps rbn) (vecUnary neg pos abs invert) cols = Serif.Vec.tableUnary neg cols ∧
    table__pos__T (vecOps rbn) (vecUnary neg pos abs invert) cols = Serif.Vec.tableUnary pos cols ∧
    table__abs__T (vecOps rbn) (vecUnary neg pos abs invert) cols = Serif.Vec.tableUnary abs cols ∧
    table__invert__T (vecOps rbn) (vecUnary neg pos abs invert) cols = Serif.Vec.tableUnary invert cols := by
  refine ⟨?_, ?_, ?_, ?_⟩
  · simp only [table__neg__T, Serif.Vec.tableUnary, ← tupleGen_eq_mapRes, vecUnary]
    split <;> simp_all [vecOps]
  · simp only [table__pos__T, Serif.Vec.tableUnary, ← tupleGen_eq_mapRes, vecUnary]
    split <;> simp_all [vecOps]
  · simp only [table__abs__T, Serif.Vec.tableUnary, ← tupleGen_eq_mapRes, vecUnary]
    split <;> simp_all [vecOps]
  · simp only [table__invert__T, Serif.Vec.tableUnary, ← tupleGen_eq_mapRes, vecUnary]
    split <;> simp_all [vecOps]

/-- the C05 theorems, on the translated functions: column `j` of `table <o> other` / `other <o> table` is the vector operation on
    column `j`; of `table <o> table` it is `left[j] <o> right[j]`; different widths are refused -/
theorem translated_table_is_columnwise {S : Serif.Vec.Sem α} {o : Serif.Vec.BinOp} {refl : Bool} {cols : List (Serif.Vec.Vec α)}
    {other : Serif.Vec.Operand α} {R : List (Serif.Vec.Col α)}
    (h : tableBinaryT (vecOps rbn) (Serif.Vec.vectorBinary S) o refl cols (.other other) = .ok R) :
    R.length = cols.length ∧
    ∀ (j : Nat) (c : Serif.Vec.Vec α), cols[j]? = some c →
      ∃ rc, R[j]? = some rc ∧ Serif.Vec.vectorBinary S o refl c other = .ok rc := by
  cases refl with
  | false => rw [tableBinaryT_eq_tableScalar] at h; exact Serif.C05.table_is_columnwise h
  | true => rw [tableBinaryT_eq_tableScalarRefl] at h; exact Serif.C05.table_reflected_is_columnwise h

theorem translated_table_table_is_columnwise {S : Serif.Vec.Sem α} {o : Serif.Vec.BinOp} {a b : List (Serif.Vec.Vec α)}
    {R : List (Serif.Vec.Col α)}
    (h : tableBinaryT (vecOps rbn) (Serif.Vec.vectorBinary S) o false a (.table b) = .ok R) :
    a.length = b.length ∧ R.length = a.length ∧
    ∀ (j : Nat) (ca cb : Serif.Vec.Vec α), a[j]? = some ca → b[j]? = some cb →
      ∃ rc, R[j]? = some rc ∧ Serif.Vec.vectorBinary S o false ca (.vec cb.data cb.dtype) = .ok rc := by
  rw [tableBinaryT_eq_tableTable] at h; exact Serif.C05.table_table_is_columnwise h

theorem translated_table_width_mismatch_errors {S : Serif.Vec.Sem α} {o : Serif.Vec.BinOp} {a b : List (Serif.Vec.Vec α)}
    (h : a.length ≠ b.length) :
    tableBinaryT (vecOps rbn) (Serif.Vec.vectorBinary S) o false a (.table b) = .error .value := by
  rw [tableBinaryT_eq_tableTable]; exact Serif.C05.table_width_mismatch_errors h

end vec

/-! ### the name / dtype model (C18, `Serif/Model/Expr.lean`) -/

section expr
open Serif.X

/-- the second argument of the column operation in the name model: a Vector (a column of the other table, or a plain Vector
    operand) or a scalar / list -/
inductive XArg where
  | vec (b : AVec)
  | oth (o : Other)

/-- which of the model's three arithmetic code paths a dunder of `Table` reaches on each column:
    `col + x` is `Vector.__add__`, `x + col` is `Vector.__radd__`, everything else goes to `_elementwise_operation` -/
def aopOf : Serif.Vec.BinOp → Bool → AOp
  | .add, false => .add
  | .add, true => .radd
  | _, _ => .gen

/-- the column operation of the name model.  Its oracle is indexed by the position of the column in the table, so a column is the
    pair (position, abstract vector): the translated function is run on `enumerate cs` -/
def xcol (orc : Oracle) (site : Nat) (op : AOp) (c : Nat × AVec) : XArg → Res AVec
  | .vec b => arithVV orc site c.1 op c.2 b
  | .oth o => arithVO orc site c.1 op c.2 o

/-- the translated functions read on the name model: `_name` is the `name` field, `_wild` is not carried, `Table(cols)` is the
    model's `tableOf`, `_resolve_binary_name` is the function translated from the source (Serif/Gen/Translated.lean, tie
    `resolveBinaryName_eq`) paired with an arbitrary warning case, every exception class raised here is `.other` -/
def xOps (warn : Option String → Option String → Option String) : Ops (Nat × AVec) XArg AVec Obj :=
  { name := fun c => c.2.name, wild := fun _ => false, set_name := fun n r => { r with name := n }, set_wild := fun _ r => r,
    as_arg := fun c => .vec c.2, Table := tableOf,
    resolve_binary_name := fun l r => (Serif.Gen.T.resolveBinaryNameT l r, warn l r), exc := fun _ => .other }

variable (warn : Option String → Option String → Option String)

theorem mapIdxM_eq_tupleGen {β : Type} (g : Nat → AVec → Res β) (cs : List AVec) :
    ∀ k, mapIdxM g k cs = tupleGen (fun p => g p.1 p.2) (enumerateFrom k cs) := by
  induction cs with
  | nil => intro k; rfl
  | cons c cs ih =>
    intro k
    simp only [mapIdxM, enumerateFrom, tupleGen, ih]
    cases g k c with
    | error e => rfl
    | ok y => cases tupleGen (fun p => g p.1 p.2) (enumerateFrom (k + 1) cs) <;> rfl

/-- **`table <op> other`, `other` a scalar or a list** (names restored on every column, then `Table(...)`) is the model's `tarithO` -/
theorem tableElementwiseOperationT_eq_tarithO (orc : Oracle) (site : Nat) (op : AOp) (cs : List AVec) (o : Other) :
    tableElementwiseOperationT (xOps warn) (enumerate cs) (.other (.oth o)) (xcol orc site op) = tarithO orc site op cs o := by
  rw [tableElementwiseOperationT_other]
  unfold tarithO
  rw [mapIdxM_eq_tupleGen]
  have hF : ∀ g : Nat × AVec → Res AVec, (∀ p, restoredCol (xOps warn) (xcol orc site op) (.oth o) p = g p) →
      tupleGen g (enumerateFrom 0 cs) = tupleGen (restoredCol (xOps warn) (xcol orc site op) (.oth o)) (enumerate cs) :=
    fun g hg => (tupleGen_congr hg).symm
  rw [hF]
  · cases tupleGen (restoredCol (xOps warn) (xcol orc site op) (.oth o)) (enumerate cs) <;> rfl
  · intro p
    unfold restoredCol
    have h2 : xcol orc site op p (.oth o) = arithVO orc site p.1 op p.2 o := rfl
    rw [h2]
    cases arithVO orc site p.1 op p.2 o <;> rfl

/-- **`table <op> vector`** (a plain Vector is not a Table: the same branch) is the model's `tarithV` -/
theorem tableElementwiseOperationT_eq_tarithV (orc : Oracle) (site : Nat) (op : AOp) (cs : List AVec) (b : AVec) :
    tableElementwiseOperationT (xOps warn) (enumerate cs) (.other (.vec b)) (xcol orc site op) = tarithV orc site op cs b := by
  rw [tableElementwiseOperationT_other]
  unfold tarithV
  rw [mapIdxM_eq_tupleGen]
  have hF : ∀ g : Nat × AVec → Res AVec, (∀ p, restoredCol (xOps warn) (xcol orc site op) (.vec b) p = g p) →
      tupleGen g (enumerateFrom 0 cs) = tupleGen (restoredCol (xOps warn) (xcol orc site op) (.vec b)) (enumerate cs) :=
    fun g hg => (tupleGen_congr hg).symm
  rw [hF]
  · cases tupleGen (restoredCol (xOps warn) (xcol orc site op) (.vec b)) (enumerate cs) <;> rfl
  · intro p
    unfold restoredCol
    have h2 : xcol orc site op p (.vec b) = arithVV orc site p.1 op p.2 b := rfl
    rw [h2]
    cases arithVV orc site p.1 op p.2 b <;> rfl

theorem zipArith_eq_tupleGen (orc : Oracle) (site : Nat) (op : AOp) (ls : List AVec) :
    ∀ (rs : List AVec) (j k : Nat),
      zipArith orc site op j ls rs =
        tupleGen (pairedCol (xOps warn) (xcol orc site op)) ((enumerateFrom j ls).zip (enumerateFrom k rs)) := by
  induction ls with
  | nil => intro rs j k; simp [zipArith, enumerateFrom, tupleGen]
  | cons l ls ih =>
    intro rs j k
    cases rs with
    | nil => simp [zipArith, enumerateFrom, tupleGen]
    | cons r rs =>
      simp only [zipArith, enumerateFrom, List.zip_cons_cons, tupleGen, pairedCol]
      rw [ih rs (j + 1) (k + 1)]
      have h2 : xcol orc site op (j, l) ((xOps warn).as_arg (k, r)) = arithVV orc site j op l r := rfl
      have h3 : ((xOps warn).resolve_binary_name ((xOps warn).name (j, l)) ((xOps warn).name (k, r))).1
          = resolveBinaryName l.name r.name := resolveBinaryName_eq l.name r.name
      rw [h2, h3]
      cases arithVV orc site j op l r with
      | error e => rfl
      | ok x =>
        dsimp only
        cases tupleGen (pairedCol (xOps warn) (xcol orc site op))
            ((enumerateFrom (j + 1) ls).zip (enumerateFrom (k + 1) rs)) <;> rfl

/-- **`table <op> table`** (width check, one column per pair named by `_resolve_binary_name`, `Table(...)`) is the model's `tarithT` -/
theorem tableElementwiseOperationT_eq_tarithT (orc : Oracle) (site : Nat) (op : AOp) (ls rs : List AVec) :
    tableElementwiseOperationT (xOps warn) (enumerate ls) (.table (enumerate rs)) (xcol orc site op) = tarithT orc site op ls rs := by
  rw [tableElementwiseOperationT_table]
  unfold tarithT
  rw [zipArith_eq_tupleGen warn orc site op ls rs 0 0]
  simp only [enumerate, enumerateFrom_length]
  by_cases hw : ls.length = rs.length
  · simp only [hw, ne_eq, not_true_eq_false, if_false]
    cases tupleGen (pairedCol (xOps warn) (xcol orc site op)) ((enumerateFrom 0 ls).zip (enumerateFrom 0 rs)) <;> rfl
  · simp only [ne_eq, hw, not_false_eq_true, if_true]; rfl

/-- the dunders on the name model: `table <o> other` / `other <o> table` / `table <o> table` are `tarithO` / `tarithV` / `tarithT`
    with the code path `aopOf o refl` -/
theorem tableBinaryT_eq_tarith (orc : Oracle) (site : Nat) (o : Serif.Vec.BinOp) (refl : Bool) (cs ds : List AVec) (other : Other)
    (b : AVec) :
    tableBinaryT (xOps warn) (fun o refl => xcol orc site (aopOf o refl)) o refl (enumerate cs) (.other (.oth other))
      = tarithO orc site (aopOf o refl) cs other ∧
    tableBinaryT (xOps warn) (fun o refl => xcol orc site (aopOf o refl)) o refl (enumerate cs) (.other (.vec b))
      = tarithV orc site (aopOf o refl) cs b ∧
    tableBinaryT (xOps warn) (fun o refl => xcol orc site (aopOf o refl)) o refl (enumerate cs) (.table (enumerate ds))
      = tarithT orc site (aopOf o refl) cs ds := by
  refine ⟨?_, ?_, ?_⟩ <;> rw [tableBinaryT_eq]
  · exact tableElementwiseOperationT_eq_tarithO warn orc site _ cs other
  · exact tableElementwiseOperationT_eq_tarithV warn orc site _ cs b
  · exact tableElementwiseOperationT_eq_tarithT warn orc site _ cs ds

/-- C18's `table_arith_names` on the translated function: whatever `table <o> scalar-or-list` returns carries exactly the left
    table's column names, in order -/
theorem translated_table_scalar_names (orc : Oracle) (site : Nat) (o : Serif.Vec.BinOp) (refl : Bool) (cs : List AVec)
    (other : Other) (T : Obj)
    (h : tableBinaryT (xOps warn) (fun o refl => xcol orc site (aopOf o refl)) o refl (enumerate cs) (.other (.oth other)) = .ok T) :
    T.names = .tab (cs.map (·.name)) := by
  rw [(tableBinaryT_eq_tarith warn orc site o refl cs [] other default).1] at h
  have hs : step orc (.tarithO (aopOf o refl) site other) [.tab cs] = .ok T := by simpa [step] using h
  have := Serif.C18.step_names orc _ _ _ hs
  rw [this]
  exact (Serif.C18.table_arith_names orc.san (aopOf o refl) site other (cs.map (·.name)) [] (nrowsOf cs) 0).1

/-- … and whatever `table <o> table` returns carries, column by column, `_resolve_binary_name(left name, right name)` -/
theorem translated_table_table_names (orc : Oracle) (site : Nat) (o : Serif.Vec.BinOp) (refl : Bool) (cs ds : List AVec) (T : Obj)
    (h : tableBinaryT (xOps warn) (fun o refl => xcol orc site (aopOf o refl)) o refl (enumerate cs) (.table (enumerate ds)) = .ok T) :
    T.names = .tab (zipResolve (cs.map (·.name)) (ds.map (·.name))) := by
  rw [(tableBinaryT_eq_tarith warn orc site o refl cs ds default default).2.2] at h
  have hs : step orc (.tarith (aopOf o refl) site) [.tab cs, .tab ds] = .ok T := by simpa [step] using h
  have := Serif.C18.step_names orc _ _ _ hs
  rw [this]
  exact (Serif.C18.table_arith_names orc.san (aopOf o refl) site default (cs.map (·.name)) (ds.map (·.name))
    (nrowsOf cs) (nrowsOf ds)).2

/-- C18's `resolve_keeps_left_iff` on the name the translated loop assigns: the left name is kept exactly when the right name is
    absent or equal, otherwise the column is unnamed -/
theorem translated_resolve_keeps_left_iff (l r : Option String) :
    ((xOps warn).resolve_binary_name l r).1 = (if r = none ∨ r = l then l else none) := by
  show Serif.Gen.T.resolveBinaryNameT l r = _
  rw [resolveBinaryName_eq]; exact Serif.C18.resolve_keeps_left_iff l r

end expr

/-! ### `Table._elementwise_compare` -/

section compare
variable {α β γ κ σ ω ρ τ : Type}

/-- after the explicit width / row-count check the strict zip cannot fail: it is `mapRes` over the zipped lists -/
theorem tupleZipStrict_eq_mapRes (ve : Err) (f : α → β → Except Err γ) :
    ∀ (a : List α) (b : List β), a.length = b.length →
      tupleZipStrict ve f a b = Serif.Vec.mapRes (fun p => f p.1 p.2) (a.zip b) := by
  intro a
  induction a with
  | nil => intro b hb; cases b with
    | nil => rfl
    | cons y ys => simp at hb
  | cons x xs ih =>
    intro b hb
    cases b with
    | nil => simp at hb
    | cons y ys =>
      have hl : xs.length = ys.length := by simpa using hb
      simp only [tupleZipStrict, List.zip_cons_cons, Serif.Vec.mapRes, ih ys hl]
      cases f x y with
      | error e => rfl
      | ok c => cases Serif.Vec.mapRes (fun p => f p.1 p.2) (xs.zip ys) <;> rfl

/-- ADDITIONAL DEFINITION (the value model has no table comparison): `Table._elementwise_compare` on the model's vocabulary.
    A Vector / Table operand: width check (ValueError), then `op(col_j, other_col_j)` per pair of columns; another iterable:
    row-count check, then `op(row_i, item_i)` per row and `.T`; a scalar: `op(col_j, other)` per column.  `mapRes` is the model's
    sequencing of a generator inside `tuple(...)` (the first exception aborts). -/
def tableCompare (C : CmpOps κ σ ω ρ τ) (cols rows : List κ) : CmpOperand κ σ ω → Except Err τ
  | .vector b =>
    if cols.length ≠ b.length then .error (C.exc .ValueError)
    else match Serif.Vec.mapRes (fun p => C.op_cols p.1 p.2) (cols.zip b) with
      | .error e => .error e
      | .ok rs => C.Vector rs
  | .iterable items =>
    if rows.length ≠ items.length then .error (C.exc .ValueError)
    else match Serif.Vec.mapRes (fun p => C.op_row p.1 p.2) (rows.zip items) with
      | .error e => .error e
      | .ok rs =>
        match C.Vector rs with
        | .error e => .error e
        | .ok v => C.transpose v
  | .scalar s =>
    match Serif.Vec.mapRes (fun x => C.op_scalar x s) cols with
    | .error e => .error e
    | .ok rs => C.Vector rs

/-- the transcribed `Table._elementwise_compare` is `tableCompare`, for every table (`len(self)` being the number of its rows),
    operand and comparison (which may raise) -/
theorem tableElementwiseCompareT_eq (C : CmpOps κ σ ω ρ τ) (cols rows : List κ) (other : CmpOperand κ σ ω) :
    tableElementwiseCompareT C cols rows rows.length other = tableCompare C cols rows other := by
  cases other with
  | vector b =>
    unfold tableElementwiseCompareT tableCompare
    by_cases hw : cols.length = b.length
    · simp only [hw, bne_self_eq_false, Bool.false_eq_true, if_false, ne_eq, not_true_eq_false]
      rw [tupleZipStrict_eq_mapRes _ _ _ _ hw]
      cases Serif.Vec.mapRes (fun p => C.op_cols p.1 p.2) (cols.zip b) <;> rfl
    · simp [hw]
  | iterable items =>
    unfold tableElementwiseCompareT tableCompare
    by_cases hw : rows.length = items.length
    · simp only [hw, bne_self_eq_false, Bool.false_eq_true, if_false, ne_eq, not_true_eq_false]
      rw [tupleZipStrict_eq_mapRes _ _ _ _ hw]
      cases Serif.Vec.mapRes (fun p => C.op_row p.1 p.2) (rows.zip items) with
      | error e => rfl
      | ok rs => dsimp only; cases C.Vector rs <;> rfl
    · simp [hw]
  | scalar s =>
    unfold tableElementwiseCompareT tableCompare
    simp only [tupleGen_eq_mapRes]
    cases Serif.Vec.mapRes (fun x => C.op_scalar x s) cols <;> rfl

/-- C05-style reading of the Vector / Table branch (with `Vector(tuple)` the identity on the list of result columns): equal widths,
    and column `j` of the result is `op(self column j, other column j)` -/
theorem tableCompare_columnwise (C : CmpOps κ σ ω ρ (List ρ)) (hV : ∀ rs, C.Vector rs = .ok rs) {cols rows b : List κ} {R : List ρ}
    (h : tableElementwiseCompareT C cols rows rows.length (.vector b) = .ok R) :
    cols.length = b.length ∧ R.length = cols.length ∧
    ∀ (j : Nat) (ca cb : κ), cols[j]? = some ca → b[j]? = some cb → ∃ rc, R[j]? = some rc ∧ C.op_cols ca cb = .ok rc := by
  rw [tableElementwiseCompareT_eq] at h
  unfold tableCompare at h
  by_cases hw : cols.length = b.length
  · simp only [hw, ne_eq, not_true_eq_false, if_false] at h
    cases hm : Serif.Vec.mapRes (fun p => C.op_cols p.1 p.2) (cols.zip b) with
    | error e => rw [hm] at h; cases h
    | ok rs =>
      rw [hm] at h
      have hR : rs = R := by simpa [hV] using h
      subst hR
      refine ⟨hw, ?_, fun j ca cb hca hcb => ?_⟩
      · rw [Serif.Vec.mapRes_ok_length hm, List.length_zip, ← hw, Nat.min_self]
      · obtain ⟨rc, h1, h2⟩ := Serif.Vec.mapRes_ok_get hm (Serif.Vec.zip_get hca hcb)
        exact ⟨rc, h2, h1⟩
  · simp [hw] at h

/-- different widths are refused with ValueError -/
theorem tableCompare_width_mismatch (C : CmpOps κ σ ω ρ τ) {cols rows b : List κ} (hw : cols.length ≠ b.length) :
    tableElementwiseCompareT C cols rows rows.length (.vector b) = .error (C.exc .ValueError) := by
  rw [tableElementwiseCompareT_eq]; simp [tableCompare, hw]

end compare

/-! ### non-vacuity: the translated functions evaluated on concrete tables -/

section examples
open Serif.Vec

/-- Python's integer arithmetic as far as the examples need it (division by zero raises) -/
def exSem : Sem Int :=
  { py := fun o a b => match o with
      | .add => .ok (a + b) | .sub => .ok (a - b) | .mul => .ok (a * b)
      | .floordiv => if b = 0 then .error .other else .ok (a / b)
      | _ => .error .type,
    days := fun a b => .ok (a + b), isInt := fun _ => true }

def exCols : List (Vec Int) := [⟨[some 1, none, some 3], some ⟨.int, true⟩⟩, ⟨[some 10, some 20, some 30], some ⟨.int, false⟩⟩]
def exRbn : Option String → Option String → Option String × Option String := fun l r => (Serif.Gen.T.resolveBinaryNameT l r, none)

-- table - 1 and 1 - table: column by column, operand order respected, None stays None
example : tableBinaryT (vecOps exRbn) (vectorBinary exSem) .sub false exCols (.other (.scalar 1))
    = .ok [[some 0, none, some 2], [some 9, some 19, some 29]] := by decide
example : tableBinaryT (vecOps exRbn) (vectorBinary exSem) .sub true exCols (.other (.scalar 1))
    = .ok [[some 0, none, some (-2)], [some (-9), some (-19), some (-29)]] := by decide
-- table * list: the same list meets every column
example : tableBinaryT (vecOps exRbn) (vectorBinary exSem) .mul false exCols (.other (.seq [some 2, some 3, some 4]))
    = .ok [[some 2, none, some 12], [some 20, some 60, some 120]] := by decide
-- table + table pairs the columns; a table of another width is refused; a raising cell aborts
example : tableBinaryT (vecOps exRbn) (vectorBinary exSem) .add false exCols (.table exCols)
    = .ok [[some 2, none, some 6], [some 20, some 40, some 60]] := by decide
example : tableBinaryT (vecOps exRbn) (vectorBinary exSem) .add false exCols (.table (exCols.take 1)) = .error .value := by decide
example : tableBinaryT (vecOps exRbn) (vectorBinary exSem) .floordiv false exCols (.other (.scalar 0)) = .error .other := by decide
-- -table
example : table__neg__T (vecOps exRbn) (vecUnary (fun a : Int => .ok (-a)) (fun a => .ok a) (fun a => .ok a.natAbs) (fun a => .ok (-a - 1))) exCols
    = .ok [[some (-1), none, some (-3)], [some (-10), some (-20), some (-30)]] := by decide

open Serif.X in
/-- an oracle that answers every binary operation with the left element's type -/
def exOracle : Oracle := { silent with bin := fun _ _ _ x _ => .ok x }

open Serif.X in
def exTab (names : List (Option String)) : List AVec := names.map (fun n => mkVec [.ty .int, .none] none n)

-- names: table + scalar keeps them; table + table keeps the left name iff the right one is absent or equal
open Serif.X in
example : (match tableBinaryT (xOps (fun _ _ => none)) (fun o refl => xcol exOracle 0 (aopOf o refl)) .add false
              (enumerate (exTab [some "a", none, some "c"])) (.other (.oth (.scalar (.ty .int)))) with
           | .ok T => some T.names | .error _ => none) = some (.tab [some "a", none, some "c"]) := by decide
open Serif.X in
example : (match tableBinaryT (xOps (fun _ _ => some "mismatch")) (fun o refl => xcol exOracle 0 (aopOf o refl)) .mul false
              (enumerate (exTab [some "a", some "b", none, some "d"])) (.table (enumerate (exTab [some "a", some "x", some "y", none]))) with
           | .ok T => some T.names | .error _ => none) = some (.tab [some "a", none, none, some "d"]) := by decide
-- the hypotheses of `translated_table_scalar_names` / `translated_table_table_names` are satisfiable
open Serif.X in
example : ∃ T, tableBinaryT (xOps (fun _ _ => none)) (fun o refl => xcol exOracle 0 (aopOf o refl)) .add true
              (enumerate (exTab [some "a", none])) (.other (.oth (.scalar (.ty .int)))) = .ok T := ⟨_, rfl⟩

-- comparison: table == table column by column (here on lists of Int with `==` per column pair), width mismatch refused
def exCmp : CmpOps (List Int) Int Int Bool (List Bool) :=
  { op_cols := fun x y => .ok (x == y), op_row := fun x y => .ok (x.all (· == y)), op_scalar := fun x y => .ok (x.all (· == y)),
    Vector := fun rs => .ok rs, transpose := fun v => .ok v, exc := vecExc }
example : tableElementwiseCompareT exCmp [[1, 2], [3, 4]] [[1, 3], [2, 4]] 2 (.vector [[1, 2], [0, 4]]) = .ok [true, false] := by decide
example : tableElementwiseCompareT exCmp [[1, 2], [3, 4]] [[1, 3], [2, 4]] 2 (.vector [[1, 2]]) = .error .value := by decide
example : tableElementwiseCompareT exCmp [[1, 1], [3, 4]] [[1, 3], [1, 4]] 2 (.scalar 1) = .ok [true, false] := by decide
example : tableElementwiseCompareT exCmp [[1, 1], [3, 4]] [[1, 3], [1, 4]] 2 (.iterable [1, 1, 1]) = .error .value := by decide

end examples

end Serif.Tie
