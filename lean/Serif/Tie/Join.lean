/-
  Translation tie for the three join methods (C09, C10, C11): the build loop, the uniqueness test that follows it, the probe
  loop and (full join) the sweep of `Table.inner_join`, `Table.join` and `Table.full_join`, translated statement by statement
  from the source (`Serif/Gen/TranslatedRel.lean`, regenerated on every run by harness/py2lean.py), compute — for every pair of
  key lists and both uniqueness flags — exactly what the hand-written model `Join.joinCore` computes; and `joinCore` is what
  C09–C11 prove equal to the nested-loop specification.

  What the translation abstracts (see the docstrings in the generated file): the copying of cells (a group of loops appending one
  cell per column is one output row `(left row?, right row?)`), the values of the `duplicates` dict (only its keys are used), the
  hashability guard for object columns. `expect in (...)` is covered by the regenerated membership lists (`Join.chkRight`,
  `Join.chkLeft`, theorems `source_checks` of C11).
  Supplementary (see Serif/Tie/Typing.lean): if the source is rewritten in an idiom the translator does not understand this
  module does not build, which is recorded in the evidence and is not by itself a violation.
-/
import Serif.Gen.TranslatedRel

set_option linter.unusedSimpArgs false

namespace Serif.Tie
open Serif Serif.Join Serif.Gen.TR

section
variable {K : Type} [DecidableEq K]

/-! ### build loop -/

theorem buildStepInner_eq (chk : Bool) (st : Dict K (List Nat) × List K) (k : K) (row : Nat) :
    buildStepTInner chk st k row = buildStep chk st k row := by
  unfold buildStepTInner buildStep
  cases h : Dict.get? st.1 k <;> cases chk <;> cases hd : st.2.contains k <;> simp_all

theorem buildStepLeft_eq (chk : Bool) (st : Dict K (List Nat) × List K) (k : K) (row : Nat) :
    buildStepTLeft chk st k row = buildStep chk st k row := by
  unfold buildStepTLeft buildStep
  cases h : Dict.get? st.1 k <;> cases chk <;> cases hd : st.2.contains k <;> simp_all

theorem buildStepFull_eq (chk : Bool) (st : Dict K (List Nat) × List K) (k : K) (row : Nat) :
    buildStepTFull chk st k row = buildStep chk st k row := by
  unfold buildStepTFull buildStep
  cases h : Dict.get? st.1 k <;> cases chk <;> cases hd : st.2.contains k <;> simp_all

/-- `for row_idx in range(right_nrows)` over the key list is the model's `buildFrom` -/
theorem buildLoop_eq (step : Dict K (List Nat) × List K → K → Nat → Dict K (List Nat) × List K) (chk : Bool)
    (hstep : ∀ st k row, step st k row = buildStep chk st k row)
    (rkeys : List K) (n : Nat) (st : Dict K (List Nat) × List K) :
    (rkeys.zipIdx n).foldl (fun st p => step st p.1 p.2) st = buildFrom chk rkeys n st := by
  induction rkeys generalizing n st with
  | nil => rfl
  | cons k ks ih =>
    simp only [List.zipIdx_cons, List.foldl_cons, buildFrom]
    rw [hstep]
    exact ih (n + 1) _

/-! ### probe loop -/

/-- the three probe bodies have this common form: `outer` = unmatched left rows are emitted padded, `track` = matched right
    rows are recorded -/
def probeStepG (outer track chkL : Bool) (ix : Dict K (List Nat)) (st : List K × List Pair × List Nat) (k : K) (i : Nat) :
    Except Err (List K × List Pair × List Nat) :=
  if chkL && st.1.contains k then .error .value
  else .ok (if chkL then k :: st.1 else st.1, st.2.1 ++ emit outer i (bucketOf ix k),
            if track then st.2.2 ++ bucketOf ix k else st.2.2)

private theorem emitLoop (i : Nat) (b : List Nat) (out : List Pair) (m : List Nat) :
    b.foldl (fun (st : List Pair × List Nat) j => (st.1 ++ [(some i, some j)], st.2)) (out, m)
      = (out ++ b.map (fun j => (some i, some j)), m) := by
  induction b generalizing out with
  | nil => simp
  | cons j js ih => simp [List.foldl_cons, ih]

private theorem emitLoopTrack (i : Nat) (b : List Nat) (out : List Pair) (m : List Nat) :
    b.foldl (fun (st : List Pair × List Nat) j => (st.1 ++ [(some i, some j)], st.2 ++ [j])) (out, m)
      = (out ++ b.map (fun j => (some i, some j)), m ++ b) := by
  induction b generalizing out m with
  | nil => simp
  | cons j js ih => simp [List.foldl_cons, ih]

private theorem truthy_iff (ix : Dict K (List Nat)) (k : K) :
    pyTruthy (Dict.get? ix k) = !(bucketOf ix k).isEmpty := by
  unfold pyTruthy bucketOf
  cases Dict.get? ix k <;> simp

private theorem iter_eq (ix : Dict K (List Nat)) (k : K) : pyIter (Dict.get? ix k) = bucketOf ix k := rfl

theorem probeStepInner_eq (chkL : Bool) (ix : Dict K (List Nat)) (st : List K × List Pair × List Nat) (k : K) (i : Nat) :
    probeStepTInner chkL ix st k i = probeStepG false false chkL ix st k i := by
  unfold probeStepTInner probeStepG
  simp only [truthy_iff, iter_eq, emitLoop, emit]
  cases chkL <;> cases hs : st.1.contains k <;> cases hb : (bucketOf ix k).isEmpty <;> simp [hs, hb] <;>
    simp_all [List.isEmpty_iff]

theorem probeStepLeft_eq (chkL : Bool) (ix : Dict K (List Nat)) (st : List K × List Pair × List Nat) (k : K) (i : Nat) :
    probeStepTLeft chkL ix st k i = probeStepG true false chkL ix st k i := by
  unfold probeStepTLeft probeStepG
  simp only [truthy_iff, iter_eq, emitLoop, emit]
  cases chkL <;> cases hs : st.1.contains k <;> cases hb : (bucketOf ix k).isEmpty <;> simp [hs, hb]

theorem probeStepFull_eq (chkL : Bool) (ix : Dict K (List Nat)) (st : List K × List Pair × List Nat) (k : K) (i : Nat) :
    probeStepTFull chkL ix st k i = probeStepG true true chkL ix st k i := by
  unfold probeStepTFull probeStepG
  have hswap : ∀ (b : List Nat) (out : List Pair) (m : List Nat),
      b.foldl (fun (st : List Pair × List Nat) j => (st.1 ++ [(some i, some j)], st.2 ++ [j])) (out, m)
        = (out ++ b.map (fun j => (some i, some j)), m ++ b) := emitLoopTrack i
  simp only [truthy_iff, iter_eq, hswap, emit]
  cases chkL <;> cases hs : st.1.contains k <;> cases hb : (bucketOf ix k).isEmpty <;> simp [hs, hb] <;>
    simp_all [List.isEmpty_iff]

/-- `for left_idx in range(left_nrows)` with the common body is the model's recursive `probe` (which returns the rows emitted
    from position `i` on and the buckets met) -/
theorem probeLoop_eq (outer track chkL : Bool) (ix : Dict K (List Nat)) (lkeys : List K) (i : Nat)
    (seen : List K) (out : List Pair) (m : List Nat) :
    (lkeys.zipIdx i).foldlM (fun st p => probeStepG outer track chkL ix st p.1 p.2) (seen, out, m)
      = match probe outer chkL ix lkeys i seen with
        | .error e => .error e
        | .ok r => .ok (if chkL then lkeys.reverse ++ seen else seen, out ++ r.1, if track then m ++ r.2 else m) := by
  induction lkeys generalizing i seen out m with
  | nil => cases track <;> cases chkL <;> simp [probe, pure, Except.pure]
  | cons k ks ih =>
    by_cases h : (chkL && seen.contains k) = true
    · have h2 : chkL = true ∧ k ∈ seen := by simpa using h
      have hs : probeStepG outer track chkL ix (seen, out, m) k i = .error .value := by simp [probeStepG, h2]
      simp only [List.zipIdx_cons, List.foldlM_cons, hs, probe, h, ↓reduceIte, bind, Except.bind]
    · have h' : (chkL && seen.contains k) = false := by simpa using h
      have hs : probeStepG outer track chkL ix (seen, out, m) k i
          = .ok (if chkL then k :: seen else seen, out ++ emit outer i (bucketOf ix k),
                 if track then m ++ bucketOf ix k else m) := by
        have h2 : chkL = true → ¬ k ∈ seen := by simpa using h'
        simp [probeStepG]; exact h2
      simp only [List.zipIdx_cons, List.foldlM_cons, hs, probe, h', Bool.false_eq_true, ↓reduceIte, bind, Except.bind]
      rw [ih]
      cases probe outer chkL ix ks (i + 1) (if chkL = true then k :: seen else seen) with
      | error e => rfl
      | ok r => cases track <;> cases chkL <;> simp [List.append_assoc]

/-! ### the sweep of `full_join` -/

theorem sweepFull_eq (nR : Nat) (matched : List Nat) : sweepTFull nR matched = sweep nR matched := by
  unfold sweepTFull sweep
  generalize List.range nR = l
  have : ∀ (acc : List Pair), l.foldl (fun out j => if (!matched.contains j) = true then out ++ [(none, some j)] else out) acc
      = acc ++ (l.filter (fun j => !matched.contains j)).map (fun j => (none, some j)) := by
    induction l with
    | nil => simp
    | cons j js ih =>
      intro acc
      simp only [List.foldl_cons, List.filter_cons]
      cases hm : matched.contains j <;>
        simp only [hm, Bool.not_false, Bool.not_true, Bool.false_eq_true, ↓reduceIte] <;> rw [ih] <;> simp
  simpa using this []

/-! ### the methods -/

private theorem probe_run (outer track chkL : Bool) (ix : Dict K (List Nat)) (lkeys : List K)
    (stepT : List K × List Pair × List Nat → K → Nat → Except Err (List K × List Pair × List Nat))
    (hstep : ∀ st k i, stepT st k i = probeStepG outer track chkL ix st k i) :
    lkeys.zipIdx.foldlM (fun st p => stepT st p.1 p.2) ([], [], [])
      = match probe outer chkL ix lkeys 0 [] with
        | .error e => .error e
        | .ok r => .ok (if chkL then lkeys.reverse ++ [] else [], r.1, if track then r.2 else []) := by
  have hf : (fun (st : List K × List Pair × List Nat) (p : K × Nat) => stepT st p.1 p.2)
      = (fun st p => probeStepG outer track chkL ix st p.1 p.2) := by
    funext st p; exact hstep st p.1 p.2
  rw [hf, probeLoop_eq]
  cases probe outer chkL ix lkeys 0 [] with
  | error e => rfl
  | ok r => cases track <;> simp

/-- `Table.inner_join`, translated, is the model's `joinCore .inner` — for every `expect` value and all key lists -/
theorem joinCoreInner_eq (e : String) (lkeys rkeys : List K) :
    joinCoreTInner (chkRight .inner e) (chkLeft .inner e) lkeys rkeys = joinCore .inner e lkeys rkeys := by
  unfold joinCoreTInner joinCore build
  rw [buildLoop_eq _ (chkRight .inner e) (buildStepInner_eq _) rkeys 0]
  simp only
  split
  · rfl
  · have hk : (JKind.inner != JKind.inner) = false := by decide
    simp only [hk]
    rw [probe_run false false (chkLeft .inner e) _ lkeys _ (probeStepInner_eq _ _)]
    cases probe false (chkLeft .inner e) (buildFrom (chkRight .inner e) rkeys 0 ([], [])).1 lkeys 0 [] <;> simp [*]

/-- `Table.join` (left join), translated, is the model's `joinCore .left` -/
theorem joinCoreLeft_eq (e : String) (lkeys rkeys : List K) :
    joinCoreTLeft (chkRight .left e) (chkLeft .left e) lkeys rkeys = joinCore .left e lkeys rkeys := by
  unfold joinCoreTLeft joinCore build
  rw [buildLoop_eq _ (chkRight .left e) (buildStepLeft_eq _) rkeys 0]
  simp only
  split
  · rfl
  · have hk : (JKind.left != JKind.inner) = true := by decide
    simp only [hk]
    rw [probe_run true false (chkLeft .left e) _ lkeys _ (probeStepLeft_eq _ _)]
    cases probe true (chkLeft .left e) (buildFrom (chkRight .left e) rkeys 0 ([], [])).1 lkeys 0 [] <;> simp [*]

/-- `Table.full_join`, translated, is the model's `joinCore .full` -/
theorem joinCoreFull_eq (e : String) (lkeys rkeys : List K) :
    joinCoreTFull (chkRight .full e) (chkLeft .full e) lkeys rkeys = joinCore .full e lkeys rkeys := by
  unfold joinCoreTFull joinCore build
  rw [buildLoop_eq _ (chkRight .full e) (buildStepFull_eq _) rkeys 0]
  simp only
  split
  · rfl
  · have hk : (JKind.full != JKind.inner) = true := by decide
    simp only [hk]
    rw [probe_run true true (chkLeft .full e) _ lkeys _ (probeStepFull_eq _ _)]
    cases probe true (chkLeft .full e) (buildFrom (chkRight .full e) rkeys 0 ([], [])).1 lkeys 0 [] <;> simp [*, sweepFull_eq]

end

/-- non-vacuity: the translated `full_join` on a small input, against the rows one expects by hand -/
example : joinCoreTFull false false [1, 2, 1] [2, 3, 2] =
    .ok [(some 0, none), (some 1, some 0), (some 1, some 2), (some 2, none), (none, some 1)] := by decide

example : joinCoreTInner true false [1, 2] [2, 2] = .error Err.value := by decide

end Serif.Tie
