/-
  Translation tie: the definitions generated from the Python source by harness/py2lean.py
  (lean/Serif/Gen/Translated.lean, regenerated on every run) are equal to the hand-written model, for all inputs.

  This is supplementary to the two ties every property check relies on (constants/tables regenerated from the
  source + differential correspondence).  If the source is rewritten in an idiom the translator does not
  understand, this module stops building; that is reported in the evidence as "translation tie unavailable" and
  is by itself not a violation (the extensional ties still hold or fail on their own).
-/
import Serif.Gen.Translated
import Serif.Model.DType

namespace Serif.Tie
open Serif Serif.Gen.T

theorem isNumeric_eq (d : DType) : isNumericT d = d.kind.isNumeric := by
  obtain ⟨k, n⟩ := d
  cases k <;> simp [isNumericT, Kind.isSubclassAny, Kind.subclass, Kind.isNumeric]

theorem isTemporal_eq (d : DType) : isTemporalT d = d.kind.isTemporal := by
  obtain ⟨k, n⟩ := d
  cases k <;> simp [isTemporalT, Kind.isSubclassAny, Kind.subclass, Kind.isTemporal]

/-- `infer_kind` as translated = the model's `inferKind` -/
theorem inferKind_eq (t : Tag) : inferKindT t = inferKind t := by
  cases t with
  | none => simp [inferKindT, inferKind]
  | ty k => cases k <;> simp [inferKindT, inferKind, Kind.isInstanceAny, Kind.subclass, Tag.typeOf]

/-- on an exact instance of class `v`, `infer_kind` names `v` itself (so classifying a later element with `infer_kind`, as
    `promote_with` does since the repair of the subclass-instance defect, is classifying it by its type) -/
theorem inferKind_exact (v : Kind) : inferKindT (Tag.ty v) = some v := by
  cases v <;> simp [inferKindT, Kind.isInstanceAny, Kind.subclass, Tag.typeOf]

/-- `validate_scalar` as translated accepts exactly what the model's `validates` accepts -/
theorem validates_eq (t : Tag) (d : DType) : validatesT t d = validates d t := by
  obtain ⟨k, n⟩ := d
  cases t with
  | none => cases n <;> simp [validatesT, validates]
  | ty v =>
    cases k <;> cases v <;> simp [validatesT, inferKind_exact, validates, Tag.typeOf] <;> grind

/-- `DataType.promote_with` as translated = the model's `promote` -/
theorem promoteWith_eq (d : DType) (t : Tag) : promoteWithT d t = promote d t := by
  obtain ⟨k, n⟩ := d
  cases t with
  | none => cases n <;> simp [promoteWithT, promote]
  | ty v =>
    cases k <;> cases v <;>
      simp [promoteWithT, inferKind_exact, promote, isNumericT, isTemporalT, Kind.isSubclassAny, Kind.isInstanceAny, Kind.subclass,
        Kind.isNumeric, Kind.isTemporal, Tag.typeOf] <;> grind

/-- the translated loop state corresponds to the model's loop state -/
def stOf (s : InferStT) : InferSt := { dtype := s.dtype, leadingNone := s.leading_none }

theorem inferStep_eq (s : InferStT) (t : Tag) : stOf (inferStepT s t) = inferStep (stOf s) t := by
  obtain ⟨d, b⟩ := s
  cases d with
  | none =>
    simp only [inferStepT, inferStep, stOf, inferKind_eq]
    cases inferKind t <;> rfl
  | some d => simp [inferStepT, inferStep, stOf, promoteWith_eq]

theorem inferFold_eq (l : List Tag) (s : InferStT) :
    stOf (l.foldl inferStepT s) = l.foldl inferStep (stOf s) := by
  induction l generalizing s with
  | nil => rfl
  | cons t l ih => simp only [List.foldl_cons]; rw [ih, inferStep_eq]

/-- `infer_dtype` as translated (initial state, loop body, final test) = the model's `infer`, for every sequence -/
theorem inferDtype_eq (l : List Tag) : inferDtypeT l = infer l := by
  unfold inferDtypeT infer
  have h := inferFold_eq l { dtype := none, leading_none := false }
  simp only [stOf] at h
  have hd : (l.foldl inferStepT { dtype := none, leading_none := false }).dtype
      = (l.foldl inferStep { dtype := none, leadingNone := false }).dtype := by
    have := congrArg InferSt.dtype h
    simpa using this
  simp only [hd]
  cases (l.foldl inferStep { dtype := none, leadingNone := false }).dtype <;> rfl

end Serif.Tie
