/-
  Translation tie for the date vector class `_Date` (C05, C06).

  `harness/tr/dateops.py` translates, statement by statement, `_Date._elementwise_compare`, `_Date.__add__`, the fourteen
  `(*args, **kwargs)` wrappers, `_Date.eomonth`, the list of arithmetic methods the class defines and the dtype / class decision
  of `Vector.__new__` into `Serif/Gen/TranslatedDateOps.lean`.  This file proves the translated definitions equal to the model
  (`Serif/Model/Vec.lean`) for every vector, every operand and every instantiation of Python's scalar operations:

    dateCompareT  =  Vec.dateCompare         (`dateCompare_eq`; the model has ONE parameter `iso` for the two conversions of the
                                              other operand — ISO string → date, date → midnight datetime —, the source has two
                                              expressions: `isoOf` says which of them the model's `iso` is for a given operand)
    dateAddT      =  Vec.dateAdd             (`dateAdd_eq`)
    the class dispatch of `+ - * / // % **` and their reflections on a date vector  =  Vec.vectorBinary   (`vectorBinary_eq`)
    date_<m>T     =  Vec.broadcast           (`date_wrapper_eq` and one corollary per method)
    eomonthT      =  Vec.broadcast of the two date computations in sequence          (`eomonth_eq`)
    vectorNewT    :  `_Date` is chosen iff  Vec.isDate  of the settled dtype          (`vectorNew_isDate`), the dtype is the given
                     one, else inferred when there are items, else absent            (`vectorNew_dtype_*`)

  The base class methods reached through `super()` are parameters of the translated definitions; they are instantiated with the
  model's `Vec.compare` / `Vec.elementwise`, which `Serif/Tie/Vec.lean` ties to `Vector._elementwise_compare` /
  `Vector._elementwise_operation`.  The result of a translated method is the constructor call `Vector(values, dtype=…)` that
  builds the returned vector (`VectorCall`); the model returns the values (`Col`) or a `BoolVec`.  `callOfValues` / `callOfBoolVec`
  are the (injective) embeddings used to state the equalities; `*_values` / `*_dtype` spell out the two components.

  Consequences stated on the translated definitions directly: None compares False (`dateCompareT_none_false`, from
  `C06.date_compare_none_false`), length preservation and the ValueError on a length mismatch (`dateCompareT_length`,
  `dateCompareT_mismatch`, `dateAddT_length`, `dateAddT_mismatch`), the per-element rule of `+` (`dateAddT_pointwise`, from
  `C05.pointwise_any_vector`).
-/
import Serif.Gen.TranslatedDateOps
import Serif.Props.C05
import Serif.Props.C06

set_option linter.unusedSimpArgs false

namespace Serif.Tie
open Serif Serif.Vec Serif.Gen.TDO

variable {α β γ : Type}

/-! ### embeddings of the model's results into constructor calls -/

/-- a `BoolVec` of the model as the constructor call that builds it -/
def callOfBoolVec (b : BoolVec) : VectorCall Bool := { values := b.data, dtype := some b.dtype }

/-- the model's values as the constructor call `Vector(values)` (no `dtype=`) -/
def callOfValues (vals : Col γ) : VectorCall (Option γ) := { values := vals, dtype := none }

def liftBool (r : Res BoolVec) : Res (VectorCall Bool) :=
  match r with
  | .ok b => .ok (callOfBoolVec b)
  | .error e => .error e

def liftValues (r : Res (Col γ)) : Res (VectorCall (Option γ)) :=
  match r with
  | .ok v => .ok (callOfValues v)
  | .error e => .error e

theorem callOfBoolVec_inj {a b : BoolVec} (h : callOfBoolVec a = callOfBoolVec b) : a = b := by
  cases a; cases b; simp [callOfBoolVec] at h; simp [h]

theorem callOfValues_inj {a b : Col γ} (h : callOfValues a = callOfValues b) : a = b := by
  simpa [callOfValues] using h

theorem liftBool_ok {r : Res BoolVec} {c : VectorCall Bool} (h : liftBool r = .ok c) :
    ∃ b, r = .ok b ∧ c = callOfBoolVec b := by
  cases r with
  | error e => simp [liftBool] at h
  | ok b => exact ⟨b, rfl, by simpa [liftBool] using h.symm⟩

theorem liftValues_ok {r : Res (Col γ)} {c : VectorCall (Option γ)} (h : liftValues r = .ok c) :
    ∃ v, r = .ok v ∧ c = callOfValues v := by
  cases r with
  | error e => simp [liftValues] at h
  | ok v => exact ⟨v, rfl, by simpa [liftValues] using h.symm⟩

theorem vectorT_toBoolVec (r : Res (List Bool)) :
    vectorT r (some { kind := Kind.bool, nullable := false }) = liftBool (toBoolVec r) := by
  cases r <;> rfl

theorem vectorT_none (r : Res (Col γ)) : vectorT r none = liftValues r := by
  cases r <;> rfl

/-! ### the per-element rules

  The generated definitions write the per-element rule as a `match` inside a `fun`; the goals below are closed by going to the
  two functions (`congr`), then `funext` and the case analysis on None. -/

/-- closes `F (fun x y => match …) … = F (cmpCell f) …` / the `cell` / `cell1` analogues -/
macro "cells" : tactic =>
  `(tactic| (congr <;> first
      | rfl
      | (funext x y; cases x <;> cases y <;> first | rfl | (simp only [cell]; split <;> simp_all))
      | (funext x; cases x <;> first | rfl | (simp only [cell, cell1]; split <;> simp_all))))

/-! ### `_Date._elementwise_compare` -/

/-- which of the two converted comparisons of the source the model's single parameter `iso` stands for, given the operand:
    `op_iso` (`bool(op(x, date.fromisoformat(y)))`) for a str-kind Vector and a str scalar, `op_dt`
    (`bool(op(datetime.combine(x, midnight), y))`) for the datetime ones; for every other operand `iso` is not used -/
def isoOf (isStr : β → Bool) (op_iso op_dt : α → β → Res Bool) : Operand β → (α → β → Res Bool)
  | .vec _ dt => if kindIs dt .str then op_iso else op_dt
  | .scalar s => if isStr s then op_iso else op_dt
  | .seq _ => op_iso

/-- `_Date._elementwise_compare`, translated statement by statement, is the model's `dateCompare` — for every vector, operand,
    comparison and pair of conversions; the base class call is the model's `compare` -/
theorem dateCompare_eq (isStr isDt : β → Bool) (op op_iso op_dt : α → β → Res Bool) (xs : Col α) (o : Operand β) :
    dateCompareT isStr isDt op op_iso op_dt (fun o' => liftBool (compare op xs o')) xs o
      = liftBool (dateCompare isStr isDt op (isoOf isStr op_iso op_dt o) xs o) := by
  cases o with
  | vec ys dt =>
    by_cases hl : xs.length = ys.length
    · cases dt with
      | none =>
        simp [dateCompareT, checkDuplicateT, isVectorT, itemsT, schemaT, vectorT_toBoolVec, dateCompare, isoOf, kindIs, hl]
      | some d =>
        by_cases hs : d.kind = .str
        · simp only [dateCompareT, checkDuplicateT, isVectorT, itemsT, schemaT, vectorT_toBoolVec, dateCompare, isoOf, kindIs, hl,
            hs, bne_self_eq_false, beq_self_eq_true, Bool.false_eq_true, if_false, if_true, ne_eq, not_true_eq_false]
          cells
        · by_cases hd : d.kind = .datetime
          · simp only [dateCompareT, checkDuplicateT, isVectorT, itemsT, schemaT, vectorT_toBoolVec, dateCompare, isoOf, kindIs,
              hl, hd, bne_self_eq_false, beq_self_eq_true, Bool.false_eq_true, if_false, if_true, ne_eq, not_true_eq_false,
              Option.some.injEq, beq_iff_eq, reduceCtorEq]
            cells
          · simp [dateCompareT, checkDuplicateT, isVectorT, itemsT, schemaT, vectorT_toBoolVec, dateCompare, isoOf, kindIs, hl,
              hs, hd]
    · simp [dateCompareT, checkDuplicateT, isVectorT, itemsT, dateCompare, hl, liftBool]
  | seq ys =>
    simp only [dateCompareT, checkDuplicateT, isVectorT, isIterableT, itemsT, vectorT_toBoolVec, dateCompare, seqOp]
    by_cases hl : xs.length = ys.length
    · simp only [hl, bne_self_eq_false, Bool.false_eq_true, if_false, if_true, ne_eq, not_true_eq_false]; cells
    · simp [hl, liftBool, toBoolVec]
  | scalar s =>
    simp only [dateCompareT, checkDuplicateT, isVectorT, isIterableT, asT, vectorT_toBoolVec, dateCompare, isoOf]
    by_cases hs : isStr s = true
    · simp only [hs, Bool.false_eq_true, if_false, if_true]; cells
    · by_cases hd : isDt s = true
      · simp only [hs, hd, Bool.false_eq_true, if_false, if_true]; cells
      · simp [hs, hd]

/-- with one conversion for both branches (the model's reading) -/
theorem dateCompare_eq_same (isStr isDt : β → Bool) (op iso : α → β → Res Bool) (xs : Col α) (o : Operand β) :
    dateCompareT isStr isDt op iso iso (fun o' => liftBool (compare op xs o')) xs o
      = liftBool (dateCompare isStr isDt op iso xs o) := by
  rw [dateCompare_eq]
  congr 2
  cases o <;> simp [isoOf]

theorem toBoolVec_dtype {t : Res (List Bool)} {r : BoolVec} (h : toBoolVec t = .ok r) : r.dtype = boolDType := by
  obtain ⟨l, _, rfl⟩ := toBoolVec_ok h; rfl

/-- whatever branch answers, the model's result is a non-nullable bool vector -/
theorem dateCompare_ok_dtype {isStr isDt : β → Bool} {op iso : α → β → Res Bool} {xs : Col α} {o : Operand β} {r : BoolVec}
    (h : dateCompare isStr isDt op iso xs o = .ok r) : r.dtype = boolDType := by
  cases o with
  | vec ys dt =>
    simp only [dateCompare] at h
    split at h
    · cases h
    · split at h
      · exact toBoolVec_dtype h
      · split at h
        · exact toBoolVec_dtype h
        · exact toBoolVec_dtype (t := apply (cmpCell op) xs (.vec ys dt)) h
  | seq ys => exact toBoolVec_dtype (t := seqOp (cmpCell op) xs ys) h
  | scalar s =>
    simp only [dateCompare] at h
    split at h
    · exact toBoolVec_dtype h
    · split at h
      · exact toBoolVec_dtype h
      · exact toBoolVec_dtype (t := apply (cmpCell op) xs (.scalar s)) h

/-- a returned comparison carries the model's values and is built with `DataType(bool)` = the model's `boolDType` -/
theorem dateCompareT_ok {isStr isDt : β → Bool} {op op_iso op_dt : α → β → Res Bool} {xs : Col α} {o : Operand β}
    {c : VectorCall Bool}
    (h : dateCompareT isStr isDt op op_iso op_dt (fun o' => liftBool (compare op xs o')) xs o = .ok c) :
    ∃ r, dateCompare isStr isDt op (isoOf isStr op_iso op_dt o) xs o = .ok r ∧ c.values = r.data ∧ c.dtype = some boolDType := by
  rw [dateCompare_eq] at h
  obtain ⟨b, hb, rfl⟩ := liftBool_ok h
  exact ⟨b, hb, rfl, by simp [callOfBoolVec, dateCompare_ok_dtype hb]⟩

/-- C06 on the translated method: where either side is None the result is False -/
theorem dateCompareT_none_false {isStr isDt : β → Bool} {op op_iso op_dt : α → β → Res Bool} {xs : Col α} {o : Operand β}
    {c : VectorCall Bool}
    (h : dateCompareT isStr isDt op op_iso op_dt (fun o' => liftBool (compare op xs o')) xs o = .ok c)
    {i : Nat} {x : Option α} {y : Option β} (hx : xs[i]? = some x) (hy : o.get? i = some y) (hn : x = none ∨ y = none) :
    c.values[i]? = some false := by
  obtain ⟨r, hr, hv, _⟩ := dateCompareT_ok h
  rw [hv]
  exact C06.date_compare_none_false hr hx hy hn

theorem zipCells_len {ρ : Type} {f : Option α → Option β → Res ρ} {xs : Col α} {ys : Col β} {l : List ρ}
    (hl : xs.length = ys.length) (h : zipCells f xs ys = .ok l) : l.length = xs.length := by
  have : seqOp f xs ys = .ok l := by
    unfold seqOp; rw [if_neg (by simpa using hl)]; exact h
  exact (seqOp_ok_length this).2

/-- the result has one element per element of the vector -/
theorem dateCompareT_length {isStr isDt : β → Bool} {op op_iso op_dt : α → β → Res Bool} {xs : Col α} {o : Operand β}
    {c : VectorCall Bool}
    (h : dateCompareT isStr isDt op op_iso op_dt (fun o' => liftBool (compare op xs o')) xs o = .ok c) :
    c.values.length = xs.length := by
  obtain ⟨r, hr, hv, _⟩ := dateCompareT_ok h
  rw [hv]
  cases o with
  | vec ys dt =>
    simp only [dateCompare] at hr
    split at hr
    · cases hr
    · rename_i hl
      have hl : xs.length = ys.length := by simpa using hl
      split at hr
      · obtain ⟨l, hl', rfl⟩ := toBoolVec_ok hr
        exact zipCells_len hl hl'
      · split at hr
        · obtain ⟨l, hl', rfl⟩ := toBoolVec_ok hr
          exact zipCells_len hl hl'
        · obtain ⟨l, hl', rfl⟩ := toBoolVec_ok hr; exact apply_ok_length hl'
  | seq ys =>
    obtain ⟨l, hl', rfl⟩ := toBoolVec_ok (r := seqOp (cmpCell op) xs ys) hr; exact (seqOp_ok_length hl').2
  | scalar s =>
    simp only [dateCompare] at hr
    split at hr
    · obtain ⟨l, hl', rfl⟩ := toBoolVec_ok hr; exact mapRes_ok_length hl'
    · split at hr
      · obtain ⟨l, hl', rfl⟩ := toBoolVec_ok hr; exact mapRes_ok_length hl'
      · obtain ⟨l, hl', rfl⟩ := toBoolVec_ok hr; exact apply_ok_length hl'

/-- a Vector or another iterable of a different length: ValueError, whatever its dtype -/
theorem dateCompareT_mismatch (isStr isDt : β → Bool) (op op_iso op_dt : α → β → Res Bool) {xs : Col α} {o : Operand β} {n : Nat}
    (hn : o.len? = some n) (hne : xs.length ≠ n) :
    dateCompareT isStr isDt op op_iso op_dt (fun o' => liftBool (compare op xs o')) xs o = .error .value := by
  cases o with
  | vec ys dt =>
    have : xs.length ≠ ys.length := by simpa [Operand.len?] using fun h => hne (by simpa [Operand.len?, h] using hn)
    simp [dateCompareT, checkDuplicateT, isVectorT, itemsT, this]
  | seq ys =>
    have : xs.length ≠ ys.length := by simpa [Operand.len?] using fun h => hne (by simpa [Operand.len?, h] using hn)
    simp [dateCompareT, checkDuplicateT, isVectorT, isIterableT, itemsT, this]
  | scalar s => simp [Operand.len?] at hn

/-! ### `_Date.__add__` -/

/-- `_Date.__add__`, translated statement by statement, is the model's `dateAdd`: days for an int-kind Vector (None on either
    side → None, lengths checked) and for an int scalar, otherwise the base class (the model's `elementwise` of Python's `+`) -/
theorem dateAdd_eq (S : Sem α) (xs : Col α) (o : Operand α) :
    dateAddT S.isInt S.days (fun o' => liftValues (elementwise (S.py .add) xs o')) xs o = liftValues (dateAdd S xs o) := by
  cases o with
  | vec ys dt =>
    cases dt with
    | none => simp [dateAddT, isVectorT, schemaT, asT, dateAdd, kindIs]
    | some d =>
      by_cases hk : d.kind = .int
      · by_cases hl : xs.length = ys.length
        · simp only [dateAddT, isVectorT, schemaT, itemsT, dateAdd, kindIs, hk, hl, vectorT_none, beq_self_eq_true, Bool.and_self,
            bne_self_eq_false, Bool.false_eq_true, if_false, if_true, ne_eq, not_true_eq_false]
          cells
        · simp [dateAddT, isVectorT, schemaT, itemsT, dateAdd, kindIs, hk, hl, liftValues]
      · simp [dateAddT, isVectorT, schemaT, asT, dateAdd, kindIs, hk]
  | seq ys => simp [dateAddT, isVectorT, asT, dateAdd]
  | scalar s =>
    by_cases hs : S.isInt s = true
    · simp only [dateAddT, isVectorT, asT, dateAdd, scalarOp, hs, vectorT_none, Bool.false_and, Bool.false_eq_true, if_false,
        if_true]
      cells
    · simp [dateAddT, isVectorT, asT, dateAdd, hs]

/-- a returned sum carries the model's values and is built without `dtype=` (the dtype is inferred by `Vector.__new__`) -/
theorem dateAddT_ok {S : Sem α} {xs : Col α} {o : Operand α} {c : VectorCall (Option α)}
    (h : dateAddT S.isInt S.days (fun o' => liftValues (elementwise (S.py .add) xs o')) xs o = .ok c) :
    dateAdd S xs o = .ok c.values ∧ c.dtype = none := by
  rw [dateAdd_eq] at h
  obtain ⟨v, hv, rfl⟩ := liftValues_ok h
  exact ⟨hv, rfl⟩

theorem dateAddT_length {S : Sem α} {xs : Col α} {o : Operand α} {c : VectorCall (Option α)}
    (h : dateAddT S.isInt S.days (fun o' => liftValues (elementwise (S.py .add) xs o')) xs o = .ok c) :
    c.values.length = xs.length :=
  dateAdd_ok_length (dateAddT_ok h).1

theorem dateAddT_mismatch (S : Sem α) {xs : Col α} {o : Operand α} {n : Nat} (hn : o.len? = some n) (hne : xs.length ≠ n) :
    dateAddT S.isInt S.days (fun o' => liftValues (elementwise (S.py .add) xs o')) xs o = .error .value := by
  rw [dateAdd_eq, dateAdd_mismatch hn hne]; rfl

/-! ### the class dispatch of the arithmetic operators -/

/-- the name of the method Python calls for `v <o> other` (`refl = false`) / `other <o> v` (`refl = true`) -/
def dunder : BinOp → Bool → String
  | .add, false => "__add__" | .sub, false => "__sub__" | .mul, false => "__mul__" | .truediv, false => "__truediv__"
  | .floordiv, false => "__floordiv__" | .mod, false => "__mod__" | .pow, false => "__pow__"
  | .add, true => "__radd__" | .sub, true => "__rsub__" | .mul, true => "__rmul__" | .truediv, true => "__rtruediv__"
  | .floordiv, true => "__rfloordiv__" | .mod, true => "__rmod__" | .pow, true => "__rpow__"

/-- method resolution on a 1-D vector: a `_Date` instance (the class `Vector.__new__` picks, see `vectorNew_isDate`) uses the
    methods `class _Date` defines itself (`dateDefinesT`, read from the class body; the only one is `__add__`, whose translation
    is `dateAddT`), and `Vector`'s for everything else — this is the model's `vectorBinary` -/
theorem vectorBinary_eq (S : Sem α) (o : BinOp) (refl : Bool) (v : Vec α) (other : Operand α) :
    (if v.isDate && dateDefinesT.contains (dunder o refl)
     then dateAddT S.isInt S.days (fun o' => liftValues (elementwise (S.py .add) v.data o')) v.data other
     else liftValues (binary S.py o refl v.data other))
      = liftValues (vectorBinary S o refl v other) := by
  rw [dateAdd_eq]
  cases hd : v.isDate <;> cases o <;> cases refl <;> simp [dateDefinesT, dunder, vectorBinary, hd]

/-- C05 on the translated `+` of a date vector: element `i` of the result is None if either operand is, else Python's scalar
    operation for that operand form (`scalarOpOf`: days for an int-kind Vector / int scalar, `+` otherwise) -/
theorem dateAddT_pointwise {S : Sem α} {v : Vec α} (hv : v.isDate = true) {other : Operand α} {c : VectorCall (Option α)}
    (h : dateAddT S.isInt S.days (fun o' => liftValues (elementwise (S.py .add) v.data o')) v.data other = .ok c)
    {i : Nat} {x : Option α} (hx : v.data[i]? = some x) :
    ∃ y r, other.get? i = some y ∧ c.values[i]? = some r ∧ IsCellOf (scalarOpOf S .add false v other) x y r := by
  have h' : vectorBinary S .add false v other = .ok c.values := by
    simp only [vectorBinary, hv]; exact (dateAddT_ok h).1
  simpa using C05.pointwise_any_vector h' hx

/-! ### the `(*args, **kwargs)` wrappers and `eomonth` -/

/-- the common shape of the fourteen wrappers: `None if s is None else s.m(*args, **kwargs)` for every element, in order, the first
    exception aborting — the model's `broadcast` -/
theorem date_wrapper_eq (call : α → Res γ) (xs : Col α) :
    date_ctimeT call xs = liftValues (broadcast call xs) := by
  simp only [date_ctimeT, vectorT_none, broadcast]; cells

theorem date_fromisocalendar_eq (call : α → Res γ) (xs : Col α) : date_fromisocalendarT call xs = liftValues (broadcast call xs) := by
  simp only [date_fromisocalendarT, vectorT_none, broadcast]; cells
theorem date_fromisoformat_eq (call : α → Res γ) (xs : Col α) : date_fromisoformatT call xs = liftValues (broadcast call xs) := by
  simp only [date_fromisoformatT, vectorT_none, broadcast]; cells
theorem date_fromordinal_eq (call : α → Res γ) (xs : Col α) : date_fromordinalT call xs = liftValues (broadcast call xs) := by
  simp only [date_fromordinalT, vectorT_none, broadcast]; cells
theorem date_fromtimestamp_eq (call : α → Res γ) (xs : Col α) : date_fromtimestampT call xs = liftValues (broadcast call xs) := by
  simp only [date_fromtimestampT, vectorT_none, broadcast]; cells
theorem date_isocalendar_eq (call : α → Res γ) (xs : Col α) : date_isocalendarT call xs = liftValues (broadcast call xs) := by
  simp only [date_isocalendarT, vectorT_none, broadcast]; cells
theorem date_isoformat_eq (call : α → Res γ) (xs : Col α) : date_isoformatT call xs = liftValues (broadcast call xs) := by
  simp only [date_isoformatT, vectorT_none, broadcast]; cells
theorem date_isoweekday_eq (call : α → Res γ) (xs : Col α) : date_isoweekdayT call xs = liftValues (broadcast call xs) := by
  simp only [date_isoweekdayT, vectorT_none, broadcast]; cells
theorem date_replace_eq (call : α → Res γ) (xs : Col α) : date_replaceT call xs = liftValues (broadcast call xs) := by
  simp only [date_replaceT, vectorT_none, broadcast]; cells
theorem date_strftime_eq (call : α → Res γ) (xs : Col α) : date_strftimeT call xs = liftValues (broadcast call xs) := by
  simp only [date_strftimeT, vectorT_none, broadcast]; cells
theorem date_timetuple_eq (call : α → Res γ) (xs : Col α) : date_timetupleT call xs = liftValues (broadcast call xs) := by
  simp only [date_timetupleT, vectorT_none, broadcast]; cells
theorem date_today_eq (call : α → Res γ) (xs : Col α) : date_todayT call xs = liftValues (broadcast call xs) := by
  simp only [date_todayT, vectorT_none, broadcast]; cells
theorem date_toordinal_eq (call : α → Res γ) (xs : Col α) : date_toordinalT call xs = liftValues (broadcast call xs) := by
  simp only [date_toordinalT, vectorT_none, broadcast]; cells
theorem date_weekday_eq (call : α → Res γ) (xs : Col α) : date_weekdayT call xs = liftValues (broadcast call xs) := by
  simp only [date_weekdayT, vectorT_none, broadcast]; cells

/-- the wrappers the class defines are exactly the fourteen tied above, in the source's order -/
theorem dateWrappers_eq : dateWrappersT = ["ctime", "fromisocalendar", "fromisoformat", "fromordinal", "fromtimestamp", "isocalendar",
    "isoformat", "isoweekday", "replace", "strftime", "timetuple", "today", "toordinal", "weekday"] := rfl

/-- the two date computations of `eomonth` in sequence (either may raise) -/
def eomonthOf (first_of_next_month minus_one_day : α → Res α) (d : α) : Res α :=
  match first_of_next_month d with
  | .error e => .error e
  | .ok first_next => minus_one_day first_next

/-- an accumulating loop whose body appends exactly one value per item (or raises): `acc` followed by the per-item values -/
theorem forT_append {ι : Type} (body : List (Option γ) → ι → Res (List (Option γ))) (step : ι → Res (Option γ))
    (hbody : ∀ out i, body out i = (match step i with
                                    | .ok v => .ok (out ++ [v])
                                    | .error e => .error e))
    (xs : List ι) (acc : List (Option γ)) :
    forT xs acc body = (match mapRes step xs with
                        | .ok r => .ok (acc ++ r)
                        | .error e => .error e) := by
  induction xs generalizing acc with
  | nil => simp [forT, mapRes]
  | cons x xs ih =>
    simp only [forT, mapRes, hbody]
    cases step x with
    | error e => rfl
    | ok v =>
      simp only []
      rw [ih]
      cases mapRes step xs <;> simp

/-- `_Date.eomonth`, translated statement by statement (accumulator, None shortcut with `continue`, the two local values), is the
    model's `broadcast` of the two date computations -/
theorem eomonth_eq (f g : α → Res α) (xs : Col α) : eomonthT f g xs = liftValues (broadcast (eomonthOf f g) xs) := by
  simp only [eomonthT, vectorT_none]
  rw [forT_append _ (cell1 (eomonthOf f g))]
  · simp only [broadcast]
    cases mapRes (cell1 (eomonthOf f g)) xs <;> simp
  · intro out d
    cases d with
    | none => rfl
    | some d =>
      simp only [cell1, eomonthOf]
      cases f d with
      | error e => rfl
      | ok a =>
        simp only []
        cases g a <;> rfl

/-! ### `Vector.__new__`: the dtype and the class of the new vector -/

/-- `_Date` is chosen exactly when the settled dtype has kind `date` — the model's `Vec.isDate` -/
theorem vectorNew_isDate (infer : Col α → DType) (initial : Col α) (dt : Option DType) :
    ((vectorNewT infer .vector initial dt).1 = PyClass.date) ↔
      Vec.isDate { data := initial, dtype := (vectorNewT infer .vector initial dt).2 } = true := by
  simp only [vectorNewT, Vec.isDate]
  generalize (if (dt.isNone && !initial.isEmpty) = true then some (infer initial) else dt) = dt'
  cases dt' with
  | none => simp
  | some d =>
    by_cases h1 : d.kind = .str <;> by_cases h2 : d.kind = .int <;> by_cases h3 : d.kind = .float <;>
      by_cases h4 : d.kind = .date <;> simp_all

/-- a given dtype is reused as it is -/
theorem vectorNew_dtype_given (infer : Col α → DType) (cls : PyClass) (initial : Col α) (d : DType) :
    (vectorNewT infer cls initial (some d)).2 = some d := by
  simp [vectorNewT]

/-- without `dtype=` it is inferred from the values when there are any … -/
theorem vectorNew_dtype_inferred (infer : Col α → DType) (cls : PyClass) {initial : Col α} (h : initial ≠ []) :
    (vectorNewT infer cls initial none).2 = some (infer initial) := by
  cases initial with
  | nil => exact absurd rfl h
  | cons a as => simp [vectorNewT]

/-- … and an empty vector built without `dtype=` has none (the "untyped empty vector" of the model: `Vec.dtype = none`) and keeps the
    class it was asked for -/
theorem vectorNew_empty_untyped (infer : Col α → DType) (cls : PyClass) :
    vectorNewT infer cls ([] : Col α) none = (cls, none) := by
  simp [vectorNewT]

/-- the result of a date comparison (`dtype=DataType(bool)`) is a plain `Vector` with the model's `boolDType` -/
theorem vectorNew_bool (infer : List Bool → DType) (vals : List Bool) :
    vectorNewT infer .vector vals (some boolDType) = (.vector, some boolDType) := by
  simp [vectorNewT, boolDType]

/-- the result of `date + days` (built without `dtype=`) is a `_Date` again iff its inferred dtype is of kind date -/
theorem vectorNew_of_dateAdd (infer : Col α → DType) {vals : Col α} (h : vals ≠ []) :
    ((vectorNewT infer .vector vals (callOfValues vals).dtype).1 = PyClass.date) ↔ (infer vals).kind = .date := by
  rw [vectorNew_isDate]
  simp only [callOfValues, vectorNew_dtype_inferred infer .vector h, Vec.isDate]
  simp

/-! ### non-vacuity: the translated definitions evaluated on concrete inputs

  Dates are their ordinals (`Nat`).  Operands: `1000 + n` stands for the ISO string of day `n` (`1999` for a malformed string:
  `date.fromisoformat` raises ValueError), `2000 + n` for the datetime at midnight of day `n`, anything below 100 for an int. -/

private def isStrE (s : Nat) : Bool := 1000 ≤ s && s < 2000
private def isDtE (s : Nat) : Bool := 2000 ≤ s
private def opE (a b : Nat) : Res Bool := .ok (decide (a < b))
private def opIsoE (a b : Nat) : Res Bool := if b = 1999 then .error .value else .ok (decide (a < b - 1000))
private def opDtE (a b : Nat) : Res Bool := .ok (decide (a < b - 2000))
private def cmpE (xs : Col Nat) (o : Operand Nat) : Res (VectorCall Bool) :=
  dateCompareT isStrE isDtE opE opIsoE opDtE (fun o' => liftBool (compare opE xs o')) xs o

-- a str-kind Vector of ISO dates, None on both sides
example : cmpE [some 5, none, some 9] (.vec [some 1007, some 1001, none] (some ⟨.str, true⟩))
    = .ok { values := [true, false, false], dtype := some ⟨.bool, false⟩ } := by decide
-- a datetime-kind Vector goes through the other conversion
example : cmpE [some 5, some 9] (.vec [some 2007, some 2001] (some ⟨.datetime, false⟩))
    = .ok { values := [true, false], dtype := some ⟨.bool, false⟩ } := by decide
-- a date-kind Vector, and an untyped empty one, fall through to the base class
example : cmpE [some 5, none] (.vec [some 7, some 8] (some ⟨.date, false⟩))
    = .ok { values := [true, false], dtype := some ⟨.bool, false⟩ } := by decide
example : cmpE [] (.vec [] none) = .ok { values := [], dtype := some ⟨.bool, false⟩ } := by decide
-- a list is compared as it is (no ISO reading), a str scalar is parsed, a datetime scalar promotes the dates
example : cmpE [some 5, none] (.seq [some 1007, some 3]) = .ok { values := [true, false], dtype := some ⟨.bool, false⟩ } := by decide
example : cmpE [some 5, none, some 9] (.scalar 1007) = .ok { values := [true, false, false], dtype := some ⟨.bool, false⟩ } := by decide
example : cmpE [some 5, none, some 9] (.scalar 2007) = .ok { values := [true, false, false], dtype := some ⟨.bool, false⟩ } := by decide
example : cmpE [some 5, none, some 9] (.scalar 7) = .ok { values := [true, false, false], dtype := some ⟨.bool, false⟩ } := by decide
-- a malformed ISO string raises (only where the date is not None), a length mismatch raises ValueError before anything else
example : cmpE [none, some 5] (.scalar 1999) = .error .value := by decide
example : cmpE [none, none] (.scalar 1999) = .ok { values := [false, false], dtype := some ⟨.bool, false⟩ } := by decide
example : cmpE [some 5] (.vec [some 1007, some 1008] (some ⟨.str, false⟩)) = .error .value := by decide
example : cmpE [some 5] (.seq []) = .error .value := by decide
-- the hypotheses of `dateCompareT_none_false` / `dateCompareT_mismatch` are satisfiable
example : (cmpE [some 5, none] (.scalar 1007)).toOption.map (fun c => c.values[1]?) = some (some false) := by decide
example : ∃ e, cmpE [some 5] (.seq [some 1, some 2]) = .error e :=
  ⟨.value, dateCompareT_mismatch isStrE isDtE opE opIsoE opDtE (o := .seq [some 1, some 2]) (n := 2) rfl (by decide)⟩

/-- Python's `+` on the ordinals is addition; `date + n days` is written `d + 1000 * n` to tell the two apart -/
private def SE : Sem Nat := { py := fun _ a b => .ok (a + b), days := fun d n => .ok (d + 1000 * n), isInt := fun s => s < 100 }
private def addE (xs : Col Nat) (o : Operand Nat) : Res (VectorCall (Option Nat)) :=
  dateAddT SE.isInt SE.days (fun o' => liftValues (elementwise (SE.py .add) xs o')) xs o

example : addE [some 500, none, some 7] (.vec [some 2, some 3, none] (some ⟨.int, true⟩))
    = .ok { values := [some 2500, none, none], dtype := none } := by decide
example : addE [some 500, none] (.scalar 3) = .ok { values := [some 3500, none], dtype := none } := by decide
-- not an int: the base class (`+` of Python); a list, a float-kind Vector and an untyped empty Vector as well
example : addE [some 500, none] (.scalar 300) = .ok { values := [some 800, none], dtype := none } := by decide
example : addE [some 500] (.seq [some 2]) = .ok { values := [some 502], dtype := none } := by decide
example : addE [some 500] (.vec [some 2] (some ⟨.float, false⟩)) = .ok { values := [some 502], dtype := none } := by decide
example : addE [] (.vec [] none) = .ok { values := [], dtype := none } := by decide
example : addE [some 500] (.vec [some 2, some 3] (some ⟨.int, false⟩)) = .error .value := by decide
example : addE [some 500] (.vec [] (some ⟨.float, false⟩)) = .error .value := by decide

-- wrappers and eomonth: None stays None, the first exception aborts
example : date_toordinalT (fun (d : Nat) => (.ok (d + 1) : Res Nat)) [some 1, none, some 3]
    = .ok { values := [some 2, none, some 4], dtype := none } := by decide
example : date_replaceT (fun (d : Nat) => if d = 3 then (.error .value : Res Nat) else .ok d) [some 1, none, some 3] = .error .value := by
  decide
example : eomonthT (fun (d : Nat) => (.ok (d / 100 * 100 + 100) : Res Nat)) (fun d => .ok (d - 1)) [some 131, none, some 215]
    = .ok { values := [some 199, none, some 299], dtype := none } := by decide
example : eomonthT (fun (d : Nat) => if d = 999912 then (.error .other : Res Nat) else .ok (d + 100)) (fun d => .ok (d - 1))
    [some 1, some 999912, none] = .error .other := by decide

-- Vector.__new__: a given date dtype → `_Date`; no dtype → inferred when there are items, none (and the asked class) when empty
example : vectorNewT (fun (_ : Col Nat) => (⟨.date, true⟩ : DType)) .vector [some 1, none] none = (.date, some ⟨.date, true⟩) := by decide
example : vectorNewT (fun (_ : Col Nat) => (⟨.date, true⟩ : DType)) .vector [] none = (.vector, none) := by decide
example : vectorNewT (fun (_ : Col Nat) => (⟨.date, true⟩ : DType)) .vector [] (some ⟨.date, false⟩) = (.date, some ⟨.date, false⟩) := by
  decide
example : vectorNewT (fun (_ : Col Nat) => (⟨.date, true⟩ : DType)) .vector [some 1] (some ⟨.datetime, false⟩)
    = (.vector, some ⟨.datetime, false⟩) := by decide
example : dateDefinesT = ["__add__"] := rfl

end Serif.Tie
