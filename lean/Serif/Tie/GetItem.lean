/-
  Translation tie for indexing (C07): `Vector.__getitem__` and `Table.__getitem__`, translated statement by statement from the
  source (`Serif/Gen/TranslatedGetItem.lean`, written by harness/tr/getitem.py on every run), equal the model's `getitem` and
  `getitemTab` (`Serif/Model/Index.lean`) for every vector / table and every key the model describes.
  Supplementary (see Serif/Tie/Typing.lean).
-/
import Serif.Gen.TranslatedGetItem
import Serif.Proofs.Index

namespace Serif.Tie
open Serif Serif.Index Serif.Gen.TGI

variable {ν α : Type}

/-! ### the parameters of the translated functions, as the model computes them -/

/-- `tuple[slice]`: the elements at the positions `slice.indices(len)` selects (the model inlines this in `getitem`) -/
def sliceGet {β : Type} (xs : List β) (s : Slice) : Res (List β) := rmap (gather xs) (sliceIndices xs.length s)

/-- keys that mean what the model's `Key` says they mean: `.tupleN n` is a tuple of length `n ≠ 1` (a 1-tuple is `.tuple1`), and a
    Vector key has a dtype.  (For a Vector key *without* dtype — `Vector([])` — the model still describes the behaviour before the
    repair 1b5354c of /repo, an AttributeError; the source now refuses such a key like any other unusable key: see
    `getitem_untyped`.) -/
def ProperKey : Key → Prop
  | .tuple1 k => ProperKey k
  | .tupleN n => n ≠ 1
  | .vec dt _ => dt ≠ none
  | _ => True

/-! ### small facts about the fixed control forms -/

theorem zipStrictIf_eq (xs : List α) (es : List KElem) (h : xs.length = es.length) :
    zipStrictIf xs es = .ok (maskSel xs (es.map KElem.truthy)) := by
  induction xs generalizing es with
  | nil =>
    cases es with
    | nil => rfl
    | cons e es => simp at h
  | cons x xs ih =>
    cases es with
    | nil => simp at h
    | cons e es =>
      have h' : xs.length = es.length := by simpa using h
      simp only [zipStrictIf, ih es h', List.map_cons, maskSel]

theorem asScalar_rmap (r : Res α) : asScalar (rmap (Item.scalar (ν := ν)) r) = r := by
  cases r <;> rfl

/-- `self[x]` for an element `x` of an integer key is the model's `elemGet` -/
theorem elem_getitem (v : Vec ν α) (x : KElem) : asScalar (getitem v (elemKey x)) = elemGet v.data x := by
  cases x with
  | bool b => simp only [elemKey, getitem, asScalar_rmap, elemGet, KElem.asInt?]
  | int i => simp only [elemKey, getitem, asScalar_rmap, elemGet, KElem.asInt?]
  | other => rfl

theorem ints_eq (v : Vec ν α) (es : List KElem) :
    rmap (fun xs => Item.vec (copyWith v xs)) (mapRes (fun x => asScalar (getitem v (elemKey x))) es) = intsGet v es := by
  unfold intsGet
  rw [mapRes_congr (fun x _ => elem_getitem v x)]

theorem mask_eq (v : Vec ν α) (es : List KElem) :
    (if (v.data.length != es.length) = true then (.error Err.value : Res (Item ν α))
      else rmap (fun xs => Item.vec (copyWith v xs)) (zipStrictIf v.data es)) = maskGet v (es.map KElem.truthy) := by
  unfold maskGet
  by_cases h : v.data.length = es.length
  · simp [h, zipStrictIf_eq v.data es h]
  · simp [h]

theorem shapeT_length (v : Vec ν α) : (shapeT v).length = if v.data.isEmpty then 0 else 1 := by
  unfold shapeT; split <;> rfl

/-! ### `Vector.__getitem__` -/

/-- **the model's `getitem` satisfies the translated body of `Vector.__getitem__`**: with tuple subscription as the model computes
    it (`getIdx`, `sliceGet`) and the recursive calls `self[...]` answered by the model, the translated function returns what the
    model returns — value, name, dtype, and the class of the exception of every failing branch — for every vector and every
    (proper) key; the branch for longer tuple keys (`nested`) is never reached. -/
theorem getitem_eq (nested : Vec ν α → Key → Res (Item ν α)) (v : Vec ν α) (k : Key) (hk : ProperKey k) :
    getitemT getIdx sliceGet nested (getitem v) v k = getitem v k := by
  cases k with
  | int i => simp [getitemT, PyKey.isInt, PyKey.intVal, getitem]
  | tuple1 k =>
    simp only [getitemT, PyKey.isInt, PyKey.isTuple, PyKey.len, PyKey.item0, shapeT_length, getitem]
    cases h : v.data.isEmpty <;> simp
  | tupleN n =>
    have hn : n ≠ 1 := hk
    simp only [getitemT, PyKey.isInt, PyKey.isTuple, PyKey.len, shapeT_length, getitem]
    cases h : v.data.isEmpty
    · simp [hn]
    · by_cases h0 : n = 0
      · subst h0; simp
      · simp [h0]
  | vec dt es =>
    cases dt with
    | none => exact absurd rfl hk
    | some d =>
      obtain ⟨kd, nl⟩ := d
      simp only [getitemT, checkDuplicateT, PyKey.isInt, PyKey.isTuple, PyKey.isVector, PyKey.schema, PyKey.schemaKindIs,
        PyKey.schemaNullable, PyKey.isList, PyKey.isSlice, PyKey.len, PyKey.elems, Option.isSome_some, pyAnd, pyNot, getitem,
        Bool.false_and, Bool.false_eq_true, if_false]
      by_cases hb : kd = Kind.bool
      · subst hb
        cases nl
        · simp only [beq_self_eq_true, Bool.not_false, pyIf, and_self, if_true]
          exact mask_eq v es
        · have hbi : (Kind.bool == Kind.int) = false := by decide
          simp [pyIf, hbi]
      · have hb' : (kd == Kind.bool) = false := by simpa using hb
        by_cases hi : kd = Kind.int
        · subst hi
          cases nl
          · simp only [hb', pyIf, beq_self_eq_true, Bool.not_false, hb, false_and, if_false, and_self, if_true]
            exact ints_eq v es
          · simp [pyIf, hb']
        · have hi' : (kd == Kind.int) = false := by simpa using hi
          simp [hb', hi', pyIf, hb, hi]
  | list es =>
    simp only [getitemT, checkDuplicateT, PyKey.isInt, PyKey.isTuple, PyKey.isVector, PyKey.isList, PyKey.isSlice, PyKey.len,
      PyKey.elems, PyKey.typeSetIs, pyAnd, pyIf, getitem, Bool.false_eq_true, if_false, Bool.true_and]
    have hne : (!es.isEmpty) = true ↔ es ≠ [] := by cases es <;> simp
    by_cases h1 : es ≠ [] ∧ es.all KElem.isBool = true
    · have : (!es.isEmpty && es.all KElem.isBool) = true := by simp [hne.mpr h1.1, h1.2]
      rw [if_pos this, if_pos h1]
      exact mask_eq v es
    · have : ¬ ((!es.isEmpty && es.all KElem.isBool) = true) := by
        intro hc; simp only [Bool.and_eq_true] at hc; exact h1 ⟨hne.mp hc.1, hc.2⟩
      rw [if_neg this, if_neg h1]
      by_cases h2 : es ≠ [] ∧ es.all KElem.isInt = true
      · have : (!es.isEmpty && es.all KElem.isInt) = true := by simp [hne.mpr h2.1, h2.2]
        rw [if_pos this, if_pos h2]
        exact ints_eq v es
      · have : ¬ ((!es.isEmpty && es.all KElem.isInt) = true) := by
          intro hc; simp only [Bool.and_eq_true] at hc; exact h2 ⟨hne.mp hc.1, hc.2⟩
        rw [if_neg this, if_neg h2]
  | slice s =>
    simp only [getitemT, checkDuplicateT, PyKey.isInt, PyKey.isTuple, PyKey.isVector, PyKey.isList, PyKey.isSlice, PyKey.sliceVal,
      pyAnd, pyIf, getitem, Bool.false_eq_true, if_false, Bool.false_and, if_true, sliceGet]
    cases sliceIndices v.data.length s <;> rfl
  | other =>
    simp [getitemT, checkDuplicateT, PyKey.isInt, PyKey.isTuple, PyKey.isVector, PyKey.isList, PyKey.isSlice, pyAnd, pyIf, getitem]

/-- a Vector key without dtype (`Vector([])`): every test `key.schema() is not None and …` is false without touching
    `key.schema().kind`, and the key is refused with SerifTypeError — whatever the parameters.  (The model's `getitem` still says
    `.error .attr` here: the AttributeError of the source before /repo 1b5354c.  Such keys are outside the quantifier of C07.) -/
theorem getitem_untyped (subscr : List α → Int → Res α) (slice_of : List α → Slice → Res (List α))
    (nested : Vec ν α → Key → Res (Item ν α)) (g : Key → Res (Item ν α)) (v : Vec ν α) (es : List KElem) :
    getitemT subscr slice_of nested g v (.vec none es) = .error .type := by
  simp [getitemT, checkDuplicateT, PyKey.isInt, PyKey.isTuple, PyKey.isVector, PyKey.schema, PyKey.isList, PyKey.isSlice,
    pyAnd, pyIf]

/-- the translated body uses the recursive call only at `key[0]` and at the elements of `key` -/
theorem getitemT_congr (subscr : List α → Int → Res α) (slice_of : List α → Slice → Res (List α))
    (nested : Vec ν α → Key → Res (Item ν α)) (v : Vec ν α) (g g' : Key → Res (Item ν α)) (k : Key)
    (h0 : g (PyKey.item0 k) = g' (PyKey.item0 k)) (he : ∀ x ∈ PyKey.elems k, g (elemKey x) = g' (elemKey x)) :
    getitemT subscr slice_of nested g v k = getitemT subscr slice_of nested g' v k := by
  have hm : mapRes (fun x => asScalar (g (elemKey x))) (PyKey.elems k)
      = mapRes (fun x => asScalar (g' (elemKey x))) (PyKey.elems k) :=
    mapRes_congr (fun x hx => by rw [he x hx])
  simp only [getitemT, checkDuplicateT]
  rw [h0, hm]

/-- **the recursion of `Vector.__getitem__` has one solution, the model**: any function that answers `self[key]` by the translated
    body, with its own answers for the recursive calls, is the model's `getitem` on every proper key -/
theorem getitem_unique (nested : Vec ν α → Key → Res (Item ν α)) (v : Vec ν α) (g : Key → Res (Item ν α))
    (hg : ∀ k, g k = getitemT getIdx sliceGet nested g v k) : ∀ k, ProperKey k → g k = getitem v k := by
  have base : ∀ k, ProperKey k → PyKey.item0 k = .other → (∀ x ∈ PyKey.elems k, g (elemKey x) = getitem v (elemKey x)) →
      g .other = getitem v .other → g k = getitem v k := by
    intro k hk h0 he ho
    rw [hg k, getitemT_congr getIdx sliceGet nested v g (getitem v) k (by rw [h0, ho]) he, getitem_eq nested v k hk]
  have hother : g .other = getitem v .other := by
    rw [hg .other]
    simp [getitemT, checkDuplicateT, PyKey.isInt, PyKey.isTuple, PyKey.isVector, PyKey.isList, PyKey.isSlice, pyAnd, pyIf, getitem]
  have hint : ∀ i, g (.int i) = getitem v (.int i) := fun i =>
    base (.int i) trivial rfl (by intro x hx; cases hx) hother
  have helem : ∀ x : KElem, g (elemKey x) = getitem v (elemKey x) := by
    intro x; cases x with
    | bool b => exact hint _
    | int i => exact hint _
    | other => exact hother
  intro k
  induction k with
  | int i => intro _; exact hint i
  | tuple1 k ih =>
    intro hk
    rw [hg (.tuple1 k), getitemT_congr getIdx sliceGet nested v g (getitem v) (.tuple1 k) (ih hk) (by intro x hx; cases hx),
      getitem_eq nested v _ hk]
  | tupleN n => intro hk; exact base _ hk rfl (by intro x hx; cases hx) hother
  | vec dt es => intro hk; exact base _ hk rfl (fun x _ => helem x) hother
  | list es => intro hk; exact base _ hk rfl (fun x _ => helem x) hother
  | slice s => intro hk; exact base _ hk rfl (by intro x hx; cases hx) hother
  | other => intro _; exact hother

/-! ### the name lookups of `Table.__getitem__` -/

theorem forEnumReturn_eq (p : Nat → Option ν → Bool) (body : Nat → Vec ν α → Option (Vec ν α))
    (hb : ∀ i c, body i c = if p i c.name then some c else none) (i : Nat) (cs : List (Vec ν α)) :
    forEnumReturn body i cs = findCol p i cs := by
  induction cs generalizing i with
  | nil => rfl
  | cons c cs ih =>
    simp only [forEnumReturn, findCol, hb i c]
    by_cases h : p i c.name = true
    · simp [h]
    · simp [h, ih]

theorem forEnumBreak_eq (p : Nat → Option ν → Bool)
    (body : (List (Vec ν α) × Bool) → Nat → Vec ν α → (List (Vec ν α) × Bool) × Bool)
    (hb : ∀ st i c, body st i c = if p i c.name then ((st.1 ++ [c], true), true) else (st, false))
    (st : List (Vec ν α) × Bool) (i : Nat) (cs : List (Vec ν α)) :
    forEnumBreak body st i cs = match findCol p i cs with | some c => (st.1 ++ [c], true) | none => st := by
  induction cs generalizing i with
  | nil => rfl
  | cons c cs ih =>
    simp only [forEnumBreak, findCol, hb st i c]
    by_cases h : p i c.name = true
    · simp [h]
    · simp [h, ih]

section names
variable [DecidableEq ν]

theorem exactStepT_eq (key : ν) (i : Nat) (c : Vec ν α) :
    exactStepT key i c = if (fun (_ : Nat) (nm : Option ν) => nm == some key) i c.name then some c else none := rfl

theorem sanitizedStepT_eq (ops : NameOps ν) (kl : ν) (i : Nat) (c : Vec ν α) :
    sanitizedStepT ops kl i c = if matchSan ops kl i c.name then some c else none := by
  cases hn : c.name with
  | none => simp [sanitizedStepT, matchSan, hn]
  | some nm =>
    cases hs : ops.sanitize nm with
    | none => simp [sanitizedStepT, matchSan, hn, hs]
    | some base =>
      by_cases h1 : (base == kl) = true
      · simp [sanitizedStepT, matchSan, hn, hs, h1]
      · by_cases h2 : (ops.uniq base i == kl) = true
        · simp [sanitizedStepT, matchSan, hn, hs, h1, h2]
        · simp [sanitizedStepT, matchSan, hn, hs, h1, h2]

/-- the block under `if isinstance(key, str)`: exact name first, then the sanitised forms, else SerifKeyError — the model's `resolve` -/
theorem nameLookup_eq (ops : NameOps ν) (cols : List (Vec ν α)) (key : ν) :
    nameLookupT ops cols key = resolve ops cols key := by
  unfold nameLookupT resolve
  have h1 := forEnumReturn_eq (fun _ nm => nm == some key) (exactStepT key) (exactStepT_eq (α := α) key) 0 cols
  have h2 := forEnumReturn_eq (matchSan ops (ops.lower key)) (sanitizedStepT ops (ops.lower key))
    (sanitizedStepT_eq (α := α) ops (ops.lower key)) 0 cols
  simp only [h1, h2]
  cases findCol (fun (_ : Nat) (nm : Option ν) => nm == some key) 0 cols with
  | some c => rfl
  | none => cases findCol (matchSan ops (ops.lower key)) 0 cols <;> rfl

theorem exactAppendStepT_eq (k : ν) (st : List (Vec ν α) × Bool) (i : Nat) (c : Vec ν α) :
    exactAppendStepT k st i c
      = if (fun (_ : Nat) (nm : Option ν) => nm == some k) i c.name then ((st.1 ++ [c], true), true) else (st, false) := rfl

theorem sanitizedAppendStepT_eq (ops : NameOps ν) (kl : ν) (st : List (Vec ν α) × Bool) (i : Nat) (c : Vec ν α) :
    sanitizedAppendStepT ops kl st i c = if matchSan ops kl i c.name then ((st.1 ++ [c], true), true) else (st, false) := by
  have hc : copyWith c c.data = c := rfl
  cases hn : c.name with
  | none => simp [sanitizedAppendStepT, matchSan, hn, hc]
  | some nm =>
    cases hs : ops.sanitize nm with
    | none => simp [sanitizedAppendStepT, matchSan, hn, hs, hc]
    | some base =>
      by_cases h1 : (base == kl) = true
      · simp [sanitizedAppendStepT, matchSan, hn, hs, h1, hc]
      · by_cases h2 : (ops.uniq base i == kl) = true
        · simp [sanitizedAppendStepT, matchSan, hn, hs, h1, h2, hc]
        · simp [sanitizedAppendStepT, matchSan, hn, hs, h1, h2]

/-- `selected.append(f(k))`, or the exception of `f(k)` -/
def appendRes {κ β : Type} (f : κ → Res β) (acc : List β) (k : κ) : Res (List β) :=
  match f k with | .ok c => .ok (acc ++ [c]) | .error e => .error e

/-- one requested name: the column `resolve` finds is appended, a name no column answers to raises SerifKeyError -/
theorem selectStepT_eq (ops : NameOps ν) (cols acc : List (Vec ν α)) (k : ν) :
    selectStepT ops cols acc k = appendRes (resolve ops cols) acc k := by
  have h1 := fun st => forEnumBreak_eq (fun _ nm => nm == some k) (exactAppendStepT k) (exactAppendStepT_eq (α := α) k) st 0 cols
  have h2 := fun st => forEnumBreak_eq (matchSan ops (ops.lower k)) (sanitizedAppendStepT ops (ops.lower k))
    (sanitizedAppendStepT_eq (α := α) ops (ops.lower k)) st 0 cols
  unfold selectStepT appendRes resolve
  simp only [h1, h2]
  cases findCol (fun _ nm => nm == some k) 0 cols with
  | some c => simp
  | none =>
    cases findCol (matchSan ops (ops.lower k)) 0 cols with
    | some c => simp
    | none => simp

theorem foldlM_append {κ β : Type} (f : κ → Res β) (ks : List κ) (acc : List β) :
    ks.foldlM (appendRes f) acc
      = match mapRes f ks with | .ok cs => .ok (acc ++ cs) | .error e => .error e := by
  induction ks generalizing acc with
  | nil => simp [mapRes, pure, Except.pure]
  | cons k ks ih =>
    simp only [List.foldlM_cons, mapRes, bind, Except.bind, appendRes]
    cases f k with
    | error e => rfl
    | ok c =>
      simp only [ih]
      cases mapRes f ks with
      | error e => rfl
      | ok cs => simp

/-- the block under `if isinstance(key, tuple) and all(isinstance(k, str) for k in key)`: every name resolved in order, the first
    miss raises — the model's `selectNames` -/
theorem selectNames_eq (ops : NameOps ν) (cols : List (Vec ν α)) (ks : List ν) :
    selectNamesT ops cols ks = selectNames ops cols ks := by
  have hstep : selectStepT ops cols = appendRes (resolve ops cols) := by
    funext acc k; exact selectStepT_eq ops cols acc k
  unfold selectNamesT selectNames
  rw [hstep, foldlM_append]
  cases mapRes (resolve ops cols) ks <;> simp [rmap]

end names

/-! ### `Table.__getitem__` -/

/-- `Row(self, i)` as the model computes it: the values of row `i`, column by column (inlined in `getitemTab`) -/
def rowOf (t : Tab ν α) (i : Int) : Res (TItem ν α) := rmap .row (mapRes (fun col => getIdx col.data i) t.cols)

/-- `self[i][c]` — `Row(self, i)` subscripted by the other member of a 2-tuple key (class Row) — as the model's `getTwo` inlines
    it: a cell for an int, a slice of the row for a slice, otherwise the Row attribute protocol (`unmodelled` here, C17) -/
def rowThenCol (t : Tab ν α) (i : Int) (c : Spec ν) : Res (TItem ν α) :=
  match c with
  | .int j =>
    match getIdx t.cols j with
    | .error e => .error e
    | .ok col => rmap .cell (getIdx col.data i)
  | .slice s2 =>
    match mapRes (fun col => getIdx col.data i) t.cols with
    | .error e => .error e
    | .ok vals =>
      match sliceIndices vals.length s2 with
      | .error e => .error e
      | .ok idxs => .ok (.row (gather vals idxs))
  | _ => .ok .unmodelled

/-- `rowThenCol` is what the model does for a 2-tuple key with an int row member, in either order -/
theorem rowThenCol_eq [DecidableEq ν] (ops : NameOps ν) (t : Tab ν α) (i : Int) (c : Spec ν) :
    getTwo ops t (.int i) c = rowThenCol t i c ∧ (c.isRow = false → getTwo ops t c (.int i) = rowThenCol t i c) := by
  constructor
  · cases c <;> rfl
  · intro h; cases c <;> first | rfl | cases h

/-- table keys whose Vector member (if any) has a dtype (see `ProperKey`) -/
def ProperTKey : TKey ν → Prop
  | .row (.vec dt _) => dt ≠ none
  | _ => True

theorem asVec_getitem (x : Vec ν α) (k : Key) : asVec (getitem x k) = selVec x k := by
  unfold selVec
  cases getitem x k with
  | error e => rfl
  | ok it => cases it <;> rfl

/-- `Vector(tuple(x[key] for x in self._underlying), …)` is the model's `rowsel` -/
theorem rowsel_eq_tr (t : Tab ν α) (k : Key) :
    rmap (fun cs => TItem.tab ⟨cs⟩) (mapRes (fun x => asVec (getitem x k)) t.cols) = rmap .tab (rowsel t k) := by
  unfold rowsel
  rw [mapRes_congr (fun x _ => asVec_getitem x k), rmap_rmap]
  rfl

section table
variable [DecidableEq ν]

/-- the translated `Table.__getitem__` with its parameters as the model computes them (`len(self.shape)` is 2 for a table of
    vectors, no column is itself a Table, `x[key]` on a column is the model's `getitem` — tied to `Vector.__getitem__` by
    `getitem_eq` —, recursive calls answered by `g`) -/
def getitemTabTr (ops : NameOps ν) (g : Tab ν α → TKey ν → Res (TItem ν α)) (t : Tab ν α) (key : TKey ν) : Res (TItem ν α) :=
  getitemTabT ops (fun _ => 2) Tab.nrows (fun _ => false) getIdx sliceGet rowOf rowThenCol getitem g t key

/-- **the model's `getitemTab` satisfies the translated body of `Table.__getitem__`**, for every table and every (proper) key:
    a string → the first column with that exact name, else a sanitised form, else SerifKeyError; a tuple of strings → each resolved
    in order, a miss raises; another tuple → length 2 required, the int / slice member is the row member whichever comes first,
    rows are selected first and then the columns by int, slice, name or names; an int → the row; a boolean mask (length asserted),
    a slice, an integer Vector → the same key applied to every column; anything else → None. -/
theorem getitemTab_eq (ops : NameOps ν) (t : Tab ν α) (key : TKey ν) (hk : ProperTKey key) :
    getitemTabTr ops (getitemTab ops) t key = getitemTab ops t key := by
  unfold getitemTabTr
  cases key with
  | name k => simp only [getitemTabT, checkDuplicateTabT, TKey.asStr, nameLookup_eq, getitemTab]
  | names ks => simp only [getitemTabT, checkDuplicateTabT, TKey.asStr, TKey.asStrTuple, selectNames_eq, getitemTab]
  | tupleN n =>
    simp only [getitemTabT, checkDuplicateTabT, TKey.asStr, TKey.asStrTuple, TKey.isTuple, TKey.len, TKey.item0, TKey.item1,
      getitemTab, if_true]
    by_cases h2 : n = 2
    · subst h2; simp [Spec.isInt, Spec.isSlice]
    · simp [h2]
  | two a b =>
    simp only [getitemTabT, checkDuplicateTabT, TKey.asStr, TKey.asStrTuple, TKey.isTuple, TKey.len, TKey.item0, TKey.item1,
      getitemTab, getTwo, if_true]
    rcases a with i | s | k | ks | _ <;> rcases b with j | s2 | k2 | ks2 | _ <;>
      simp [Spec.isInt, Spec.isSlice, Spec.isStr, Spec.isStrTuple, Spec.isRow, Spec.toTKey, Spec.intVal, Spec.sliceVal,
        rowThenCol, sliceGet] <;>
      first
        | rfl
        | (cases rowsel t (.slice s) with
           | error e => rfl
           | ok rs => simp only []; cases sliceIndices rs.cols.length s2 <;> rfl)
  | row k =>
    simp only [getitemTabT, checkDuplicateTabT, TKey.asStr, TKey.asStrTuple, TKey.isTuple, TKey.asKey, Bool.false_eq_true, if_false]
    cases k with
    | int i =>
      simp only [PyKey.isInt, PyKey.intVal, if_true, getitemTab, rowOf]
      cases t.cols with
      | nil => rfl
      | cons c cs =>
        have h0 : getIdx (c :: cs) 0 = .ok c := by simp [getIdx, normIndex]
        simp only [h0, rmap, pyIf]
    | vec dt es =>
      cases dt with
      | none => exact absurd rfl hk
      | some d =>
        obtain ⟨kd, nl⟩ := d
        simp only [PyKey.isInt, PyKey.isVector, PyKey.schema, PyKey.schemaKindIs, PyKey.schemaNullable, PyKey.isList,
          PyKey.isSlice, PyKey.len, Option.isSome_some, pyAnd, pyNot, getitemTab, maskRows, rowsel_eq_tr,
          Bool.false_and, Bool.false_eq_true, if_false]
        by_cases hb : kd = Kind.bool
        · subst hb
          cases nl
          · by_cases hl : t.nrows = es.length <;> simp [pyIf, hl]
          · have hbi : (Kind.bool == Kind.int) = false := by decide
            simp [pyIf, hbi]
        · have hb' : (kd == Kind.bool) = false := by simpa using hb
          by_cases hi : kd = Kind.int
          · subst hi
            cases nl <;> simp [pyIf, hb']
          · have hi' : (kd == Kind.int) = false := by simpa using hi
            simp [hb', hi', pyIf, hb, hi]
    | list es =>
      simp only [PyKey.isInt, PyKey.isVector, PyKey.isList, PyKey.isSlice, PyKey.len, PyKey.elems, PyKey.typeSetIs, pyAnd, pyIf,
        getitemTab, maskRows, rowsel_eq_tr, Bool.false_eq_true, if_false, Bool.true_and]
      have hne : (!es.isEmpty) = true ↔ es ≠ [] := by cases es <;> simp
      by_cases h1 : es ≠ [] ∧ es.all KElem.isBool = true
      · have : (!es.isEmpty && es.all KElem.isBool) = true := by simp [hne.mpr h1.1, h1.2]
        rw [if_pos this, if_pos h1]
        by_cases hl : t.nrows = es.length <;> simp [hl]
      · have : ¬ ((!es.isEmpty && es.all KElem.isBool) = true) := by
          intro hc; simp only [Bool.and_eq_true] at hc; exact h1 ⟨hne.mp hc.1, hc.2⟩
        rw [if_neg this, if_neg h1]
    | slice s =>
      simp only [PyKey.isInt, PyKey.isVector, PyKey.isList, PyKey.isSlice, pyAnd, pyIf, getitemTab, rowsel_eq_tr,
        Bool.false_eq_true, if_false, Bool.false_and, if_true]
    | tuple1 k => simp [PyKey.isInt, PyKey.isVector, PyKey.isList, PyKey.isSlice, pyAnd, pyIf, getitemTab]
    | tupleN n => simp [PyKey.isInt, PyKey.isVector, PyKey.isList, PyKey.isSlice, pyAnd, pyIf, getitemTab]
    | other => simp [PyKey.isInt, PyKey.isVector, PyKey.isList, PyKey.isSlice, pyAnd, pyIf, getitemTab]

end table

/-- a Vector key without dtype on a table: no branch takes it, the function ends and returns None — whatever the parameters.
    (The model's `getitemTab` still says `.error .attr`: the source before /repo 1b5354c.) -/
theorem getitemTab_untyped [DecidableEq ν] (ops : NameOps ν) (shape_len table_len : Tab ν α → Nat) (is_table : Vec ν α → Bool)
    (col_subscr : List (Vec ν α) → Int → Res (Vec ν α)) (col_slice : List (Vec ν α) → Slice → Res (List (Vec ν α)))
    (make_row : Tab ν α → Int → Res (TItem ν α)) (row_protocol : Tab ν α → Int → Spec ν → Res (TItem ν α))
    (vec_getitem : Vec ν α → Key → Res (Item ν α)) (g : Tab ν α → TKey ν → Res (TItem ν α)) (t : Tab ν α) (es : List KElem) :
    getitemTabT ops shape_len table_len is_table col_subscr col_slice make_row row_protocol vec_getitem g t (.row (.vec none es))
      = .ok .none := by
  simp [getitemTabT, checkDuplicateTabT, TKey.asStr, TKey.asStrTuple, TKey.isTuple, TKey.asKey, PyKey.isInt, PyKey.isVector,
    PyKey.schema, PyKey.isList, PyKey.isSlice, pyAnd, pyIf]

section table2
variable [DecidableEq ν]

/-- the translated body calls itself only with a member of a 2-tuple as key -/
theorem getitemTabTr_congr (ops : NameOps ν) (g g' : Tab ν α → TKey ν → Res (TItem ν α))
    (h : ∀ t' s, g t' (Spec.toTKey s) = g' t' (Spec.toTKey s)) (t : Tab ν α) (key : TKey ν) :
    getitemTabTr ops g t key = getitemTabTr ops g' t key := by
  simp only [getitemTabTr, getitemTabT, h]

/-- **the recursion of `Table.__getitem__` has one solution, the model**: a function that answers `self[key]` by the translated
    body, with its own answers for `self[row_spec]` and `row_sliced[col_spec]`, is the model's `getitemTab` on every proper key -/
theorem getitemTab_unique (ops : NameOps ν) (g : Tab ν α → TKey ν → Res (TItem ν α))
    (hg : ∀ t k, g t k = getitemTabTr ops g t k) : ∀ t k, ProperTKey k → g t k = getitemTab ops t k := by
  have hspec : ∀ t' s, g t' (Spec.toTKey s) = getitemTab ops t' (Spec.toTKey s) := by
    intro t' s
    have hp : ProperTKey (Spec.toTKey s) := by cases s <;> trivial
    rw [hg, ← getitemTab_eq ops t' _ hp]
    cases s <;> rfl
  intro t k hk
  rw [hg, getitemTabTr_congr ops g (getitemTab ops) hspec, getitemTab_eq ops t k hk]

end table2

/-! ### non-vacuity: the translated functions evaluated on concrete inputs (no model function inside, except the two tuple
     subscriptions passed as parameters); the hypotheses are satisfiable -/

section examples

/-- the translated `Vector.__getitem__` run with its own recursion (`fuel` nested calls) -/
def getitemRun (fuel : Nat) (v : Vec String Nat) (k : Key) : Res (Item String Nat) :=
  match fuel with
  | 0 => .error .other
  | n + 1 => getitemT getIdx sliceGet (fun _ _ => .error .other) (getitemRun n v) v k

def w5 : Vec String Nat := { data := [10, 11, 12, 13, 14], dtype := some ⟨.int, false⟩, name := some "x" }
def w0 : Vec String Nat := { data := [], dtype := none, name := none }

example : ProperKey (.tuple1 (.vec (some ⟨.bool, false⟩) [.bool true])) := by simp [ProperKey]
example : getitemRun 1 w5 (.int (-1)) = .ok (.scalar 14) := by decide
example : getitemRun 1 w5 (.int 5) = .error .index := by decide
example : getitemRun 1 w5 (.int (-6)) = .error .index := by decide
example : getitemRun 2 w5 (.tuple1 (.int 2)) = .ok (.scalar 12) := by decide
example : getitemRun 2 w0 (.tuple1 (.int 2)) = .error .key := by decide
example : getitemRun 1 w0 (.tupleN 0) = .error .index := by decide
example : getitemRun 1 w5 (.tupleN 2) = .error .key := by decide
example : getitemRun 1 w5 (.slice ⟨some (-2), none, some (-2)⟩) = .ok (.vec { w5 with data := [13, 11] }) := by decide
example : getitemRun 1 w5 (.slice ⟨none, none, some 0⟩) = .error .value := by decide
example : getitemRun 1 w5 (.vec (some ⟨.bool, false⟩) [.bool true, .bool false, .bool true, .bool false, .bool true])
    = .ok (.vec { w5 with data := [10, 12, 14] }) := by decide
example : getitemRun 1 w5 (.list [.bool true]) = .error .value := by decide
example : getitemRun 2 w5 (.list [.int (-1), .int 0, .int 0]) = .ok (.vec { w5 with data := [14, 10, 10] }) := by decide
example : getitemRun 2 w5 (.vec (some ⟨.int, false⟩) [.int 1, .int 7]) = .error .index := by decide
example : getitemRun 2 w5 (.list [.int 1, .bool true]) = .error .type := by decide
example : getitemRun 2 w5 (.vec (some ⟨.bool, true⟩) [.bool true, .other]) = .error .type := by decide
example : getitemRun 1 w5 (.list []) = .error .type := by decide
example : getitemRun 1 w5 (.vec none []) = .error .type := by decide
example : getitemRun 1 w5 .other = .error .type := by decide
-- and the model agrees on each of them (instances of `getitem_eq`)
example : getitemRun 2 w5 (.list [.int (-1), .int 0, .int 0]) = getitem w5 (.list [.int (-1), .int 0, .int 0]) := by decide

def opsEx : NameOps String :=
  { lower := fun s => if s = "A_B" then "a_b" else s
    sanitize := fun s => if s = "A b" then some "a_b" else if s = "!!" then none else some s
    uniq := fun b i => b ++ "__" ++ toString i
    sys := fun i => "col" ++ toString i ++ "_" }
def tEx : Tab String Nat :=
  ⟨[{ data := [1, 2, 3], dtype := none, name := some "a" }, { data := [4, 5, 6], dtype := none, name := some "A b" },
    { data := [7, 8, 9], dtype := none, name := some "a" }, { data := [0, 0, 0], dtype := none, name := none },
    { data := [5, 5, 5], dtype := none, name := some "!!" }]⟩

/-- the translated `Table.__getitem__` run with its own recursion; `x[key]` on a column is the translated `Vector.__getitem__` -/
def getitemTabRun (fuel : Nat) (t : Tab String Nat) (k : TKey String) : Res (TItem String Nat) :=
  match fuel with
  | 0 => .error .other
  | n + 1 => getitemTabT opsEx (fun _ => 2) Tab.nrows (fun _ => false) getIdx sliceGet rowOf rowThenCol (getitemRun 2)
      (getitemTabRun n) t k

example : nameLookupT opsEx tEx.cols "a" = .ok { data := [1, 2, 3], dtype := none, name := some "a" } := by decide
example : nameLookupT opsEx tEx.cols "A_B" = .ok { data := [4, 5, 6], dtype := none, name := some "A b" } := by decide
example : nameLookupT opsEx tEx.cols "a__2" = .ok { data := [7, 8, 9], dtype := none, name := some "a" } := by decide
example : nameLookupT opsEx tEx.cols "col3_" = .ok { data := [0, 0, 0], dtype := none, name := none } := by decide
example : nameLookupT opsEx tEx.cols "col4_" = .ok { data := [5, 5, 5], dtype := none, name := some "!!" } := by decide
example : nameLookupT opsEx tEx.cols "b" = .error .key := by decide
example : (selectNamesT opsEx tEx.cols ["col3_", "a", "a"]).toOption.map (·.cols.map (·.data))
    = some [[0, 0, 0], [1, 2, 3], [1, 2, 3]] := by decide
example : selectNamesT opsEx tEx.cols ["a", "missing", "a"] = .error .key := by decide
example : getitemTabRun 1 tEx (.name "A_B") = .ok (.col { data := [4, 5, 6], dtype := none, name := some "A b" }) := by decide
example : getitemTabRun 1 tEx (.row (.int (-1))) = .ok (.row [3, 6, 9, 0, 5]) := by decide
example : getitemTabRun 1 ⟨[]⟩ (.row (.int 0)) = .error .index := by decide
example : getitemTabRun 1 tEx (.row (.list [.bool true, .bool false])) = .error .other := by decide
example : getitemTabRun 1 tEx (.row (.list [.int 0])) = .ok .none := by decide
example : getitemTabRun 1 tEx (.tupleN 3) = .error .key := by decide
example : getitemTabRun 2 tEx (.two (.names ["a", "col3_"]) (.slice ⟨some 1, none, none⟩))
    = .ok (.tab ⟨[{ data := [2, 3], dtype := none, name := some "a" }, { data := [0, 0], dtype := none, name := none }]⟩) := by decide
example : getitemTabRun 2 tEx (.two (.slice ⟨none, none, some (-1)⟩) (.int 1))
    = .ok (.col { data := [6, 5, 4], dtype := none, name := some "A b" }) := by decide
example : getitemTabRun 2 tEx (.two (.int 1) (.int 2)) = .ok (.cell 8) := by decide
example : getitemTabRun 2 tEx (.two (.name "a") (.name "a")) = .error .key := by decide
example : getitemTabRun 2 tEx (.two (.slice ⟨none, none, none⟩) (.names ["a", "zz"])) = .error .key := by decide
example : getitemTabRun 2 tEx (.two (.names ["a", "col3_"]) (.slice ⟨some 1, none, none⟩))
    = getitemTab opsEx tEx (.two (.names ["a", "col3_"]) (.slice ⟨some 1, none, none⟩)) := by decide

end examples

end Serif.Tie
