/-
  Translation tie for `sort_by` (C14): the first component of the sort key — the flag that places None — translated from the
  source text of `key_fn` inside `Table.sort_by` and of the two lambdas of `Vector.sort_by` (`Serif/Gen/TranslatedSort.lean`) is,
  for all eight inputs, the truth table the extractor obtains by *executing* those functions (`Gen.sortFlagTable`,
  `Gen.sortFlagVector`), and it satisfies the model's requirement on a key function (`Sort.flagOK`: None gets the larger flag exactly
  when `na_last != reverse`).  The translator also checks literally that `Table.sort_by` applies its keys from last to first with
  `indices.sort(key=key_fn, reverse=rev)` and `Vector.sort_by` calls `sorted(..., key=key_fn, reverse=reverse)`; the stability of
  CPython's sort is an assumption of the model (`isort`).  Supplementary (see Serif/Tie/Typing.lean).
-/
import Serif.Gen.TranslatedSort
import Serif.Model.Sort

namespace Serif.Tie
open Serif Serif.Sort Serif.Gen.TS

theorem tableSortFlag_eq (isNone rev naLast : Bool) : tableSortFlagT isNone rev naLast = Gen.sortFlagTable isNone rev naLast := by
  cases isNone <;> cases rev <;> cases naLast <;> decide

theorem vectorSortFlag_eq (isNone rev naLast : Bool) : vectorSortFlagT isNone rev naLast = Gen.sortFlagVector isNone rev naLast := by
  cases isNone <;> cases rev <;> cases naLast <;> decide

/-- the translated flags meet the model's condition on a key function -/
theorem translated_flags_ok : flagOK tableSortFlagT = true ∧ flagOK vectorSortFlagT = true := by decide

end Serif.Tie
