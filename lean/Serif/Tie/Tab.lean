/-
  Translation tie for the rectangularity of tables (C02): the length validation of `Table.__init__` (`_length` is the length of
  the first column, every column must have it, else SerifValueError), the guard of both column-replacement paths of
  `Table.__setattr__`, and `Table.__len__`, translated from the source (`Serif/Gen/TranslatedTab.lean`), accept exactly the
  rectangular inputs of the model (`Tab.rectB`, `Tab.Rect`): a table is constructed iff all columns have the length of the first,
  `len(t)` then is that length, and a replacement column is accepted iff it keeps the table rectangular.
  Supplementary (see Serif/Tie/Typing.lean).
-/
import Serif.Gen.TranslatedTab
import Serif.Model.Tab

namespace Serif.Tie
open Serif Serif.Tab Serif.Gen.TT

private theorem checkLoop (length : Nat) (lens : List Nat) :
    lens.foldlM (fun (_ : Unit) l => if l != length then (.error Err.value : Except Err Unit) else .ok ()) ()
      = if lens.all (· == length) then .ok () else .error Err.value := by
  induction lens with
  | nil => rfl
  | cons l ls ih =>
    simp only [List.foldlM_cons, List.all_cons]
    by_cases h : l = length
    · subst h
      simp only [bne_self_eq_false, Bool.false_eq_true, ↓reduceIte, bind, Except.bind, beq_self_eq_true, Bool.true_and]
      exact ih
    · have : (l != length) = true := by simpa using h
      simp [this, h, bind, Except.bind]

/-- `Table(cols)` is constructed iff every column has the length of the first one; `_length` is that length (0 without columns) -/
theorem tableInitLength_eq {α : Type} (cols : List (List α)) :
    tableInitLengthT (cols.map List.length) =
      (if rectB cols ((cols.head?.map List.length).getD 0) then .ok ((cols.head?.map List.length).getD 0) else .error Err.value) := by
  unfold tableInitLengthT
  simp only [checkLoop]
  cases cols with
  | nil => simp [rectB]
  | cons c cs =>
    simp only [rectB, List.all_map, Function.comp_def, List.map_cons, List.all_cons, List.head?_cons, Option.map_some,
      Option.getD_some, beq_self_eq_true, Bool.true_and, List.isEmpty_cons, Bool.not_false, ↓reduceIte, List.headD_cons]
    by_cases h : (cs.all fun c' => c'.length == c.length) = true
    · simp [h]
    · simp [h]

/-- hence an accepted construction is rectangular, with `len(t)` rows -/
theorem tableInit_rect {α : Type} (cols : List (List α)) (n : Nat) (h : tableInitLengthT (cols.map List.length) = .ok n) :
    Rect cols n ∧ tableLenT cols.length false n = (if cols.isEmpty then 0 else n) := by
  rw [tableInitLength_eq] at h
  split at h
  · rename_i hr
    simp only [Except.ok.injEq] at h
    subst h
    refine ⟨?_, ?_⟩
    · intro c hc
      have := (List.all_eq_true.mp hr) c hc
      simpa using this
    · cases cols <;> simp [tableLenT]
  · cases h

/-- replacing column `j` of a rectangular table with at least one column: the guard refuses exactly the values that would make
    it ragged -/
theorem setattr_keeps_rect {α : Type} (cols : List (List α)) (n j : Nat) (v : List α) (hr : Rect cols n) (hne : cols ≠ [])
    (hacc : setattrRefusesT cols.length v.length n = false) : Rect (cols.set j v) n := by
  have hl : v.length = n := by
    have : cols.length ≠ 0 := by simpa using hne
    simp [setattrRefusesT, this] at hacc
    exact hacc
  intro c hc
  rcases List.mem_or_eq_of_mem_set hc with h | h
  · exact hr c h
  · rw [h]; exact hl

/-- and a refused value really has another length -/
theorem setattr_refuses_iff (ncols lenValue n : Nat) (h : ncols ≠ 0) :
    setattrRefusesT ncols lenValue n = true ↔ lenValue ≠ n := by
  simp [setattrRefusesT, h]

example : tableInitLengthT [2, 2, 2] = .ok 2 ∧ tableInitLengthT [2, 3] = .error Err.value ∧ tableInitLengthT [] = .ok 0 := by
  refine ⟨rfl, rfl, rfl⟩

end Serif.Tie
