/-
  Translation tie for `Table.aggregate` / `Table.window` (C12, C13): the body of the partition loop and the six built-in
  reducers of each method, translated statement by statement from the source (`Serif/Gen/TranslatedGroup.lean`, regenerated on
  every run by harness/py2lean.py), equal the hand-written model (`Group.addRow`, `Group.sumF` … `Group.varF`) for every input —
  and the model's reducers are what C12 proves equal to the textbook functions over a group's non-None values.

  The reducers are translated over integer cells with exact rational results (Python's `/` on ints is exact up to float rounding;
  the harness compares the exact fraction of the float the code returns); `stdev` is translated without its final `** 0.5`.
  The 1-D branches of `Vector.sum/min/max/mean/stdev` are translated by the same translator and equal the model's `vecReduce`
  (the last clause of C12).  Grouping by `gather`, result order, names and the window's expansion back to rows are tied by the
  correspondence leg.
  Supplementary (see Serif/Tie/Typing.lean).
-/
import Serif.Gen.TranslatedGroup
import Serif.Model.Group

set_option linter.unusedSimpArgs false

namespace Serif.Tie
open Serif Serif.Group Serif.Gen.TG

section
variable {K : Type} [DecidableEq K]

/-- updating a key that is present, in the two forms the code and the model use -/
private theorem upsert_const_of_get (d : Dict K (List Nat)) (k : K) (f : Option (List Nat) → List Nat) :
    Dict.upsert d k f = Dict.upsert d k (fun _ => f (Dict.get? d k)) := by
  induction d with
  | nil => rfl
  | cons p rest ih =>
    obtain ⟨k', v⟩ := p
    by_cases h : k' = k
    · simp [Dict.upsert, Dict.get?, h]
    · simp [Dict.upsert, Dict.get?, h, ih]

theorem partitionStepAgg_eq (d : Dict K (List Nat)) (k : K) (i : Nat) : partitionStepTAgg d k i = addRow d k i := by
  unfold partitionStepTAgg addRow
  conv => rhs; rw [upsert_const_of_get]
  cases Dict.get? d k <;> rfl

theorem partitionStepWin_eq (d : Dict K (List Nat)) (k : K) (i : Nat) : partitionStepTWin d k i = addRow d k i := by
  unfold partitionStepTWin addRow
  conv => rhs; rw [upsert_const_of_get]
  cases Dict.get? d k <;> rfl

/-- the loop `for row_idx in range(nrows)` with a translated body is the model's `partitionFrom` -/
theorem partitionLoop_eq (step : Dict K (List Nat) → K → Nat → Dict K (List Nat)) (hstep : ∀ d k i, step d k i = addRow d k i)
    (keys : List K) (n : Nat) (d : Dict K (List Nat)) :
    (keys.zipIdx n).foldl (fun d p => step d p.1 p.2) d = partitionFrom keys n d := by
  induction keys generalizing n d with
  | nil => rfl
  | cons k ks ih =>
    simp only [List.zipIdx_cons, List.foldl_cons, partitionFrom]
    rw [hstep]
    exact ih (n + 1) _

end

/-! ### reducers -/

private theorem pyMin_eq (c : List Int) : Gen.TG.pyMin c = Group.pyMin c := by cases c <;> rfl
private theorem pyMax_eq (c : List Int) : Gen.TG.pyMax c = Group.pyMax c := by cases c <;> rfl

private theorem sum_ones (c : List Int) (a : Int) :
    (c.map (fun _ => (1 : Int))).foldl (· + ·) a = c.foldl (fun a _ => a + 1) a := by
  induction c generalizing a with
  | nil => rfl
  | cons x xs ih => simp [List.foldl_cons, ih]

private theorem sq_eq (q : Rat) : q * q = q ^ 2 := by
  rw [show (2 : Nat) = 1 + 1 from rfl, Rat.pow_succ, Rat.pow_one]

/-- the code squares a deviation with a product (`(v - mean) * (v - mean)`), the model writes `^ 2` -/
private theorem sum_sq (c : List Int) (m : Rat) (a : Rat) :
    (c.map (fun v => (((v : Int) : Rat) - m) * (((v : Int) : Rat) - m))).foldl (· + ·) a
      = c.foldl (fun (acc : Rat) (v : Int) => acc + ((v : Rat) - m) ^ 2) a := by
  induction c generalizing a with
  | nil => rfl
  | cons x xs ih =>
    simp only [List.map_cons, List.foldl_cons]
    rw [ih, sq_eq]

theorem sumAgg_eq (vals : List (Option Int)) : sumTAgg vals = sumF vals := rfl
theorem sumWin_eq (vals : List (Option Int)) : sumTWin vals = sumF vals := rfl

theorem countAgg_eq (vals : List (Option Int)) : countTAgg vals = countF vals := by
  unfold countTAgg countF pySumInt clean; exact sum_ones _ 0
theorem countWin_eq (vals : List (Option Int)) : countTWin vals = countF vals := by
  unfold countTWin countF pySumInt clean; exact sum_ones _ 0

theorem minAgg_eq (vals : List (Option Int)) : minTAgg vals = minF vals := by
  unfold minTAgg minF clean; simp only [pyMin_eq]; cases h : vals.filterMap id <;> simp [Group.pyMin]
theorem minWin_eq (vals : List (Option Int)) : minTWin vals = minF vals := by
  unfold minTWin minF clean; simp only [pyMin_eq]; cases h : vals.filterMap id <;> simp [Group.pyMin]
theorem maxAgg_eq (vals : List (Option Int)) : maxTAgg vals = maxF vals := by
  unfold maxTAgg maxF clean; simp only [pyMax_eq]; cases h : vals.filterMap id <;> simp [Group.pyMax]
theorem maxWin_eq (vals : List (Option Int)) : maxTWin vals = maxF vals := by
  unfold maxTWin maxF clean; simp only [pyMax_eq]; cases h : vals.filterMap id <;> simp [Group.pyMax]

theorem meanAgg_eq (vals : List (Option Int)) : meanTAgg vals = meanF vals := by
  unfold meanTAgg meanF clean pySumInt isum
  cases h : vals.filterMap id <;> simp
theorem meanWin_eq (vals : List (Option Int)) : meanTWin vals = meanF vals := by
  unfold meanTWin meanF clean pySumInt isum
  cases h : vals.filterMap id <;> simp

private theorem var_core (c : List Int) :
    (if decide (((c.length : Nat) : Int) ≤ (1 : Int)) = true then (none : Option Rat)
     else some (pySumRat (c.map (fun v => (((v : Int) : Rat) - (((pySumInt c : Int) : Rat) / ((c.length : Nat) : Rat)))
                                          * (((v : Int) : Rat) - (((pySumInt c : Int) : Rat) / ((c.length : Nat) : Rat)))))
                / (((((c.length : Nat) : Int) - (1 : Int)) : Int) : Rat)))
      = (if c.length ≤ 1 then none
         else some (c.foldl (fun (acc : Rat) (v : Int) => acc + ((v : Rat) - ((isum c : Rat) / (c.length : Rat))) ^ 2) 0
                    / ((c.length : Rat) - 1))) := by
  by_cases h : c.length ≤ 1
  · have : ((c.length : Nat) : Int) ≤ 1 := by omega
    simp [h, this]
  · have : ¬ ((c.length : Nat) : Int) ≤ 1 := by omega
    simp only [this, decide_false, Bool.false_eq_true, ↓reduceIte, h]
    unfold pySumRat pySumInt isum
    rw [sum_sq]
    congr 2
    simp [Rat.intCast_sub, Rat.intCast_natCast]

theorem stdevAgg_eq (vals : List (Option Int)) : stdevTAgg vals = varF vals := by
  unfold stdevTAgg varF clean
  exact var_core _
theorem stdevWin_eq (vals : List (Option Int)) : stdevTWin vals = varF vals := by
  unfold stdevTWin varF clean
  exact var_core _

/-! ### whole-column reductions of `Vector` (the last clause of C12) -/

private theorem sum_sq_mul (c : List Int) (m : Rat) (a : Rat) :
    (c.map (fun x => (((x : Int) : Rat) - m) * (((x : Int) : Rat) - m))).foldl (· + ·) a
      = c.foldl (fun (acc : Rat) (x : Int) => acc + ((x : Rat) - m) * ((x : Rat) - m)) a := by
  induction c generalizing a with
  | nil => rfl
  | cons x xs ih => simp [List.foldl_cons, ih]

theorem vectorSum_eq (vals : List (Option Int)) : vecReduce .sum vals = some (some ((vectorSumT vals : Int) : Rat)) := rfl

theorem vectorMin_eq (vals : List (Option Int)) :
    vecReduce .min vals = (vectorMinT vals).map (fun (i : Int) => some (i : Rat)) := by
  unfold vecReduce vectorMinT clean; rw [pyMin_eq]

theorem vectorMax_eq (vals : List (Option Int)) :
    vecReduce .max vals = (vectorMaxT vals).map (fun (i : Int) => some (i : Rat)) := by
  unfold vecReduce vectorMaxT clean; rw [pyMax_eq]

theorem vectorMean_eq (vals : List (Option Int)) : vecReduce .mean vals = some (vectorMeanT vals) := by
  unfold vecReduce vectorMeanT clean pySumInt isum
  simp only []
  generalize vals.filterMap id = c
  cases c <;> simp

theorem vectorStdev_eq (vals : List (Option Int)) : vecReduce .stdev vals = some (vectorStdevT false vals) := by
  unfold vecReduce vectorStdevT clean
  simp only []
  generalize vals.filterMap id = c
  by_cases h : c.length < 2
  · have : ((c.length : Nat) : Int) < 2 := by omega
    simp [h, this]
  · have : ¬ ((c.length : Nat) : Int) < 2 := by omega
    simp only [h, this, decide_false, Bool.false_eq_true, ↓reduceIte]
    unfold pySumRat pySumInt isum
    rw [sum_sq_mul]
    simp [Rat.intCast_sub, Rat.intCast_natCast, Rat.intCast_add, Rat.add_zero]

/-- non-vacuity: the translated reducers on a group with a None -/
example : sumTAgg [some 3, none, some 4] = 7 ∧ countTWin [some 3, none, some 4] = 2 ∧ minTAgg [none] = none
    ∧ maxTWin [some 3, none, some 4] = some 4 := by decide

end Serif.Tie
