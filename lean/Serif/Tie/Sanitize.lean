/-
  Translation tie for `naming._sanitize_user_name` (C17, and the output names of C18): the pipeline — replace runs, strip
  underscores, None when empty, `c` before a leading digit, `_` after an indexed-accessor look-alike, `_` after a reserved name, in
  this order — translated statement by statement from the source (`Serif/Gen/TranslatedNames.lean`), instantiated with the model's
  hand-written primitives (`subRuns` for `re.sub(r'[^a-z0-9_]+', '_', ·)`, `stripU` for `·.strip('_')`, `matchesIndexed` for
  `re.match(r'^.+__\d+$', ·)`, the regenerated reserved-name list), is the model's `sanitizeCore` for every string.  The primitives
  themselves are tied by the correspondence leg of C17 (every generated name is sanitised by both sides).
  Supplementary (see Serif/Tie/Typing.lean).
-/
import Serif.Gen.TranslatedNames
import Serif.Model.Names

namespace Serif.Tie
open Serif Serif.Names Serif.Gen.TN

theorem sanitizeUserName_eq (s : Str) :
    sanitizeUserNameT (subRuns false) stripU isDigit matchesIndexed (fun x => reserved.contains x) s = sanitizeCore s := by
  unfold sanitizeUserNameT sanitizeCore finish guardReserved guardIndexed prefixC
  simp only []
  generalize stripU (subRuns false s) = a
  cases a with
  | nil => simp
  | cons c cs => simp

/-- non-vacuity: a name with punctuation, a leading digit, an indexed look-alike -/
example : sanitizeUserNameT (subRuns false) stripU isDigit matchesIndexed (fun x => reserved.contains x) "2 b!!".toList
    = some "c2_b".toList ∧
    sanitizeUserNameT (subRuns false) stripU isDigit matchesIndexed (fun x => reserved.contains x) "a__1".toList
    = some "a__1_".toList ∧
    sanitizeUserNameT (subRuns false) stripU isDigit matchesIndexed (fun x => reserved.contains x) "!!".toList = none := by
  decide +kernel

end Serif.Tie
