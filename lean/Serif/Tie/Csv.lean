/-
  Translation tie for the CSV reader: `csv._infer_type` translated statement by statement (blank test, strip, `int()` then `float()`
  under `except ValueError`, the stripped text) and `csv._read_csv_from_file` after `all_rows = list(reader)` (a transcription
  that the translator emits only when every statement of the function has exactly the understood shape) equal the model's
  `inferType` / `readCsv` for every oracle of Python's scalar conversions, every header setting and every list of records.
  Supplementary (see Serif/Tie/Typing.lean).
-/
import Serif.Gen.Translated
import Serif.Model.Csv

namespace Serif.Tie
open Serif Serif.Csv Serif.Gen.T

theorem inferType_eq {τ ν : Type} (O : Oracle τ ν) (v : τ) : inferTypeT O v = inferType O v := rfl

theorem column_eq {τ ν : Type} (O : Oracle τ ν) (rows : List (List τ)) (c : Nat) :
    rows.map (fun row =>
      if c < row.length then
        match row[c]? with
        | some value => inferTypeT O value
        | none => O.none
      else O.none) = column O rows c := by
  unfold column
  apply List.map_congr_left
  intro row _
  unfold cellAt
  by_cases h : c < row.length
  · simp [h, inferType_eq]
  · have : row[c]? = none := by simp; omega
    simp [h, this]

theorem columns_eq {τ ν : Type} (O : Oracle τ ν) (header : List String) (rows : List (List τ)) :
    (List.range header.length).map (fun col_idx =>
        ({ name := header.getD col_idx "",
           data := rows.map (fun row =>
            if col_idx < row.length then
              match row[col_idx]? with
              | some value => inferTypeT O value
              | none => O.none
            else O.none) } : Column ν)) =
      header.mapIdx (fun c h => { name := h, data := column O rows c }) := by
  apply List.ext_getElem
  · simp
  · intro i h1 h2
    simp only [List.length_map, List.length_range] at h1
    simp only [List.getElem_map, List.getElem_range, List.getElem_mapIdx]
    congr 1
    · simp [List.getD_eq_getElem?_getD, h1]
    · exact column_eq O rows i

theorem readCsv_eq {τ ν : Type} (O : Oracle τ ν) (hasHeader : Bool) (all : List (List τ)) :
    readCsvT O hasHeader all = readCsv O hasHeader all := by
  unfold readCsvT readCsv
  cases all with
  | nil => rfl
  | cons first rest =>
    simp only [List.isEmpty_cons, Bool.false_eq_true, if_false, List.headD_cons, List.drop_one, List.tail_cons, colNames]
    cases hasHeader with
    | true =>
      simp only [if_true]
      split
      · rfl
      · exact columns_eq O _ _
    | false =>
      simp only [Bool.false_eq_true, if_false]
      split
      · rfl
      · exact columns_eq O _ _

end Serif.Tie
