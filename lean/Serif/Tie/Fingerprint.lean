/-
  Translation tie for the fingerprint code: the loops of `Vector._compute_fingerprint_full` and of the list/tuple
  branch of `Vector._hash_element`, and the memo logic of `Vector.fingerprint` / `Table.fingerprint`, translated
  from the source (Gen.T.*), are what the model (Model/Fingerprint.lean, Model/ObjHeap.lean) computes — for every
  list of element hashes and every memo state.  Supplementary (see Serif/Tie/Typing.lean).
-/
import Serif.Gen.Translated
import Serif.Proofs.Fingerprint

namespace Serif.Tie
open Serif Serif.Gen.T

theorem P_nonneg : (0 : Int) ≤ FP.P := by unfold FP.P; exact Int.natCast_nonneg _

theorem computeStep_eq (t x : Int) : computeFingerprintFullStepT FP.P FP.B t x = FP.roll FP.P FP.B t x := by
  simp only [computeFingerprintFullStepT, FP.roll]
  exact Int.fmod_eq_emod_of_nonneg _ P_nonneg

/-- the translated full computation is the model's rolling hash, for every vector -/
theorem computeFingerprintFull_eq (hs : List Int) : computeFingerprintFullT FP.P FP.B hs = FP.fpVec hs := by
  unfold computeFingerprintFullT FP.fpVec FP.H FP.ev
  congr 1
  funext t x
  exact computeStep_eq t x

/-- a `Table` runs the same loop over its columns' fingerprints with its own base `Table._FP_B` -/
theorem computeFingerprintFull_table_eq (fps : List Int) : computeFingerprintFullT FP.P FP.BT fps = FP.fpComb fps := by
  unfold computeFingerprintFullT FP.fpComb FP.H FP.ev
  congr 1
  funext t x
  simp only [computeFingerprintFullStepT, FP.roll]
  exact Int.fmod_eq_emod_of_nonneg _ P_nonneg

/-- the translated starting value of the container branch is the accumulator the model reads off the behaviour, for every
    tabulated (kind, length) -/
theorem hashSequence_seed_eq :
    Gen.fpSeeds.all (fun e => decide (hashSequenceSeedT FP.P e.1.1 e.1.2 = e.2)) = true := by decide +kernel

/-- container-valued elements are hashed with the same rolling hash, from the starting value of their kind and length: the
    translated branch is the model's `Elem.hash` of a container, for every kind and all items, wherever the translated starting
    value is the model's (`hashSequence_seed_eq`: on the whole table) -/
theorem hashSequence_eq (kind : Nat) (es : List FP.Elem)
    (hseed : hashSequenceSeedT FP.P kind es.length = FP.seedOf kind es.length) :
    hashSequenceT FP.P FP.B kind (es.map FP.Elem.hash) = (FP.Elem.seq kind es).hash := by
  rw [FP.Elem.hash_seq]
  unfold hashSequenceT FP.ev
  rw [List.length_map, hseed]
  congr 1
  funext t x
  simp only [hashSequenceStepT, FP.roll]
  exact Int.fmod_eq_emod_of_nonneg _ P_nonneg

/-- … in particular for sets, tuples and lists of up to six items -/
theorem hashSequence_eq_small (kind : Nat) (hk : kind = 1 ∨ kind = 2 ∨ kind = 3) (es : List FP.Elem) (hlen : es.length ≤ 6) :
    hashSequenceT FP.P FP.B kind (es.map FP.Elem.hash) = (FP.Elem.seq kind es).hash := by
  apply hashSequence_eq
  have : es.length = 0 ∨ es.length = 1 ∨ es.length = 2 ∨ es.length = 3 ∨ es.length = 4 ∨ es.length = 5 ∨ es.length = 6 := by
    omega
  rcases hk with h | h | h <;> subst h <;> rcases this with h | h | h | h | h | h | h <;> rw [h] <;> decide +kernel

/-- `Vector.fingerprint` answers from the memo when it is set and otherwise computes and memoises: exactly the
    model's `fingerprint` step on a vector object and its `fpRead` -/
theorem vectorFingerprint_eq (fpOf : VecVal → Int) (comb : List Int → Int) (h : Heap) (r o : Nat) (v : VecVal)
    (fp : Option Int) (hr : h.root r = some o) (ho : h.obj o = some (.vec v fp))
    (hc : Heap.Coherent fpOf h) :
    (vectorFingerprintT (fpOf v) fp).1 = Heap.fpRead fpOf comb h o ∧
    (Heap.step fpOf h (.fingerprint r)).objs o = some (.vec v (vectorFingerprintT (fpOf v) fp).2) := by
  constructor
  · cases fp with
    | none => simp [vectorFingerprintT, Heap.fpRead, ho]
    | some m => simp [vectorFingerprintT, Heap.fpRead, ho]
  · cases fp with
    | none => simp [vectorFingerprintT, Heap.step, hr, ho, Heap.upd]
    | some m =>
      have : m = fpOf v := hc o v m (by simpa [Heap.obj] using ho)
      simp [vectorFingerprintT, Heap.step, hr, ho, Heap.upd, this]

/-- `Table.fingerprint` never answers from its own memo -/
theorem tableFingerprint_recomputes (compute : Int) (fp : Option Int) :
    (tableFingerprintT compute fp).1 = some compute := by
  simp [tableFingerprintT, vectorFingerprintT]

end Serif.Tie
