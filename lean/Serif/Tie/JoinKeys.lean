/-
  Translation tie for the key validation of the joins (C09, C10, C11): `Table._validate_join_keys` with its inner functions
  `get_column` and `validate_key_dtype`, `Table._resolve_column`, `_missing_col_error`, `Table._validate_key_tuple_hashable`, and the
  heads of `Table.inner_join` / `join` / `full_join` (`if expect not in (…): raise`, the call of `_validate_join_keys`, the flags
  `validate_hashable`, `check_right_unique`, `check_left_unique`), translated statement by statement from the source
  (`Serif/Gen/TranslatedJoinKeys.lean`, regenerated on every run by harness/tr/joinkeys.py).

  Proved here, for all tables, key arguments and `expect` strings:
    * the translated functions, with the model's reading of the three external operations (`jkOps`: `table[name]` is
      `Join.lookupCol` raising SerifKeyError, `col.schema()` is `Join.keyDType`, `len(table)` is `Tab.nrows`), equal the model's
      `resolve`, `checkKeyDType`, `validatePairs`, `validateKeys` (`getColumn_eq`, `validateKeyDtype_eq`, `pairLoop_eq`,
      `validateJoinKeys_eq`);
    * the three heads equal `headModel` = "`acceptsExpect`, then `validateKeys`, then the flags `chkRight` / `chkLeft`"
      (`joinHeadInner_eq`, `joinHeadLeft_eq`, `joinHeadFull_eq`), which is the part of `Join.run` before `joinCore`
      (`run_eq_head`); together with Serif/Tie/Join.lean the whole of `Join.run` up to the assembly is the translated code
      (`inner_join_translated`, `join_translated`, `full_join_translated`);
    * the outcome the C11 theorems speak about (`head_outcome`): a head accepts exactly the four documented values, and then
      its flags are `needsRight` / `needsLeft` and its pairs are those of `validateKeys`;
    * the hashability guard, for which the model has no counterpart (its cells are all hashable): the translated
      `_validate_key_tuple_hashable` returns iff `hash(key_tuple)` returns and otherwise raises SerifTypeError, whatever the loop
      in its handler finds (`hashGuard_eq`); the guarded calls `if validate_hashable: …` of the loops raise exactly when the flag is
      on and the tuple cannot be hashed (`hashGuard_cases`), so on the model's domain they are no-ops (`hashGuard_noop`).

  `pairCheck` below is the per-pair part of `Join.validatePairs`, which the model inlines into its recursion; `validatePairs_cons`
  proves it is exactly that.  Nothing in the existing model or proof files is changed.
-/
import Serif.Gen.TranslatedJoinKeys
import Serif.Tie.Join
import Serif.Proofs.Join

set_option linter.unusedSimpArgs false
set_option linter.unusedVariables false

namespace Serif.Tie
open Serif Serif.Join Serif.Gen.JK

/-- the model's reading of what the translated functions ask of other objects: `table[name]` finds the first column of that name
    or raises SerifKeyError (`Join.lookupCol`), `col.schema()` is `Join.keyDType`, `len(table)` is `Tab.nrows` -/
def jkOps : Ops where
  getitem := fun t s => match lookupCol t.names t.cols s with
    | some c => .ok c
    | none => .error .key
  schema := keyDType
  tlen := Tab.nrows

/-! ### `get_column` ∘ `_resolve_column` -/

/-- `_resolve_column` alone: a missing name is whatever `table[name]` raises, a non-spec is SerifTypeError -/
theorem resolveColumn_eq (t : Tab Cell) (k : KeySpec) : resolveColumnT jkOps t k = resolve t k := by
  cases k with
  | name s =>
    simp only [resolveColumnT, resolve, jkOps]
    cases lookupCol t.names t.cols s <;> rfl
  | vec c => rfl
  | bad => rfl

/-- `get_column`: the handler turns SerifKeyError into the SerifKeyError of `_missing_col_error`, and lets SerifTypeError pass -/
theorem getColumn_eq (t : Tab Cell) (k : KeySpec) : getColumnT jkOps t k = resolve t k := by
  unfold getColumnT
  rw [resolveColumn_eq]
  cases k with
  | name s =>
    simp only [resolve]
    cases lookupCol t.names t.cols s <;> simp [missingColErrorT]
  | vec c => rfl
  | bad => simp [resolve]

/-! ### `validate_key_dtype` -/

/-- "`kind is float` raises, then `kind not in allowed_types` raises" is the model's `allowedKeyKind` -/
theorem keyKind_eq (k : Kind) :
    (if (k == Kind.float) = true then (Except.error Err.type : Except Err Unit)
     else if (![Kind.int, Kind.str, Kind.bool, Kind.date, Kind.datetime, Kind.object].contains k) = true then .error Err.type
     else .ok ()) = (if allowedKeyKind k then .ok () else .error .type) := by
  cases k <;> simp [allowedKeyKind]

theorem validateKeyDtype_eq (c : List Cell) : validateKeyDtypeT jkOps c = checkKeyDType c := by
  unfold validateKeyDtypeT checkKeyDType
  simp only [jkOps]
  cases keyDType c with
  | none => rfl
  | some d => exact keyKind_eq d.kind

/-! ### the loop over the key pairs -/

/-- the checks `Join.validatePairs` makes on ONE pair of key specs, in source order (the model inlines this) -/
def pairCheck (L R : Tab Cell) (l r : KeySpec) : Except Err (List Cell × List Cell) :=
  match resolve L l with
  | .error e => .error e
  | .ok lc =>
  match resolve R r with
  | .error e => .error e
  | .ok rc =>
  if lc.length ≠ L.nrows then .error .value
  else if rc.length ≠ R.nrows then .error .value
  else
  match checkKeyDType lc with
  | .error e => .error e
  | .ok _ =>
  match checkKeyDType rc with
  | .error e => .error e
  | .ok _ =>
  let mismatch : Bool :=
    match keyDType lc, keyDType rc with
    | some a, some b => a.kind != b.kind
    | _, _ => false
  if mismatch then .error .type else .ok (lc, rc)

/-- `pairCheck` is what the model does per pair -/
theorem validatePairs_cons (L R : Tab Cell) (l r : KeySpec) (ls rs : List KeySpec) :
    validatePairs L R (l :: ls) (r :: rs) =
      match pairCheck L R l r with
      | .error e => .error e
      | .ok p =>
        match validatePairs L R ls rs with
        | .error e => .error e
        | .ok rest => .ok (p :: rest) := by
  rw [validatePairs]
  unfold pairCheck
  cases resolve L l with
  | error e => rfl
  | ok lc =>
    cases resolve R r with
    | error e => rfl
    | ok rc =>
      simp only
      by_cases h1 : lc.length ≠ L.nrows
      · simp only [if_pos h1]
      · simp only [if_neg h1]
        by_cases h2 : rc.length ≠ R.nrows
        · simp only [if_pos h2]
        · simp only [if_neg h2]
          cases checkKeyDType lc with
          | error e => rfl
          | ok _ =>
            cases checkKeyDType rc with
            | error e => rfl
            | ok _ =>
              simp only
              cases keyDType lc with
              | none => rfl
              | some a =>
                cases keyDType rc with
                | none => rfl
                | some b =>
                  simp only
                  by_cases hk : (a.kind != b.kind) = true
                  · simp only [if_pos hk]
                  · simp only [if_neg hk] <;> rfl

theorem validatePairs_nil_left (L R : Tab Cell) (rs : List KeySpec) : validatePairs L R [] rs = .ok [] := by
  rw [validatePairs]
  intros; contradiction

theorem validatePairs_nil_right (L R : Tab Cell) (ls : List KeySpec) : validatePairs L R ls [] = .ok [] := by
  rw [validatePairs]
  intros; contradiction

/-- the translated loop body is `pairCheck`, its result appended to `normalized` -/
theorem pairStep_eq (L R : Tab Cell) (acc : List (List Cell × List Cell)) (i : Nat) (l r : KeySpec) :
    pairStepT jkOps L R acc i l r =
      match pairCheck L R l r with
      | .error e => .error e
      | .ok p => .ok (acc ++ [p]) := by
  unfold pairStepT pairCheck
  rw [getColumn_eq, getColumn_eq]
  cases resolve L l with
  | error e => rfl
  | ok lc =>
    cases resolve R r with
    | error e => rfl
    | ok rc =>
      simp only [validateKeyDtype_eq]
      have hl : jkOps.tlen L = L.nrows := rfl
      have hr : jkOps.tlen R = R.nrows := rfl
      have hs : jkOps.schema = keyDType := rfl
      rw [hl, hr, hs]
      by_cases h1 : lc.length = L.nrows
      · by_cases h2 : rc.length = R.nrows
        · simp only [h1, h2, bne_self_eq_false, Bool.false_eq_true, if_false, ne_eq, not_true_eq_false]
          cases checkKeyDType lc with
          | error e => rfl
          | ok _ =>
            cases checkKeyDType rc with
            | error e => rfl
            | ok _ =>
              simp only
              cases keyDType lc with
              | none => rfl
              | some a =>
                cases keyDType rc with
                | none => rfl
                | some b =>
                  simp only
                  by_cases hk : (a.kind != b.kind) = true
                  · simp only [if_pos hk]
                  · simp only [if_neg hk]
        · -- (both ways round, so that `len(other) != len(right_col)` in the source would do as well)
          have t2 : (rc.length != R.nrows) = true := by simpa using h2
          have t2' : (R.nrows != rc.length) = true := by simpa using (Ne.symm h2)
          simp [h1, h2, t2, t2']
      · have t1 : (lc.length != L.nrows) = true := by simpa using h1
        have t1' : (L.nrows != lc.length) = true := by simpa using (Ne.symm h1)
        simp [h1, t1, t1']

/-- `for i, (left_spec, right_spec) in enumerate(zip(left_on, right_on))`, from any index and any list collected so far,
    is the model's recursion `validatePairs` -/
theorem pairLoop_eq (L R : Tab Cell) (ls rs : List KeySpec) (n : Nat) (acc : List (List Cell × List Cell)) :
    (enumerateFrom n (List.zip ls rs)).foldlM (fun normalized p => pairStepT jkOps L R normalized p.1 p.2.1 p.2.2) acc =
      match validatePairs L R ls rs with
      | .error e => .error e
      | .ok rest => .ok (acc ++ rest) := by
  induction ls generalizing rs n acc with
  | nil => simp [validatePairs_nil_left, enumerateFrom, pure, Except.pure]
  | cons l ls ih =>
    cases rs with
    | nil => simp [validatePairs_nil_right, enumerateFrom, pure, Except.pure]
    | cons r rs =>
      simp only [List.zip_cons_cons, enumerateFrom, List.foldlM_cons]
      rw [pairStep_eq, validatePairs_cons]
      cases pairCheck L R l r with
      | error e => rfl
      | ok p =>
        simp only [bind, Except.bind]
        rw [ih rs (n + 1) (acc ++ [p])]
        cases validatePairs L R ls rs with
        | error e => rfl
        | ok rest => simp

/-! ### `_validate_join_keys` -/

/-- `Table._validate_join_keys`, translated, is the model's `validateKeys` — for all tables and all key arguments -/
theorem validateJoinKeys_eq (L R : Tab Cell) (lon ron : OnArg) :
    validateJoinKeysT jkOps L R lon ron = validateKeys L R lon ron := by
  have key : ∀ ls rs : List KeySpec,
      (if (ls.isEmpty || rs.isEmpty) = true then (.error Err.value : Except Err (List (List Cell × List Cell)))
       else if (ls.length != rs.length) = true then .error Err.value
       else
        match (enumerate (List.zip ls rs)).foldlM (fun normalized p => pairStepT jkOps L R normalized p.1 p.2.1 p.2.2) [] with
        | .error e => .error e
        | .ok normalized => .ok normalized)
      = (if (ls.isEmpty || rs.isEmpty) = true then .error .value
         else if ls.length ≠ rs.length then .error .value
         else validatePairs L R ls rs) := by
    intro ls rs
    unfold enumerate
    rw [pairLoop_eq]
    by_cases h0 : (ls.isEmpty || rs.isEmpty) = true
    · simp only [h0, if_true]
    · simp only [h0, if_false]
      by_cases h1 : ls.length = rs.length
      · simp only [h1, bne_self_eq_false, Bool.false_eq_true, if_false, ne_eq, not_true_eq_false]
        cases validatePairs L R ls rs <;> simp
      · have : (ls.length != rs.length) = true := by simpa using h1
        simp only [this, if_true, ne_eq, h1, not_false_eq_true]
  unfold validateJoinKeysT validateKeys
  cases lon <;> cases ron <;> simp only [OnArg.norm] <;> first | rfl | exact key _ _

/-! ### the heads of the three methods -/

/-- what a head hands on, in the model's terms -/
def headOf (kind : JKind) (e : String) (kp : List (List Cell × List Cell)) : Head :=
  { pairs := kp
    left_keys := kp.map (·.1)
    right_keys := kp.map (·.2)
    validate_hashable := (kp.map (·.1) ++ kp.map (·.2)).any (fun c =>
      match keyDType c with
      | none => true
      | some d => d.kind == Kind.object)
    check_right_unique := chkRight kind e
    check_left_unique := chkLeft kind e }

/-- the part of `Join.run` before `joinCore`: the `expect` test, then the key validation, then the flags -/
def headModel (kind : JKind) (e : String) (L R : Tab Cell) (lon ron : OnArg) : Except Err Head :=
  if !acceptsExpect kind e then .error .value
  else
    match validateKeys L R lon ron with
    | .error er => .error er
    | .ok kp => .ok (headOf kind e kp)

/-- `headModel` is how `Join.run` starts -/
theorem run_eq_head (kind : JKind) (e : String) (L R : Tab Cell) (lon ron : OnArg) :
    run kind e L R lon ron =
      match headModel kind e L R lon ron with
      | .error er => .error er
      | .ok h =>
        match joinCore kind e (keyTuples L.nrows h.left_keys) (keyTuples R.nrows h.right_keys) with
        | .error er => .error er
        | .ok ps => .ok (assemble Cell.none (·.tag) kind L R ps) := by
  unfold run headModel
  split
  · rfl
  · cases validateKeys L R lon ron <;> rfl

theorem joinHeadInner_eq (e : String) (L R : Tab Cell) (lon ron : OnArg) :
    joinHeadTInner jkOps L R lon ron e = headModel .inner e L R lon ron := by
  unfold joinHeadTInner headModel
  rw [validateJoinKeys_eq]
  change (if (!acceptsExpect .inner e) = true then _ else _) = _
  cases acceptsExpect .inner e
  · rfl
  · cases validateKeys L R lon ron <;> rfl

theorem joinHeadLeft_eq (e : String) (L R : Tab Cell) (lon ron : OnArg) :
    joinHeadTLeft jkOps L R lon ron e = headModel .left e L R lon ron := by
  unfold joinHeadTLeft headModel
  rw [validateJoinKeys_eq]
  change (if (!acceptsExpect .left e) = true then _ else _) = _
  cases acceptsExpect .left e
  · rfl
  · cases validateKeys L R lon ron <;> rfl

theorem joinHeadFull_eq (e : String) (L R : Tab Cell) (lon ron : OnArg) :
    joinHeadTFull jkOps L R lon ron e = headModel .full e L R lon ron := by
  unfold joinHeadTFull headModel
  rw [validateJoinKeys_eq]
  change (if (!acceptsExpect .full e) = true then _ else _) = _
  cases acceptsExpect .full e
  · rfl
  · cases validateKeys L R lon ron <;> rfl

/-- the translated head of a method, by kind -/
def joinHeadT : JKind → Ops → Tab Cell → Tab Cell → OnArg → OnArg → String → Except Err Head
  | .inner => joinHeadTInner
  | .left => joinHeadTLeft
  | .full => joinHeadTFull

theorem joinHead_eq (kind : JKind) (e : String) (L R : Tab Cell) (lon ron : OnArg) :
    joinHeadT kind jkOps L R lon ron e = headModel kind e L R lon ron := by
  cases kind
  · exact joinHeadInner_eq e L R lon ron
  · exact joinHeadLeft_eq e L R lon ron
  · exact joinHeadFull_eq e L R lon ron

/-- the outcome of a head in the terms of C11 (`expect_meaning`, `source_accepts`, `source_checks`, `bad_expect_rejected`): any
    value outside the four documented ones is refused with SerifValueError before the keys are looked at; otherwise the head
    fails exactly when the key validation fails, with its error; otherwise it hands on the validated pairs with
    `check_right_unique = needsRight expect` and `check_left_unique = needsLeft expect` -/
theorem head_outcome (kind : JKind) (e : String) (L R : Tab Cell) (lon ron : OnArg) :
    joinHeadT kind jkOps L R lon ron e =
      if !validExpect e then .error .value
      else
        match validateKeys L R lon ron with
        | .error er => .error er
        | .ok kp => .ok { headOf kind e kp with check_right_unique := needsRight e, check_left_unique := needsLeft e } := by
  rw [joinHead_eq]
  unfold headModel
  rw [accepts_iff]
  cases hv : validExpect e
  · rfl
  · simp only [Bool.not_true, Bool.false_eq_true, if_false]
    cases validateKeys L R lon ron with
    | error er => rfl
    | ok kp => simp only [headOf, chkRight_eq kind e hv, chkLeft_eq kind e hv]

/-- a head never succeeds on an undocumented `expect`, whatever the tables and key arguments -/
theorem head_bad_expect (kind : JKind) (e : String) (hv : validExpect e = false) (L R : Tab Cell) (lon ron : OnArg) :
    joinHeadT kind jkOps L R lon ron e = .error .value := by
  rw [head_outcome]; simp [hv]

/-! ### the whole call: head (here), loops (Serif/Tie/Join.lean), assembly (the model's) -/

open Serif.Gen.TR in
theorem inner_join_translated (e : String) (L R : Tab Cell) (lon ron : OnArg) :
    run .inner e L R lon ron =
      match joinHeadTInner jkOps L R lon ron e with
      | .error er => .error er
      | .ok h =>
        match joinCoreTInner h.check_right_unique h.check_left_unique (keyTuples L.nrows h.left_keys) (keyTuples R.nrows h.right_keys) with
        | .error er => .error er
        | .ok ps => .ok (assemble Cell.none (·.tag) .inner L R ps) := by
  rw [run_eq_head, joinHeadInner_eq]
  cases h : headModel .inner e L R lon ron with
  | error er => rfl
  | ok hd =>
    have hf : hd.check_right_unique = chkRight .inner e ∧ hd.check_left_unique = chkLeft .inner e := by
      unfold headModel at h
      split at h
      · cases h
      · cases hk : validateKeys L R lon ron with
        | error er => rw [hk] at h; cases h
        | ok kp => rw [hk] at h; cases h; exact ⟨rfl, rfl⟩
    simp only [hf.1, hf.2, joinCoreInner_eq]

open Serif.Gen.TR in
theorem join_translated (e : String) (L R : Tab Cell) (lon ron : OnArg) :
    run .left e L R lon ron =
      match joinHeadTLeft jkOps L R lon ron e with
      | .error er => .error er
      | .ok h =>
        match joinCoreTLeft h.check_right_unique h.check_left_unique (keyTuples L.nrows h.left_keys) (keyTuples R.nrows h.right_keys) with
        | .error er => .error er
        | .ok ps => .ok (assemble Cell.none (·.tag) .left L R ps) := by
  rw [run_eq_head, joinHeadLeft_eq]
  cases h : headModel .left e L R lon ron with
  | error er => rfl
  | ok hd =>
    have hf : hd.check_right_unique = chkRight .left e ∧ hd.check_left_unique = chkLeft .left e := by
      unfold headModel at h
      split at h
      · cases h
      · cases hk : validateKeys L R lon ron with
        | error er => rw [hk] at h; cases h
        | ok kp => rw [hk] at h; cases h; exact ⟨rfl, rfl⟩
    simp only [hf.1, hf.2, joinCoreLeft_eq]

open Serif.Gen.TR in
theorem full_join_translated (e : String) (L R : Tab Cell) (lon ron : OnArg) :
    run .full e L R lon ron =
      match joinHeadTFull jkOps L R lon ron e with
      | .error er => .error er
      | .ok h =>
        match joinCoreTFull h.check_right_unique h.check_left_unique (keyTuples L.nrows h.left_keys) (keyTuples R.nrows h.right_keys) with
        | .error er => .error er
        | .ok ps => .ok (assemble Cell.none (·.tag) .full L R ps) := by
  rw [run_eq_head, joinHeadFull_eq]
  cases h : headModel .full e L R lon ron with
  | error er => rfl
  | ok hd =>
    have hf : hd.check_right_unique = chkRight .full e ∧ hd.check_left_unique = chkLeft .full e := by
      unfold headModel at h
      split at h
      · cases h
      · cases hk : validateKeys L R lon ron with
        | error er => rw [hk] at h; cases h
        | ok kp => rw [hk] at h; cases h; exact ⟨rfl, rfl⟩
    simp only [hf.1, hf.2, joinCoreFull_eq]

/-! ### the hashability guard -/

section hash
variable {α β : Type}

/-- the loop in the handler either finds nothing or raises SerifTypeError -/
theorem hashLoop_cases (hash_ok : α → Bool) (ps : List (α × β)) (n : Nat) :
    (enumerateFrom n ps).foldlM (fun (_ : Unit) p => hashComponentStepT hash_ok p.1 p.2.1 p.2.2) () =
      if ps.all (fun p => hash_ok p.1) then .ok () else .error .type := by
  induction ps generalizing n with
  | nil => rfl
  | cons p ps ih =>
    simp only [enumerateFrom, List.foldlM_cons, List.all_cons]
    by_cases hp : hash_ok p.1 = true
    · have hs : hashComponentStepT hash_ok n p.1 p.2 = .ok () := by simp [hashComponentStepT, hp]
      rw [hs]
      simp only [hp, bind, Except.bind, Bool.true_and]
      exact ih (n + 1)
    · have hs : hashComponentStepT hash_ok n p.1 p.2 = .error .type := by simp [hashComponentStepT, hp]
      rw [hs]
      simp [hp, bind, Except.bind]

/-- `Table._validate_key_tuple_hashable`, translated: it returns iff `hash(key_tuple)` returns; otherwise it raises
    SerifTypeError — from inside the loop or after it, the class is the same -/
theorem hashGuard_eq (hash_tuple_ok : List α → Bool) (hash_ok : α → Bool) (key : List α) (cols : List β) :
    validateKeyTupleHashableT hash_tuple_ok hash_ok key cols = if hash_tuple_ok key then .ok () else .error .type := by
  unfold validateKeyTupleHashableT enumerate
  rw [hashLoop_cases]
  cases hash_tuple_ok key
  · simp only [Bool.false_eq_true, if_false]
    by_cases h : ((List.zip key cols).all fun p => hash_ok p.1) = true <;> simp [h]
  · rfl

theorem hashGuard_ok_iff (hash_tuple_ok : List α → Bool) (hash_ok : α → Bool) (key : List α) (cols : List β) :
    validateKeyTupleHashableT hash_tuple_ok hash_ok key cols = .ok () ↔ hash_tuple_ok key = true := by
  rw [hashGuard_eq]; cases hash_tuple_ok key <;> simp

/-- the guarded calls in the loops, `if validate_hashable: Table._validate_key_tuple_hashable(key, keys, row)`, translated: they
    raise (SerifTypeError) exactly when the flag is on and the key tuple cannot be hashed -/
theorem hashGuard_cases (hash_tuple_ok : List α → Bool) (hash_ok : α → Bool) (validate_hashable : Bool) (key : List α) (cols : List β) :
    (hashGuardTInner hash_tuple_ok hash_ok validate_hashable key cols
        = if validate_hashable && !hash_tuple_ok key then .error .type else .ok ()) ∧
    (hashGuardTLeft hash_tuple_ok hash_ok validate_hashable key cols
        = if validate_hashable && !hash_tuple_ok key then .error .type else .ok ()) ∧
    (hashGuardTFull hash_tuple_ok hash_ok validate_hashable key cols
        = if validate_hashable && !hash_tuple_ok key then .error .type else .ok ()) := by
  unfold hashGuardTInner hashGuardTLeft hashGuardTFull
  rw [hashGuard_eq]
  cases validate_hashable <;> cases hash_tuple_ok key <;> exact ⟨rfl, rfl, rfl⟩

/-- where every key tuple can be hashed (the model's domain: its cells are values with an equality class, all hashable) the
    guarded calls do nothing, whatever `validate_hashable` is — which is why `Join.run` has no counterpart of them -/
theorem hashGuard_noop (hash_tuple_ok : List α → Bool) (hash_ok : α → Bool) (validate_hashable : Bool) (key : List α) (cols : List β)
    (h : hash_tuple_ok key = true) :
    hashGuardTInner hash_tuple_ok hash_ok validate_hashable key cols = .ok () ∧
    hashGuardTLeft hash_tuple_ok hash_ok validate_hashable key cols = .ok () ∧
    hashGuardTFull hash_tuple_ok hash_ok validate_hashable key cols = .ok () := by
  have hc := hashGuard_cases hash_tuple_ok hash_ok validate_hashable key cols
  rw [hc.1, hc.2.1, hc.2.2, h]
  cases validate_hashable <;> exact ⟨rfl, rfl, rfl⟩

end hash

/-- `validate_hashable` is off exactly when every key column, on both sides, has a schema of a kind other than `object` -/
theorem validate_hashable_false_iff (kind : JKind) (e : String) (kp : List (List Cell × List Cell)) :
    (headOf kind e kp).validate_hashable = false ↔
      ∀ c ∈ kp.map (·.1) ++ kp.map (·.2), ∃ d, keyDType c = some d ∧ d.kind ≠ Kind.object := by
  simp only [headOf, List.any_eq_false]
  constructor
  · intro h c hc
    have := h c hc
    cases hd : keyDType c with
    | none => simp [hd] at this
    | some d => exact ⟨d, rfl, by simpa [hd] using this⟩
  · intro h c hc
    obtain ⟨d, hd, hk⟩ := h c hc
    simp [hd, hk]

/-! ### non-vacuity: the translated functions on concrete inputs -/

section examples

def ci (n : Nat) : Cell := { tag := .ty .int, eq := n, uid := n }
def cs (n : Nat) : Cell := { tag := .ty .str, eq := n, uid := n }
def cf (n : Nat) : Cell := { tag := .ty .float, eq := n, uid := n }

/-- left table: id (int), name (str); right table: id (int), score (float), tag (all None) -/
def exL : Tab Cell := { names := [some "id", some "name"], cols := [[ci 1, ci 2, ci 2], [cs 10, cs 11, cs 12]] }
def exR : Tab Cell := { names := [some "id", some "score", some "tag"], cols := [[ci 2, ci 3], [cf 20, cf 21], [Cell.none, Cell.none]] }

-- a single name on both sides: one pair of int columns
example : validateJoinKeysT jkOps exL exR (.single (.name "id")) (.single (.name "id"))
    = .ok [([ci 1, ci 2, ci 2], [ci 2, ci 3])] := by decide
-- a list against a single spec of the same length; a Vector of the right length as key
example : validateJoinKeysT jkOps exL exR (.list [.vec [ci 7, ci 8, ci 9]]) (.single (.name "id"))
    = .ok [([ci 7, ci 8, ci 9], [ci 2, ci 3])] := by decide
-- missing column: SerifKeyError; a non-spec: SerifTypeError; a tuple / int argument, empty lists, unequal lengths: SerifValueError
example : validateJoinKeysT jkOps exL exR (.single (.name "nope")) (.single (.name "id")) = .error .key := by decide
example : validateJoinKeysT jkOps exL exR (.list [.bad]) (.single (.name "id")) = .error .type := by decide
example : validateJoinKeysT jkOps exL exR .other (.single (.name "id")) = .error .value := by decide
example : validateJoinKeysT jkOps exL exR (.list []) (.list []) = .error .value := by decide
example : validateJoinKeysT jkOps exL exR (.list [.name "id", .name "name"]) (.list [.name "id"]) = .error .value := by decide
-- a Vector of the wrong length: SerifValueError; float key: SerifTypeError; int against str: SerifTypeError
example : validateJoinKeysT jkOps exL exR (.single (.vec [ci 1])) (.single (.name "id")) = .error .value := by decide
example : validateJoinKeysT jkOps exL exR (.single (.name "id")) (.single (.name "score")) = .error .type := by decide
example : validateJoinKeysT jkOps exL exR (.single (.name "name")) (.single (.name "id")) = .error .type := by decide
-- the second pair is checked after the first: the error of the second pair shows
example : validateJoinKeysT jkOps exL exR (.list [.name "id", .name "name"]) (.list [.name "id", .name "id"]) = .error .type := by decide
-- an all-None column has the schema (object, nullable): refused against int (documented), accepted against itself
example : validateJoinKeysT jkOps exL exR (.single (.name "id")) (.single (.name "tag")) = .error .type := by decide
example : (validateJoinKeysT jkOps exR exR (.single (.name "tag")) (.single (.name "tag"))).toBool = true := by decide

-- the heads: flags per expectation, the hashability flag, refusal of an unknown expectation before the keys are looked at
example : joinHeadTLeft jkOps exL exR (.single (.name "id")) (.single (.name "id")) "many_to_one"
    = .ok { pairs := [([ci 1, ci 2, ci 2], [ci 2, ci 3])], left_keys := [[ci 1, ci 2, ci 2]], right_keys := [[ci 2, ci 3]],
            validate_hashable := false, check_right_unique := true, check_left_unique := false } := by decide
example : (joinHeadTFull jkOps exR exR (.single (.name "tag")) (.single (.name "tag")) "one_to_many").map
    (fun h => (h.validate_hashable, h.check_right_unique, h.check_left_unique)) = .ok (true, false, true) := by decide
example : joinHeadTInner jkOps exL exR .other .other "one_to_on" = .error .value := by decide
example : joinHeadTInner jkOps exL exR (.single (.name "nope")) (.single (.name "id")) "one_to_one" = .error .key := by decide

-- the hashability guard on key tuples of naturals where odd numbers stand for unhashable values
example : validateKeyTupleHashableT (fun t => t.all (· % 2 == 0)) (· % 2 == 0) [2, 4] ["a", "b"] = .ok () := by decide
example : validateKeyTupleHashableT (fun t => t.all (· % 2 == 0)) (· % 2 == 0) [2, 3] ["a", "b"] = .error .type := by decide
-- the tuple cannot be hashed although every component can (the loop finds nothing): still SerifTypeError
example : validateKeyTupleHashableT (fun _ => false) (fun (_ : Nat) => true) [2, 4] ["a", "b"] = .error .type := by decide

-- the guarded call: off, on with a hashable tuple, on with an unhashable one
example : hashGuardTLeft (fun t => t.all (· % 2 == 0)) (· % 2 == 0) false [2, 3] ["a", "b"] = .ok () := by decide
example : hashGuardTLeft (fun t => t.all (· % 2 == 0)) (· % 2 == 0) true [2, 4] ["a", "b"] = .ok () := by decide
example : hashGuardTLeft (fun t => t.all (· % 2 == 0)) (· % 2 == 0) true [2, 3] ["a", "b"] = .error .type := by decide

-- the hypothesis of `hashGuard_noop` is satisfiable
example : ∃ (ht : List Nat → Bool) (k : List Nat), ht k = true := ⟨fun _ => true, [1], rfl⟩

end examples

end Serif.Tie
