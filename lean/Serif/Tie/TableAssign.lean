/-
  Translation tie for table assignment (C08, "a failed table assignment changes nothing"): `Table.__setitem__` and
  `Table._assign_cells` of src/serif/table.py, translated statement by statement by harness/tr/tableassign.py into
  `Serif/Gen/TranslatedTableAssign.lean`, equal the model's `tsetitem` (Serif/Model/Assign.lean) for all inputs:

  * `assignKeyT`, `resolveItemT`, `resolveColsT`, `assignBodyT`, `assignPlanT` — key normalisation, column resolution (with
    Python's `x or y` on a column index that may be 0), the early return, cases A–D — equal `plan` (`resolveColsT_eq`,
    `assignPlanT_eq_plan`);
  * `writeCellT`, `columnLoopT` — the statement `self._underlying[col_idx][row_spec] = v` and the loop over it — equal `writeCols`
    (`columnLoopT_eq_writeCols`); `assignCellsT` = plan, then loop (`assignCellsT_eq`);
  * `restoreColT`, `tableSetitemT` — the snapshot, `try`, the per-column restore loop (storage, dtype, memo, class; NOT the name),
    the re-raise — for every `assign` that keeps the column names: the outcome of `assign` on success, the exception and the
    table exactly as it was otherwise (`tableSetitemT_eq`); with the translated `_assign_cells` inside this is `tsetitem`
    (`tableSetitemT_eq_tsetitem`), so `C08.table_atomic` & co. are theorems about the translated code (`tableSetitemT_atomic`).

  Oracles (fields of `Gen.TA.Ops`, instantiated with the model's own functions in `modelOps`): `self._column_map.get`
  (`findName` on the column names; `_build_column_map` has its own tie, Tie/ColumnMap.lean), `list(range(n)[slice])`
  (`sliceIndices`/`rangeList`), `list(value)` (`consumeAll`), `Vector.__setitem__` on one column (`setitem`, tied in Tie/Assign.lean
  and by the correspondence leg), tuple indexing (`tupleIndex`), and the right-hand side object as a column assignment sees it.
  The class attribute is abstract (`clsOf`, `setCls`): the model's column state has no class component — the class is a function
  of the state there — so the theorems hold for every `clsOf`/`setCls`.
  Not translated (aliasing, C01/C15): `row_spec.copy()`, the up-front `check_writable` loop, the tracker calls of the restore loop.
  `assignCellsM` below is the one definition the model inlines (`tsetitem_eq_wrap` shows that).
  Supplementary (see Serif/Tie/Typing.lean).
-/
import Serif.Gen.TranslatedTableAssign
import Serif.Model.Assign
import Serif.Proofs.Assign

set_option linter.unusedSimpArgs false
set_option linter.unusedVariables false

namespace Serif.Tie
open Serif Serif.Assign Serif.Gen.TA

/-! ### the model's side of the oracles -/

/-- `list(range(n)[slice(a, b, c)])` as the model computes it inside `resolveCols` -/
def rangeSliceM (n : Nat) (a b c : Option Int) : Except Err (List Int) :=
  match sliceIndices a b c n with
  | .error e => .error e
  | .ok (s, e, st) => .ok (rangeList s e st)

/-- `list(value)` as the model computes it inside `plan` (CASE B) -/
def listOfM : TValue → Except Err (List Value)
  | .scalar _ => .error .type
  | .iter _ _ items _ ra => consumeAll items ra

/-- the right-hand side object as one column's `Vector.__setitem__` sees it (CASE A, CASE D flat list) -/
def rhsM : TValue → Value
  | .scalar c => .scalar c
  | .iter _ self items _ _ => seqOfValues self items

/-- the oracles instantiated with the model's own functions, on a table whose column names are `names` -/
def modelOps (P : Kind → Kind → Bool) (conv : Kind → Nat → Option Nat) (names : List (Option Nat)) : Ops where
  column_map_get := findName names
  range_slice := rangeSliceM
  list_of := listOfM
  rhs := rhsM
  vsetitem := setitem P conv false
  tuple_index := tupleIndex

/-- what the model's `tsetitem` inlines: `_assign_cells` = plan, then the column loop -/
def assignCellsM (P : Kind → Kind → Bool) (conv : Kind → Nat → Option Nat) (key : TKey) (value : TValue)
    (t : TState) : Option Err × TState :=
  match plan (t.cols.map (·.name)) t.cols.length key value with
  | .error e => (some e, t)
  | .ok (row, ws) => writeCols P conv row ws t

/-- `tsetitem` is the wrapper semantics around `assignCellsM` -/
theorem tsetitem_eq_wrap (P : Kind → Kind → Bool) (conv : Kind → Nat → Option Nat) (key : TKey) (value : TValue)
    (t : TState) :
    tsetitem P conv key value t =
      (match assignCellsM P conv key value t with
       | (some e, _) => (some e, t)
       | (none, t') => (none, t')) := by
  unfold tsetitem assignCellsM
  cases plan (t.cols.map (·.name)) t.cols.length key value with
  | error e => rfl
  | ok rw => rfl

/-! ### column resolution -/

theorem lookupCol_eq (P : Kind → Kind → Bool) (conv : Kind → Nat → Option Nat) (names : List (Option Nat)) (id lid : Nat) :
    (if truthy ((modelOps P conv names).column_map_get id) then (modelOps P conv names).column_map_get id
      else (modelOps P conv names).column_map_get lid) = lookupCol names id lid := by
  show (if truthy (findName names id) then findName names id else findName names lid) = lookupCol names id lid
  unfold lookupCol
  cases h : findName names id with
  | none => simp [truthy]
  | some i =>
    cases i with
    | zero => simp [truthy]
    | succ k => simp [truthy]

theorem resolveItem_fold (P : Kind → Kind → Bool) (conv : Kind → Nat → Option Nat) (names : List (Option Nat))
    (items : List ColItem) (acc : List Int) :
    items.foldlM (resolveItemT (modelOps P conv names)) acc =
      (match resolveItems names items with
       | .error e => .error e
       | .ok r => .ok (acc ++ r)) := by
  induction items generalizing acc with
  | nil => simp [resolveItems, pure, Except.pure]
  | cons c rest ih =>
    rw [List.foldlM_cons]
    cases c with
    | name id lid =>
      simp only [resolveItemT, resolveItems]
      rw [lookupCol_eq]
      cases lookupCol names id lid with
      | none => rfl
      | some i =>
        simp only [bind, Except.bind]
        rw [ih]
        cases resolveItems names rest with
        | error e => rfl
        | ok r => simp
    | int i =>
      simp only [resolveItemT, resolveItems, bind, Except.bind]
      rw [ih]
      cases resolveItems names rest with
      | error e => rfl
      | ok r => simp
    | other =>
      simp only [resolveItemT, resolveItems, bind, Except.bind]
      rw [ih]

/-- step 2 of `_assign_cells`, translated, is the model's `resolveCols` -/
theorem resolveColsT_eq (P : Kind → Kind → Bool) (conv : Kind → Nat → Option Nat) (names : List (Option Nat))
    (n : Nat) (col : ColSpec) :
    resolveColsT (modelOps P conv names) n col = resolveCols names n col := by
  cases col with
  | slice a b c =>
    simp only [resolveColsT, resolveCols, modelOps, rangeSliceM]
    cases sliceIndices a b c n with
    | error e => rfl
    | ok r => obtain ⟨s, e, st⟩ := r; rfl
  | int i => rfl
  | name id lid =>
    simp only [resolveColsT, resolveCols]
    rw [lookupCol_eq]
    cases lookupCol names id lid <;> rfl
  | list items =>
    simp only [resolveColsT, resolveCols]
    rw [resolveItem_fold]
    cases resolveItems names items with
    | error e => rfl
    | ok r => simp
  | bad => rfl

/-! ### the reified column loops -/

theorem loopWrites_from (vs : List Value) (targets : List Int) (k : Nat) (pre : List Value)
    (hk : pre.length = k) (hl : vs.length = targets.length) :
    loopWrites (fun i => (pre ++ vs)[i]?) (enumerateFrom k targets) = .ok (targets.zip vs) := by
  induction targets generalizing vs k pre with
  | nil => simp [enumerateFrom, loopWrites]
  | cons ci rest ih =>
    cases vs with
    | nil => simp at hl
    | cons v vs' =>
      simp only [enumerateFrom, loopWrites]
      have h1 : (pre ++ v :: vs')[k]? = some v := by
        rw [List.getElem?_append_right (by omega)]
        simp [hk]
      rw [h1]
      have h2 := ih vs' (k + 1) (pre ++ [v]) (by simp [hk]) (by simpa using hl)
      simp only [List.append_assoc, List.singleton_append] at h2
      rw [h2]
      rfl

/-- `for i, col_idx in enumerate(target_indices): … = vs[i]` after the length test pairs the columns with the values -/
theorem loopWrites_eq_zip (vs : List Value) (targets : List Int) (hl : vs.length = targets.length) :
    loopWrites (fun i => vs[i]?) (enumerate targets) = .ok (targets.zip vs) := by
  have := loopWrites_from vs targets 0 [] rfl hl
  simpa [enumerate] using this

theorem map_single {α β : Type} (f : α → β) (l : List α) (h : l.length = 1) :
    (match l[0]? with
     | none => none
     | some a => some [f a]) = some (l.map f) := by
  match l, h with
  | [a], _ => rfl

/-! ### steps 1–3: the plan -/

/-- `_assign_cells` up to the column loops, translated statement by statement, is the model's `plan` -/
theorem assignPlanT_eq_plan (P : Kind → Kind → Bool) (conv : Kind → Nat → Option Nat) (names : List (Option Nat))
    (n : Nat) (key : TKey) (value : TValue) :
    assignPlanT (modelOps P conv names) n key value = plan names n key value := by
  have go : ∀ (row : Key) (col : ColSpec),
      (match resolveColsT (modelOps P conv names) n col with
       | .error e => .error e
       | .ok target_indices => assignBodyT (modelOps P conv names) row target_indices value)
        = plan.go names n value row col := by
    intro row col
    rw [resolveColsT_eq]
    unfold plan.go
    cases resolveCols names n col with
    | error e => rfl
    | ok targets =>
      simp only
      unfold assignBodyT
      by_cases he : targets.isEmpty = true
      · simp [he]
      · simp only [he, Bool.false_eq_true, if_false]
        cases value with
        | scalar c => simp [isScalarV, modelOps, rhsM]
        | iter kind self items nested ra =>
          simp only [isScalarV, Bool.false_eq_true, if_false]
          cases hrow : isIntKey row with
          | true =>
            have : keyIsInt row = true := by cases row <;> simp_all [keyIsInt, isIntKey]
            simp only [this, if_true, modelOps, listOfM]
            cases consumeAll items ra with
            | error e => rfl
            | ok vs =>
              simp only
              by_cases hl : vs.length = targets.length
              · simp [hl, loopWrites_eq_zip vs targets hl]
              · simp [hl]
          | false =>
            have : keyIsInt row = false := by cases row <;> simp_all [keyIsInt, isIntKey]
            simp only [this, Bool.false_eq_true, if_false]
            cases kind with
            | table =>
              simp only [isTableV, if_true, itemsV]
              by_cases hl : items.length = targets.length
              · simp [hl, loopWrites_eq_zip items targets hl]
              · simp [hl]
            | listOrTuple =>
              simp only [isTableV, isListOrTupleV, Bool.false_eq_true, if_false, if_true, itemsV, nestedFirstV, modelOps, rhsM]
              by_cases h1 : targets.length = 1
              · obtain ⟨ci, rfl⟩ : ∃ ci, targets = [ci] := by
                  match targets, h1 with
                  | [ci], _ => exact ⟨ci, rfl⟩
                by_cases hf : (items.isEmpty || !nested) = true
                · simp [hf]
                · by_cases hl : items.length = 1
                  · simp [hf, hl, loopWrites_eq_zip items [ci] (by simpa using hl)]
                  · simp [hf, hl]
              · by_cases hl : items.length = targets.length
                · simp [h1, hl, loopWrites_eq_zip items targets hl]
                · simp [h1, hl]
            | other => simp [isTableV, isListOrTupleV]
  unfold assignPlanT plan
  cases key with
  | badTuple => rfl
  | single row => simp only [assignKeyT]; exact go row (.slice none none none)
  | pair row col => simp only [assignKeyT]; exact go row col

/-! ### the column loop -/

theorem columnLoopT_eq_writeCols (P : Kind → Kind → Bool) (conv : Kind → Nat → Option Nat) (names : List (Option Nat))
    (row : Key) (ws : List (Int × Value)) (t : TState) :
    columnLoopT (modelOps P conv names) row ws t = writeCols P conv row ws t := by
  induction ws generalizing t with
  | nil => simp [columnLoopT, writeCols]
  | cons w rest ih =>
    obtain ⟨ci, v⟩ := w
    rw [writeCols_cons]
    simp only [columnLoopT, writeCellT, modelOps]
    cases tupleIndex t.cols.length ci with
    | none => rfl
    | some j =>
      simp only
      cases t.cols[j]? with
      | none => rfl
      | some col =>
        simp only
        cases hs : setitem P conv false row v col with
        | mk r col' =>
          cases r with
          | some e => rfl
          | none => simp only; exact ih _


/-! ### `_assign_cells` as a whole -/

/-- `Table._assign_cells` translated (plan, then the column loop, on the table's own column map) is what the model's
    `tsetitem` runs inside its wrapper -/
theorem assignCellsT_eq (P : Kind → Kind → Bool) (conv : Kind → Nat → Option Nat) (key : TKey) (value : TValue)
    (t : TState) :
    assignCellsT (modelOps P conv (t.cols.map (·.name))) key value t = assignCellsM P conv key value t := by
  unfold assignCellsT assignCellsM
  simp only [assignPlanT_eq_plan]
  cases plan (t.cols.map (·.name)) t.cols.length key value with
  | error e => rfl
  | ok rw =>
    obtain ⟨row, ws⟩ := rw
    exact columnLoopT_eq_writeCols P conv _ row ws t

/-- the model's `_assign_cells` keeps every column's name (and so the number of columns), whatever the outcome -/
theorem assignCellsM_names (P : Kind → Kind → Bool) (conv : Kind → Nat → Option Nat) (key : TKey) (value : TValue)
    (t : TState) :
    (assignCellsM P conv key value t).2.cols.map (·.name) = t.cols.map (·.name) := by
  unfold assignCellsM
  cases plan (t.cols.map (·.name)) t.cols.length key value with
  | error e => rfl
  | ok rw =>
    obtain ⟨row, ws⟩ := rw
    have h := writeCols_shape P conv row ws t
    have h2 := congrArg (List.map Prod.snd) h
    simpa [shape, List.map_map, Function.comp_def] using h2

/-! ### the wrapper `Table.__setitem__` -/

/-- one iteration of the restore loop puts a column back, provided its name was not changed (the loop does not restore it) -/
theorem restoreColT_eq {κ : Type} [DecidableEq κ] (clsOf : VState → κ) (setCls : κ → VState → VState)
    (col col' : VState) (hn : col'.name = col.name) :
    restoreColT clsOf setCls col' col.data col.dtype col.fp (clsOf col) = col := by
  obtain ⟨d, dt, nm, fp⟩ := col
  obtain ⟨d', dt', nm', fp'⟩ := col'
  simp only at hn
  subst hn
  unfold restoreColT
  by_cases h : d' = d
  · subst h; simp
  · simp [h]

theorem restoreLoop_eq {κ : Type} [DecidableEq κ] (clsOf : VState → κ) (setCls : κ → VState → VState)
    (cols cols' : List VState) (hn : cols'.map (·.name) = cols.map (·.name)) :
    List.zipWith (fun col (b : List Cell × Option DType × Option (List Cell) × κ) =>
        restoreColT clsOf setCls col b.1 b.2.1 b.2.2.1 b.2.2.2) cols'
      (cols.map (fun col => (col.data, col.dtype, col.fp, clsOf col))) = cols := by
  induction cols generalizing cols' with
  | nil => cases cols' <;> simp
  | cons c cs ih =>
    cases cols' with
    | nil => simp at hn
    | cons c' cs' =>
      simp only [List.map_cons, List.cons.injEq] at hn
      simp only [List.map_cons, List.zipWith_cons_cons, restoreColT_eq clsOf setCls c c' hn.1, ih cs' hn.2]

/-- **the wrapper**: for every `assign` (the translated or any abstract `_assign_cells`) that, on this table, keeps every
    column's name — hence the number of columns —, `Table.__setitem__` translated (snapshot, try, per-column restore loop,
    re-raise) returns `assign`'s table on success, and on any exception that exception with the table exactly as it was -/
theorem tableSetitemT_eq {κ : Type} [DecidableEq κ] (clsOf : VState → κ) (setCls : κ → VState → VState)
    (assign : TState → Option Err × TState) (t : TState)
    (hn : (assign t).2.cols.map (·.name) = t.cols.map (·.name)) :
    tableSetitemT clsOf setCls assign t =
      (match assign t with
       | (some e, _) => (some e, t)
       | (none, t') => (none, t')) := by
  unfold tableSetitemT
  cases h : assign t with
  | mk r t' =>
    rw [h] at hn
    cases r with
    | none => rfl
    | some e =>
      simp only
      have := restoreLoop_eq clsOf setCls t.cols t'.cols hn
      simp only [this]

/-- **`Table.__setitem__` = `tsetitem`**: the translated wrapper around the translated `_assign_cells` (with the model's
    `Vector.__setitem__`, column map, `range`, `list` as oracles) is the model's `tsetitem`, for every key, value, table,
    promotability relation and conversion oracle, and whatever the class attribute is (`clsOf`, `setCls`) -/
theorem tableSetitemT_eq_tsetitem {κ : Type} [DecidableEq κ] (clsOf : VState → κ) (setCls : κ → VState → VState)
    (P : Kind → Kind → Bool) (conv : Kind → Nat → Option Nat) (key : TKey) (value : TValue) (t : TState) :
    tableSetitemT clsOf setCls (fun t => assignCellsT (modelOps P conv (t.cols.map (·.name))) key value t) t
      = tsetitem P conv key value t := by
  rw [tableSetitemT_eq]
  · simp only [assignCellsT_eq]
    exact (tsetitem_eq_wrap P conv key value t).symm
  · simp only [assignCellsT_eq]
    exact assignCellsM_names P conv key value t

/-- so the atomicity theorem of C08 is a theorem about the translated code -/
theorem tableSetitemT_atomic {κ : Type} [DecidableEq κ] (clsOf : VState → κ) (setCls : κ → VState → VState)
    (P : Kind → Kind → Bool) (conv : Kind → Nat → Option Nat) (key : TKey) (value : TValue) (t : TState) (e : Err)
    (h : (tableSetitemT clsOf setCls (fun t => assignCellsT (modelOps P conv (t.cols.map (·.name))) key value t) t).1 = some e) :
    (tableSetitemT clsOf setCls (fun t => assignCellsT (modelOps P conv (t.cols.map (·.name))) key value t) t).2 = t := by
  rw [tableSetitemT_eq_tsetitem] at h ⊢
  unfold tsetitem at h ⊢
  split
  · rfl
  · split
    · rfl
    · rename_i h1 _ _ h2; simp [h1, h2] at h


/-! ### non-vacuity -/

private def cA : VState := ⟨[⟨.ty .int, 1⟩, ⟨.ty .int, 2⟩], some ⟨.int, false⟩, some 1, some []⟩
private def cB : VState := ⟨[⟨.ty .str, 3⟩, ⟨.ty .str, 4⟩], some ⟨.str, false⟩, some 2, none⟩
private def nine : Value := .scalar ⟨.ty .int, 9⟩
private def five : Value := .scalar ⟨.ty .int, 5⟩
private def conv1 : Kind → Nat → Option Nat := fun _ u => some (u + 100)
private def ops2 : Ops := modelOps genP conv1 [some 1, some 2]
/-- the class of a column follows its dtype kind -/
private def clsK (s : VState) : Option Kind := s.dtype.map (·.kind)

-- Python's `or` on index 0: `t[:, 'a']` where 'a' is column 0 and 'A'.lower() is unknown -> the lookup falls through to the
-- second `get` and raises SerifKeyError; column 1 is found by the first `get`; a lower-cased hit on column 0 is found
example : resolveColsT ops2 2 (.name 1 7) = .error .key ∧ resolveColsT ops2 2 (.name 2 7) = .ok [1]
    ∧ resolveColsT ops2 2 (.name 7 1) = .ok [0] := by decide +kernel
-- tuple of names / ints / something else (skipped), negative index kept as it is; the slice form; a bad column key
example : resolveColsT ops2 2 (.list [.name 2 2, .other, .int (-1), .name 7 1]) = .ok [1, -1, 0]
    ∧ resolveColsT ops2 2 (.list [.name 2 2, .name 7 7]) = .error .key
    ∧ resolveColsT ops2 2 (.slice none none (some (-1))) = .ok [1, 0]
    ∧ resolveColsT ops2 2 .bad = .error .type := by decide +kernel
-- CASE B `t[0] = [9, 5]`; CASE D flat list on one column `t[:, 1] = [9, 5]`; shape mismatch; unsupported value; bad tuple key
example : assignPlanT ops2 2 (.single (.int 0)) (.iter .listOrTuple ⟨.ty .list, 7⟩ [nine, five] false none)
      = .ok (.int 0, [(0, nine), (1, five)])
    ∧ assignPlanT ops2 2 (.pair (.slice none none none) (.int 1)) (.iter .listOrTuple ⟨.ty .list, 7⟩ [nine, five] false none)
      = .ok (.slice none none none, [(1, .seq ⟨.ty .list, 7⟩ [⟨.ty .int, 9⟩, ⟨.ty .int, 5⟩] .ok none)]) := by decide +kernel
example : assignPlanT ops2 2 (.single (.slice none none none)) (.iter .listOrTuple ⟨.ty .list, 7⟩ [nine] true none) = .error .value
    ∧ assignPlanT ops2 2 (.single (.slice none none none)) (.iter .other ⟨.ty .dict, 7⟩ [nine, five] false none) = .error .type
    ∧ assignPlanT ops2 2 (.single (.int 0)) (.iter .other ⟨.ty .dict, 7⟩ [nine, five] false (some 2)) = .error .other := by
  decide +kernel
example : assignPlanT ops2 2 .badTuple (.scalar ⟨.ty .int, 9⟩) = .error .key
    ∧ assignPlanT ops2 2 (.pair (.int 0) (.list [])) (.scalar ⟨.ty .int, 9⟩) = .ok (.int 0, []) := by decide +kernel
-- `t[0] = [9, 5]` on an int and a str column: the translated `_assign_cells` alone stops at the second column with the first one
-- written; the translated wrapper hands back the table as it was (storage, dtype, memo) and the same exception
example :
    assignCellsT ops2 (.single (.int 0)) (.iter .listOrTuple ⟨.ty .list, 7⟩ [nine, five] false none) ⟨[cA, cB]⟩
      = (some .type, ⟨[{ cA with data := [⟨.ty .int, 9⟩, ⟨.ty .int, 2⟩], fp := none }, cB]⟩)
    ∧ tableSetitemT clsK (fun _ s => s)
        (fun t => assignCellsT (modelOps genP conv1 (t.cols.map (·.name))) (.single (.int 0))
          (.iter .listOrTuple ⟨.ty .list, 7⟩ [nine, five] false none) t) ⟨[cA, cB]⟩
      = (some .type, ⟨[cA, cB]⟩) := by decide +kernel
-- a successful one: `t[0, 'a'] = 2.5` promotes column 0 to float (old elements converted), memo dropped
example :
    tableSetitemT clsK (fun _ s => s)
        (fun t => assignCellsT (modelOps genP conv1 (t.cols.map (·.name))) (.pair (.int 0) (.name 7 1)) (.scalar ⟨.ty .float, 8⟩) t)
        ⟨[cA, cB]⟩
      = (none, ⟨[⟨[⟨.ty .float, 8⟩, ⟨.ty .float, 102⟩], some ⟨.float, false⟩, some 1, none⟩, cB]⟩) := by decide +kernel
-- the hypothesis of `tableSetitemT_eq` is satisfiable by an `assign` that is not the model's: one that wrecks storage, dtype and
-- memo of every column and raises — everything is put back; and it is needed: an `assign` that renames a column is NOT undone
example :
    let wreck : TState → Option Err × TState := fun t => (some .other, ⟨t.cols.map (fun c => { c with data := [], dtype := none, fp := some [] })⟩)
    (wreck ⟨[cA, cB]⟩).2.cols.map (·.name) = [some 1, some 2]
    ∧ tableSetitemT clsK (fun _ s => s) wreck ⟨[cA, cB]⟩ = (some .other, ⟨[cA, cB]⟩) := by decide +kernel
example :
    let rename : TState → Option Err × TState := fun t => (some .other, ⟨t.cols.map (fun c => { c with name := none })⟩)
    tableSetitemT clsK (fun _ s => s) rename ⟨[cA, cB]⟩ ≠ (some .other, ⟨[cA, cB]⟩) := by decide +kernel

end Serif.Tie
