/-
  Translation tie for `alias_tracker._AliasTracker` (C15, and the refusal clause of C01): `register`, `unregister` and
  `check_writable`, translated statement by statement from the source (`Serif/Gen/TranslatedAlias.lean`, regenerated on every run),
  compute on the registry exactly what the model's `AState.register`, `AState.unregister` and `AState.checkWritable` compute — for
  every registry, every liveness assignment, every object and storage identity.  The model's functions are the ones C15's theorems
  (`registry_exact`, `refused_iff_shared`, `tracker_refines_spec`, …) are about.

  Representation: the dict `id(tuple) ↦ [weakref]` is a function `Nat → List Nat` (a missing key and an empty list are the same to
  every reader), a weak reference is its object's serial number, `r()` is `live r`.  Supplementary (see Serif/Tie/Typing.lean).
-/
import Serif.Gen.TranslatedAlias
import Serif.Model.AliasHeap

set_option linter.unusedSimpArgs false

namespace Serif.Tie
open Serif Serif.AState Serif.Gen.TA

private theorem setReg_reg (st : AState) (s : Nat) (l : List Nat) :
    (st.setReg s l).reg = (fun k => if k = s then l else st.reg k) := rfl

theorem register_eq (st : AState) (o s : Nat) : registerT st.alive st.reg o s = (st.register o s).reg := by
  unfold registerT AState.register AState.liveRefs
  by_cases h : ((st.reg s).filter st.alive).contains o = true
  · simp only [h, ↓reduceIte]
  · have h' : ((st.reg s).filter st.alive).contains o = false := by simpa using h
    simp only [h', Bool.false_eq_true, ↓reduceIte, setReg_reg]
    funext k
    by_cases hk : k = s <;> simp [hk]

theorem unregister_eq (st : AState) (o s : Nat) : unregisterT st.alive st.reg o s = (st.unregister o s).reg := by
  unfold unregisterT AState.unregister AState.liveRefs
  by_cases h : (st.reg s).isEmpty = true
  · simp only [h, ↓reduceIte]
  · have h' : (st.reg s).isEmpty = false := by simpa using h
    simp only [h', Bool.false_eq_true, ↓reduceIte, setReg_reg]
    have hf : (st.reg s).filter (fun r => st.alive r && r != o) = ((st.reg s).filter st.alive).filter (· != o) := by
      rw [List.filter_filter]
      congr 1
      funext r
      exact Bool.and_comm _ _
    rw [hf]
    cases hl : ((st.reg s).filter st.alive).filter (· != o) with
    | nil => simp
    | cons a l => simp

theorem checkWritable_eq (st : AState) (o s : Nat) :
    checkWritableT st.alive st.reg o s = ((st.checkWritable s).1.reg, (st.checkWritable s).2) := by
  unfold checkWritableT AState.checkWritable AState.liveRefs
  by_cases h : (st.reg s).isEmpty = true
  · simp only [h, ↓reduceIte]
  · have h' : (st.reg s).isEmpty = false := by simpa using h
    simp only [h', Bool.false_eq_true, ↓reduceIte, setReg_reg, List.filter_filter, Bool.and_self]
    by_cases hl : ((st.reg s).filter st.alive).length ≤ 1 <;> simp [hl]

/-- non-vacuity: two live owners of storage 7 — the check refuses; after one unregisters it accepts -/
example : (checkWritableT (fun _ => true) (fun k => if k = 7 then [1, 2] else []) 1 7).2 = false ∧
    (checkWritableT (fun _ => true) (unregisterT (fun _ => true) (fun k => if k = 7 then [1, 2] else []) 2 7) 1 7).2 = true := by
  decide

end Serif.Tie
