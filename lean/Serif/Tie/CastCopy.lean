/-
  Translation tie for the way `Vector` objects are (re)built (C03, C18): the dtype decision of `Vector.__new__`, the name / data
  bookkeeping of `Vector.__init__`, `Vector.copy`, `__copy__`, `__deepcopy__`, `to_object`, `cast` and the constructor calls of
  `unique`, translated statement by statement from the source (`Serif/Gen/TranslatedCastCopy.lean`, written by
  harness/tr/castcopy.py on every run), are the expression model's `mkVec`, `AVec.copy`, `AVec.copyWith`, `toObject`, `cast`
  (Serif/Model/Expr.lean) — for every vector, every element type `α`, every classification `kindOf : α → Kind` of the non-None
  elements by exact type, and every scalar semantics (the conversion functions of `cast` are parameters).

  Vocabulary.  A translated method returns the arguments of its constructor call (`Gen.TCC.VectorCall`).  `ccConstruct` is the
  constructor itself — `__new__` as translated, then `__init__` as translated on the same arguments (this composition is Python's
  `type.__call__`; it is the one hand-written piece) — and `ccBuild` is the model's reading of a call, `mkVec` on the exact types of
  the values.  `ccConstruct_eq_build` proves the two equal; after that every method is tied at the level of calls.
  The model reports every refusal of `cast` as `Err.other`; the translation says `Err.value` (ValueError): `ccRes` forgets the class
  (`castT_raises_value` keeps the information).
  `ccCaster` / `ccStep` are hand copies of the `caster` chain and of the loop body of the generated `castT`, made so that the
  induction can name them; `castT_unfold` proves (by `rfl`) that `castT` *is* the loop over them, so an edit of the source that
  changes either shows up there.
  Not in the source: `Vector.head` / `Vector.tail` do not exist in src/serif/vector.py (nothing to tie).
  Supplementary (see Serif/Tie/Typing.lean).
-/
import Serif.Gen.TranslatedCastCopy
import Serif.Gen.PySupport
import Serif.Model.Expr
import Serif.Props.C03
import Serif.Props.C18

namespace Serif.Tie
open Serif Serif.X Serif.Gen.TCC

variable {α ε : Type}

/-! ### vocabulary -/

/-- exact type of a Python value (`none` = None) under a classification of the non-None values -/
def ccTag (kindOf : α → Kind) : Option α → Tag
  | none => .none
  | some a => .ty (kindOf a)

def ccTags (kindOf : α → Kind) (xs : List (Option α)) : List Tag := xs.map (ccTag kindOf)

/-- a stored dtype (`None` or a `DataType`) as a `dtype=` argument / as the content of `_dtype` -/
def ccArg : Option DType → DTypeArg
  | none => .none
  | some d => .dataType d

/-- a `dtype=` argument as the model's `Option DType`: a plain class `T` counts as `DataType(T)` (non-nullable, the default of the
    dataclass field); `newT_pyType` proves that this is what `__new__` does with it -/
def ccStored : DTypeArg → Option DType
  | .none => none
  | .dataType d => some d
  | .pyType k => some { kind := k, nullable := false }

/-- the library's `infer_dtype` seen through exact types (tied to the source by `Tie.inferDtype_eq`, Serif/Tie/Typing.lean) -/
def ccInfer (kindOf : α → Kind) (xs : List (Option α)) : DType := infer (ccTags kindOf xs)

/-- state of a vector object as far as C03 / C18 look: `_underlying`, `_dtype`, `_name` -/
structure CCState (α : Type) where
  underlying : List (Option α)
  dtype : DTypeArg
  name : Option String

/-- the constructor `Vector(values, dtype=…, name=…)`: `__new__` as translated, then — unless it returned a ready Table (`none`)
    — `__init__` as translated with the same arguments on the instance `__new__` made -/
def ccConstruct (infer_dtype : List (Option α) → DType) (isIter isVec allVecs sameLen : Bool) (c : VectorCall (Option α)) :
    Option (CCState α) :=
  match newT infer_dtype isIter isVec allVecs sameLen c.values c.dtype with
  | .table => none
  | .instance d pre =>
    let r := initT pre c.values c.name
    some { underlying := r.2, dtype := d, name := r.1 }

def CCState.abs (kindOf : α → Kind) (s : CCState α) : AVec :=
  { tags := ccTags kindOf s.underlying, dtype := ccStored s.dtype, name := s.name }

/-- the model's reading of a constructor call -/
def ccBuild (kindOf : α → Kind) (c : VectorCall (Option α)) : AVec :=
  mkVec (ccTags kindOf c.values) (ccStored c.dtype) c.name

/-- the model's vector whose elements are `xs` -/
def ccVec (kindOf : α → Kind) (xs : List (Option α)) (dt : Option DType) (n : Option String) : AVec :=
  { tags := ccTags kindOf xs, dtype := dt, name := n }

/-- result of a translated method that may raise, read by the model (which reports every refusal of `cast` as `other`) -/
def ccRes (kindOf : α → Kind) : Except Err (VectorCall (Option α)) → Res AVec
  | .ok c => .ok (ccBuild kindOf c)
  | .error _ => .error .other

@[simp] theorem ccStored_ccArg (dt : Option DType) : ccStored (ccArg dt) = dt := by cases dt <;> rfl

@[simp] theorem ccTags_nil (kindOf : α → Kind) : ccTags kindOf [] = [] := rfl

@[simp] theorem ccTags_cons (kindOf : α → Kind) (x : Option α) (xs : List (Option α)) :
    ccTags kindOf (x :: xs) = ccTag kindOf x :: ccTags kindOf xs := rfl

@[simp] theorem ccTags_append (kindOf : α → Kind) (xs ys : List (Option α)) :
    ccTags kindOf (xs ++ ys) = ccTags kindOf xs ++ ccTags kindOf ys := by simp [ccTags]

theorem ccTags_isEmpty (kindOf : α → Kind) (xs : List (Option α)) : (ccTags kindOf xs).isEmpty = xs.isEmpty := by
  cases xs <;> rfl

theorem ccTag_eq_none (kindOf : α → Kind) (x : Option α) : (ccTag kindOf x = Tag.none) ↔ x = none := by
  cases x <;> simp [ccTag]

/-- `any(x is None for x in xs)` as translated is the model's `tags.contains .none` -/
theorem ccAnyIsNone_eq (kindOf : α → Kind) (xs : List (Option α)) :
    ((xs.map (fun x => x.isNone)).any (fun b => b)) = (ccTags kindOf xs).contains Tag.none := by
  induction xs with
  | nil => rfl
  | cons x xs ih =>
    cases x with
    | none => simp [ccTag]
    | some a =>
      have : (ccTag kindOf (some a) == Tag.none) = false := by simp [ccTag]
      simp only [List.map_cons, List.any_cons, ccTags_cons, List.contains_cons] at ih ⊢
      simp [ih, ccTag]

/-! ### `Vector.__new__`: the dtype decision -/

theorem ccHasItems_eq (isVec : Bool) (xs : List (Option α)) :
    (if isVec then decide (xs.length > 0) else !xs.isEmpty) = !xs.isEmpty := by
  cases isVec <;> cases xs <;> simp

/-- the Table exit: a non-empty `initial` made of vectors of one length never reaches the dtype decision -/
theorem newT_table (inf : List (Option α) → DType) (isIter isVec : Bool) (xs : List (Option α)) (dt : DTypeArg)
    (hx : xs ≠ []) : newT inf isIter isVec true true xs dt = .table := by
  cases xs with
  | nil => exact absurd rfl hx
  | cons x xs => cases isVec <;> simp [newT]

/-- a plain Python class passed as `dtype=` is treated exactly like `DataType(cls)`, non-nullable -/
theorem newT_pyType (inf : List (Option α) → DType) (isIter isVec allVecs sameLen : Bool) (xs : List (Option α)) (k : Kind) :
    newT inf isIter isVec allVecs sameLen xs (.pyType k)
      = newT inf isIter isVec allVecs sameLen xs (.dataType { kind := k, nullable := false }) := by
  simp [newT]

/-- `Vector.__new__` as translated stashes the model's `mkVec` dtype: the explicit dtype when one was given (a plain class as
    its non-nullable `DataType`; nullability is never recomputed from the data), the inferred one when none was given and
    there are elements, `None` for an empty input without dtype; and the materialised data exactly for an iterator.
    Hypothesis: not the Table exit (the elements are not all vectors of one length, or there are none). -/
theorem newT_eq (kindOf : α → Kind) (isIter isVec allVecs sameLen : Bool) (xs : List (Option α)) (dt : DTypeArg)
    (n : Option String) (h : (allVecs && sameLen) = false ∨ xs = []) :
    newT (ccInfer kindOf) isIter isVec allVecs sameLen xs dt
      = .instance (ccArg (mkVec (ccTags kindOf xs) (ccStored dt) n).dtype) (if isIter then some xs else none) := by
  have hi := ccHasItems_eq isVec xs
  have hc : (!xs.isEmpty && allVecs && sameLen) = false := by
    rcases h with h | h
    · rw [Bool.and_assoc, h]; simp
    · subst h; rfl
  unfold newT
  simp only [hi, hc]
  cases dt with
  | none =>
    cases hx : xs.isEmpty <;> cases isIter <;>
      simp [mkVec, ccStored, ccArg, ccTags_isEmpty, hx, ccInfer]
  | dataType d => cases isIter <;> simp [mkVec, ccStored, ccArg]
  | pyType k => cases isIter <;> simp [mkVec, ccStored, ccArg]

/-- what lands in `_dtype` is `None` or a `DataType`, never a plain class -/
theorem newT_never_stores_plain_type (inf : List (Option α) → DType) (isIter isVec allVecs sameLen : Bool)
    (xs : List (Option α)) (dt d : DTypeArg) (pre : Option (List (Option α)))
    (h : newT inf isIter isVec allVecs sameLen xs dt = .instance d pre) : ∀ k, d ≠ .pyType k := by
  intro k hk
  unfold newT at h
  simp only [ccHasItems_eq] at h
  cases hc : (!xs.isEmpty && allVecs && sameLen)
  · simp only [hc, Bool.false_eq_true, if_false, NewResult.instance.injEq] at h
    have h1 := h.1
    rw [hk] at h1
    cases dt with
    | none => cases hx : xs.isEmpty <;> simp [hx] at h1
    | dataType d0 => simp at h1
    | pyType k0 => simp at h1
  · simp [hc] at h

/-! ### `Vector.__init__`: name and data -/

/-- `_name` is the argument (None included), `_underlying` the materialised data if `__new__` kept it, else `tuple(initial)` -/
theorem initT_eq (pre : Option (List (Option α))) (xs : List (Option α)) (n : Option String) :
    initT pre xs n = (n, pre.getD xs) := by
  cases n <;> cases pre <;> rfl

/-! ### the constructor -/

/-- **`Vector(values, dtype=…, name=…)` as translated is the model's `mkVec`** on the exact types of the values: data and name
    carried over as given, dtype by `newT_eq` — whether `values` was an iterator or not, a Vector or not -/
theorem ccConstruct_eq_build (kindOf : α → Kind) (isIter isVec allVecs sameLen : Bool) (c : VectorCall (Option α))
    (h : (allVecs && sameLen) = false ∨ c.values = []) :
    (ccConstruct (ccInfer kindOf) isIter isVec allVecs sameLen c).map (CCState.abs kindOf) = some (ccBuild kindOf c) := by
  unfold ccConstruct
  rw [newT_eq kindOf isIter isVec allVecs sameLen c.values c.dtype c.name h]
  simp only [initT_eq, Option.map_some, CCState.abs, ccStored_ccArg, ccBuild]
  cases isIter <;> simp [mkVec]

/-- the object the constructor leaves never holds a plain class in `_dtype` -/
theorem ccConstruct_stores_dataType (inf : List (Option α) → DType) (isIter isVec allVecs sameLen : Bool)
    (c : VectorCall (Option α)) (s : CCState α) (h : ccConstruct inf isIter isVec allVecs sameLen c = some s) :
    ∀ k, s.dtype ≠ .pyType k := by
  unfold ccConstruct at h
  split at h
  · cases h
  · rename_i d pre hn
    simp only [Option.some.injEq] at h
    subst h
    exact newT_never_stores_plain_type inf isIter isVec allVecs sameLen c.values c.dtype d pre hn

/-- built without dtype (`Vector(values, name=…)`, the leaves of the expression language): the model's leaf -/
theorem ccBuild_leaf (kindOf : α → Kind) (xs : List (Option α)) (n : Option String) :
    ccBuild kindOf { values := xs, dtype := .none, name := n } = mkVec (ccTags kindOf xs) none n := rfl

/-! ### `copy`, `__copy__`, `__deepcopy__` -/

/-- `self.copy()`: data, dtype and name of `self` (the model's `AVec.copy`) -/
theorem copyT_eq (kindOf : α → Kind) (xs : List (Option α)) (dt : Option DType) (n : Option String) :
    ccBuild kindOf (copyT xs (ccArg dt) n none none) = (ccVec kindOf xs dt n).copy := by
  simp [copyT, ccBuild, AVec.copy, AVec.copyWith, ccVec]

/-- `self.copy(new_values)`: the new data, dtype and name of `self` (the model's `AVec.copyWith`; a vector without dtype
    re-infers one from the new values, a typed one keeps its dtype whatever the values) -/
theorem copyT_with_eq (kindOf : α → Kind) (xs ys : List (Option α)) (dt : Option DType) (n : Option String) :
    ccBuild kindOf (copyT xs (ccArg dt) n (some ys) none) = (ccVec kindOf xs dt n).copyWith (ccTags kindOf ys) := by
  simp [copyT, ccBuild, AVec.copyWith, ccVec]

/-- `self.copy(name=m)` / `self.copy(new_values, name=m)`: the name is replaced — by None too (`name=None` clears it, only the
    sentinel `...` keeps it); data and dtype as before -/
theorem copyT_named_eq (kindOf : α → Kind) (xs : List (Option α)) (nv : Option (List (Option α))) (dt : Option DType)
    (n m : Option String) :
    ccBuild kindOf (copyT xs (ccArg dt) n nv (some m)) = mkVec (ccTags kindOf (nv.getD xs)) dt m := by
  cases nv <;> simp [copyT, ccBuild]

/-- every argument combination at once: which of data / dtype / name are carried over -/
theorem copyT_fields (xs : List (Option α)) (d : DTypeArg) (n : Option String) (nv : Option (List (Option α)))
    (nm : Option (Option String)) :
    (copyT xs d n nv nm).values = nv.getD xs ∧ (copyT xs d n nv nm).dtype = d ∧ (copyT xs d n nv nm).name = nm.getD n := by
  cases nv <;> cases nm <;> simp [copyT]

theorem copyDunderT_eq (kindOf : α → Kind) (xs : List (Option α)) (dt : Option DType) (n : Option String) :
    ccBuild kindOf (copyDunderT xs (ccArg dt) n) = (ccVec kindOf xs dt n).copy := by
  unfold copyDunderT; exact copyT_eq kindOf xs dt n

/-- `copy.deepcopy(v)`: hypothesis — `deepcopy` of an element returns a value of the same exact type (None for None) -/
theorem deepcopyT_eq (kindOf : α → Kind) (deepcopy : Option α → Option α)
    (hd : ∀ x, ccTag kindOf (deepcopy x) = ccTag kindOf x)
    (xs : List (Option α)) (dt : Option DType) (n : Option String) :
    ccBuild kindOf (deepcopyT deepcopy xs (ccArg dt) n) = (ccVec kindOf xs dt n).copy := by
  unfold deepcopyT
  rw [copyT_with_eq]
  have : ccTags kindOf (xs.map (fun x => deepcopy x)) = ccTags kindOf xs := by
    simp only [ccTags, List.map_map]
    apply List.map_congr_left
    intro x _
    exact hd x
  rw [this]
  rfl

/-! ### `to_object` -/

/-- `v.to_object()`: `DataType(object, nullable=<a None is held>)`, data and name of `self` (the model's `toObject`) -/
theorem toObjectT_eq (kindOf : α → Kind) (xs : List (Option α)) (dt : Option DType) (n : Option String) :
    ccBuild kindOf (toObjectT xs (ccArg dt) n) = toObject (ccVec kindOf xs dt n) := by
  simp only [toObjectT, ccBuild, toObject, ccVec, ccStored, ccAnyIsNone_eq kindOf]

/-! ### `cast` -/

/-- the scalar conversion the `else` branches of the two `caster` closures and the plain `caster = target_type` reach -/
def ccConv (fromisoformat : Kind → α → Except ε (Option α)) (call_target : CastTarget → α → Except ε (Option α))
    (k : Kind) (v : α) : Except ε (Option α) :=
  if k = .date then fromisoformat .date v
  else if k = .datetime then fromisoformat .datetime v
  else call_target (.cls k) v

/-- outcome of a conversion as the model's oracle reports it: the exact type of the value, or a failure -/
def ccSRes (kindOf : α → Kind) : Except ε (Option α) → SRes
  | .ok r => .ok (ccTag kindOf r)
  | .error _ => .err

/-- the model oracle induced by the scalar conversions on the vector `xs` (indexed by position, as the harness builds it) -/
def ccOracle (kindOf : α → Kind) (fromisoformat : Kind → α → Except ε (Option α))
    (call_target : CastTarget → α → Except ε (Option α)) (xs : List (Option α)) : Oracle :=
  { silent with
    cast := fun _ i k _ =>
      match xs[i]? with
      | some (some v) => ccSRes kindOf (ccConv fromisoformat call_target k v)
      | _ => .err }

/-- the scalar operations `cast` uses, as one bundle (the oracle parameters of `castT`, in its order) -/
structure CastOracles (α ε : Type) where
  isinstance : α → Kind → Bool
  method_date : α → Except ε (Option α)
  fromisoformat : Kind → α → Except ε (Option α)
  call_target : CastTarget → α → Except ε (Option α)
  is_vector : α → Bool
  elem_cast : α → CastTarget → Except ε (Option α)

/-- `castT` applied to a bundle of oracles -/
def castTO (O : CastOracles α ε) (inf : List (Option α) → DType) (xs : List (Option α)) (d : DTypeArg) (n : Option String)
    (t : CastTarget) : Except Err (VectorCall (Option α)) :=
  castT O.isinstance O.method_date O.fromisoformat O.call_target O.is_vector O.elem_cast inf xs d n t

/-- what the tie assumes of Python's scalar operations inside `cast(T)` for a class `T` -/
structure CastScalars (kindOf : α → Kind) (O : CastOracles α ε) : Prop where
  /-- `isinstance` on the classes the model knows (Serif/Gen/PySupport.lean) -/
  inst : ∀ v K, O.isinstance v K = Kind.subclass (kindOf v) K
  /-- `datetime.date()` returns a date -/
  date : ∀ v, kindOf v = .datetime → ∃ d, O.method_date v = .ok (some d) ∧ kindOf d = .date
  /-- the elements are scalars (the model's vectors are flat) -/
  flat : ∀ v, O.is_vector v = false

/-- the `caster` closure of `castT` for a class target (the same chain, for the proofs) -/
def ccCaster (O : CastOracles α ε) (k : Kind) : α → Except ε (Option α) :=
  if (CastTarget.cls k == CastTarget.cls Kind.date) then
    fun x =>
      if O.isinstance x Kind.datetime then O.method_date x else
      if O.isinstance x Kind.date then .ok (some x) else O.fromisoformat Kind.date x
  else if (CastTarget.cls k == CastTarget.cls Kind.datetime) then
    fun x => if O.isinstance x Kind.datetime then .ok (some x) else O.fromisoformat Kind.datetime x
  else fun x => O.call_target (CastTarget.cls k) x

/-- one element: the closure answers what the model's `castOne` answers, for an oracle `ρ` that reports the scalar conversion -/
theorem ccCaster_castOne (kindOf : α → Kind) (O : CastOracles α ε) (hS : CastScalars kindOf O) (ρ : Oracle) (site i : Nat)
    (k : Kind) (v : α)
    (hρ : ρ.cast site i k (.ty (kindOf v)) = ccSRes kindOf (ccConv O.fromisoformat O.call_target k v)) :
    ccSRes kindOf (ccCaster O k v) = castOne ρ site k i (.ty (kindOf v)) := by
  unfold ccCaster castOne
  rw [hρ]
  by_cases hkd : k = .date
  · subst hkd
    simp only [BEq.rfl, if_true, hS.inst, ccConv]
    by_cases hv : kindOf v = .datetime
    · obtain ⟨d, hd, hk⟩ := hS.date v hv
      simp [hv, Kind.subclass, hd, ccSRes, ccTag, hk]
    · by_cases hv2 : kindOf v = .date
      · simp [hv2, Kind.subclass, ccSRes, ccTag]
      · simp [hv, hv2, Kind.subclass]
  · by_cases hkt : k = .datetime
    · subst hkt
      have h1 : (CastTarget.cls Kind.datetime == CastTarget.cls Kind.date) = false := by decide
      simp only [h1, BEq.rfl, if_true, Bool.false_eq_true, if_false, hS.inst, ccConv]
      by_cases hv : kindOf v = .datetime
      · simp [hv, Kind.subclass, ccSRes, ccTag]
      · simp [hv, Kind.subclass]
    · simp [hkd, hkt, ccConv]

/-- the body of the conversion loop, as it stands in `castT` (for a class target) -/
def ccStep (O : CastOracles α ε) (k : Kind) (st : List (Option α) × Bool) (ie : Nat × Option α) :
    Except Err (List (Option α) × Bool) :=
  match ie.2 with
  | none => .ok (st.1 ++ [none], true)
  | some elem =>
    match (if O.is_vector elem then O.elem_cast elem (CastTarget.cls k) else ccCaster O k elem) with
    | .error _ => .error Err.value
    | .ok converted => .ok (st.1 ++ [converted], st.2)

/-- **the conversion loop**: started anywhere (`out`, `has_none`, position `i`, remaining elements `sfx`), it ends with the
    model's `collect (mapRes (castOne …))` results appended to `out` and `has_none` raised iff a None was met — or raises
    ValueError exactly when the model's `collect` fails -/
theorem ccCastLoop_eq (kindOf : α → Kind) (O : CastOracles α ε) (hS : CastScalars kindOf O) (ρ : Oracle) (site : Nat) (k : Kind) :
    ∀ (sfx : List (Option α)) (i : Nat) (out : List (Option α)) (hn : Bool),
      (∀ j v, sfx[j]? = some (some v) →
        ρ.cast site (i + j) k (.ty (kindOf v)) = ccSRes kindOf (ccConv O.fromisoformat O.call_target k v)) →
      match collect (mapRes (castOne ρ site k) i (ccTags kindOf sfx)) with
      | .ok ts => ∃ ys, forLoop (ccStep O k) (out, hn) (enumerateFrom i sfx)
                          = .ok (out ++ ys, hn || (ccTags kindOf sfx).contains Tag.none)
                        ∧ ccTags kindOf ys = ts
      | .error _ => forLoop (ccStep O k) (out, hn) (enumerateFrom i sfx) = .error Err.value := by
  intro sfx
  induction sfx with
  | nil =>
    intro i out hn _
    exact ⟨[], by simp [forLoop, enumerateFrom], rfl⟩
  | cons x sfx ih =>
    intro i out hn hρ
    have hρ' : ∀ j v, sfx[j]? = some (some v) →
        ρ.cast site (i + 1 + j) k (.ty (kindOf v)) = ccSRes kindOf (ccConv O.fromisoformat O.call_target k v) := by
      intro j v hj
      have := hρ (j + 1) v (by simpa using hj)
      rw [← this]; congr 1; omega
    cases x with
    | none =>
      have ih' := ih (i + 1) (out ++ [none]) true hρ'
      simp only [ccTags_cons, ccTag, mapRes, if_true, collect, enumerateFrom, forLoop, ccStep]
      cases hc : collect (mapRes (castOne ρ site k) (i + 1) (ccTags kindOf sfx)) with
      | error e => rw [hc] at ih'; simpa using ih'
      | ok ts =>
        rw [hc] at ih'
        obtain ⟨ys, h1, h2⟩ := ih'
        refine ⟨none :: ys, ?_, ?_⟩
        · simp only [h1]; simp
        · simp [ccTag, h2]
    | some v =>
      have h0 := hρ 0 v rfl
      have hone := ccCaster_castOne kindOf O hS ρ site i k v (by simpa using h0)
      have hne : (Tag.ty (kindOf v) = Tag.none) = False := by simp
      simp only [ccTags_cons, ccTag, mapRes, hne, if_false, enumerateFrom, forLoop, ccStep, hS.flat]
      rw [← hone]
      cases hcv : ccCaster O k v with
      | error e => simp [ccSRes, collect]
      | ok r =>
        have ih' := ih (i + 1) (out ++ [r]) hn hρ'
        simp only [ccSRes, collect, Bool.false_eq_true, if_false]
        cases hc : collect (mapRes (castOne ρ site k) (i + 1) (ccTags kindOf sfx)) with
        | error e => rw [hc] at ih'; simpa using ih'
        | ok ts =>
          rw [hc] at ih'
          obtain ⟨ys, h1, h2⟩ := ih'
          refine ⟨r :: ys, ?_, ?_⟩
          · simp only [h1]
            simp
          · simp [h2]

/-- `castT` on a class target is the loop of `ccStep` followed by the dtype decision (unfolding only) -/
theorem castT_unfold (O : CastOracles α ε) (inf : List (Option α) → DType) (xs : List (Option α)) (d : DTypeArg)
    (n : Option String) (k : Kind) :
    castTO O inf xs d n (.cls k)
      = match forLoop (ccStep O k) ([], false) (enumerate xs) with
        | .error e => .error e
        | .ok (out, has_none) =>
          .ok { values := out, dtype := .dataType { kind := k, nullable := has_none }, name := n } := by
  unfold castTO castT ccStep ccCaster
  rfl

/-- **`v.cast(T)` for a class `T`, as translated, is the model's `cast`**: every non-None element converted in order, None
    kept, declared kind `T`, nullable iff a None was met, name kept; refused exactly when a conversion fails.
    `ρ` is any model oracle that reports the scalar conversions on this vector (`ccOracle_reports`: there is one). -/
theorem castT_eq (kindOf : α → Kind) (O : CastOracles α ε) (hS : CastScalars kindOf O) (inf : List (Option α) → DType)
    (ρ : Oracle) (site : Nat) (k : Kind) (xs : List (Option α)) (dt : Option DType) (n : Option String)
    (hρ : ∀ i v, xs[i]? = some (some v) →
      ρ.cast site i k (.ty (kindOf v)) = ccSRes kindOf (ccConv O.fromisoformat O.call_target k v)) :
    ccRes kindOf (castTO O inf xs (ccArg dt) n (.cls k)) = cast ρ site k (ccVec kindOf xs dt n) := by
  rw [castT_unfold]
  have h := ccCastLoop_eq kindOf O hS ρ site k xs 0 [] false (by intro j v hj; simpa using hρ j v hj)
  unfold X.cast enumerate
  simp only [ccVec]
  cases hc : collect (mapRes (castOne ρ site k) 0 (ccTags kindOf xs)) with
  | error e => rw [hc] at h; simp only at h; rw [h]; rfl
  | ok ts =>
    rw [hc] at h
    obtain ⟨ys, h1, h2⟩ := h
    rw [h1]
    simp [ccRes, ccBuild, ccStored, h2]

/-- a loop whose body only raises ValueError only raises ValueError -/
theorem ccForLoop_error {σ β : Type} (body : σ → β → Except Err σ) (hb : ∀ s x e, body s x = .error e → e = .value) :
    ∀ (l : List β) (s : σ) (e : Err), forLoop body s l = .error e → e = .value := by
  intro l
  induction l with
  | nil => intro s e h; cases h
  | cons x l ih =>
    intro s e h
    unfold forLoop at h
    split at h
    · exact ih _ _ h
    · rename_i e2 h2; cases h; exact hb _ _ _ h2

/-- the only exception `cast` raises (class target or callable) is ValueError -/
theorem castT_raises_value (O : CastOracles α ε) (inf : List (Option α) → DType) (xs : List (Option α)) (d : DTypeArg)
    (n : Option String) (t : CastTarget) (e : Err) (h : castTO O inf xs d n t = .error e) : e = .value := by
  unfold castTO castT at h
  simp only at h
  split at h
  · rename_i e' he
    cases h
    refine ccForLoop_error _ ?_ _ _ _ he
    intro s x e hb
    split at hb
    · cases hb
    · split at hb
      · cases hb; rfl
      · cases hb
  · cases h

/-- the oracle induced by the scalar conversions reports them (so the hypothesis of `castT_eq` is satisfiable for every vector) -/
theorem ccOracle_reports (kindOf : α → Kind) (O : CastOracles α ε) (site : Nat) (k : Kind) (xs : List (Option α)) (i : Nat)
    (v : α) (h : xs[i]? = some (some v)) :
    (ccOracle kindOf O.fromisoformat O.call_target xs).cast site i k (.ty (kindOf v))
      = ccSRes kindOf (ccConv O.fromisoformat O.call_target k v) := by
  simp [ccOracle, h]

/-- if Python's constructors return instances of their class (`int(x)` an int, `date.fromisoformat(x)` a date, …), the induced
    oracle satisfies the model's `CastSound` -/
theorem ccOracle_castSound (kindOf : α → Kind) (O : CastOracles α ε) (xs : List (Option α))
    (hc : ∀ k v r, ccConv O.fromisoformat O.call_target k v = .ok r → ∃ w, r = some w ∧ kindOf w = k) :
    CastSound (ccOracle kindOf O.fromisoformat O.call_target xs) := by
  intro s i k x t h
  simp only [ccOracle] at h
  split at h
  · rename_i v hv
    cases hr : ccConv O.fromisoformat O.call_target k v with
    | error e => rw [hr] at h; cases h
    | ok r =>
      rw [hr] at h
      obtain ⟨w, hw, hk⟩ := hc k v r hr
      subst hw
      simp only [ccSRes, ccTag, SRes.ok.injEq] at h
      rw [← h, hk]
  · cases h

/-- C03 on the translated `cast`: whatever it returns for a class target is truthful (`C03.cast_truthful` through `castT_eq`) -/
theorem castT_truthful (kindOf : α → Kind) (O : CastOracles α ε) (hS : CastScalars kindOf O) (inf : List (Option α) → DType)
    (hc : ∀ k v r, ccConv O.fromisoformat O.call_target k v = .ok r → ∃ w, r = some w ∧ kindOf w = k)
    (k : Kind) (xs : List (Option α)) (dt : Option DType) (n : Option String) (c : VectorCall (Option α))
    (h : castTO O inf xs (ccArg dt) n (.cls k) = .ok c) : (ccBuild kindOf c).truthful = true := by
  have he := castT_eq kindOf O hS inf (ccOracle kindOf O.fromisoformat O.call_target xs) 0 k xs dt n
    (fun i v hi => ccOracle_reports kindOf O 0 k xs i v hi)
  rw [h] at he
  exact C03.cast_truthful _ (ccOracle_castSound kindOf O xs hc) 0 k _ _ he.symm

/-- C18 on the translated `cast`: the name of `self` is handed to the constructor on every path that returns -/
theorem castT_keeps_name (O : CastOracles α ε) (inf : List (Option α) → DType) (xs : List (Option α)) (d : DTypeArg)
    (n : Option String) (t : CastTarget) (c : VectorCall (Option α)) (h : castTO O inf xs d n t = .ok c) : c.name = n := by
  unfold castTO castT at h
  simp only at h
  split at h
  · cases h
  · cases h; rfl

/-! ### `unique` -/

/-- `v.unique()`: both paths call `Vector(out)` — no dtype, no name: the model's leaf over the elements kept.  (The model has no
    rule for `unique` — `Op.opaque` — so this ties the constructor call only: the result is judged by truthfulness alone.) -/
theorem uniqueT_eq (kindOf : α → Kind) (out : List (Option α)) :
    ccBuild kindOf (uniqueT out) = mkVec (ccTags kindOf out) none none := rfl

/-! ### C03 restated on the translated functions -/

/-- a vector built without `dtype=` is truthful (`C03.leaf_truthful`) -/
theorem ccBuild_inferred_truthful (kindOf : α → Kind) (xs : List (Option α)) (n : Option String) :
    (ccBuild kindOf { values := xs, dtype := .none, name := n }).truthful = true :=
  C03.leaf_truthful _ n

/-- `to_object()` as translated is truthful, whatever the vector held and reported before (`C03.to_object_truthful`) -/
theorem toObjectT_truthful (kindOf : α → Kind) (xs : List (Option α)) (dt : Option DType) (n : Option String) :
    (ccBuild kindOf (toObjectT xs (ccArg dt) n)).truthful = true := by
  rw [toObjectT_eq]; exact C03.to_object_truthful _

/-- `copy()`, `copy.copy(v)`, `copy.deepcopy(v)` of a truthful vector are truthful (`C03.selection_truthful`) -/
theorem copyT_truthful (kindOf : α → Kind) (deepcopy : Option α → Option α)
    (hd : ∀ x, ccTag kindOf (deepcopy x) = ccTag kindOf x) (xs : List (Option α)) (dt : Option DType) (n : Option String)
    (ha : (ccVec kindOf xs dt n).truthful = true) :
    (ccBuild kindOf (copyT xs (ccArg dt) n none none)).truthful = true ∧
    (ccBuild kindOf (copyDunderT xs (ccArg dt) n)).truthful = true ∧
    (ccBuild kindOf (deepcopyT deepcopy xs (ccArg dt) n)).truthful = true := by
  have h := (C03.selection_truthful (ccVec kindOf xs dt n) default default ha [] [] []).1
  rw [copyT_eq, copyDunderT_eq, deepcopyT_eq kindOf deepcopy hd]
  exact ⟨h, h, h⟩

/-- `unique()` as translated is truthful -/
theorem uniqueT_truthful (kindOf : α → Kind) (out : List (Option α)) : (ccBuild kindOf (uniqueT out)).truthful = true :=
  C03.leaf_truthful _ none

/-! ### C18 restated on the translated functions -/

/-- the names the translated constructor calls carry are the names the rules prescribe: `copy`, `to_object` keep the name of
    `self` (`nameRule … .copy / .toObject`, cf. `C18.structure_keeps_name`); `copy(name=m)` carries `m`; `unique` drops it -/
theorem ccNames_eq_rule (kindOf : α → Kind) (san : String → Option String) (xs : List (Option α)) (d : DTypeArg)
    (n m : Option String) (nv : Option (List (Option α))) (deepcopy : Option α → Option α) (len : Nat) :
    Names.vec (ccBuild kindOf (copyT xs d n nv none)).name = nameRule san .copy [⟨.vec n, len⟩] ∧
    Names.vec (ccBuild kindOf (copyDunderT xs d n)).name = nameRule san .copy [⟨.vec n, len⟩] ∧
    Names.vec (ccBuild kindOf (deepcopyT deepcopy xs d n)).name = nameRule san .copy [⟨.vec n, len⟩] ∧
    Names.vec (ccBuild kindOf (toObjectT xs d n)).name = nameRule san .toObject [⟨.vec n, len⟩] ∧
    (ccBuild kindOf (copyT xs d n nv (some m))).name = m ∧
    (ccBuild kindOf (uniqueT xs)).name = none := by
  refine ⟨?_, ?_, ?_, ?_, ?_, rfl⟩ <;> cases nv <;> simp [ccBuild, mkVec, copyT, copyDunderT, deepcopyT, toObjectT, nameRule, Names.vecName]

/-- … and `cast` keeps it (`nameRule … (.cast k site)`) -/
theorem castT_name_eq_rule (kindOf : α → Kind) (san : String → Option String) (O : CastOracles α ε)
    (inf : List (Option α) → DType) (xs : List (Option α)) (d : DTypeArg) (n : Option String) (k : Kind) (site len : Nat)
    (c : VectorCall (Option α)) (h : castTO O inf xs d n (.cls k) = .ok c) :
    Names.vec (ccBuild kindOf c).name = nameRule san (.cast k site) [⟨.vec n, len⟩] := by
  have := castT_keeps_name O inf xs d n (.cls k) c h
  simp [ccBuild, mkVec, this, nameRule, Names.vecName]

/-! ### non-vacuity: the translated functions evaluated on concrete inputs -/

section examples
/-- a toy Python: a non-None value is its own class; `str` values parse as ISO dates, nothing else does; `T(x)` always works -/
def ccExIsinstance (v K : Kind) : Bool := Kind.subclass v K
def ccExDate (_ : Kind) : Except Unit (Option Kind) := .ok (some .date)
def ccExIso (K v : Kind) : Except Unit (Option Kind) := if v = .str then .ok (some K) else .error ()
def ccExCall (t : CastTarget) (_ : Kind) : Except Unit (Option Kind) :=
  match t with
  | .cls k => .ok (some k)
  | .callable _ => .ok none
def ccExNoVec (_ : Kind) : Bool := false
def ccExNested (_ : Kind) (_ : CastTarget) : Except Unit (Option Kind) := .error ()
def ccExInfer : List (Option Kind) → DType := ccInfer id

/-- the hypotheses of `castT_eq` / `castT_truthful` are satisfiable -/
def ccExO : CastOracles Kind Unit := ⟨ccExIsinstance, ccExDate, ccExIso, ccExCall, ccExNoVec, ccExNested⟩

theorem ccExScalars : CastScalars (id : Kind → Kind) ccExO :=
  ⟨fun _ _ => rfl, fun _ _ => ⟨.date, rfl, rfl⟩, fun _ => rfl⟩

theorem ccExSound : ∀ k v r, ccConv ccExIso ccExCall k v = .ok r → ∃ w, r = some w ∧ id w = k := by
  intro k v r h
  unfold ccConv ccExIso ccExCall at h
  split at h
  · split at h
    · cases h; exact ⟨_, rfl, by simp_all⟩
    · cases h
  · split at h
    · split at h
      · cases h; exact ⟨_, rfl, by simp_all⟩
      · cases h
    · cases h; exact ⟨_, rfl, rfl⟩

-- `castT_eq` / `castT_truthful` instantiated: in the toy Python, `cast(date)` as translated is the model's `cast` on every vector
example (xs : List (Option Kind)) (dt : Option DType) (n : Option String) :
    ccRes id (castTO ccExO ccExInfer xs (ccArg dt) n (.cls .date))
      = X.cast (ccOracle id ccExO.fromisoformat ccExO.call_target xs) 0 .date (ccVec id xs dt n) :=
  castT_eq id ccExO ccExScalars ccExInfer _ 0 .date xs dt n (fun i v h => ccOracle_reports id ccExO 0 .date xs i v h)
example (k : Kind) (xs : List (Option Kind)) (dt : Option DType) (n : Option String) (c : VectorCall (Option Kind))
    (h : castTO ccExO ccExInfer xs (ccArg dt) n (.cls k) = .ok c) : (ccBuild id c).truthful = true :=
  castT_truthful id ccExO ccExScalars ccExInfer ccExSound k xs dt n c h
-- cast(date): a datetime keeps its calendar day, a date passes, a str is parsed, None is kept and makes the result nullable
example : castT ccExIsinstance ccExDate ccExIso ccExCall ccExNoVec ccExNested ccExInfer
      [some .datetime, none, some .date, some .str] (.dataType ⟨.object, true⟩) (some "a") (.cls .date)
    = .ok { values := [some .date, none, some .date, some .date], dtype := .dataType ⟨.date, true⟩, name := some "a" } := by rfl
-- cast(date) of an int: refused with ValueError, at the first failing element
example : castT ccExIsinstance ccExDate ccExIso ccExCall ccExNoVec ccExNested ccExInfer
      [some .str, some .int, none] .none none (.cls .date) = .error .value := by rfl
-- cast(int): plain constructor calls; no None, so non-nullable
example : castT ccExIsinstance ccExDate ccExIso ccExCall ccExNoVec ccExNested ccExInfer
      [some .str, some .float] (.dataType ⟨.object, false⟩) none (.cls .int)
    = .ok { values := [some .int, some .int], dtype := .dataType ⟨.int, false⟩, name := none } := by rfl
-- cast(<callable>) returning None everywhere: dtype inferred from the results
example : castT ccExIsinstance ccExDate ccExIso ccExCall ccExNoVec ccExNested ccExInfer
      [some .str] .none none (.callable 0)
    = .ok { values := [none], dtype := .dataType (infer [.none]), name := none } := by rfl
-- to_object: nullable iff a None is held
example : toObjectT [some Kind.int, none] (.dataType ⟨.int, true⟩) (some "n")
    = { values := [some .int, none], dtype := .dataType ⟨.object, true⟩, name := some "n" } := by rfl
example : (toObjectT [some Kind.int] (.dataType ⟨.int, true⟩) none).dtype = .dataType ⟨.object, false⟩ := by rfl
-- copy: the four argument combinations
example : copyT [some Kind.int] (.dataType ⟨.int, false⟩) (some "a") none none
    = { values := [some .int], dtype := .dataType ⟨.int, false⟩, name := some "a" } := by rfl
example : copyT [some Kind.int] (.dataType ⟨.int, false⟩) (some "a") (some [none]) (some none)
    = { values := [none], dtype := .dataType ⟨.int, false⟩, name := none } := by rfl
example : copyT [some Kind.int] (.dataType ⟨.int, false⟩) (some "a") none (some (some "b"))
    = { values := [some .int], dtype := .dataType ⟨.int, false⟩, name := some "b" } := by rfl
-- the constructor: plain class, DataType, inference, empty input, iterator, Table exit
example : newT ccExInfer false false false false [some .int, none] (.pyType .float)
    = .instance (.dataType ⟨.float, false⟩) none := by rfl
example : newT ccExInfer false false false false [some .int, none] .none
    = .instance (.dataType ⟨.int, true⟩) none := by rfl
example : newT ccExInfer true false false false ([] : List (Option Kind)) .none = .instance .none (some []) := by rfl
example : newT ccExInfer false false true true [some .int] .none = (.table : NewResult (Option Kind)) := by rfl
example : initT (some [some Kind.int]) [] (some "x") = (some "x", [some Kind.int]) := by rfl
example : (ccConstruct ccExInfer false false false false { values := [some .str, none], dtype := .none, name := some "s" }).map
      (CCState.abs id) = some ⟨[.ty .str, .none], some ⟨.str, true⟩, some "s"⟩ := by rfl
end examples

end Serif.Tie
