/-
  Translation tie for the operator table (C05, C07): which helper each arithmetic / comparison / logical / unary dunder of `Vector` and
  `Table` calls, and which Python operation on which operand order its operator function computes -- read from the AST by
  harness/tr/optable.py and written on every run into `Serif/Gen/TranslatedOpTable.lean` (`vectorOps`, `tableOps`, the operator functions
  `vectorBinFuncT` / `vectorUnFuncT` / `tableBinFuncT` / `tableUnFuncT` as Lean terms over abstract operations `pyL s a b` = Python's
  `a <s> b` with the element / column on the left and `pyR s b a` = Python's `b <s> a` with the other operand on the left,
  `Vector.__radd__`'s own loops statement by statement, the bool guard of `Vector.__invert__`, the value part of
  `Table._table_elementwise_operation`, and who defines what).

  What the model expects is written here as `expectedVectorOps` / `expectedTableOps`: each dunder computes Python's operation of its
  name on the operands in the written order (`v.__rsub__(s)` is `s - v[i]`: the other operand on the left exactly for the reflected
  arithmetic names).  `vectorOps_rows` / `tableOps_rows` (`decide`) compare the generated tables with them row by row, in any order of
  the methods in the class body.  From a row and the helper ties of `Serif/Tie/Vec.lean` (`elementwise_eq`, `compare_eq`, `unaryCell_eq`):

    `vector_arith_dunder_eq` / `vector_arith_dunder_pointwise`    every arithmetic method, whatever its name, is the model's strict zip /
        scalar map over the per-pair rule of its row: element `i` is Python's operation on the i-th operands in the recorded order;
    `vector_binary_eq`      the method Python calls for `v <o> other` / `other <o> v` is the model's `binary py o refl` (all seven
        operators, both directions; `__radd__` through its own translated loops, `radd_eq`);
    `vector_compare_dunder_eq` / `vector_compare_dunder_pointwise`   every comparison / logical method is the model's `compare` on Python's
        operation of its row, the ELEMENT on the left (`compare_rows_element_left`: also for `__rand__`, `__ror__`, `__rxor__`, the one
        place where the written order is kept only if Python's operation commutes -- `written_order_rows`, `reflected_logical_written_order`);
    `vector_unary_dunder_eq`, `invert_eq`   the unary methods are the model's `broadcast`; `~v` is the additional definition `invertSpec`
        (the model has no `~`: logical NOT on a bool-kind vector, broadcast of Python's `~` otherwise);
    `table_scalar_eq`, `table_table_eq`, `table_unary_eq`   `Table`'s methods are the model's `tableScalar` / `tableScalarRefl` /
        `tableTable` / `tableUnary` (C05's `table_is_columnwise`, `table_reflected_is_columnwise`, `table_unary_is_columnwise` speak about those);
    `who_defines_what`      `Table` inherits the comparison / logical methods, only `_Date` redefines `__add__` / `_elementwise_compare`.

  All statements are for every scalar semantics (`pyL`, `pyR`, `py1`: arbitrary functions that may raise), every vector (any length, None
  anywhere) and every operand.  Supplementary (see Serif/Tie/Typing.lean).
-/
import Serif.Gen.TranslatedOpTable
import Serif.Gen.TranslatedVec
import Serif.Model.Vec
import Serif.Props.C05
import Serif.Tie.Vec

namespace Serif.Tie
open Serif Serif.Vec Serif.Gen.TOp Serif.Gen.TV

variable {α β γ : Type}

abbrev OpRow := String × HelperKind × OpSym × Bool

def expectedVectorOps : List OpRow := [
  ("__add__", .elementwiseOperation, .add, false),
  ("__sub__", .elementwiseOperation, .sub, false),
  ("__mul__", .elementwiseOperation, .mul, false),
  ("__truediv__", .elementwiseOperation, .truediv, false),
  ("__floordiv__", .elementwiseOperation, .floordiv, false),
  ("__mod__", .elementwiseOperation, .mod, false),
  ("__pow__", .elementwiseOperation, .pow, false),
  ("__radd__", .ownLoops, .add, true),
  ("__rsub__", .elementwiseOperation, .sub, true),
  ("__rmul__", .elementwiseOperation, .mul, true),
  ("__rtruediv__", .elementwiseOperation, .truediv, true),
  ("__rfloordiv__", .elementwiseOperation, .floordiv, true),
  ("__rmod__", .elementwiseOperation, .mod, true),
  ("__rpow__", .elementwiseOperation, .pow, true),
  ("bit_lshift", .elementwiseOperation, .lshift, false),
  ("bit_rshift", .elementwiseOperation, .rshift, false),
  ("__neg__", .unaryOperation, .neg, false),
  ("__pos__", .unaryOperation, .pos, false),
  ("__abs__", .unaryOperation, .abs, false),
  ("__invert__", .guardedUnaryOperation, .invert, false),
  ("__eq__", .elementwiseCompare, .eq, false),
  ("__ne__", .elementwiseCompare, .ne, false),
  ("__lt__", .elementwiseCompare, .lt, false),
  ("__le__", .elementwiseCompare, .le, false),
  ("__gt__", .elementwiseCompare, .gt, false),
  ("__ge__", .elementwiseCompare, .ge, false),
  ("__and__", .elementwiseCompare, .and_, false),
  ("__or__", .elementwiseCompare, .or_, false),
  ("__xor__", .elementwiseCompare, .xor, false),
  ("__rand__", .elementwiseCompare, .and_, false),
  ("__ror__", .elementwiseCompare, .or_, false),
  ("__rxor__", .elementwiseCompare, .xor, false)]

theorem lookup_some_mem {V : Type} {l : List (String × V)} {n : String} {v : V} (h : l.lookup n = some v) : (n, v) ∈ l := by
  induction l with
  | nil => simp [List.lookup] at h
  | cons p ps ih =>
    obtain ⟨k, w⟩ := p
    by_cases hk : n = k
    · subst hk
      simp [List.lookup] at h
      subst h
      exact List.mem_cons_self
    · have : (n == k) = false := by simpa using hk
      simp only [List.lookup, this] at h
      exact List.mem_cons_of_mem _ (ih h)

theorem lookup_ext {V : Type} {a b : List (String × V)} (h1 : ∀ r ∈ a, b.lookup r.1 = some r.2)
    (h2 : ∀ r ∈ b, a.lookup r.1 = some r.2) (n : String) : a.lookup n = b.lookup n := by
  cases ha : a.lookup n with
  | some v => exact (h1 _ (lookup_some_mem ha)).symm
  | none =>
    cases hb : b.lookup n with
    | none => rfl
    | some v => have := h2 _ (lookup_some_mem hb); simp only [ha] at this; cases this

theorem vectorOps_rows : (∀ r ∈ vectorOps, expectedVectorOps.lookup r.1 = some r.2) ∧
    (∀ r ∈ expectedVectorOps, vectorOps.lookup r.1 = some r.2) := by decide

def orient (pyL : OpSym → α → β → Res γ) (pyR : OpSym → β → α → Res γ) (s : OpSym) (refl : Bool) : α → β → Res γ :=
  if refl then fun a b => pyR s b a else pyL s

theorem vectorBinFunc_of_row (pyL : OpSym → α → β → Res γ) (pyR : OpSym → β → α → Res γ) :
    ∀ r ∈ vectorOps, (r.2.1 = .elementwiseOperation ∨ r.2.1 = .elementwiseCompare) →
      vectorBinFuncT pyL pyR r.1 = some (orient pyL pyR r.2.2.1 r.2.2.2) := by
  simp only [vectorOps, List.forall_mem_cons]
  repeat' apply And.intro
  all_goals first
    | (intro _; rfl)
    | (intro hk; rcases hk with hk | hk <;> cases hk)
    | (intro r hr; cases hr)

theorem vectorUnFunc_of_row (py1 : OpSym → α → Res γ) :
    ∀ r ∈ vectorOps, (r.2.1 = .unaryOperation ∨ r.2.1 = .guardedUnaryOperation) →
      vectorUnFuncT py1 r.1 = some (py1 r.2.2.1) := by
  simp only [vectorOps, List.forall_mem_cons]
  repeat' apply And.intro
  all_goals first
    | (intro _; rfl)
    | (intro hk; rcases hk with hk | hk <;> cases hk)
    | (intro r hr; cases hr)

theorem tableBinFunc_of_row (pyL : OpSym → α → β → Res γ) (pyR : OpSym → β → α → Res γ) :
    ∀ r ∈ tableOps, r.2.1 = .tableElementwiseOperation →
      tableBinFuncT pyL pyR r.1 = some (orient pyL pyR r.2.2.1 r.2.2.2) := by
  simp only [tableOps, List.forall_mem_cons]
  repeat' apply And.intro
  all_goals first
    | (intro _; rfl)
    | (intro hk; exact absurd hk (by decide))
    | (intro r hr; cases hr)

theorem tableUnFunc_of_row (py1 : OpSym → α → Res γ) :
    ∀ r ∈ tableOps, r.2.1 = .perColumn → tableUnFuncT py1 r.1 = some (py1 r.2.2.1) := by
  simp only [tableOps, List.forall_mem_cons]
  repeat' apply And.intro
  all_goals first
    | (intro _; rfl)
    | (intro hk; exact absurd hk (by decide))
    | (intro r hr; cases hr)

/-! ### the loops and the helpers as translated -/

theorem zipAppendT_eq_zipCells {ρ : Type} (f : Option α → Option β → Res ρ) (xs : Col α) (ys : Col β) :
    zipAppendT f xs ys = zipCells f xs ys := by
  induction xs generalizing ys with
  | nil => cases ys <;> rfl
  | cons x xs ih =>
    cases ys with
    | nil => rfl
    | cons y ys =>
      simp only [zipAppendT, zipCells, ih]
      cases f x y with
      | error e => rfl
      | ok c => cases zipCells f xs ys <;> rfl

theorem forAppendT_eq_mapRes {ε ρ : Type} (f : ε → Res ρ) (l : List ε) : forAppendT f l = mapRes f l := by
  induction l with
  | nil => rfl
  | cons a as ih =>
    simp only [forAppendT, mapRes, ih]
    cases f a with
    | error e => rfl
    | ok c => cases mapRes f as <;> rfl

/-- `Vector._elementwise_operation` on a 1-D `self` as translated in `Serif/Gen/TranslatedVec.lean` (the left side of `elementwise_eq`) -/
def arithHelperT (f : α → β → Res γ) (xs : Col α) (o : Operand β) : Res (Col γ) :=
  arithBranchesT (match o with | .vec _ _ => true | _ => false) (match o with | .seq _ => true | _ => false)
    xs.length ((o.len?).getD 0)
    (match o with | .vec ys _ => zipCells (arithCellVecT f) xs ys | _ => .error .other)
    (match o with | .seq ys => zipCells (arithCellSeqT f) xs ys | _ => .error .other)
    (match o with | .scalar s => mapRes (arithCellScalarT f s) xs | _ => .error .other)

theorem arithHelperT_eq (f : α → β → Res γ) (xs : Col α) (o : Operand β) : arithHelperT f xs o = apply (cell f) xs o :=
  elementwise_eq f xs o

/-- `Vector._elementwise_compare` on a 1-D `self` as translated (the left side of `compare_eq`) -/
def cmpHelperT (f : α → β → Res Bool) (xs : Col α) (o : Operand β) : Res (List Bool) :=
  cmpBranchesT (match o with | .vec _ _ => true | _ => false) (match o with | .seq _ => true | _ => false)
    xs.length ((o.len?).getD 0)
    (match o with | .vec ys _ => zipCells (cmpCellVecT f) xs ys | _ => .error .other)
    (match o with | .seq ys => zipCells (cmpCellSeqT f) xs ys | _ => .error .other)
    (match o with | .scalar s => mapRes (cmpCellScalarT f s) xs | _ => .error .other)

theorem cmpHelperT_eq (f : α → β → Res Bool) (xs : Col α) (o : Operand β) : cmpHelperT f xs o = apply (cmpCell f) xs o :=
  compare_eq f xs o

/-- `Vector._unary_operation` as translated: `tuple(<unaryCellT> for x in self)` -/
def unaryHelperT (f : α → Res γ) (xs : Col α) : Res (Col γ) := mapRes (unaryCellT f) xs

theorem unaryHelperT_eq (f : α → Res γ) (xs : Col α) : unaryHelperT f xs = broadcast f xs := by
  have h : unaryCellT f = cell1 f := funext (unaryCell_eq f)
  unfold unaryHelperT broadcast
  rw [h]

/-- how `Vector.__radd__`'s `isinstance` tests answer for an operand of the model: a `Vector` takes the first branch whatever the
    others say; a `seq` is an iterable that is not str / bytes / bytearray; a `scalar` is everything else -/
def FlagsOk : Operand β → Bool → Bool → Prop
  | .vec _ _, _, _ => True
  | .seq _, it, tx => it = true ∧ tx = false
  | .scalar _, it, tx => (!it || tx) = true

/-- `Vector.__radd__` as translated: the branch structure over the three loops (`zip(other, self, strict=True)`: the OTHER operand's
    elements are the first argument of the step, which the types enforce) -/
def raddRunT (pyL : OpSym → α → β → Res γ) (pyR : OpSym → β → α → Res γ) (xs : Col α) (o : Operand β) (it tx : Bool) : Res (Col γ) :=
  raddBranchesT (match o with | .vec _ _ => true | _ => false) it tx xs.length ((o.len?).getD 0)
    (match o with | .vec ys _ => zipAppendT (raddVecStepT pyL pyR) ys xs | _ => .error .other)
    (match o with | .scalar s => forAppendT (raddScalarStepT pyL pyR s) xs | _ => .error .other)
    (match o with | .seq ys => zipAppendT (raddSeqStepT pyL pyR) ys xs | _ => .error .other)

theorem raddVecStep_eq (pyL : OpSym → α → β → Res γ) (pyR : OpSym → β → α → Res γ) :
    raddVecStepT pyL pyR = cell (pyR .add) := by
  funext x y; cases x <;> cases y <;> rfl

theorem raddSeqStep_eq (pyL : OpSym → α → β → Res γ) (pyR : OpSym → β → α → Res γ) :
    raddSeqStepT pyL pyR = cell (pyR .add) := by
  funext x y; cases x <;> cases y <;> rfl

theorem raddScalarStep_eq (pyL : OpSym → α → β → Res γ) (pyR : OpSym → β → α → Res γ) (s : β) :
    raddScalarStepT pyL pyR s = fun x => cell (pyR .add) (some s) x := by
  funext x; cases x <;> rfl

/-- **`Vector.__radd__` translated statement by statement is the model's `radd`** with Python's `+` in the written order
    (`other`'s element on the left), for every `+` (which may raise), every vector and every operand -/
theorem radd_eq (pyL : OpSym → α → β → Res γ) (pyR : OpSym → β → α → Res γ) (xs : Col α) (o : Operand β) (it tx : Bool)
    (hf : FlagsOk o it tx) : raddRunT pyL pyR xs o it tx = radd (pyR .add) xs o := by
  cases o with
  | vec ys d =>
    simp [raddRunT, raddBranchesT, radd, Operand.len?, raddVecStep_eq, zipAppendT_eq_zipCells]
  | seq ys =>
    obtain ⟨h1, h2⟩ := hf
    subst h1; subst h2
    simp [raddRunT, raddBranchesT, radd, Operand.len?, raddSeqStep_eq, zipAppendT_eq_zipCells]
  | scalar s =>
    have hf' : (!it || tx) = true := hf
    simp [raddRunT, raddBranchesT, radd, hf', raddScalarStep_eq, forAppendT_eq_mapRes]

/-! ### every arithmetic dunder of `Vector`, by its row -/

theorem vectorOps_lookup (n : String) : vectorOps.lookup n = expectedVectorOps.lookup n :=
  lookup_ext vectorOps_rows.1 vectorOps_rows.2 n

/-- the only method with loops of its own is `__radd__`, and they compute `other + element` -/
theorem ownLoops_row : ∀ r ∈ vectorOps, r.2.1 = .ownLoops → r = ("__radd__", .ownLoops, .add, true) := by decide

theorem raddZip_other_first : raddZipOtherFirst = (true, true) := by decide

/-- the per-pair rule of a row: the element `x` of the vector and the element `y` of the other operand, Python's operation applied
    in the operand order the row records -/
theorem cell_orient (pyL : OpSym → α → β → Res γ) (pyR : OpSym → β → α → Res γ) (s : OpSym) (refl : Bool) :
    cell (orient pyL pyR s refl) = fun x y => if refl then cell (pyR s) y x else cell (pyL s) x y := by
  funext x y
  cases refl with
  | false => rfl
  | true => exact cell_rev (pyR s) x y

/-- run an arithmetic method of `Vector` (1-D `self`) as the generated table and terms say: the translated helper
    `_elementwise_operation` on the translated operator function, or `__radd__`'s own translated loops -/
def vectorArithT (pyL : OpSym → α → β → Res γ) (pyR : OpSym → β → α → Res γ) (name : String) (xs : Col α) (o : Operand β)
    (it tx : Bool) : Option (Res (Col γ)) :=
  match vectorOps.lookup name with
  | some (.elementwiseOperation, _, _) => (vectorBinFuncT pyL pyR name).map (fun f => arithHelperT f xs o)
  | some (.ownLoops, _, _) => some (raddRunT pyL pyR xs o it tx)
  | _ => none

/-- **every arithmetic method of the table, whatever its name**: it is the strict zip / scalar map of the model (`apply`) over the
    per-pair rule of its row -/
theorem vector_arith_dunder_eq (pyL : OpSym → α → β → Res γ) (pyR : OpSym → β → α → Res γ) {name : String} {helper : HelperKind}
    {sym : OpSym} {refl : Bool} (h : vectorOps.lookup name = some (helper, sym, refl))
    (hk : helper = .elementwiseOperation ∨ helper = .ownLoops) (xs : Col α) (o : Operand β) (it tx : Bool) (hf : FlagsOk o it tx) :
    vectorArithT pyL pyR name xs o it tx = some (apply (cell (orient pyL pyR sym refl)) xs o) := by
  have hm := lookup_some_mem h
  rcases hk with rfl | rfl
  · have hfn := vectorBinFunc_of_row pyL pyR _ hm (Or.inl rfl)
    simp only [vectorArithT, h, hfn, Option.map, arithHelperT_eq]
  · have hr := ownLoops_row _ hm rfl
    simp only [Prod.mk.injEq] at hr
    obtain ⟨rfl, -, rfl, rfl⟩ := hr
    simp only [vectorArithT, h, radd_eq pyL pyR xs o it tx hf, radd_eq_apply, cell_orient]
    rfl

/-- … and so element `i` of its result is Python's operation of the row on the i-th operands, the OTHER operand on the left exactly when
    the row says so; None gives None -/
theorem vector_arith_dunder_pointwise (pyL : OpSym → α → β → Res γ) (pyR : OpSym → β → α → Res γ) {name : String}
    {helper : HelperKind} {sym : OpSym} {refl : Bool} (h : vectorOps.lookup name = some (helper, sym, refl))
    (hk : helper = .elementwiseOperation ∨ helper = .ownLoops) {xs : Col α} {o : Operand β} {it tx : Bool} (hf : FlagsOk o it tx)
    {r : Col γ} (hrun : vectorArithT pyL pyR name xs o it tx = some (.ok r)) {i : Nat} {x : Option α} (hx : xs[i]? = some x) :
    ∃ y c, o.get? i = some y ∧ r[i]? = some c ∧
      (if refl then IsCellOf (pyR sym) y x c else IsCellOf (pyL sym) x y c) := by
  rw [vector_arith_dunder_eq pyL pyR h hk xs o it tx hf, cell_orient] at hrun
  have hrun' := Option.some.inj hrun
  obtain ⟨y, c, hy, hc, hr⟩ := apply_ok_get hrun' hx
  refine ⟨y, c, hy, hr, ?_⟩
  cases refl with
  | true => exact cell_ok_iff.mp hc
  | false => exact cell_ok_iff.mp hc

/-! ### against the model's `binary` (C05): the name Python calls is the row the model expects -/

/-- the method Python's data model calls for `v <o> other` (`refl = false`) and for `other <o> v` when `other` does not answer
    (`refl = true`) -/
def dunderName : BinOp → Bool → String
  | .add, false => "__add__" | .sub, false => "__sub__" | .mul, false => "__mul__" | .truediv, false => "__truediv__"
  | .floordiv, false => "__floordiv__" | .mod, false => "__mod__" | .pow, false => "__pow__"
  | .add, true => "__radd__" | .sub, true => "__rsub__" | .mul, true => "__rmul__" | .truediv, true => "__rtruediv__"
  | .floordiv, true => "__rfloordiv__" | .mod, true => "__rmod__" | .pow, true => "__rpow__"

/-- the model's operator symbols among the translator's -/
def symOf : BinOp → OpSym
  | .add => .add | .sub => .sub | .mul => .mul | .truediv => .truediv | .floordiv => .floordiv | .mod => .mod | .pow => .pow

def binOf : OpSym → Option BinOp
  | .add => some .add | .sub => some .sub | .mul => some .mul | .truediv => some .truediv | .floordiv => some .floordiv
  | .mod => some .mod | .pow => some .pow | _ => none

/-- Python's scalar semantics of the model (`py o a b` = `a <o> b`) as the oracle of the translated terms -/
def pyOf {ρ : Type} (py : BinOp → α → β → Res ρ) : OpSym → α → β → Res ρ :=
  fun s a b => match binOf s with
    | some o => py o a b
    | none => .error .other

theorem pyOf_symOf {ρ : Type} (py : BinOp → α → β → Res ρ) (o : BinOp) : pyOf py (symOf o) = py o := by
  cases o <;> rfl

/-- what the model expects of the table: the method named for `<o>` hands Python's `<o>` to `_elementwise_operation` (or, `__radd__`,
    loops itself), the other operand on the left exactly for the reflected names -/
theorem expected_binary_row (o : BinOp) (refl : Bool) :
    ∃ helper, expectedVectorOps.lookup (dunderName o refl) = some (helper, symOf o, refl) ∧
      (helper = .elementwiseOperation ∨ helper = .ownLoops) := by
  cases o <;> cases refl <;> first
    | exact ⟨.elementwiseOperation, by decide, Or.inl rfl⟩
    | exact ⟨.ownLoops, by decide, Or.inr rfl⟩

/-- **`v <o> other` and `other <o> v` as the source spells them (table row, operator function, helper) are the model's `binary`**, for
    all seven operators, both directions, every scalar semantics, every vector and every operand -/
theorem vector_binary_eq (py : BinOp → α → α → Res α) (o : BinOp) (refl : Bool) (xs : Col α) (other : Operand α) (it tx : Bool)
    (hf : FlagsOk other it tx) :
    vectorArithT (pyOf py) (pyOf py) (dunderName o refl) xs other it tx = some (binary py o refl xs other) := by
  obtain ⟨helper, hrow, hk⟩ := expected_binary_row o refl
  rw [← vectorOps_lookup] at hrow
  rw [vector_arith_dunder_eq (pyOf py) (pyOf py) hrow hk xs other it tx hf, cell_orient, pyOf_symOf, binary_eq_apply]

/-! ### comparisons and logical operators (C07) -/

/-- run a comparison / logical method of `Vector` (1-D `self`): the translated `_elementwise_compare` on the translated operator
    function, the result wrapped as a non-nullable bool vector; `pyL s a b` is `bool(a <s> b)` -/
def vectorCompareT (pyL : OpSym → α → β → Res Bool) (pyR : OpSym → β → α → Res Bool) (name : String) (xs : Col α) (o : Operand β) :
    Option (Res BoolVec) :=
  match vectorOps.lookup name with
  | some (.elementwiseCompare, _, _) => (vectorBinFuncT pyL pyR name).map (fun f => toBoolVec (cmpHelperT f xs o))
  | _ => none

/-- every comparison / logical method applies Python's operation with the vector's ELEMENT on the left -- also `__rand__`, `__ror__`,
    `__rxor__`, which Python calls for `other & v`: they compute `bool(element & other)`, not `bool(other & element)` (the same value
    wherever the elements' `&`, `|`, `^` commute, as they do for bool and int) -/
theorem compare_rows_element_left : ∀ r ∈ vectorOps, r.2.1 = .elementwiseCompare → r.2.2.2 = false := by decide

/-- **every comparison / logical method of the table is the model's `compare`** on Python's operation of its row, the element on the left -/
theorem vector_compare_dunder_eq (pyL : OpSym → α → β → Res Bool) (pyR : OpSym → β → α → Res Bool) {name : String} {sym : OpSym}
    {refl : Bool} (h : vectorOps.lookup name = some (.elementwiseCompare, sym, refl)) (xs : Col α) (o : Operand β) :
    vectorCompareT pyL pyR name xs o = some (compare (pyL sym) xs o) := by
  have hm := lookup_some_mem h
  have hfn := vectorBinFunc_of_row pyL pyR _ hm (Or.inr rfl)
  have hrefl : refl = false := compare_rows_element_left _ hm rfl
  subst hrefl
  simp only [vectorCompareT, h, hfn, Option.map, cmpHelperT_eq, orient]
  rfl

/-- … element `i` of the mask is Python's own `bool(x <sym> y)` on the i-th operands, False where either is None -/
theorem vector_compare_dunder_pointwise (pyL : OpSym → α → β → Res Bool) (pyR : OpSym → β → α → Res Bool) {name : String} {sym : OpSym}
    {refl : Bool} (h : vectorOps.lookup name = some (.elementwiseCompare, sym, refl)) {xs : Col α} {o : Operand β} {r : BoolVec}
    (hrun : vectorCompareT pyL pyR name xs o = some (.ok r)) :
    r.dtype = boolDType ∧
    ∀ (i : Nat) (x : Option α), xs[i]? = some x → ∃ y b, o.get? i = some y ∧ r.data[i]? = some b ∧ cmpCell (pyL sym) x y = .ok b := by
  rw [vector_compare_dunder_eq pyL pyR h xs o] at hrun
  have hrun' := Option.some.inj hrun
  unfold Vec.compare at hrun'
  cases hz : apply (cmpCell (pyL sym)) xs o with
  | error e => rw [hz] at hrun'; cases hrun'
  | ok bs =>
    rw [hz] at hrun'
    simp only [toBoolVec, Except.ok.injEq] at hrun'
    subst hrun'
    refine ⟨rfl, fun i x hx => ?_⟩
    obtain ⟨y, c, hy, hc, hr⟩ := apply_ok_get hz hx
    exact ⟨y, c, hy, hr, hc⟩

/-- the names of the table that Python calls with the operands swapped -/
def reflectedNames : List String :=
  ["__radd__", "__rsub__", "__rmul__", "__rtruediv__", "__rfloordiv__", "__rmod__", "__rpow__", "__rand__", "__ror__", "__rxor__"]

/-- the written operand order: every row but the three reflected logical ones puts the other operand on the left exactly when its
    name is a reflected one -/
theorem written_order_rows :
    ∀ r ∈ vectorOps, r.1 ∉ ["__rand__", "__ror__", "__rxor__"] → r.2.2.2 = reflectedNames.contains r.1 := by decide

/-- for the three reflected logical methods the written order (`other & element`) is what is computed whenever Python's operation
    commutes on the operands -/
theorem reflected_logical_written_order (py : OpSym → α → α → Res Bool) (sym : OpSym) (hc : ∀ a b, py sym a b = py sym b a)
    (xs : Col α) (o : Operand α) : compare (py sym) xs o = compare (fun a b => py sym b a) xs o := by
  have : py sym = fun a b => py sym b a := by funext a b; exact hc a b
  rw [← this]

/-! ### unary operators -/

/-- run a unary method of `Vector` through the translated `_unary_operation` (for `__invert__`: when its guard does not fire) -/
def vectorUnaryT (py1 : OpSym → α → Res γ) (name : String) (xs : Col α) : Option (Res (Col γ)) :=
  match vectorOps.lookup name with
  | some (.unaryOperation, _, _) => (vectorUnFuncT py1 name).map (fun f => unaryHelperT f xs)
  | some (.guardedUnaryOperation, _, _) => (vectorUnFuncT py1 name).map (fun f => unaryHelperT f xs)
  | _ => none

/-- **every unary method of the table is the model's `broadcast`** of Python's unary operation of its row -/
theorem vector_unary_dunder_eq (py1 : OpSym → α → Res γ) {name : String} {helper : HelperKind} {sym : OpSym} {refl : Bool}
    (h : vectorOps.lookup name = some (helper, sym, refl)) (hk : helper = .unaryOperation ∨ helper = .guardedUnaryOperation)
    (xs : Col α) : vectorUnaryT py1 name xs = some (broadcast (py1 sym) xs) := by
  have hm := lookup_some_mem h
  have hfn := vectorUnFunc_of_row py1 _ hm hk
  rcases hk with rfl | rfl <;> simp only [vectorUnaryT, h, hfn, Option.map, unaryHelperT_eq]

/-- the rows of `-v`, `+v`, `abs(v)`, `~v` -/
theorem unary_rows : vectorOps.lookup "__neg__" = some (.unaryOperation, .neg, false) ∧
    vectorOps.lookup "__pos__" = some (.unaryOperation, .pos, false) ∧
    vectorOps.lookup "__abs__" = some (.unaryOperation, .abs, false) ∧
    vectorOps.lookup "__invert__" = some (.guardedUnaryOperation, .invert, false) := by decide

/-- additional definition (the model has no `~`): `~v` is the logical NOT (`not x`, None included, non-nullable bool) on a vector whose
    dtype is of kind bool, and the broadcast of Python's `~` otherwise -/
def invertSpec (py_not : Option α → Bool) (inv : α → Res γ) (v : Vec α) : BoolVec ⊕ Res (Col γ) :=
  if kindIs v.dtype .bool then .inl { data := v.data.map py_not, dtype := boolDType } else .inr (broadcast inv v.data)

/-- `Vector.__invert__` as translated: the guard, the guarded answer, else the row's `_unary_operation` -/
def vectorInvertT (truthy_dtype : DType → Bool) (py_not : Option α → Bool) (py1 : OpSym → α → Res γ) (v : Vec α) :
    Option (BoolVec ⊕ Res (Col γ)) :=
  if invertGuardT truthy_dtype v.dtype then
    some (.inl { data := (invertNotT py_not v.data).1, dtype := (invertNotT py_not v.data).2 })
  else (vectorUnaryT py1 "__invert__" v.data).map .inr

theorem invert_eq (truthy_dtype : DType → Bool) (ht : ∀ d, truthy_dtype d = true) (py_not : Option α → Bool)
    (py1 : OpSym → α → Res γ) (v : Vec α) :
    vectorInvertT truthy_dtype py_not py1 v = some (invertSpec py_not (py1 .invert) v) := by
  have hg : invertGuardT truthy_dtype v.dtype = kindIs v.dtype .bool := by
    unfold invertGuardT kindIs
    cases v.dtype with
    | none => rfl
    | some d => simp [ht]
  unfold vectorInvertT invertSpec
  rw [hg, vector_unary_dunder_eq py1 unary_rows.2.2.2 (Or.inr rfl)]
  cases kindIs v.dtype .bool <;> rfl

/-! ### `Table` -/

def expectedTableOps : List OpRow := [
  ("__add__", .tableElementwiseOperation, .add, false),
  ("__sub__", .tableElementwiseOperation, .sub, false),
  ("__mul__", .tableElementwiseOperation, .mul, false),
  ("__truediv__", .tableElementwiseOperation, .truediv, false),
  ("__floordiv__", .tableElementwiseOperation, .floordiv, false),
  ("__mod__", .tableElementwiseOperation, .mod, false),
  ("__pow__", .tableElementwiseOperation, .pow, false),
  ("__radd__", .tableElementwiseOperation, .add, true),
  ("__rsub__", .tableElementwiseOperation, .sub, true),
  ("__rmul__", .tableElementwiseOperation, .mul, true),
  ("__rtruediv__", .tableElementwiseOperation, .truediv, true),
  ("__rfloordiv__", .tableElementwiseOperation, .floordiv, true),
  ("__rmod__", .tableElementwiseOperation, .mod, true),
  ("__rpow__", .tableElementwiseOperation, .pow, true),
  ("__neg__", .perColumn, .neg, false),
  ("__pos__", .perColumn, .pos, false),
  ("__abs__", .perColumn, .abs, false),
  ("__invert__", .perColumn, .invert, false)]

theorem tableOps_rows : (∀ r ∈ tableOps, expectedTableOps.lookup r.1 = some r.2) ∧
    (∀ r ∈ expectedTableOps, tableOps.lookup r.1 = some r.2) := by decide

theorem tableOps_lookup (n : String) : tableOps.lookup n = expectedTableOps.lookup n :=
  lookup_ext tableOps_rows.1 tableOps_rows.2 n

/-- who defines what: `Table` inherits the comparison / logical methods (and redefines their helper `_elementwise_compare`, C07's
    table comparisons), the other classes define only `_Date.__add__` and `_Date._elementwise_compare` (tied in `Serif/Tie/DateOps.lean`),
    `<<` / `>>` / `@` have bodies of their own -/
theorem who_defines_what :
    tableHelperOverrides = ["_elementwise_compare"] ∧ subclassDunders = [("_Date", "__add__")] ∧
    subclassHelperOverrides = [("_Date", "_elementwise_compare")] ∧
    vectorHelpers = ["_elementwise_operation", "_elementwise_compare", "_unary_operation"] ∧
    (∀ n ∈ vectorOwnBodies ++ tableOwnBodies, n ∈ ["__lshift__", "__rshift__", "__rlshift__", "__rrshift__", "__matmul__", "__rmatmul__"]) ∧
    (∀ r ∈ expectedTableOps, r.1 ∉ tableInherited) ∧
    (∀ n ∈ ["__eq__", "__ne__", "__lt__", "__le__", "__gt__", "__ge__", "__and__", "__or__", "__xor__", "__rand__", "__ror__", "__rxor__"],
      n ∈ tableInherited) := by decide

/-- run `table <o> other` / `other <o> table` for a non-Table operand: the translated scalar branch of `_table_elementwise_operation`
    on the translated operator function; `pyL s col o` is Python's `col <s> o`, `pyR s o col` is Python's `o <s> col` -/
def tableArithT {C O R : Type} (pyL : OpSym → C → O → Res R) (pyR : OpSym → O → C → Res R) (name : String) (cols : List C) (other : O) :
    Option (Res (List R)) :=
  match tableOps.lookup name with
  | some (.tableElementwiseOperation, _, _) => (tableBinFuncT pyL pyR name).map (fun f => tableScalarBranchT f cols other)
  | _ => none

/-- `table <o> table`: the translated Table branch (width check, then column by column) -/
def tableTableT {C R : Type} (pyL : OpSym → C → C → Res R) (pyR : OpSym → C → C → Res R) (name : String) (a b : List C) :
    Option (Res (List R)) :=
  match tableOps.lookup name with
  | some (.tableElementwiseOperation, _, _) => (tableBinFuncT pyL pyR name).map (fun f => tableTableBranchT f a b)
  | _ => none

theorem table_arith_dunder_eq {C O R : Type} (pyL : OpSym → C → O → Res R) (pyR : OpSym → O → C → Res R) {name : String} {sym : OpSym}
    {refl : Bool} (h : tableOps.lookup name = some (.tableElementwiseOperation, sym, refl)) (cols : List C) (other : O) :
    tableArithT pyL pyR name cols other = some (mapRes (fun c => orient pyL pyR sym refl c other) cols) := by
  have hfn := tableBinFunc_of_row pyL pyR _ (lookup_some_mem h) rfl
  simp only [tableArithT, h, hfn, Option.map, tableScalarBranchT, forAppendT_eq_mapRes]

theorem table_table_dunder_eq {C R : Type} (pyL : OpSym → C → C → Res R) (pyR : OpSym → C → C → Res R) {name : String} {sym : OpSym}
    {refl : Bool} (h : tableOps.lookup name = some (.tableElementwiseOperation, sym, refl)) (a b : List C) :
    tableTableT pyL pyR name a b =
      some (if a.length ≠ b.length then .error .value else mapRes (fun p => orient pyL pyR sym refl p.1 p.2) (a.zip b)) := by
  have hfn := tableBinFunc_of_row pyL pyR _ (lookup_some_mem h) rfl
  simp only [tableTableT, h, hfn, Option.map, tableTableBranchT, forAppendT_eq_mapRes]
  by_cases hl : a.length = b.length <;> simp [hl]

theorem expected_table_row (o : BinOp) (refl : Bool) :
    expectedTableOps.lookup (dunderName o refl) = some (.tableElementwiseOperation, symOf o, refl) := by
  cases o <;> cases refl <;> decide

/-- Python's `col <o> other` / `other <o> col` on a column, as the model has it (`vectorBinary`, class dispatch included) -/
def colL (S : Sem α) : OpSym → Vec α → Operand α → Res (Col α) :=
  pyOf (fun o c other => vectorBinary S o false c other)
def colR (S : Sem α) : OpSym → Operand α → Vec α → Res (Col α) :=
  pyOf (fun o other c => vectorBinary S o true c other)

/-- **`table <o> other` and `other <o> table` as the source spells them are the model's `tableScalar` / `tableScalarRefl`** -/
theorem table_scalar_eq (S : Sem α) (o : BinOp) (refl : Bool) (cols : List (Vec α)) (other : Operand α) :
    tableArithT (colL S) (colR S) (dunderName o refl) cols other =
      some (if refl then tableScalarRefl S o cols other else tableScalar S o cols other) := by
  have hrow := expected_table_row o refl
  rw [← tableOps_lookup] at hrow
  rw [table_arith_dunder_eq (colL S) (colR S) hrow]
  cases refl with
  | false => simp only [orient, colL, pyOf_symOf]; rfl
  | true => simp only [orient, colR, pyOf_symOf]; rfl

/-- **`table <o> table` as the source spells it is the model's `tableTable`** -/
theorem table_table_eq (S : Sem α) (o : BinOp) (a b : List (Vec α)) :
    tableTableT (pyOf (fun o (c d : Vec α) => vectorBinary S o false c (.vec d.data d.dtype)))
      (pyOf (fun o (d c : Vec α) => vectorBinary S o true c (.vec d.data d.dtype))) (dunderName o false) a b =
      some (tableTable S o a b) := by
  have hrow := expected_table_row o false
  rw [← tableOps_lookup] at hrow
  rw [table_table_dunder_eq _ _ hrow]
  simp only [orient, pyOf_symOf, tableTable]
  rfl

/-- run `-table`, `+table`, `abs(table)`, `~table`: `Table(tuple(<op> col for col in self.cols()))` -/
def tableUnaryT {C R : Type} (py1 : OpSym → C → Res R) (name : String) (cols : List C) : Option (Res (List R)) :=
  match tableOps.lookup name with
  | some (.perColumn, _, _) => (tableUnFuncT py1 name).map (fun f => forAppendT f cols)
  | _ => none

theorem table_unary_dunder_eq {C R : Type} (py1 : OpSym → C → Res R) {name : String} {sym : OpSym} {refl : Bool}
    (h : tableOps.lookup name = some (.perColumn, sym, refl)) (cols : List C) :
    tableUnaryT py1 name cols = some (mapRes (py1 sym) cols) := by
  have hfn := tableUnFunc_of_row py1 _ (lookup_some_mem h) rfl
  simp only [tableUnaryT, h, hfn, Option.map, forAppendT_eq_mapRes]

/-- **`-table`, `+table`, `abs(table)` are the model's `tableUnary`**: the column operation is the vector method of the same name,
    which `vector_unary_dunder_eq` ties to `broadcast` -/
theorem table_unary_eq (f : OpSym → α → Res γ) {name : String} {sym : OpSym} {refl : Bool}
    (h : tableOps.lookup name = some (.perColumn, sym, refl)) (hv : vectorOps.lookup name = some (.unaryOperation, sym, refl))
    (cols : List (Vec α)) :
    tableUnaryT (fun _ (c : Vec α) => (vectorUnaryT f name c.data).getD (.error .other)) name cols = some (tableUnary (f sym) cols) := by
  rw [table_unary_dunder_eq _ h]
  have : (fun (c : Vec α) => (vectorUnaryT f name c.data).getD (.error .other)) = fun c => broadcast (f sym) c.data := by
    funext c
    rw [vector_unary_dunder_eq f hv (Or.inl rfl)]
    rfl
  rw [this]
  rfl

/-- the three per-column rows that have a plain vector method behind them -/
theorem table_unary_rows : ∀ p ∈ [("__neg__", OpSym.neg), ("__pos__", OpSym.pos), ("__abs__", OpSym.abs)],
    tableOps.lookup p.1 = some (.perColumn, p.2, false) ∧ vectorOps.lookup p.1 = some (.unaryOperation, p.2, false) := by decide

/-! ### non-vacuity: the translated definitions evaluated -/

/-- a small scalar semantics on `Int` (division raises on zero, everything unknown is a TypeError) -/
def demoPy : OpSym → Int → Int → Res Int
  | .add, a, b => .ok (a + b)
  | .sub, a, b => .ok (a - b)
  | .mul, a, b => .ok (a * b)
  | .floordiv, a, b => if b = 0 then .error .other else .ok (a / b)
  | _, _, _ => .error .type

def demoCmp : OpSym → Int → Int → Res Bool
  | .lt, a, b => .ok (decide (a < b))
  | .eq, a, b => .ok (decide (a = b))
  | .and_, a, b => .ok (decide (a ≠ 0 ∧ b ≠ 0))
  | _, _, _ => .error .type

example : FlagsOk (.scalar (3 : Int)) false false := rfl
example : FlagsOk (.seq [some (1 : Int)]) true false := ⟨rfl, rfl⟩
example : FlagsOk (.vec [some (1 : Int)] none) true false := trivial

-- `10 - v`: the other operand on the left
example : vectorArithT demoPy demoPy "__rsub__" [some 1, none, some 5] (.scalar 10) false false
    = some (.ok [some 9, none, some 5]) := by rfl
-- `v - 10`
example : vectorArithT demoPy demoPy "__sub__" [some 1, none, some 5] (.scalar 10) false false
    = some (.ok [some (-9), none, some (-5)]) := by rfl
-- `[10, 20, 30] + v` through `__radd__`'s own loops; a length difference raises ValueError
example : vectorArithT demoPy demoPy "__radd__" [some 1, none, some 5] (.seq [some 10, some 20, some 30]) true false
    = some (.ok [some 11, none, some 35]) := by rfl
example : vectorArithT demoPy demoPy "__radd__" [some 1, none, some 5] (.seq [some 10]) true false
    = some (.error .value) := by rfl
-- `12 // v` raises where Python raises
example : vectorArithT demoPy demoPy "__rfloordiv__" [some 4, some 0] (.scalar 12) false false = some (.error .other) := by rfl
example : vectorArithT demoPy demoPy "__rfloordiv__" [some 4, some 5] (.vec [some 12, some 11] none) false false
    = some (.ok [some 3, some 2]) := by rfl
-- a name that is not an arithmetic method of the table
example : vectorArithT demoPy demoPy "__lshift__" [some 4] (.scalar 12) false false = none := by rfl
example : (vectorCompareT demoCmp demoCmp "__lt__" [some 1, none, some 5] (.scalar 3)).map (·.toOption.map (·.data))
    = some (some [true, false, false]) := by rfl
example : (vectorCompareT demoCmp demoCmp "__rand__" [some 1, none, some 0] (.seq [some 1, some 1, some 1])).map (·.toOption.map (·.data))
    = some (some [true, false, false]) := by rfl
example : tableArithT (colL ⟨fun o => demoPy (symOf o), fun a b => .ok (a + b), fun _ => true⟩)
      (colR ⟨fun o => demoPy (symOf o), fun a b => .ok (a + b), fun _ => true⟩) "__rsub__"
      [⟨[some 1, some 2], none⟩, ⟨[none, some 4], none⟩] (.scalar 10)
    = some (.ok [[some 9, some 8], [none, some 6]]) := by rfl
example : tableUnaryT (fun _ (c : Vec Int) => broadcast (fun a => demoPy .sub 0 a) c.data) "__neg__" [⟨[some 1, none], none⟩]
    = some (.ok [[some (-1), none]]) := by rfl

end Serif.Tie
