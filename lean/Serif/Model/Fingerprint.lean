/-
  Model of Vector.fingerprint / _compute_fingerprint_full / Table.fingerprint.

  `total = (total * B + h(x)) % P` over the elements, `h` being `_hash_element` (Python's `hash` for scalars, a
  fixed literal for None and NaN, the column's own fingerprint for a table's columns).  Python's `%` with a
  positive modulus is `Int.emod`.  A vector memoises its fingerprint; a write clears the vector's own memo;
  `Table.fingerprint` recomputes from its columns (each of which memoises).
-/
import Serif.Model.ObjHeap
import Serif.Gen.Consts

namespace Serif.FP

/-- one step of the rolling hash -/
def roll (P B : Int) (t h : Int) : Int := (t * B + h) % P

/-- the rolling hash from accumulator `t0` -/
def ev (P B : Int) (t0 : Int) (hs : List Int) : Int := hs.foldl (roll P B) t0

/-- fingerprint of a sequence of element hashes -/
def H (P B : Int) (hs : List Int) : Int := ev P B 0 hs

/-- fingerprint of a table = rolling hash, with the table's own base `BT`, of its columns' fingerprints
    (`Table._FP_B`; a base of its own since the repair of the anti-diagonal collisions) -/
def Htab (P B BT : Int) (cols : List (List Int)) : Int := H P BT (cols.map (H P B))

/-- with the constants of the current source -/
def P : Int := Gen.FP_P
def B : Int := Gen.FP_B
def BT : Int := Gen.FP_BT
def fpVec (hs : List Int) : Int := H P B hs
/-- a table's fingerprint from its columns' fingerprints -/
def fpComb (fps : List Int) : Int := H P BT fps
def fpTab (cols : List (List Int)) : Int := Htab P B BT cols

end Serif.FP

namespace Serif.Heap

/-- what `fingerprint()` returns for object `o`: a vector answers from its memo when set, else computes;
    a table always recomputes from its columns' answers -/
def fpRead (fpOf : VecVal → Int) (comb : List Int → Int) (h : Heap) (o : Nat) : Option Int :=
  match h.obj o with
  | some (.vec _ (some m)) => some m
  | some (.vec v none) => some (fpOf v)
  | some (.tab cols) =>
    some (comb (cols.filterMap (fun c =>
      match h.obj c with
      | some (.vec _ (some m)) => some m
      | some (.vec v none) => some (fpOf v)
      | _ => none)))
  | none => none

/-- the fingerprint of a freshly built object showing `a` -/
def fpAbs (fpOf : VecVal → Int) (comb : List Int → Int) : AbsVal → Int
  | .vec v => fpOf v
  | .tab cs => comb (cs.map fpOf)

/-- memo coherence: a set memo equals the fingerprint of the current contents -/
def Coherent (fpOf : VecVal → Int) (h : Heap) : Prop :=
  ∀ o v m, h.objs o = some (.vec v (some m)) → m = fpOf v

end Serif.Heap
