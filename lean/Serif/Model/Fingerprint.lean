/-
  Model of Vector.fingerprint / _compute_fingerprint_full / Table.fingerprint.

  `total = (total * B + h(x)) % P` over the elements, `h` being `_hash_element` (Python's `hash` for scalars, a
  fixed literal for None and NaN, the column's own fingerprint for a table's columns).  Python's `%` with a
  positive modulus is `Int.emod`.  A vector memoises its fingerprint; a write clears the vector's own memo;
  `Table.fingerprint` recomputes from its columns (each of which memoises).
-/
import Serif.Model.ObjHeap
import Serif.Gen.Consts

namespace Serif.FP

/-- one step of the rolling hash -/
def roll (P B : Int) (t h : Int) : Int := (t * B + h) % P

/-- the rolling hash from accumulator `t0` -/
def ev (P B : Int) (t0 : Int) (hs : List Int) : Int := hs.foldl (roll P B) t0

/-- fingerprint of a sequence of element hashes -/
def H (P B : Int) (hs : List Int) : Int := ev P B 0 hs

/-- fingerprint of a table = rolling hash, with the table's own base `BT`, of its columns' fingerprints
    (`Table._FP_B`; a base of its own since the repair of the anti-diagonal collisions) -/
def Htab (P B BT : Int) (cols : List (List Int)) : Int := H P BT (cols.map (H P B))

/-- with the constants of the current source -/
def P : Int := Gen.FP_P
def B : Int := Gen.FP_B
def BT : Int := Gen.FP_BT
def fpVec (hs : List Int) : Int := H P B hs
/-- a table's fingerprint from its columns' fingerprints -/
def fpComb (fps : List Int) : Int := H P BT fps
def fpTab (cols : List (List Int)) : Int := Htab P B BT cols

/-! ### container-valued elements

`_hash_element` of a set, tuple or list is the same rolling hash over the hashes of its items (a set: the item hashes in
ascending order, which depends on the members only; the harness sends them in that order), started from an accumulator that
depends on the container's kind and length, so that `0`, `[0]`, `(0,)`, `(0, 0)`, `{0}`, `()` and `[]` are hashed differently.  The starting values
are read off the behaviour of the current source (`Gen.fpSeeds`). -/

/-- starting accumulator for a container of `kind` (1 set, 2 tuple, 3 list) with `n` items -/
def seedOf (kind n : Nat) : Int := (Gen.fpSeeds.lookup (kind, n)).getD 0

/-- an element as `_hash_element` sees it: a scalar (its hash) or a container of elements -/
inductive Elem where
  | leaf (h : Int)
  | seq (kind : Nat) (es : List Elem)

mutual
/-- `_hash_element(x)` -/
def Elem.hash : Elem → Int
  | .leaf h => h
  | .seq k es => Elem.hashFrom es (seedOf k es.length)
/-- the loop `for elem in items: h = (h * B + _hash_element(elem)) % P` from accumulator `t` -/
def Elem.hashFrom : List Elem → Int → Int
  | [], t => t
  | e :: es, t => Elem.hashFrom es (roll P B t e.hash)
end

/-- fingerprint of a vector of (possibly container-valued) elements -/
def fpElems (es : List Elem) : Int := fpVec (es.map Elem.hash)

mutual
/-- the leaf reached by a path of positions -/
def Elem.leafAt : Elem → List Nat → Option Int
  | .leaf h, [] => some h
  | .leaf _, _ :: _ => none
  | .seq _ _, [] => none
  | .seq _ es, i :: rest => Elem.leafAtList es i rest
def Elem.leafAtList : List Elem → Nat → List Nat → Option Int
  | [], _, _ => none
  | e :: _, 0, rest => e.leafAt rest
  | _ :: es, i + 1, rest => Elem.leafAtList es i rest
end

mutual
/-- the element with the leaf at `path` replaced by a scalar of hash `y` -/
def Elem.setAt : Elem → List Nat → Int → Elem
  | .leaf _, [], y => .leaf y
  | .leaf h, _ :: _, _ => .leaf h
  | .seq k es, [], _ => .seq k es
  | .seq k es, i :: rest, y => .seq k (Elem.setAtList es i rest y)
def Elem.setAtList : List Elem → Nat → List Nat → Int → List Elem
  | [], _, _, _ => []
  | e :: es, 0, rest, y => e.setAt rest y :: es
  | e :: es, i + 1, rest, y => e :: Elem.setAtList es i rest y
end

end Serif.FP

namespace Serif.Heap

/-- what `fingerprint()` returns for object `o`: a vector answers from its memo when set, else computes;
    a table always recomputes from its columns' answers -/
def fpRead (fpOf : VecVal → Int) (comb : List Int → Int) (h : Heap) (o : Nat) : Option Int :=
  match h.obj o with
  | some (.vec _ (some m)) => some m
  | some (.vec v none) => some (fpOf v)
  | some (.tab cols) =>
    some (comb (cols.filterMap (fun c =>
      match h.obj c with
      | some (.vec _ (some m)) => some m
      | some (.vec v none) => some (fpOf v)
      | _ => none)))
  | none => none

/-- the fingerprint of a freshly built object showing `a` -/
def fpAbs (fpOf : VecVal → Int) (comb : List Int → Int) : AbsVal → Int
  | .vec v => fpOf v
  | .tab cs => comb (cs.map fpOf)

/-- memo coherence: a set memo equals the fingerprint of the current contents -/
def Coherent (fpOf : VecVal → Int) (h : Heap) : Prop :=
  ∀ o v m, h.objs o = some (.vec v (some m)) → m = fpOf v

end Serif.Heap
