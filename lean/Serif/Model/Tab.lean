/-
  Pure (value-level) tables: a table is its list of columns; every column is a list of cells.
  Mirrors the structural operations of `Table`: `>>` (column stacking), `<<` (row append), row selection by
  slice / mask (the selected positions are a parameter: `range(n)[slice]` resp. the True positions),
  `T` (rows become columns), row access by index / iteration.
-/
import Serif.Prelude

namespace Serif.Tab
variable {α : Type}

/-- every column has length `n` (= `len(table)`) -/
def Rect (cols : List (List α)) (n : Nat) : Prop := ∀ c ∈ cols, c.length = n

def rectB (cols : List (List α)) (n : Nat) : Bool := cols.all (fun c => c.length == n)

/-- the i-th row: the i-th cell of every column, in column order (`tuple(t[i])`, one step of `iter(t)`) -/
def row (cols : List (List α)) (i : Nat) : List α := cols.filterMap (fun c => c[i]?)

/-- all rows in order (`[tuple(r) for r in t]`) -/
def rows (cols : List (List α)) (n : Nat) : List (List α) := (List.range n).map (row cols)

/-- `a >> b` -/
def stackCols (a b : List (List α)) : List (List α) := a ++ b

/-- `t << other_table` : every column gets the matching column appended -/
def appendRows : List (List α) → List (List α) → List (List α)
  | c :: cs, d :: ds => (c ++ d) :: appendRows cs ds
  | _, _ => []

/-- `t << [v0, v1, …]` : one cell per column -/
def appendRow (cols : List (List α)) (vals : List α) : List (List α) :=
  appendRows cols (vals.map (fun v => [v]))

/-- `t[slice]`, `t[mask]`: the same positions of every column -/
def rowSel (idxs : List Nat) (cols : List (List α)) : List (List α) :=
  cols.map (fun c => idxs.filterMap (fun i => c[i]?))

/-- `t.T` : the rows become the columns -/
def transpose (cols : List (List α)) (n : Nat) : List (List α) := rows cols n

/-- positions where a mask is True -/
def maskIdx (m : List Bool) : List Nat := (List.range m.length).filter (fun i => m[i]?.getD false)

end Serif.Tab
