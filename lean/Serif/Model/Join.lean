/-
  Model of src/serif/table.py : Table.inner_join, Table.join (left join), Table.full_join and
  (as far as it decides whether a join proceeds) Table._validate_join_keys.

  Values are opaque: a key is any type with decidable equality (the driver uses the list of
  equality-class ids of the key components of a row), a cell is any type with a padding value
  (the driver uses `Cell`: exact-type tag, equality class, uid).  Everything structural is modelled
  as coded: the insertion-ordered right index with its buckets, the `duplicates` dict, the
  `left_keys_seen` set, the probe loop, the matched-right set and the sweep of `full_join`,
  None padding, the empty-result shortcuts, result names and result dtypes.

  The three `expect in (...)` membership tuples of each method are READ from `Serif.Gen`
  (regenerated from the source on every run); the specification side below is hand-written.
-/
import Serif.Prelude
import Serif.Model.DType
import Serif.Gen.Consts

namespace Serif.Join

/-- results are compared by `decide` in the examples and by the driver -/
instance instDecEqExcept {ε α : Type} [DecidableEq ε] [DecidableEq α] : DecidableEq (Except ε α)
  | .ok a, .ok b => if h : a = b then isTrue (by rw [h]) else isFalse (by intro h'; cases h'; exact h rfl)
  | .error a, .error b => if h : a = b then isTrue (by rw [h]) else isFalse (by intro h'; cases h'; exact h rfl)
  | .ok _, .error _ => isFalse (by intro h; cases h)
  | .error _, .ok _ => isFalse (by intro h; cases h)

/-- which method: `inner_join`, `join`, `full_join` -/
inductive JKind where
  | inner | left | full
  deriving DecidableEq, Repr, Inhabited

/-- one output row: (left row index or None-padding, right row index or None-padding) -/
abbrev Pair := Option Nat × Option Nat

/-! ### decision data read from the source -/

/-- `if expect not in (...)`: is the value accepted at all -/
def acceptsExpect : JKind → String → Bool
  | .inner, e => Gen.validExpect_inner.contains e
  | .left, e => Gen.validExpect_left.contains e
  | .full, e => Gen.validExpect_full.contains e

/-- `check_right_unique = expect in (...)` -/
def chkRight : JKind → String → Bool
  | .inner, e => Gen.rightUnique_inner.contains e
  | .left, e => Gen.rightUnique_left.contains e
  | .full, e => Gen.rightUnique_full.contains e

/-- `check_left_unique = expect in (...)` -/
def chkLeft : JKind → String → Bool
  | .inner, e => Gen.leftUnique_inner.contains e
  | .left, e => Gen.leftUnique_left.contains e
  | .full, e => Gen.leftUnique_full.contains e

/-! ### the algorithm on key lists -/

section algo
variable {K : Type} [DecidableEq K]

/-- `right_index`: key tuple ↦ bucket of right row indices (a Python dict) -/
abbrev Index (K : Type) := Dict K (List Nat)

/-- `right_index.get(key)`, with `None` read as "no matches" (`if not matches` / `if matches`) -/
def bucketOf (ix : Index K) (k : K) : List Nat := (Dict.get? ix k).getD []

/-- one iteration of the build loop.  State: the index and the keys of the `duplicates` dict.
    ```
    bucket = right_index.get(key)
    if bucket is None: right_index[key] = [row_idx]
    else: bucket.append(row_idx); if check_right_unique: duplicates[key] = bucket
    ``` -/
def buildStep (chkR : Bool) (st : Index K × List K) (k : K) (row : Nat) : Index K × List K :=
  match Dict.get? st.1 k with
  | none => (Dict.upsert st.1 k (fun _ => [row]), st.2)
  | some b => (Dict.upsert st.1 k (fun _ => b ++ [row]),
               if chkR && !st.2.contains k then st.2 ++ [k] else st.2)

/-- `for row_idx in range(right_nrows): ...` -/
def buildFrom (chkR : Bool) : List K → Nat → Index K × List K → Index K × List K
  | [], _, st => st
  | k :: ks, row, st => buildFrom chkR ks (row + 1) (buildStep chkR st k row)

def build (chkR : Bool) (rkeys : List K) : Index K × List K := buildFrom chkR rkeys 0 ([], [])

/-- rows appended for left row `i` whose bucket is `b`:
    every match, or (outer joins only) the left row padded with None -/
def emit (outer : Bool) (i : Nat) (b : List Nat) : List Pair :=
  if b.isEmpty then (if outer then [(some i, none)] else [])
  else b.map (fun j => (some i, some j))

/-- the probe loop `for left_idx in range(left_nrows)`: the left-uniqueness check against
    `left_keys_seen` comes first and raises at the first repeated key; then the rows of this
    left row are emitted and (full join) its matches are added to `matched_right_rows`.
    Result: emitted rows and the matched right rows. -/
def probe (outer chkL : Bool) (ix : Index K) : List K → Nat → List K → Except Err (List Pair × List Nat)
  | [], _, _ => .ok ([], [])
  | k :: ks, i, seen =>
    if chkL && seen.contains k then .error .value
    else
      match probe outer chkL ix ks (i + 1) (if chkL then k :: seen else seen) with
      | .error e => .error e
      | .ok (ps, m) => .ok (emit outer i (bucketOf ix k) ++ ps, bucketOf ix k ++ m)

/-- `for right_idx in range(right_nrows): if right_idx not in matched_right_rows: ...` -/
def sweep (nR : Nat) (matched : List Nat) : List Pair :=
  ((List.range nR).filter (fun j => !matched.contains j)).map (fun j => (none, some j))

/-- the three methods after key validation, on the two lists of key tuples -/
def joinCore (kind : JKind) (e : String) (lkeys rkeys : List K) : Except Err (List Pair) :=
  let st := build (chkRight kind e) rkeys
  if chkRight kind e && !st.2.isEmpty then .error .value
  else
    match probe (kind != .inner) (chkLeft kind e) st.1 lkeys 0 [] with
    | .error er => .error er
    | .ok (ps, m) => .ok (if kind = .full then ps ++ sweep rkeys.length m else ps)

/-- including the `expect` validation that precedes everything -/
def joinPairs (kind : JKind) (e : String) (lkeys rkeys : List K) : Except Err (List Pair) :=
  if !acceptsExpect kind e then .error .value else joinCore kind e lkeys rkeys

end algo

/-! ### the specification on key lists: nested loops, no index, no state -/

section spec
variable {K : Type} [DecidableEq K]

/-- positions (counted from `s`) of the keys equal to `k` -/
def matchIdx (rkeys : List K) (s : Nat) (k : K) : List Nat :=
  (rkeys.zipIdx s).filterMap (fun p => if k = p.1 then some p.2 else none)

/-- `[(i, j) for i, k in enumerate(L) for j, k' in enumerate(R) if k == k']` -/
def innerSpec (lkeys rkeys : List K) : List (Nat × Nat) :=
  lkeys.zipIdx.flatMap (fun p => rkeys.zipIdx.filterMap (fun q => if p.1 = q.1 then some (p.2, q.2) else none))

def liftPair (p : Nat × Nat) : Pair := (some p.1, some p.2)

/-- left join: per left row its matches, or one padded row if there is none -/
def leftSpec (lkeys rkeys : List K) : List Pair :=
  lkeys.zipIdx.flatMap (fun p =>
    let m := matchIdx rkeys 0 p.1
    if m.isEmpty then [(some p.2, none)] else m.map (fun j => (some p.2, some j)))

/-- right rows whose key occurs nowhere on the left, in right order, padded on the left -/
def rightOnly (lkeys rkeys : List K) : List Pair :=
  rkeys.zipIdx.filterMap (fun q => if lkeys.contains q.1 then none else some (none, some q.2))

def fullSpec (lkeys rkeys : List K) : List Pair := leftSpec lkeys rkeys ++ rightOnly lkeys rkeys

def specPairs : JKind → List K → List K → List Pair
  | .inner, l, r => (innerSpec l r).map liftPair
  | .left, l, r => leftSpec l r
  | .full, l, r => fullSpec l r

def expectValues : List String := ["one_to_one", "many_to_one", "one_to_many", "many_to_many"]
def validExpect (e : String) : Bool := expectValues.contains e
/-- 'one_to_one' and 'one_to_many' require unique keys on the left -/
def needsLeft (e : String) : Bool := e == "one_to_one" || e == "one_to_many"
/-- 'one_to_one' and 'many_to_one' require unique keys on the right -/
def needsRight (e : String) : Bool := e == "one_to_one" || e == "many_to_one"

/-- what C09–C11 say a join does on valid keys -/
def specCore (kind : JKind) (e : String) (lkeys rkeys : List K) : Except Err (List Pair) :=
  if (needsRight e && !decide rkeys.Nodup) || (needsLeft e && !decide lkeys.Nodup) then .error .value
  else .ok (specPairs kind lkeys rkeys)

def specJoinPairs (kind : JKind) (e : String) (lkeys rkeys : List K) : Except Err (List Pair) :=
  if !validExpect e then .error .value else specCore kind e lkeys rkeys

/-- swap the sides of a row (for `full_join(R, L)` versus `full_join(L, R)`) -/
def swapPair (p : Pair) : Pair := (p.2, p.1)

end spec

/-! ### tables, result assembly -/

/-- a table as the joins see it: column names and column-major cells -/
structure Tab (α : Type) where
  names : List (Option String)
  cols : List (List α)
  deriving Repr

/-- `len(table)`: 0 without columns, else the length of the first column -/
def Tab.nrows {α : Type} (t : Tab α) : Nat :=
  match t.cols with
  | [] => 0
  | c :: _ => c.length

/-- what is observed of a result: `column_names()`, the columns, their `schema()` -/
structure Out (α : Type) where
  names : List (Option String)
  cols : List (List α)
  dtypes : List (Option DType)
  deriving DecidableEq, Repr

section assemble
variable {α : Type}

/-- `col[idx]`, or None for a padded side -/
def cellAt (pad : α) (col : List α) : Option Nat → α
  | none => pad
  | some i => col[i]?.getD pad

/-- the column-major buffers `result_data` after all rows were appended -/
def resultCols (pad : α) (L R : Tab α) (ps : List Pair) : List (List α) :=
  L.cols.map (fun c => ps.map (fun p => cellAt pad c p.1))
  ++ R.cols.map (fun c => ps.map (fun p => cellAt pad c p.2))

/-- row `i` of a column list (None-padded row for `none`) -/
def rowAt (pad : α) (cols : List (List α)) (i : Option Nat) : List α := cols.map (fun c => cellAt pad c i)

/-- the "empty result → `Table(())`" tests: inner: every buffer empty; left: no left rows;
    full: no rows on either side -/
def shortcut (kind : JKind) (nL nR : Nat) (cols : List (List α)) : Bool :=
  match kind with
  | .inner => cols.all List.isEmpty
  | .left => nL == 0
  | .full => nL == 0 && nR == 0

/-- `Vector(list).schema()`: None for an empty vector, else inferred from the values -/
def colDType (tagOf : α → Tag) (c : List α) : Option DType :=
  if c.isEmpty then none else some (infer (c.map tagOf))

/-- wrap the buffers: left names then right names, dtypes by inference -/
def assemble (pad : α) (tagOf : α → Tag) (kind : JKind) (L R : Tab α) (ps : List Pair) : Out α :=
  let cols := resultCols pad L R ps
  if shortcut kind L.nrows R.nrows cols then { names := [], cols := [], dtypes := [] }
  else { names := L.names ++ R.names, cols := cols, dtypes := cols.map (colDType tagOf) }

end assemble

/-! ### key validation (mirrored, not part of any theorem except as a hypothesis) -/

/-- a scalar as the join sees it: exact type, equality class under `==`/`hash`, identity -/
structure Cell where
  tag : Tag
  eq : Nat
  uid : Nat
  deriving DecidableEq, Repr, Inhabited

/-- `None` -/
def Cell.none : Cell := { tag := .none, eq := 0, uid := 0 }

/-- one element of `left_on` / `right_on` -/
inductive KeySpec where
  | name (s : String)          -- a column name
  | vec (c : List Cell)        -- a Vector
  | bad                        -- anything else
  deriving Repr

/-- the `left_on` / `right_on` argument -/
inductive OnArg where
  | single (k : KeySpec)       -- a str or a Vector
  | list (ks : List KeySpec)   -- a list
  | other                      -- anything else (tuple, int, …)
  deriving Repr

/-- `table[name]` for plain names: the first column with exactly that name -/
def lookupCol : List (Option String) → List (List Cell) → String → Option (List Cell)
  | n :: ns, c :: cs, s => if n = some s then some c else lookupCol ns cs s
  | _, _, _ => none

/-- `get_column` -/
def resolve (t : Tab Cell) : KeySpec → Except Err (List Cell)
  | .name s => match lookupCol t.names t.cols s with
    | some c => .ok c
    | none => .error .key
  | .vec c => .ok c
  | .bad => .error .type

def keyDType (c : List Cell) : Option DType := colDType (·.tag) c

/-- `allowed_types = (int, str, bool, date, datetime, object)`; float is refused first, same class -/
def allowedKeyKind : Kind → Bool
  | .int | .str | .bool | .date | .datetime | .object => true
  | _ => false

/-- `validate_key_dtype` -/
def checkKeyDType (c : List Cell) : Except Err Unit :=
  match keyDType c with
  | none => .ok ()
  | some d => if allowedKeyKind d.kind then .ok () else .error .type

/-- the loop over `zip(left_on, right_on)`, checks in source order -/
def validatePairs (L R : Tab Cell) : List KeySpec → List KeySpec → Except Err (List (List Cell × List Cell))
  | l :: ls, r :: rs =>
    match resolve L l with
    | .error e => .error e
    | .ok lc =>
    match resolve R r with
    | .error e => .error e
    | .ok rc =>
    if lc.length ≠ L.nrows then .error .value
    else if rc.length ≠ R.nrows then .error .value
    else
    match checkKeyDType lc with
    | .error e => .error e
    | .ok _ =>
    match checkKeyDType rc with
    | .error e => .error e
    | .ok _ =>
    let mismatch : Bool :=
      match keyDType lc, keyDType rc with
      | some a, some b => a.kind != b.kind
      | _, _ => false
    if mismatch then .error .type
    else
      match validatePairs L R ls rs with
      | .error e => .error e
      | .ok rest => .ok ((lc, rc) :: rest)
  | _, _ => .ok []

def OnArg.norm : OnArg → Option (List KeySpec)
  | .single k => some [k]
  | .list ks => some ks
  | .other => none

/-- `_validate_join_keys` -/
def validateKeys (L R : Tab Cell) (lon ron : OnArg) : Except Err (List (List Cell × List Cell)) :=
  match lon.norm, ron.norm with
  | some ls, some rs =>
    if ls.isEmpty || rs.isEmpty then .error .value
    else if ls.length ≠ rs.length then .error .value
    else validatePairs L R ls rs
  | _, _ => .error .value

/-- `tuple(col[row] for col in keys)` for every row, components seen through their equality class -/
def keyTuples (n : Nat) (cols : List (List Cell)) : List (List Nat) :=
  (List.range n).map (fun i => cols.map (fun c => (c[i]?.getD Cell.none).eq))

/-! ### whole calls -/

/-- the implementation model of `L.<kind>(R, left_on, right_on, expect)` -/
def run (kind : JKind) (e : String) (L R : Tab Cell) (lon ron : OnArg) : Except Err (Out Cell) :=
  if !acceptsExpect kind e then .error .value
  else
    match validateKeys L R lon ron with
    | .error er => .error er
    | .ok kp =>
      match joinCore kind e (keyTuples L.nrows (kp.map (·.1))) (keyTuples R.nrows (kp.map (·.2))) with
      | .error er => .error er
      | .ok ps => .ok (assemble Cell.none (·.tag) kind L R ps)

/-- the specification of the same call -/
def specRun (kind : JKind) (e : String) (L R : Tab Cell) (lon ron : OnArg) : Except Err (Out Cell) :=
  if !validExpect e then .error .value
  else
    match validateKeys L R lon ron with
    | .error er => .error er
    | .ok kp =>
      match specCore kind e (keyTuples L.nrows (kp.map (·.1))) (keyTuples R.nrows (kp.map (·.2))) with
      | .error er => .error er
      | .ok ps => .ok (assemble Cell.none (·.tag) kind L R ps)

end Serif.Join
