/-
  Model of column-accessor naming (property C17):
    src/serif/naming.py   : _sanitize_user_name (after `str.lower()`), reserved names
    src/serif/table.py    : Table._build_column_map, _parse_indexed_attr, Table.__getattr__,
                            Table.__setattr__ / __setitem__ / Row.__getattr__ name lookup,
                            string Table.__getitem__, rename_column(s), the cached map with `_wild` flags
    src/serif/display.py  : _compute_headers (the dot row of repr)
  Strings are `List Char`.  A stored column name is seen through its identity (`id`: equality of the
  stored Python strings) and its `str.lower()` image (`lower`); full Unicode case mapping is not
  available in Lean, so the model starts after `.lower()`.
-/
import Serif.Prelude
import Serif.Gen.Consts

namespace Serif.Names

abbrev Str := List Char

/-! ### character classes (ASCII; see `Proofs/Names.lean` `subRuns_ok` for why ASCII suffices) -/

def isLower (c : Char) : Bool := 97 ≤ c.toNat && c.toNat ≤ 122
def isDigit (c : Char) : Bool := 48 ≤ c.toNat && c.toNat ≤ 57
def isU (c : Char) : Bool := c == '_'
/-- the class `[a-z0-9_]` of the regular expression in `_sanitize_user_name` -/
def okChar (c : Char) : Bool := isLower c || isDigit c || isU c

/-- executable spec: a valid accessor — first character a letter, the rest in `[a-z0-9_]` -/
def isIdent : Str → Bool
  | [] => false
  | c :: cs => isLower c && cs.all okChar

/-! ### decimal numerals (`str(idx)` / `int(suffix)`) -/

def digitChar : Nat → Char
  | 0 => '0' | 1 => '1' | 2 => '2' | 3 => '3' | 4 => '4'
  | 5 => '5' | 6 => '6' | 7 => '7' | 8 => '8' | _ => '9'

/-- little-endian decimal digits; `fuel ≥ n` always suffices (`revDigits_val`) -/
def revDigits : Nat → Nat → Str
  | 0, n => [digitChar (n % 10)]
  | f + 1, n => if n < 10 then [digitChar n] else digitChar (n % 10) :: revDigits f (n / 10)

/-- `str(n)` -/
def showNat (n : Nat) : Str := (revDigits n n).reverse

/-- value of a little-endian digit string -/
def valLE : Str → Nat
  | [] => 0
  | c :: cs => (c.toNat - 48) + 10 * valLE cs

/-- `int(s)` for an ASCII digit string -/
def natOfDigits (s : Str) : Nat := valLE s.reverse

/-- `s.isdigit()` for a string over ASCII -/
def allDigits (s : Str) : Bool := !s.isEmpty && s.all isDigit

/-! ### `_sanitize_user_name` after `name.lower()` -/

/-- `re.sub(r'[^a-z0-9_]+', '_', s)`: every maximal run of other characters becomes one `_`.
    `inRun` = the previous character was already replaced. -/
def subRuns : Bool → Str → Str
  | _, [] => []
  | inRun, c :: cs =>
    if okChar c then c :: subRuns false cs
    else if inRun then subRuns true cs
    else '_' :: subRuns true cs

def lstripU (s : Str) : Str := s.dropWhile isU
/-- `s.rstrip('_')`: a character is kept unless it is `_` and everything after it was dropped -/
def rstripU (s : Str) : Str := s.foldr (fun c acc => if isU c && acc.isEmpty then [] else c :: acc) []
/-- `s.strip('_')` -/
def stripU (s : Str) : Str := rstripU (lstripU s)

/-- `__` and then at least one more character -/
def sepThenMore : Str → Bool
  | a :: b :: _ :: _ => isU a && isU b
  | _ => false

/-- on the reversed string: a non-empty digit run, then `__`, then at least one more character -/
def matchesIndexedRev (r : Str) : Bool :=
  !(r.takeWhile isDigit).isEmpty && sepThenMore (r.dropWhile isDigit)

/-- `re.match(r'^.+__\d+$', s)` for a string over `[a-z0-9_]` -/
def matchesIndexed (s : Str) : Bool := matchesIndexedRev s.reverse

/-- `_get_reserved_names()` of the live classes (regenerated from the source on every run) -/
def reserved : List Str := Gen.reservedNames.map String.toList

/-- step 4: a leading digit gets the prefix `c` -/
def prefixC (a : Str) : Str :=
  match a with
  | c :: _ => if isDigit c then 'c' :: a else a
  | [] => a

/-- step 5: a name that looks like an indexed accessor (`name__digits`) gets a trailing `_` -/
def guardIndexed (b : Str) : Str := if matchesIndexed b then b ++ ['_'] else b

/-- step 6: a reserved name gets a trailing `_` -/
def guardReserved (c : Str) : Str := if reserved.contains c then c ++ ['_'] else c

/-- steps 4–6 of `_sanitize_user_name` on the stripped, non-empty string -/
def finish (a : Str) : Str := guardReserved (guardIndexed (prefixC a))

/-- `_sanitize_user_name(name)` where the argument is `name.lower()`; `none` = Python `None` -/
def sanitizeCore (s : Str) : Option Str :=
  let a := stripU (subRuns false s)
  if a.isEmpty then none else some (finish a)

/-! ### stored names -/

/-- a stored column name: `id` identifies the Python string (equal ids ⇔ equal strings),
    `lower` is `name.lower()` -/
structure Name where
  id : Nat
  lower : Str
  deriving DecidableEq, Repr

/-- `col._name == other` for two stored names / None -/
def sameName : Option Name → Option Name → Bool
  | none, none => true
  | some a, some b => a.id == b.id
  | _, _ => false

def lowerOf : Option Name → Option Str
  | none => none
  | some n => some n.lower

/-! ### `Table._build_column_map` -/

/-- `f'col{idx}_'` -/
def colN (idx : Nat) : Str := 'c' :: 'o' :: 'l' :: (showNat idx ++ ['_'])

def endsWithU (s : Str) : Bool := s.getLast? == some '_'

/-- `f"{base}{sep}_{idx}"` with `sep = "" if base.endswith("_") else "_"` -/
def indexed (base : Str) (idx : Nat) : Str :=
  base ++ ((if endsWithU base then [] else ['_']) ++ '_' :: showNat idx)

/-- the base of a column: `_sanitize_user_name(col._name)` if it has a name -/
def baseOf (nm : Option Str) : Option Str :=
  match nm with
  | none => none
  | some n => sanitizeCore n

/-- one iteration of the loop: the accessor of column `idx` and the updated `seen` -/
def stepAcc (seen : List Str) (idx : Nat) (nm : Option Str) : Str × List Str :=
  match baseOf nm with
  | none => (colN idx, seen)
  | some base => if seen.contains base then (indexed base idx, seen) else (base, base :: seen)

/-- the loop of `_build_column_map` from column `idx` on -/
def buildFrom (idx : Nat) (seen : List Str) (map : Dict Str Nat) : List (Option Str) → Dict Str Nat
  | [] => map
  | nm :: rest =>
    let r := stepAcc seen idx nm
    buildFrom (idx + 1) r.2 (Dict.upsert map r.1 (fun _ => idx)) rest

/-- `Table._build_column_map()` : accessor ↦ column index, in insertion order -/
def buildColumnMap (names : List (Option Str)) : Dict Str Nat := buildFrom 0 [] [] names

/-- the accessor of every column, by position (what the loop assigns, before it goes into the dict) -/
def accessorsFrom (idx : Nat) (seen : List Str) : List (Option Str) → List Str
  | [] => []
  | nm :: rest =>
    let r := stepAcc seen idx nm
    r.1 :: accessorsFrom (idx + 1) r.2 rest

def accessors (names : List (Option Str)) : List Str := accessorsFrom 0 [] names

/-! ### attribute resolution -/

/-- on the reversed string: split at the first `__` (= the last one of the string) -/
def rpartRev : Str → Option (Str × Str)
  | [] => none
  | c :: rest =>
    if isU c && rest.head? == some '_' then some ([], rest.tail)
    else match rpartRev rest with
      | none => none
      | some (s, b) => some (c :: s, b)

/-- `attr.rpartition('__')` when the separator occurs: `(base, suffix)` -/
def rpartition (s : Str) : Option (Str × Str) :=
  match rpartRev s.reverse with
  | none => none
  | some (sr, br) => some (br.reverse, sr.reverse)

inductive Parsed where
  | plain                                   -- `(attr, None)`
  | indexed (base : Option Str) (idx : Nat) -- `(_sanitize_user_name(base), int(suffix))`
  | bad                                     -- AttributeError: missing base name
  deriving DecidableEq, Repr

/-- `_parse_indexed_attr(attr)` for an attribute over `[a-z0-9_]` -/
def parseIndexedAttr (attr : Str) : Parsed :=
  match rpartition attr with
  | none => .plain
  | some (base, suffix) =>
    if allDigits suffix then
      if base.isEmpty then .bad else .indexed (sanitizeCore base) (natOfDigits suffix)
    else .plain

/-- `m.get(a) or m.get(a.lower())` for a lower-case `a` (index 0 is falsy, so it is looked up twice) -/
def getOr (map : Dict Str Nat) (a : Str) : Option Nat :=
  match Dict.get? map a with
  | some (i + 1) => some (i + 1)
  | _ => Dict.get? map a

/-- `attr.startswith('col') and attr.endswith('_') and attr[3:-1].isdigit()` → the digits `attr[3:-1]` -/
def colNDigits (attr : Str) : Option Str :=
  if attr.take 3 == ['c', 'o', 'l'] && endsWithU attr && allDigits (attr.drop 3).dropLast
  then some (attr.drop 3).dropLast else none

/-- executable side condition on a reserved name: it is not `col<digits>` -/
def isColDigits (n : Str) : Bool := n.take 3 == ['c', 'o', 'l'] && allDigits (n.drop 3)

inductive Look where
  | col (i : Nat)     -- resolves to the column at index i
  | attrErr           -- AttributeError / key error: no such column
  | fallback          -- not a column: ordinary attribute lookup on the class
  deriving DecidableEq, Repr

/-- `_sanitize_user_name(col._name)` as `__getattr__` computes it: `str(None)` is `'None'` -/
def baseForIndexed (nm : Option Str) : Option Str :=
  match nm with
  | none => sanitizeCore ['n', 'o', 'n', 'e']
  | some n => sanitizeCore n

/-- the indexed branch shared by `__getattr__` and `__setattr__` -/
def resolveIndexed (names : List (Option Str)) (base : Option Str) (i : Nat) : Look :=
  if i < names.length then
    match base with
    | none => .attrErr                                     -- `None.lower()` raises AttributeError
    | some b => if baseForIndexed (names.getD i none) == some b then .col i else .attrErr
  else .attrErr

/-- `Table.__getattr__(attr)` with the (fresh) column map, in the order of its branches -/
def resolveAttr (names : List (Option Str)) (map : Dict Str Nat) (attr : Str) : Look :=
  match parseIndexedAttr attr with
  | .bad => .attrErr
  | .indexed base i => resolveIndexed names base i
  | .plain =>
    match colNDigits attr with
    | some ds => if natOfDigits ds < names.length then .col (natOfDigits ds) else .attrErr
    | none =>
      match getOr map attr with
      | some i => .col i
      | none => .fallback

/-- column lookup of `Table.__setattr__(attr, value)` (no `col<N>_` branch there) -/
def resolveSetAttr (names : List (Option Str)) (map : Dict Str Nat) (attr : Str) : Look :=
  match parseIndexedAttr attr with
  | .bad => .attrErr
  | .indexed base i => resolveIndexed names base i
  | .plain =>
    match getOr map attr with
    | some i => .col i
    | none => .attrErr

/-- column-name lookup of `Table.__setitem__` (`t[row, 'name'] = x`) -/
def resolveSetItem (map : Dict Str Nat) (key : Str) : Look :=
  match getOr map key with
  | some i => .col i
  | none => .attrErr

/-- `Row.__getattr__` -/
def resolveRow (map : Dict Str Nat) (attr : Str) : Look :=
  match Dict.get? map attr with
  | some i => .col i
  | none => .fallback

/-! ### string `Table.__getitem__` -/

/-- second loop of `__getitem__`: sanitised forms, `keyLower = key.lower()` -/
def sanitizedScan (idx : Nat) (keyLower : Str) : List (Option Name) → Option Nat
  | [] => none
  | c :: rest =>
    let hit := match c with
      | none => colN idx == keyLower
      | some n =>
        match sanitizeCore n.lower with
        | none => colN idx == keyLower
        | some base => base == keyLower || (base ++ '_' :: '_' :: showNat idx) == keyLower
    if hit then some idx else sanitizedScan (idx + 1) keyLower rest

/-- `t[key]` for a string key: exact stored name first, then the sanitised forms -/
def stringIndex (cols : List (Option Name)) (key : Name) : Option Nat :=
  match cols.findIdx? (fun c => sameName c (some key)) with
  | some i => some i
  | none => sanitizedScan 0 key.lower cols

/-- spec: the first column whose stored name is `key` -/
def firstOccurrence (cols : List (Option Name)) (key : Name) : Option Nat :=
  cols.findIdx? (fun c => sameName c (some key))

/-! ### `display._compute_headers` : the dot row -/

/-- `if col._name:` — None and the empty string are falsy -/
def truthyBase (nm : Option Str) : Option (Option Str) :=
  match nm with
  | none => none
  | some n => if n.isEmpty then none else some (sanitizeCore n)

def setAdd (seen : List Str) (x : Str) : List Str := if seen.contains x then seen else x :: seen

def headersFrom (idx : Nat) (seen : List Str) (shown : List Nat) : List (Option Str) → List Str
  | [] => []
  | nm :: rest =>
    if shown.contains idx then
      match truthyBase nm with
      | none => colN idx :: headersFrom (idx + 1) seen shown rest
      | some none => colN idx :: headersFrom (idx + 1) seen shown rest
      | some (some san) =>
        if seen.contains san then indexed san idx :: headersFrom (idx + 1) seen shown rest
        else san :: headersFrom (idx + 1) (san :: seen) shown rest
    else
      match truthyBase nm with
      | some (some hidden) => headersFrom (idx + 1) (setAdd seen hidden) shown rest
      | _ => headersFrom (idx + 1) seen shown rest

/-- the `sanitized_names` of `_compute_headers(cols, col_indices)` -/
def computeHeaders (names : List (Option Str)) (shown : List Nat) : List Str :=
  headersFrom 0 [] shown names

/-- spec of the dot row: the accessors of the shown columns, in column order -/
def shownAccessorsFrom (idx : Nat) (shown : List Nat) : List Str → List Str
  | [] => []
  | a :: rest =>
    if shown.contains idx then a :: shownAccessorsFrom (idx + 1) shown rest
    else shownAccessorsFrom (idx + 1) shown rest

def shownAccessors (names : List (Option Str)) (shown : List Nat) : List Str :=
  shownAccessorsFrom 0 shown (accessors names)

/-! ### the table as a state machine: stored names, `_wild` flags, cached column map -/

structure TState where
  cols : List (Option Name)
  wild : List Bool
  cache : Dict Str Nat
  deriving Repr

def TState.lowers (s : TState) : List (Option Str) := s.cols.map lowerOf

/-- a freshly constructed `Table` (its `__init__` builds the map and marks every column tame) -/
def mkTable (cols : List (Option Name)) : TState :=
  { cols := cols, wild := cols.map (fun _ => false), cache := buildColumnMap (cols.map lowerOf) }

/-- rebuild: `self._column_map = self._build_column_map()` (which marks every column tame) -/
def rebuild (s : TState) : TState :=
  { s with wild := s.cols.map (fun _ => false), cache := buildColumnMap s.lowers }

/-- `Table._fresh_column_map()` -/
def fresh (s : TState) : TState := if s.wild.any id then rebuild s else s

/-- rename the first column whose stored name equals `old` (the loop of `rename_column`) -/
def renameFirst (old new : Option Name) : List (Option Name) → Option (List (Option Name))
  | [] => none
  | c :: rest =>
    if sameName c old then some (new :: rest)
    else match renameFirst old new rest with
      | none => none
      | some r => some (c :: r)

/-- the simulation + application of `rename_columns`: every pair renames the first match, in order;
    `none` if some old name is not found (then nothing is renamed) -/
def renameMany : List (Option Name × Option Name) → List (Option Name) → Option (List (Option Name))
  | [], cols => some cols
  | (o, n) :: rest, cols =>
    match renameFirst o n cols with
    | none => none
    | some cols' => renameMany rest cols'

inductive Op where
  | rename (old new : Option Name)            -- t.rename_column(old, new)
  | renames (pairs : List (Option Name × Option Name))   -- t.rename_columns(olds, news)
  | view (i : Nat) (new : Option Name)        -- c = t.cols()[i]; c.name = new
  | viewAttr (attr : Str) (new : Option Name) -- c = getattr(t, attr); c.name = new
  | replace (attr : Str)                      -- setattr(t, attr, Vector(...))
  | append (nm : Option Name)                 -- t = t >> Vector(..., name=nm)
  | dir                                       -- dir(t)
  | getattr (attr : Str)                      -- getattr(t, attr)
  | row (attr : Str)                          -- getattr(t[0], attr)
  | setitem (key : Str)                       -- t[0, key] = x
  deriving Repr

inductive Out where
  | done                 -- the operation succeeded, nothing to observe
  | failed               -- the operation raised
  | look (l : Look)      -- result of a lookup
  | names (l : List Str) -- the accessors advertised by dir(t)
  deriving DecidableEq, Repr

def setWild (w : List Bool) (i : Nat) : List Bool := w.set i true

/-- one operation on the table -/
def step (s : TState) : Op → TState × Out
  | .rename old new =>
    match renameFirst old new s.cols with
    | none => (s, .failed)
    | some cols' => (rebuild { s with cols := cols' }, .done)
  | .renames pairs =>
    match renameMany pairs s.cols with
    | none => (s, .failed)
    | some cols' => (rebuild { s with cols := cols' }, .done)
  | .view i new =>
    if i < s.cols.length then ({ s with cols := s.cols.set i new, wild := setWild s.wild i }, .done)
    else (s, .failed)
  | .viewAttr attr new =>
    let s1 := fresh s
    match resolveAttr s1.lowers s1.cache attr with
    | .col i => ({ s1 with cols := s1.cols.set i new, wild := setWild s1.wild i }, .done)
    | _ => (s1, .failed)
  | .replace attr =>
    let s1 := fresh s
    match resolveSetAttr s1.lowers s1.cache attr with
    | .col i => (rebuild s1, .look (.col i))      -- the new column keeps the stored name
    | l => (s1, .look l)
  | .append nm => (mkTable (s.cols ++ [nm]), .done)
  | .dir =>
    let s1 := rebuild s
    (s1, .names (Dict.keys s1.cache))
  | .getattr attr =>
    let s1 := fresh s
    (s1, .look (resolveAttr s1.lowers s1.cache attr))
  | .row attr =>
    let s1 := fresh s
    (s1, .look (resolveRow s1.cache attr))
  | .setitem key =>
    let s1 := fresh s
    (s1, .look (resolveSetItem s1.cache key))

/-- run a history, collecting the outputs -/
def run (s : TState) : List Op → TState × List Out
  | [] => (s, [])
  | op :: rest =>
    let r := step s op
    let r2 := run r.1 rest
    (r2.1, r.2 :: r2.2)

/-- the cache invariant: if no column is wild, the cached map is the map of the current names -/
def Fresh (s : TState) : Prop :=
  s.wild.length = s.cols.length ∧ (s.wild.any id = false → s.cache = buildColumnMap s.lowers)

end Serif.Names
