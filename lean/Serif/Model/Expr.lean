/-
  Expression language over vectors and tables (properties C03 and C18, the "programs" quantifier).

  Evaluation is at the abstract level the two properties need: a vector is
  (exact-type tags of its elements, reported dtype, name); a table is a list of those.
  Everything serif itself decides is modelled as coded in src/serif/{vector,table,csv}.py:
  which dtype rule each operation uses (inference on results, declared kind, promotion on
  assignment, `Vector.__new__`'s "infer only when no dtype was passed and there are elements"),
  which name each result gets, when an operation is refused.  What Python decides is a parameter:
  the result of every scalar operation (`x + y`, `-x`, `int(x)`, `sum(group)`), as an `Oracle`
  indexed by call site and element position, and the column-name sanitiser (property C17).
  Selections (which positions a slice / mask / sort / join / group-by picks) are parameters of the
  operation node, computed by the harness with Python's own list semantics.
-/
import Serif.Prelude
import Serif.Model.DType
import Serif.Gen.Consts

namespace Serif.X

/-! ### abstract objects -/

/-- what C03 / C18 can see of a vector -/
structure AVec where
  tags : List Tag
  dtype : Option DType
  name : Option String
  deriving DecidableEq, Repr, Inhabited

inductive Obj where
  | vec (v : AVec)
  | tab (cols : List AVec)
  deriving DecidableEq, Repr, Inhabited

/-- C03: every element belongs to the reported dtype (`schema() is None` reports nothing) -/
def truthful (tags : List Tag) : Option DType → Bool
  | none => true
  | some d => tags.all (belongs d)

def AVec.truthful (v : AVec) : Bool := X.truthful v.tags v.dtype

def Obj.truthful : Obj → Bool
  | .vec v => v.truthful
  | .tab cs => cs.all AVec.truthful

/-- names as observed by `.name` / `.column_names()` -/
inductive Names where
  | vec (n : Option String)
  | tab (ns : List (Option String))
  deriving DecidableEq, Repr, Inhabited

def nrowsOf (cs : List AVec) : Nat :=
  match cs with
  | [] => 0
  | c :: _ => c.tags.length

def Obj.names : Obj → Names
  | .vec v => .vec v.name
  | .tab cs => .tab (cs.map (·.name))

def Obj.nrows : Obj → Nat
  | .vec v => v.tags.length
  | .tab cs => nrowsOf cs

def Obj.tagsOf : Obj → List (List Tag)
  | .vec v => [v.tags]
  | .tab cs => cs.map (·.tags)

def Obj.dtypesOf : Obj → List (Option DType)
  | .vec v => [v.dtype]
  | .tab cs => cs.map (·.dtype)

def Obj.isTab : Obj → Bool
  | .vec _ => false
  | .tab _ => true

/-- what the name rules may look at: the operand's names and its number of rows -/
structure Sh where
  names : Names
  nrows : Nat
  deriving DecidableEq, Repr, Inhabited

def Obj.sh (o : Obj) : Sh := ⟨o.names, o.nrows⟩

def Names.cols : Names → List (Option String)
  | .vec n => [n]
  | .tab ns => ns

def Names.vecName : Names → Option String
  | .vec n => n
  | .tab _ => none

/-! ### `Vector.__new__` / `__init__`, `copy` -/

/-- `Vector(values, dtype=dt, name=name)`: a dtype is inferred only if none was passed and there
    is at least one element; an empty vector built without dtype reports `None`. -/
def mkVec (tags : List Tag) (dt : Option DType) (name : Option String) : AVec :=
  { tags := tags, name := name,
    dtype := match dt with
      | some d => some d
      | none => if tags.isEmpty then none else some (infer tags) }

/-- `self.copy(new_values, name=self._name)` -/
def AVec.copyWith (v : AVec) (tags : List Tag) : AVec := mkVec tags v.dtype v.name
/-- `self.copy()` -/
def AVec.copy (v : AVec) : AVec := v.copyWith v.tags

/-! ### scalar-operation oracle -/

/-- outcome of one Python scalar operation: a value of this exact type, `TypeError`, or any other exception -/
inductive SRes where
  | ok (t : Tag)
  | typeErr
  | err
  deriving DecidableEq, Repr, Inhabited

structure Oracle where
  /-- binary operator / comparison: call site, column, position, tag of self's element, tag of the other -/
  bin : Nat → Nat → Nat → Tag → Tag → SRes
  /-- unary operator: call site, position, tag -/
  un : Nat → Nat → Tag → SRes
  /-- `target_type(x)` in `cast`: call site, position, target kind, tag -/
  cast : Nat → Nat → Kind → Tag → SRes
  /-- aggregate function result: call site, index of the aggregation, group -/
  agg : Nat → Nat → Nat → SRes
  /-- `_sanitize_user_name` (property C17) -/
  san : String → Option String

/-- an oracle that answers nothing (programs without scalar operations) -/
def silent : Oracle :=
  ⟨fun _ _ _ _ _ => .err, fun _ _ _ => .err, fun _ _ _ _ => .err, fun _ _ _ => .err, fun _ => none⟩

/-- results so far, or the first failure (generators are consumed left to right) -/
def collect : List SRes → Except SRes (List Tag)
  | [] => .ok []
  | .ok t :: rs =>
    match collect rs with
    | .ok ts => .ok (t :: ts)
    | .error e => .error e
  | .typeErr :: _ => .error .typeErr
  | .err :: _ => .error .err

/-- `None if (x is None or y is None) else op(x, y)` over `zip(xs, ys)` -/
def zipRes (f : Nat → Tag → Tag → SRes) : Nat → List Tag → List Tag → List SRes
  | _, [], _ => []
  | _, _ :: _, [] => []
  | i, x :: xs, y :: ys =>
    (if x = .none ∨ y = .none then .ok .none else f i x y) :: zipRes f (i + 1) xs ys

/-- `None if x is None else op(x)` -/
def mapRes (f : Nat → Tag → SRes) : Nat → List Tag → List SRes
  | _, [] => []
  | i, x :: xs => (if x = .none then .ok .none else f i x) :: mapRes f (i + 1) xs

/-- the non-Vector operand of a binary operation -/
inductive Other where
  | scalar (t : Tag)
  | list (ts : List Tag)
  deriving DecidableEq, Repr, Inhabited

/-- the three code paths of arithmetic: `__add__` (has a `_Date` override), `__radd__`, and
    everything that goes straight to `_elementwise_operation` (incl. `__rsub__`, `__rmul__`, …) -/
inductive AOp where
  | add | radd | gen
  deriving DecidableEq, Repr, Inhabited

/-! ### vector operations -/

/-- end of `_elementwise_operation`: inference on the results; a `TypeError` becomes the
    object-typed tuple fallback (vector / iterable operand) or `SerifTypeError` (scalar operand) -/
def finishArith (scalarForm : Bool) (n : Nat) (rs : List SRes) : Res AVec :=
  match collect rs with
  | .ok ts => .ok (mkVec ts (some (infer ts)) none)
  | .error .typeErr =>
    if scalarForm then .error .type
    else .ok (mkVec (List.replicate n (.ty .tuple)) (some ⟨.object, false⟩) none)
  | .error _ => .error .other

/-- end of `__radd__` / `_unary_operation`: inference unless there are no elements -/
def finishKeep (a : AVec) (name : Option String) (rs : List SRes) : Res AVec :=
  match collect rs with
  | .ok ts => .ok (mkVec ts (if ts.isEmpty then a.dtype else some (infer ts)) name)
  | .error .typeErr => .error .type
  | .error _ => .error .other

/-- end of `_Date.__add__`: `Vector(tuple(...))` without dtype -/
def finishPlain (rs : List SRes) : Res AVec :=
  match collect rs with
  | .ok ts => .ok (mkVec ts none none)
  | .error .typeErr => .error .type
  | .error _ => .error .other

def AVec.kindIs (a : AVec) (k : Kind) : Bool :=
  match a.dtype with
  | some d => d.kind = k
  | none => false

def isIntInstance (t : Tag) : Bool := t = .ty .int || t = .ty .bool

/-- `a <op> b`, both vectors (`_Date.__add__` does day arithmetic when the other vector is of kind int) -/
def arithVV (ρ : Oracle) (site col : Nat) (op : AOp) (a b : AVec) : Res AVec :=
  if a.tags.length ≠ b.tags.length then .error .other
  else if op = .add ∧ a.kindIs .date ∧ b.kindIs .int then
    finishPlain (zipRes (ρ.bin site col) 0 a.tags b.tags)
  else finishArith false a.tags.length (zipRes (ρ.bin site col) 0 a.tags b.tags)

/-- `a <op> other` / `other <op> a` with a scalar or a plain iterable -/
def arithVO (ρ : Oracle) (site col : Nat) (op : AOp) (a : AVec) (o : Other) : Res AVec :=
  match op, o with
  | .radd, .scalar t => finishKeep a none (mapRes (fun i x => ρ.bin site col i x t) 0 a.tags)
  | .radd, .list ys =>
    if a.tags.length ≠ ys.length then .error .other
    else finishKeep a none (zipRes (ρ.bin site col) 0 a.tags ys)
  | op, .scalar t =>
    if op = .add ∧ a.kindIs .date ∧ isIntInstance t then
      finishPlain (mapRes (fun i x => ρ.bin site col i x t) 0 a.tags)
    else finishArith true a.tags.length (mapRes (fun i x => ρ.bin site col i x t) 0 a.tags)
  | _, .list ys =>
    if a.tags.length ≠ ys.length then .error .other
    else finishArith false a.tags.length (zipRes (ρ.bin site col) 0 a.tags ys)

/-- comparisons: `Vector(..., dtype=DataType(bool, nullable=False))`, every element `bool(...)` or `False` -/
def finishCmp (rs : List SRes) : Res AVec :=
  match collect rs with
  | .ok ts => .ok (mkVec (ts.map (fun _ => Tag.ty .bool)) (some ⟨.bool, false⟩) none)
  | .error _ => .error .other

def cmpVV (ρ : Oracle) (site : Nat) (a b : AVec) : Res AVec :=
  if a.tags.length ≠ b.tags.length then .error .other
  else finishCmp (zipRes (ρ.bin site 0) 0 a.tags b.tags)

def cmpVO (ρ : Oracle) (site : Nat) (a : AVec) (o : Other) : Res AVec :=
  match o with
  | .scalar t => finishCmp (mapRes (fun i x => ρ.bin site 0 i x t) 0 a.tags)
  | .list ys =>
    if a.tags.length ≠ ys.length then .error .other
    else finishCmp (zipRes (ρ.bin site 0) 0 a.tags ys)

/-- `-v`, `+v`, `abs(v)`: keeps the name -/
def unary (ρ : Oracle) (site : Nat) (a : AVec) : Res AVec :=
  finishKeep a a.name (mapRes (ρ.un site) 0 a.tags)

/-- one element of `cast`: the `date` target keeps the calendar day of a datetime and passes dates through,
    the `datetime` target passes datetimes through; everything else goes to the constructor -/
def castOne (ρ : Oracle) (site : Nat) (k : Kind) (i : Nat) (x : Tag) : SRes :=
  if k = .date ∧ x = .ty .datetime then .ok (.ty .date)
  else if k = .date ∧ x = .ty .date then .ok x
  else if k = .datetime ∧ x = .ty .datetime then .ok x
  else ρ.cast site i k x

/-- `v.cast(T)` for a class `T`: declared kind, nullable iff a None was seen -/
def cast (ρ : Oracle) (site : Nat) (k : Kind) (a : AVec) : Res AVec :=
  match collect (mapRes (castOne ρ site k) 0 a.tags) with
  | .ok ts => .ok (mkVec ts (some ⟨k, a.tags.contains .none⟩) a.name)
  | .error _ => .error .other

/-- `Vector._promote(target)` on the elements: every non-None element is converted -/
def convertTo (k : Kind) (ts : List Tag) : List Tag :=
  ts.map (fun x => if x = .none then .none else .ty k)

def promoteTags (cur target : Kind) (ts : List Tag) : List Tag :=
  if cur = target then ts else convertTo target ts

def fillWith (t : Tag) (ts : List Tag) : List Tag :=
  ts.map (fun x => if x = .none then t else x)

/-- `v.fillna(value)` -/
def fillna (t : Tag) (a : AVec) : Res AVec :=
  match a.dtype with
  | none => .ok (mkVec (fillWith t a.tags) none a.name)
  | some d =>
    if d.kind ≠ .object ∧ t ≠ .none ∧ validates d t = false then
      let req := (infer [t]).kind
      match promoteVec d.kind req with
      | none => .error .other
      | some _ =>
        .ok (mkVec (fillWith t (promoteTags d.kind req a.tags)) (some ⟨req, false⟩) a.name)
    else
      let out := fillWith t a.tags
      .ok (mkVec out (some ⟨d.kind, out.contains .none⟩) a.name)

/-- `v.dropna()`: the name is not passed on -/
def dropna (a : AVec) : Res AVec :=
  match a.dtype with
  | none => .ok (mkVec (a.tags.filter (· ≠ .none)) none none)
  | some d => .ok (mkVec (a.tags.filter (· ≠ .none)) (some ⟨d.kind, false⟩) none)

def isna (a : AVec) : AVec := mkVec (a.tags.map (fun _ => Tag.ty .bool)) (some ⟨.bool, false⟩) none

/-- `v.to_object()`: `DataType(object, nullable=has_none)` -/
def toObject (a : AVec) : AVec := mkVec a.tags (some ⟨.object, a.tags.contains .none⟩) a.name

/-- elements at the given positions (`None` if one is out of range) -/
def gather {α : Type} (l : List α) : List Nat → Option (List α)
  | [] => some []
  | i :: is =>
    match l[i]?, gather l is with
    | some x, some xs => some (x :: xs)
    | _, _ => none

/-- elements under a `True` -/
def selMask {α : Type} : List Bool → List α → List α
  | m :: ms, x :: xs => if m then x :: selMask ms xs else selMask ms xs
  | _, _ => []

/-- `v[slice]`, `v[[i, j, …]]`: positions as resolved by Python -/
def getIdx (idx : List Nat) (a : AVec) : Res AVec :=
  match gather a.tags idx with
  | some ts => .ok (a.copyWith ts)
  | none => .error .index

/-- `v[[True, False, …]]` -/
def getMask (m : List Bool) (a : AVec) : Res AVec :=
  if a.tags.length ≠ m.length then .error .other else .ok (a.copyWith (selMask m a.tags))

/-- `v[key]` with a Vector key: a non-nullable bool vector masks, a non-nullable int vector indexes -/
def getV (m : List Bool) (idx : List Nat) (a key : AVec) : Res AVec :=
  match key.dtype with
  | none => .error .attr
  | some dk =>
    if dk.kind = .bool ∧ dk.nullable = false then getMask m a
    else if dk.kind = .int ∧ dk.nullable = false then getIdx idx a
    else .error .type

/-- `v.sort_by(...)`: same dtype and name, elements permuted -/
def sortV (perm : List Nat) (a : AVec) : Res AVec :=
  match gather a.tags perm with
  | some ts => .ok (mkVec ts a.dtype a.name)
  | none => .error .other

/-- `_PROMOTABLE` -/
def promotable (cur req : Kind) : Bool :=
  (cur = .int && req = .float) || (cur = .int && req = .complex) ||
  (cur = .float && req = .complex) || (cur = .date && req = .datetime)

/-- the loop of `__setitem__` that works out the dtype accommodating every new value -/
def setTarget : DType → List Tag → Res DType
  | d, [] => .ok d
  | d, .none :: vs => setTarget { d with nullable := true } vs
  | d, .ty k :: vs =>
    if validates d (.ty k) then setTarget d vs
    else if promotable d.kind k then setTarget ⟨k, d.nullable⟩ vs
    else .error .type

def writeAll (ts : List Tag) : List (Nat × Tag) → List Tag
  | [] => ts
  | (i, v) :: us => writeAll (ts.set i v) us

/-- `v[key] = value` with the key resolved to (position, new value) pairs; returns the mutated vector -/
def setitem (ups : List (Nat × Tag)) (a : AVec) : Res AVec :=
  if ups.any (fun u => decide (a.tags.length ≤ u.1)) then .error .index
  else if ups.isEmpty then .ok a
  else
    match a.dtype with
    | none => .ok { a with tags := writeAll a.tags ups }
    | some d =>
      if d.kind = .object then
        -- object columns accept any value, but a None still has to show in the schema
        let d' : DType := if d.nullable = false ∧ (ups.map (·.2)).contains .none then { d with nullable := true } else d
        .ok { tags := writeAll a.tags ups, dtype := some d', name := a.name }
      else
        match setTarget d (ups.map (·.2)) with
        | .error e => .error e
        | .ok target =>
          match promoteVec d.kind target.kind with
          | none => .error .type
          | some k' =>
            let tags1 := promoteTags d.kind target.kind a.tags
            let d1 : DType := ⟨k', d.nullable⟩
            let d2 : DType := if target.nullable ∧ d1.nullable = false then { d1 with nullable := true } else d1
            .ok { tags := writeAll tags1 ups, dtype := some d2, name := a.name }

/-- the type-safety test shared by `<<` and `>>` (short-circuits on a nullable left side) -/
def concatCheck (da : DType) (b : Option DType) : Res Unit :=
  if da.nullable then .ok ()
  else match b with
    | none => .error .attr
    | some db => if db.nullable = false ∧ da.kind ≠ db.kind then .error .type else .ok ()

/-- `a << b` (concatenation), both vectors -/
def lshiftVV (a b : AVec) : Res AVec :=
  match a.dtype with
  | none => .error .attr
  | some da =>
    match concatCheck da b.dtype with
    | .error e => .error e
    | .ok _ =>
      let vs := a.tags ++ b.tags
      .ok (mkVec vs (if vs.isEmpty then a.dtype else some (infer vs)) none)

def lshiftVO (a : AVec) (o : Other) : Res AVec :=
  match a.dtype with
  | none => .error .attr
  | some _ =>
    match o with
    | .list ys =>
      let vs := a.tags ++ ys
      .ok (mkVec vs (if vs.isEmpty then a.dtype else some (infer vs)) none)
    | .scalar t =>
      let vs := a.tags ++ [t]
      .ok (mkVec vs (some (infer vs)) none)

/-! ### tables -/

/-- `Table.__init__` on a list of vectors: equal lengths, every column copied, names kept -/
def tableOf (cols : List AVec) : Res Obj :=
  if cols.all (fun c => c.tags.length = nrowsOf cols) then .ok (.tab (cols.map AVec.copy))
  else .error .value

/-- `Vector(tuple_of_vectors, dtype=…)`: a Table when non-empty and of equal lengths; unequal lengths give a
    nested vector (not modelled); no columns gives a plain empty vector -/
def vectorOfVecs (cols : List AVec) : Res Obj :=
  match cols with
  | [] => .ok (.vec (mkVec [] none none))
  | _ => if cols.all (fun c => c.tags.length = nrowsOf cols) then tableOf cols else .error .other

def Obj.colsOrSelf : Obj → List AVec
  | .vec v => [v]
  | .tab cs => cs

/-- `x >> y` with a Vector or Table on either side -/
def rshift (x y : Obj) : Res Obj :=
  match x, y with
  | .vec a, .vec b =>
    match a.dtype with
    | none => .error .attr
    | some da =>
      match concatCheck da b.dtype with
      | .error e => .error e
      | .ok _ => vectorOfVecs [a, b]
  | .vec a, .tab cs =>
    match a.dtype with
    | none => .error .attr
    | some da =>
      -- `other.schema()` of a Table is None
      match concatCheck da none with
      | .error e => .error e
      | .ok _ => vectorOfVecs (a :: cs)
  | .tab cs, y => vectorOfVecs (cs ++ y.colsOrSelf)

/-- `x >> [values]`; a scalar on the right is refused -/
def rshiftO (x : Obj) (o : Other) : Res Obj :=
  match o with
  | .scalar _ => .error .type
  | .list ys =>
    match x with
    | .vec a =>
      match a.dtype with
      | none => .error .attr
      | some _ => vectorOfVecs [a, mkVec ys none none]
    | .tab cs => vectorOfVecs (cs ++ [mkVec ys none none])

def zipNames : List String → List AVec → List AVec
  | n :: ns, v :: vs => { v.copy with name := some n } :: zipNames ns vs
  | _, _ => []

/-- `t >> {name: vector, …}` -/
def rshiftDict (names : List String) (cs vs : List AVec) : Res Obj :=
  if names.length ≠ vs.length then .error .other
  else if cs ≠ [] ∧ vs.any (fun v => v.tags.length ≠ nrowsOf cs) then .error .other
  else tableOf (cs ++ zipNames names vs)

def zipLeaf : List String → List (List Tag) → List AVec
  | n :: ns, c :: cs => mkVec c none (some n) :: zipLeaf ns cs
  | _, _ => []

/-- `Table({name: [values], …})` -/
def tableDict (names : List String) (cols : List (List Tag)) : Res Obj :=
  if names.length ≠ cols.length then .error .other else tableOf (zipLeaf names cols)

def mapM' {α β : Type} (f : α → Res β) : List α → Res (List β)
  | [] => .ok []
  | x :: xs =>
    match f x with
    | .error e => .error e
    | .ok y =>
      match mapM' f xs with
      | .error e => .error e
      | .ok ys => .ok (y :: ys)

/-- row selections `t[slice]`, `t[mask]`, `t[vector]`: every column is indexed the same way -/
def rowSel (f : AVec → Res AVec) (cs : List AVec) : Res Obj :=
  match mapM' f cs with
  | .error e => .error e
  | .ok cs' => vectorOfVecs cs'

/-- `t['a', 'b']` with the names already resolved to positions -/
def selCols (js : List Nat) (cs : List AVec) : Res Obj :=
  match gather cs js with
  | none => .error .key
  | some sel => tableOf sel

def selCol (j : Nat) (cs : List AVec) : Res Obj :=
  match cs[j]? with
  | none => .error .key
  | some c => .ok (.vec c)

/-- `t[i]`: a `Row`, typed by the columns' kinds (a column without dtype counts as `object?`) -/
def rowOf (i : Nat) (cs : List AVec) : Res Obj :=
  match mapM' (fun (c : AVec) => match c.tags[i]? with
      | some x => Except.ok (x, c.dtype.getD ⟨.object, true⟩)
      | none => .error .index) cs with
  | .error e => .error e
  | .ok xs =>
    let dt : DType :=
      match xs with
      | [] => ⟨.object, true⟩
      | (_, d) :: rest =>
        if rest.all (fun p => p.2.kind = d.kind) then ⟨d.kind, xs.any (fun p => p.2.nullable)⟩
        else ⟨.object, true⟩
    .ok (.vec { tags := xs.map (·.1), dtype := some dt, name := none })

def mapIdxM {α β : Type} (f : Nat → α → Res β) : Nat → List α → Res (List β)
  | _, [] => .ok []
  | i, x :: xs =>
    match f i x with
    | .error e => .error e
    | .ok y =>
      match mapIdxM f (i + 1) xs with
      | .error e => .error e
      | .ok ys => .ok (y :: ys)

/-- `_resolve_binary_name` -/
def resolveBinaryName (l r : Option String) : Option String :=
  if r = none ∨ r = l then l else none

/-- `t <op> other` where `other` is not a Table: every column name is restored -/
def tarithO (ρ : Oracle) (site : Nat) (op : AOp) (cs : List AVec) (o : Other) : Res Obj :=
  match mapIdxM (fun j c => match arithVO ρ site j op c o with
      | .ok r => Except.ok { r with name := c.name }
      | .error e => .error e) 0 cs with
  | .error e => .error e
  | .ok rs => tableOf rs

def tarithV (ρ : Oracle) (site : Nat) (op : AOp) (cs : List AVec) (b : AVec) : Res Obj :=
  match mapIdxM (fun j c => match arithVV ρ site j op c b with
      | .ok r => Except.ok { r with name := c.name }
      | .error e => .error e) 0 cs with
  | .error e => .error e
  | .ok rs => tableOf rs

def zipArith (ρ : Oracle) (site : Nat) (op : AOp) : Nat → List AVec → List AVec → Res (List AVec)
  | j, l :: ls, r :: rs =>
    match arithVV ρ site j op l r with
    | .error e => .error e
    | .ok x =>
      match zipArith ρ site op (j + 1) ls rs with
      | .error e => .error e
      | .ok xs => .ok ({ x with name := resolveBinaryName l.name r.name } :: xs)
  | _, _, _ => .ok []

/-- `t <op> u`, both tables -/
def tarithT (ρ : Oracle) (site : Nat) (op : AOp) (ls rs : List AVec) : Res Obj :=
  if ls.length ≠ rs.length then .error .other
  else match zipArith ρ site op 0 ls rs with
    | .error e => .error e
    | .ok cs => tableOf cs

/-- `t.T`: one inferred, unnamed column per row -/
def transposeT (cs : List AVec) : Res Obj :=
  tableOf ((List.range (nrowsOf cs)).map (fun i => mkVec (cs.map (fun c => c.tags.getD i .none)) none none))

inductive JoinKind where
  | inner | left | full
  deriving DecidableEq, Repr, Inhabited

def pick (ts : List Tag) : Option Nat → Tag
  | none => .none
  | some i => ts.getD i .none

/-- result columns of the three joins, given the emitted (left row, right row) pairs:
    every column re-inferred from its values and named after its source column -/
def join (kind : JoinKind) (pairs : List (Option Nat × Option Nat)) (ls rs : List AVec) : Res Obj :=
  let empty : Bool :=
    match kind with
    | .inner => pairs.isEmpty || (ls.isEmpty && rs.isEmpty)
    | .left => nrowsOf ls = 0
    | .full => nrowsOf ls = 0 && nrowsOf rs = 0
  if empty then .ok (.tab [])
  else tableOf (ls.map (fun c => mkVec (pairs.map (fun p => pick c.tags p.1)) none c.name) ++
                rs.map (fun c => mkVec (pairs.map (fun p => pick c.tags p.2)) none c.name))

/-! #### aggregate / window -/

/-- `uniquify`: the `while f"{name}{i}" in used` loop with fuel -/
def findFresh (name : String) (used : List String) : Nat → Nat → Option String
  | 0, _ => none
  | fuel + 1, i =>
    let c := name ++ toString i
    if used.contains c then findFresh name used fuel (i + 1) else some c

def uniquify (used : List String) (name : String) : String :=
  if used.contains name then (findFresh name used (used.length + 1) 2).getD name else name

/-- successive `uniquify` calls sharing one `used` set -/
def uniqAll : List String → List String → List String
  | _, [] => []
  | used, c :: cs =>
    let n := uniquify used c
    n :: uniqAll (n :: used) cs

inductive AggFn where
  | sum | mean | min | max | count | stdev
  deriving DecidableEq, Repr, Inhabited

def AggFn.suffix : AggFn → String
  | .sum => "sum" | .mean => "mean" | .min => "min" | .max => "max" | .count => "count" | .stdev => "stdev"

/-- keyword arguments of `aggregate` / `window`, columns given by position in the table -/
structure AggArgs where
  keys : List Nat
  sum : List Nat
  mean : List Nat
  min : List Nat
  max : List Nat
  count : List Nat
  stdev : List Nat
  apply : List (String × Nat)
  deriving DecidableEq, Repr, Inhabited

/-- what is aggregated, in the order the code emits the result columns -/
def AggArgs.flat (a : AggArgs) : List (Nat × Option AggFn × String) :=
  a.sum.map (fun c => (c, some AggFn.sum, "")) ++ a.mean.map (fun c => (c, some AggFn.mean, "")) ++
  a.min.map (fun c => (c, some AggFn.min, "")) ++ a.max.map (fun c => (c, some AggFn.max, "")) ++
  a.count.map (fun c => (c, some AggFn.count, "")) ++ a.stdev.map (fun c => (c, some AggFn.stdev, "")) ++
  a.apply.map (fun p => (p.2, none, p.1))

/-- `col._name or "key"` -/
def keyCand (n : Option String) : String :=
  match n with
  | some s => if s = "" then "key" else s
  | none => "key"

/-- `make_agg_name(col, suffix)` / the given name of an `apply` entry -/
def aggCand (san : String → Option String) (n : Option String) (fn : Option AggFn) (given : String) : String :=
  match fn with
  | none => given
  | some f =>
    let base := match n with
      | some s => if s = "" then "col" else s
      | none => "col"
    (match san base with
      | some s => s
      | none => "col") ++ "_" ++ f.suffix

/-- candidate output names: key names first, then one per aggregation -/
def aggCands (san : String → Option String) (colNames : List (Option String)) (a : AggArgs) : List String :=
  a.keys.map (fun k => keyCand (colNames.getD k none)) ++
  a.flat.map (fun f => aggCand san (colNames.getD f.1 none) f.2.1 f.2.2)

def aggNames (san : String → Option String) (colNames : List (Option String)) (a : AggArgs) : List String :=
  uniqAll [] (aggCands san colNames a)

/-- first row whose group is `g` -/
def firstRow (rowGroup : List Nat) (g : Nat) : Nat := rowGroup.findIdx (· = g)

def zipCols : List String → List (List Tag) → List AVec
  | n :: ns, c :: cs => mkVec c none (some n) :: zipCols ns cs
  | _, _ => []

/-- `t.aggregate(...)` / `t.window(...)`: `rowGroup[i]` = group of row `i` (groups numbered by first
    occurrence), `ngroups` of them; every result column is built by inference from its values -/
def aggregate (ρ : Oracle) (site : Nat) (window : Bool) (a : AggArgs) (rowGroup : List Nat) (ngroups : Nat)
    (cs : List AVec) : Res Obj :=
  if (a.keys ++ a.flat.map (·.1)).any (fun j => decide (cs.length ≤ j)) then .error .key
  else
    let keyCols : List (List Tag) := a.keys.map (fun k =>
      let ts := (cs.getD k default).tags
      if window then ts else (List.range ngroups).map (fun g => ts.getD (firstRow rowGroup g) .none))
    match mapIdxM (fun k (_ : Nat × Option AggFn × String) =>
        match collect ((List.range ngroups).map (fun g => ρ.agg site k g)) with
        | .ok vals => Except.ok (if window then rowGroup.map (fun g => vals.getD g .none) else vals)
        | .error _ => .error .other) 0 a.flat with
    | .error e => .error e
    | .ok aggCols =>
      tableOf (zipCols (aggNames ρ.san (cs.map (·.name)) a) (keyCols ++ aggCols))

/-- `t.sort_by(...)`: every column rebuilt by inference from the permuted values, names kept -/
def sortT (perm : List Nat) (cs : List AVec) : Res Obj :=
  if nrowsOf cs = 0 then tableOf (cs.map (fun c => mkVec [] none c.name))
  else
    match mapM' (fun (c : AVec) => match gather c.tags perm with
        | some ts => Except.ok (mkVec ts none c.name)
        | none => .error .other) cs with
    | .error e => .error e
    | .ok cs' => tableOf cs'

/-- `t[rows, j] = value`: the column vector is assigned in place -/
def tabSet (j : Nat) (ups : List (Nat × Tag)) (cs : List AVec) : Res Obj :=
  match cs[j]? with
  | none => .error .key
  | some c =>
    match setitem ups c with
    | .error e => .error e
    | .ok c' => .ok (.tab (cs.set j c'))

/-- `read_csv`: cells already parsed (`_infer_type`), short rows padded with None -/
def csv (hdr : Option (List String)) (rows : List (List Tag)) : Res Obj :=
  let header : List String :=
    match hdr with
    | some h => h
    | none => (List.range (rows.head?.getD []).length).map (fun i => "col_" ++ toString i)
  if hdr = none ∧ rows.isEmpty then .ok (.tab [])
  else if rows.isEmpty then tableOf (header.map (fun n => mkVec [] none (some n)))
  else tableOf ((List.range header.length).map (fun j =>
        mkVec (rows.map (fun r => r.getD j .none)) none (some (header.getD j ""))))

/-! ### the expression language -/

inductive Op where
  | leaf (tags : List Tag) (name : Option String)          -- `Vector(values, name=…)`
  | dict (names : List String) (cols : List (List Tag))    -- `Table({name: values, …})`
  | csv (hdr : Option (List String)) (rows : List (List Tag))
  | arith (op : AOp) (site : Nat)                          -- vector ∘ vector
  | arithO (op : AOp) (site : Nat) (o : Other)             -- vector ∘ scalar / list, and reflected
  | cmp (site : Nat)
  | cmpO (site : Nat) (o : Other)
  | unary (site : Nat)
  | cast (k : Kind) (site : Nat)
  | fillna (t : Tag)
  | dropna | isna | toObject
  | copy                                                    -- `.copy()`, `.T` of a vector
  | sortV (perm : List Nat)
  | getIdx (idx : List Nat)
  | getMask (m : List Bool)
  | getV (m : List Bool) (idx : List Nat)
  | setitem (ups : List (Nat × Tag))
  | lshift | lshiftO (o : Other)
  | rshift | rshiftO (o : Other) | rshiftDict (names : List String)
  | table                                                   -- `Table([v₁, …, vₙ])`
  | selCol (j : Nat) | selCols (js : List Nat) | row (i : Nat)
  | rowIdx (idx : List Nat) | rowMask (m : List Bool) | rowV (m : List Bool) (idx : List Nat)
  | tarith (op : AOp) (site : Nat) | tarithO (op : AOp) (site : Nat) (o : Other)
  | transposeT
  | join (kind : JoinKind) (pairs : List (Option Nat × Option Nat))
  | aggregate (window : Bool) (a : AggArgs) (rowGroup : List Nat) (ngroups : Nat) (site : Nat)
  | sortT (perm : List Nat)
  | tabSet (j : Nat) (ups : List (Nat × Tag))
  /-- a public operation the model has no dtype rule for (`unique`, `~`, `eomonth`, `pluck`, `Vector.new`, `list << v`, method
      proxies …): `step` refuses it, so its real result is judged by the specification alone (truthfulness) -/
  | opaque

def vecs : List Obj → Option (List AVec)
  | [] => some []
  | .vec v :: os => (vecs os).map (v :: ·)
  | .tab _ :: _ => none

def wrap (r : Res AVec) : Res Obj :=
  match r with
  | .ok v => .ok (.vec v)
  | .error e => .error e

/-- one operation applied to already evaluated operands -/
def step (ρ : Oracle) (op : Op) (args : List Obj) : Res Obj :=
  match op, args with
  | .leaf ts n, [] => .ok (.vec (mkVec ts none n))
  | .dict ns cs, [] => tableDict ns cs
  | .csv h rows, [] => csv h rows
  | .arith o s, [.vec a, .vec b] => wrap (arithVV ρ s 0 o a b)
  | .arithO o s other, [.vec a] => wrap (arithVO ρ s 0 o a other)
  | .cmp s, [.vec a, .vec b] => wrap (cmpVV ρ s a b)
  | .cmpO s other, [.vec a] => wrap (cmpVO ρ s a other)
  | .unary s, [.vec a] => wrap (unary ρ s a)
  | .cast k s, [.vec a] => wrap (cast ρ s k a)
  | .fillna t, [.vec a] => wrap (fillna t a)
  | .dropna, [.vec a] => wrap (dropna a)
  | .isna, [.vec a] => .ok (.vec (isna a))
  | .toObject, [.vec a] => .ok (.vec (toObject a))
  | .copy, [.vec a] => .ok (.vec a.copy)
  | .sortV p, [.vec a] => wrap (sortV p a)
  | .getIdx idx, [.vec a] => wrap (getIdx idx a)
  | .getMask m, [.vec a] => wrap (getMask m a)
  | .getV m idx, [.vec a, .vec k] => wrap (getV m idx a k)
  | .setitem ups, [.vec a] => wrap (setitem ups a)
  | .lshift, [.vec a, .vec b] => wrap (lshiftVV a b)
  | .lshiftO o, [.vec a] => wrap (lshiftVO a o)
  | .rshift, [x, y] => rshift x y
  | .rshiftO o, [x] => rshiftO x o
  | .rshiftDict ns, .tab cs :: vs =>
    match vecs vs with
    | some vs => rshiftDict ns cs vs
    | none => .error .other
  | .table, vs =>
    match vecs vs with
    | some vs => tableOf vs
    | none => .error .other
  | .selCol j, [.tab cs] => selCol j cs
  | .selCols js, [.tab cs] => selCols js cs
  | .row i, [.tab cs] => rowOf i cs
  | .rowIdx idx, [.tab cs] => rowSel (getIdx idx) cs
  | .rowMask m, [.tab cs] => rowSel (getMask m) cs
  | .rowV m idx, [.tab cs, .vec k] => rowSel (fun c => getV m idx c k) cs
  | .tarith o s, [.tab cs, .tab ds] => tarithT ρ s o cs ds
  | .tarith o s, [.tab cs, .vec b] => tarithV ρ s o cs b
  | .tarithO o s other, [.tab cs] => tarithO ρ s o cs other
  | .transposeT, [.tab cs] => transposeT cs
  | .join k pairs, [.tab ls, .tab rs] => join k pairs ls rs
  | .aggregate w a rg ng s, [.tab cs] => aggregate ρ s w a rg ng cs
  | .sortT p, [.tab cs] => sortT p cs
  | .tabSet j ups, [.tab cs] => tabSet j ups cs
  | _, _ => .error .other

mutual
  /-- a program: an operation applied to sub-programs (leaves are operations without operands) -/
  inductive Expr where
    | node (op : Op) (args : Args)
  inductive Args where
    | nil
    | cons (e : Expr) (es : Args)
end

mutual
  def eval (ρ : Oracle) : Expr → Res Obj
    | .node op args =>
      match evalArgs ρ args with
      | .ok os => step ρ op os
      | .error e => .error e
  def evalArgs (ρ : Oracle) : Args → Res (List Obj)
    | .nil => .ok []
    | .cons e es =>
      match eval ρ e with
      | .error err => .error err
      | .ok o =>
        match evalArgs ρ es with
        | .error err => .error err
        | .ok os => .ok (o :: os)
end


/-- Python's constructors return instances of the class they are called on (`int(x)`, `str(x)`,
    `date.fromisoformat(x)`, …): the one assumption about the oracle that C03 needs -/
def CastSound (ρ : Oracle) : Prop := ∀ s i k x t, ρ.cast s i k x = .ok t → t = .ty k

/-! ### C18: the name rules, as a function of the operands' names and row counts only -/

def shCols (s : Sh) : List (Option String) := s.names.cols

/-- a `Vector` built from a tuple of columns is a Table only if there is at least one column -/
def ofCols (ns : List (Option String)) : Names :=
  if ns.isEmpty then .vec none else .tab ns

def zipResolve : List (Option String) → List (Option String) → List (Option String)
  | l :: ls, r :: rs => resolveBinaryName l r :: zipResolve ls rs
  | _, _ => []

def nameRule (san : String → Option String) (op : Op) (args : List Sh) : Names :=
  let a0 : Sh := args.headD ⟨.vec none, 0⟩
  let a1 : Sh := (args.drop 1).headD ⟨.vec none, 0⟩
  match op with
  | .leaf _ n => .vec n
  | .dict ns _ => .tab (ns.map some)
  | .csv hdr rows =>
    match hdr with
    | some h => .tab (h.map some)
    | none => .tab ((List.range (rows.head?.getD []).length).map (fun i => some ("col_" ++ toString i)))
  -- math and comparisons drop the name
  | .arith .. | .arithO .. | .cmp .. | .cmpO .. | .isna | .dropna | .lshift | .lshiftO .. => .vec none
  | .row _ => .vec none
  -- structure keeps it
  | .unary _ | .cast .. | .fillna _ | .toObject | .copy | .sortV _ | .getIdx _ | .getMask _ | .getV ..
  | .setitem _ => .vec a0.names.vecName
  | .rshift => ofCols (shCols a0 ++ shCols a1)
  | .rshiftO _ => .tab (shCols a0 ++ [none])
  | .rshiftDict ns => .tab (shCols a0 ++ ns.map some)
  | .table => .tab (args.map (·.names.vecName))
  | .selCol j => .vec ((shCols a0).getD j none)
  | .selCols js => .tab (js.map (fun j => (shCols a0).getD j none))
  | .rowIdx _ | .rowMask _ | .rowV .. => ofCols (shCols a0)
  | .tarithO .. => .tab (shCols a0)
  | .tarith .. =>
    match a1.names with
    | .vec _ => .tab (shCols a0)
    | .tab rs => .tab (zipResolve (shCols a0) rs)
  | .transposeT => .tab (List.replicate a0.nrows none)
  | .join kind pairs =>
    let empty : Bool :=
      match kind with
      | .inner => pairs.isEmpty || ((shCols a0).isEmpty && (shCols a1).isEmpty)
      | .left => a0.nrows = 0
      | .full => a0.nrows = 0 && a1.nrows = 0
    if empty then .tab [] else .tab (shCols a0 ++ shCols a1)
  | .aggregate _ a _ _ _ => .tab ((aggNames san (shCols a0) a).map some)
  | .sortT _ | .tabSet .. => .tab (shCols a0)
  | .opaque => .vec none            -- never compared: `step` refuses the operation

/-- number of rows of the value of a program (0 if it is refused) -/
def rows (ρ : Oracle) (e : Expr) : Nat :=
  match eval ρ e with
  | .ok o => o.nrows
  | .error _ => 0

mutual
  /-- names of the result of a program, computed from the name rules alone -/
  def specNames (ρ : Oracle) : Expr → Names
    | .node op args => nameRule ρ.san op (specShs ρ args)
  def specShs (ρ : Oracle) : Args → List Sh
    | .nil => []
    | .cons e es => ⟨specNames ρ e, rows ρ e⟩ :: specShs ρ es
end

end Serif.X
