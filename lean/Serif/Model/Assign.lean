/-
  Model of in-place assignment (property C08):
    src/serif/vector.py  Vector.__setitem__, Vector._promote
    src/serif/table.py   Table.__setitem__, Table.rename_columns
    src/serif/typeutils.py slice_length
  plus the executable specification (`listAssign`, `specUpdates`, `demand`, `accepts`).

  Element values are opaque: a cell is the exact-type tag of a Python scalar and a `uid`
  naming the exact value.  Two things are parameters of every function here:
    * `P : Kind → Kind → Bool`   – membership in `vector._PROMOTABLE` (the driver passes the set
      extracted from the live source, `genP`)
    * `conv : Kind → Nat → Option Nat` – the element conversion done by `_promote`
      (`float(x)`, `complex(x)`, `datetime.combine(x, min.time())`), `none` = the conversion raises;
      computed by the harness with Python itself.
  A state-changing routine returns `(error?, state at the point where it stopped)` so that the
  state reached when an exception propagates is part of the result.
-/
import Serif.Prelude
import Serif.Model.DType
import Serif.Gen.Consts

namespace Serif.Assign

/-- results of the pure parts are compared by `decide` in examples and table theorems -/
instance instDecEqExcept {α : Type} [DecidableEq α] : DecidableEq (Except Err α) := fun a b =>
  match a, b with
  | .ok x, .ok y => if h : x = y then isTrue (by rw [h]) else isFalse (by intro e; injection e with e; exact h e)
  | .error x, .error y => if h : x = y then isTrue (by rw [h]) else isFalse (by intro e; injection e with e; exact h e)
  | .ok _, .error _ => isFalse (by intro e; cases e)
  | .error _, .ok _ => isFalse (by intro e; cases e)

/-! ### data -/

/-- one stored element: exact type tag + identity of the exact value -/
structure Cell where
  tag : Tag
  uid : Nat
  deriving DecidableEq, Repr, Inhabited

/-- everything `__setitem__` can change on a vector.  `fp` is the fingerprint memo, abstracted to
    "the contents it was computed from" (`none` = invalidated). -/
structure VState where
  data : List Cell
  dtype : Option DType
  name : Option Nat
  fp : Option (List Cell)
  deriving DecidableEq, Repr, Inhabited

/-- what `len(value)` does -/
inductive LenB where
  | ok | missing | raises
  deriving DecidableEq, Repr, Inhabited

/-- the right-hand side.  `scalar`: not `Iterable`, or `str`/`bytes`/`bytearray`.
    `seq`: an iterable, seen (i) as an object of its own (`self`, used when it is stored as one
    element), (ii) as the items it yields, (iii) `len` behaviour, (iv) `raiseAt = some k`:
    asking for item number `k` (0-based) raises instead. -/
inductive Value where
  | scalar (c : Cell)
  | seq (self : Cell) (items : List Cell) (len : LenB) (raiseAt : Option Nat)
  deriving DecidableEq, Repr, Inhabited

/-- the key, after Python's own classification (`isinstance` tests in the order of the source) -/
inductive Key where
  | int (i : Int)
  | slice (start stop step : Option Int)
  | maskList (bs : List Bool)      -- a list whose elements are all `bool` (including `[]`)
  | maskVec (bs : List Bool)       -- a non-nullable bool Vector
  | idxVec (is : List Int)         -- a non-nullable int Vector
  | idxList (is : List Int)        -- a list / tuple whose elements are all `int`
  | bad                            -- anything else
  deriving DecidableEq, Repr, Inhabited

def Value.asCell : Value → Cell
  | .scalar c => c
  | .seq self _ _ _ => self

/-! ### index arithmetic -/

/-- `if idx < 0: idx += n; if not 0 <= idx < n: raise SerifIndexError` -/
def normIdx (n : Nat) (i : Int) : Except Err Nat :=
  let j := if i < 0 then i + n else i
  if 0 ≤ j ∧ j < n then .ok j.toNat else .error .index

/-- `slice.indices(n)` (CPython `PySlice_AdjustIndices`); step 0 raises ValueError -/
def sliceIndices (start stop step : Option Int) (n : Nat) : Except Err (Int × Int × Int) :=
  let st : Int := step.getD 1
  if st = 0 then .error .other else
  let lower : Int := if st > 0 then 0 else -1
  let upper : Int := if st > 0 then n else (n : Int) - 1
  let adj (x : Int) : Int := if x < 0 then max (x + n) lower else min x upper
  let s : Int := match start with
    | none => if st < 0 then upper else lower
    | some x => adj x
  let e : Int := match stop with
    | none => if st < 0 then lower else upper
    | some x => adj x
  .ok (s, e, st)

/-- `typeutils.slice_length` after `indices`: `max(0, (stop - start + (step - sgn step)) // step)` -/
def sliceLength (start stop step : Int) : Nat :=
  (Int.fdiv (stop - start + (step - (if step > 0 then 1 else -1))) step).toNat

/-- `len(range(start, stop, step))` -/
def rangeLen (start stop step : Int) : Nat :=
  if step > 0 then (if start < stop then ((stop - start - 1) / step + 1).toNat else 0)
  else if step < 0 then (if stop < start then ((start - stop - 1) / (-step) + 1).toNat else 0)
  else 0

/-- `list(range(start, stop, step))` -/
def rangeList (start stop step : Int) : List Int :=
  (List.range (rangeLen start stop step)).map (fun (k : Nat) => start + (k : Int) * step)

/-- `[i for i, flag in enumerate(key) if flag]` -/
def trueIdxFrom : Nat → List Bool → List Nat
  | _, [] => []
  | i, b :: bs => if b then i :: trueIdxFrom (i + 1) bs else trueIdxFrom (i + 1) bs

def trueIdx (bs : List Bool) : List Nat := trueIdxFrom 0 bs

/-! ### building the update list (no state is touched here) -/

/-- `len(value)` for a sequence value -/
def lenOf (items : List Cell) : LenB → Except Err Nat
  | .ok => .ok items.length
  | .missing => .error .other      -- TypeError: object of type … has no len()
  | .raises => .error .other

/-- `next()` on the value iterator at position `j` -/
def nextItem (items : List Cell) (raiseAt : Option Nat) (j : Nat) : Except Err (Option Cell) :=
  if raiseAt = some j then .error .other else .ok items[j]?

/-- `for idx, v in zip(keys, value): <norm idx>; updates.append((idx, v))` —
    `zip` asks the key side first, then the value; the index check comes after both. -/
def zipLoop {κ : Type} (norm : κ → Except Err Nat) (items : List Cell) (raiseAt : Option Nat) :
    Nat → List κ → Except Err (List (Nat × Cell))
  | _, [] => .ok []
  | j, k :: ks =>
    match nextItem items raiseAt j with
    | .error e => .error e
    | .ok none => .ok []
    | .ok (some c) =>
      match norm k with
      | .error e => .error e
      | .ok p =>
        match zipLoop norm items raiseAt (j + 1) ks with
        | .error e => .error e
        | .ok rest => .ok ((p, c) :: rest)

/-- `for idx in keys: <norm idx>; updates.append((idx, value))` -/
def scalarLoop {κ : Type} (norm : κ → Except Err Nat) (c : Cell) : List κ → Except Err (List (Nat × Cell))
  | [] => .ok []
  | k :: ks =>
    match norm k with
    | .error e => .error e
    | .ok p =>
      match scalarLoop norm c ks with
      | .error e => .error e
      | .ok rest => .ok ((p, c) :: rest)

def okNat (i : Nat) : Except Err Nat := .ok i
def okInt (i : Int) : Except Err Nat := .ok i.toNat

/-- CASE 1 of `__setitem__` -/
def maskUpdates (bs : List Bool) (value : Value) (n : Nat) : Except Err (List (Nat × Cell)) :=
  if bs.length ≠ n then .error .value else
  let ti := trueIdx bs
  match value with
  | .scalar c => scalarLoop okNat c ti
  | .seq _ items len ra =>
    match lenOf items len with
    | .error e => .error e
    | .ok m => if ti.length ≠ m then .error .value else zipLoop okNat items ra 0 ti

/-- CASE 2 -/
def sliceUpdates (start stop step : Option Int) (value : Value) (n : Nat) :
    Except Err (List (Nat × Cell)) :=
  match sliceIndices start stop step n with
  | .error e => .error e
  | .ok (s, e, st) =>
    let slen := sliceLength s e st
    match value with
    | .scalar c => zipLoop okInt (List.replicate slen c) none 0 (rangeList s e st)
    | .seq _ items len ra =>
      match lenOf items len with
      | .error er => .error er
      | .ok m => if slen ≠ m then .error .value else zipLoop okInt items ra 0 (rangeList s e st)

/-- CASES 4 and 5 -/
def idxUpdates (is : List Int) (value : Value) (n : Nat) : Except Err (List (Nat × Cell)) :=
  match value with
  | .scalar c => scalarLoop (normIdx n) c is
  | .seq _ items len ra =>
    match lenOf items len with
    | .error e => .error e
    | .ok m => if is.length ≠ m then .error .value else zipLoop (normIdx n) items ra 0 is

/-- the whole key dispatch: the list of `(index, new value)` pairs, or the exception raised
    while it is being collected -/
def buildUpdates (key : Key) (value : Value) (n : Nat) : Except Err (List (Nat × Cell)) :=
  match key with
  | .maskList bs => maskUpdates bs value n
  | .maskVec bs => maskUpdates bs value n
  | .slice a b c => sliceUpdates a b c value n
  | .int i =>
    match normIdx n i with
    | .error e => .error e
    | .ok p => .ok [(p, value.asCell)]
  | .idxVec is => idxUpdates is value n
  | .idxList is => idxUpdates is value n
  | .bad => .error .type

/-! ### dtype check / promotion -/

/-- `infer_dtype([val]).kind` for a non-None value -/
def requiredKind (t : Tag) : Kind := (inferKind t).getD .object

/-- the loop over *all* new values that works out the accommodating dtype -/
def foldTarget (P : Kind → Kind → Bool) (conv : Kind → Nat → Option Nat) :
    DType → List Cell → Except Err DType
  | t, [] => .ok t
  | t, c :: cs =>
    match c.tag with
    | .none => foldTarget P conv { t with nullable := true } cs
    | .ty k =>
      if validates t (.ty k) then
        -- `validate_scalar` coerces a value of a narrower kind (`float(value)` …) and that may raise
        if k ≠ t.kind && (conv t.kind c.uid).isNone then .error .other
        else foldTarget P conv t cs
      else if P t.kind (requiredKind (.ty k)) then
        foldTarget P conv { kind := requiredKind (.ty k), nullable := t.nullable } cs
      else .error .type

/-- element conversion of `_promote`; None stays None -/
def convCell (conv : Kind → Nat → Option Nat) (k : Kind) (c : Cell) : Option Cell :=
  match c.tag with
  | .none => some c
  | .ty _ => (conv k c.uid).map (fun u => { tag := .ty k, uid := u })

def convAll (conv : Kind → Nat → Option Nat) (k : Kind) : List Cell → Option (List Cell)
  | [] => some []
  | c :: cs =>
    match convCell conv k c with
    | none => none
    | some c' =>
      match convAll conv k cs with
      | none => none
      | some cs' => some (c' :: cs')

/-- `Vector._promote(k)` on a vector whose dtype is `d`: refuses, or fails while converting
    (both before anything is stored), or swaps storage and dtype -/
def promoteState (conv : Kind → Nat → Option Nat) (k : Kind) (d : DType) (s : VState) :
    Option Err × VState :=
  match promoteVec d.kind k with
  | none => (some .type, s)
  | some k' =>
    if k' = d.kind then (none, s) else
    match convAll conv k' s.data with
    | none => (some .other, s)
    | some data' => (none, { s with data := data', dtype := some { kind := k', nullable := d.nullable } })

/-- `any(v is None for v in new_values)` -/
def hasNone (vals : List Cell) : Bool := vals.any (fun c => c.tag == .none)

/-- the block `if updates: …` -/
def typePhase (P : Kind → Kind → Bool) (conv : Kind → Nat → Option Nat) (vals : List Cell)
    (s : VState) : Option Err × VState :=
  if vals.isEmpty then (none, s) else
  match s.dtype with
  | none => (none, s)
  | some d =>
    if d.kind = .object then
      -- object columns accept any value, but a None still has to show in the schema
      (if !d.nullable && hasNone vals then (none, { s with dtype := some { d with nullable := true } })
       else (none, s))
    else
    match foldTarget P conv d vals with
    | .error e => (some e, s)
    | .ok target =>
      let r := if target.kind ≠ d.kind then promoteState conv target.kind d s else (none, s)
      match r with
      | (some e, s1) => (some e, s1)
      | (none, s1) =>
        match s1.dtype with
        | none => (none, s1)
        | some d1 =>
          if target.nullable && !d1.nullable then
            (none, { s1 with dtype := some { d1 with nullable := true } })
          else (none, s1)

/-- the checked type phase, given the outcome of the fold -/
def checkedOut (conv : Kind → Nat → Option Nat) (s : VState) (d : DType) (fr : Except Err DType) :
    Option Err × VState :=
  match fr with
  | .error e => (some e, s)
  | .ok target =>
    if target.kind = d.kind then
      (none, { s with dtype := some ⟨d.kind, d.nullable || target.nullable⟩ })
    else
      match promoteVec d.kind target.kind with
      | none => (some .type, s)
      | some _ =>
        match convAll conv target.kind s.data with
        | none => (some .other, s)
        | some cvt => (none, { s with data := cvt, dtype := some ⟨target.kind, d.nullable || target.nullable⟩ })


/-- copy-on-write materialisation, storage swap, memo invalidation -/
def applyUpdates {α : Type} (l : List α) (ups : List (Nat × α)) : List α :=
  ups.foldl (fun acc u => acc.set u.1 u.2) l

def materialise (ups : List (Nat × Cell)) (s : VState) : VState :=
  { s with data := applyUpdates s.data ups, fp := none }

/-- `Vector.__setitem__(key, value)`.  `shared` = another live vector uses the same storage tuple. -/
def setitem (P : Kind → Kind → Bool) (conv : Kind → Nat → Option Nat) (shared : Bool)
    (key : Key) (value : Value) (s : VState) : Option Err × VState :=
  if !s.data.isEmpty && shared then (some .alias, s) else
  match buildUpdates key value s.data.length with
  | .error e => (some e, s)
  | .ok ups =>
    match typePhase P conv (ups.map (·.2)) s with
    | (some e, s1) => (some e, s1)
    | (none, s1) => (none, materialise ups s1)

/-- the tail of `setitem` once the update list is collected -/
def finish (ups : List (Nat × Cell)) (r : Option Err × VState) : Option Err × VState :=
  match r with
  | (some e, s1) => (some e, s1)
  | (none, s1) => (none, materialise ups s1)

/-- `_PROMOTABLE` as extracted from the source on this run -/
def genP (a b : Kind) : Bool := Gen.promotable.contains (a.code, b.code)

/-! ### specification: Python list assignment -/

/-- the last value written at position `i`, if any -/
def lookupLast {α : Type} (ups : List (Nat × α)) (i : Nat) : Option α :=
  ups.foldl (fun acc u => if u.1 = i then some u.2 else acc) none

def assignFrom {α : Type} (ups : List (Nat × α)) : Nat → List α → List α
  | _, [] => []
  | i, x :: xs => ((lookupLast ups i).getD x) :: assignFrom ups (i + 1) xs

/-- `for i, x in ups: l[i] = x` described pointwise: every position holds the last value
    addressed to it, or what it held before -/
def listAssign {α : Type} (l : List α) (ups : List (Nat × α)) : List α := assignFrom ups 0 l

def normIdx? (n : Nat) (i : Int) : Option Nat :=
  let j := if i < 0 then i + n else i
  if 0 ≤ j ∧ j < n then some j.toNat else none

def mapOpt {α β : Type} (f : α → Option β) : List α → Option (List β)
  | [] => some []
  | a :: as =>
    match f a with
    | none => none
    | some b =>
      match mapOpt f as with
      | none => none
      | some bs => some (b :: bs)

/-- positions addressed by a key on a list of length `n`, in assignment order (Python semantics
    for int / slice / index list; the mask form addresses the positions holding True) -/
def keyTargets (key : Key) (n : Nat) : Option (List Nat) :=
  match key with
  | .int i => (normIdx? n i).map (fun p => [p])
  | .slice a b c =>
    match sliceIndices a b c n with
    | .error _ => none
    | .ok (s, e, st) => some ((rangeList s e st).map Int.toNat)
  | .maskList bs => if bs.length = n then some (trueIdx bs) else none
  | .maskVec bs => if bs.length = n then some (trueIdx bs) else none
  | .idxVec is => mapOpt (normIdx? n) is
  | .idxList is => mapOpt (normIdx? n) is
  | .bad => none

/-- does consuming the value raise (when `m` items are wanted), or has it no usable length? -/
def Value.faulty (v : Value) : Bool :=
  match v with
  | .scalar _ => false
  | .seq _ _ len ra => len != .ok || ra.isSome

/-- the values to be written at `m` targets by a key that is not a single int: a scalar is
    repeated, a sequence must have exactly `m` items -/
def seqCells (value : Value) (m : Nat) : Option (List Cell) :=
  match value with
  | .scalar c => some (List.replicate m c)
  | .seq _ items _ _ => if items.length = m then some items else none

/-- … and a single int key stores the right-hand side as it is, whatever it is -/
def valueCells (key : Key) (value : Value) (m : Nat) : Option (List Cell) :=
  match key with
  | .int _ => some [value.asCell]
  | _ => seqCells value m

/-- the (position, value) pairs of the assignment, or `none` when key or shape are invalid -/
def specUpdates (key : Key) (value : Value) (n : Nat) : Option (List (Nat × Cell)) :=
  match keyTargets key n with
  | none => none
  | some ts =>
    match valueCells key value ts.length with
    | none => none
    | some vs => some (ts.zip vs)

/-- the old contents as they stand after the promotion an assignment made: untouched when the
    column kind is unchanged, otherwise every element converted to the new kind -/
def convertedOld (conv : Kind → Nat → Option Nat) (s s' : VState) : Option (List Cell) :=
  match s.dtype, s'.dtype with
  | some d, some d' => if d'.kind = d.kind then some s.data else convAll conv d'.kind s.data
  | _, _ => some s.data

/-- kinds of the non-None values -/
def kindsOfCells (vals : List Cell) : List Kind := vals.filterMap (fun c => inferKind c.tag)

/-- order-free description of the accommodating kind: the join of the column kind with the kinds
    written -/
def specKind (k : Kind) (vals : List Cell) : Kind := (kindsOfCells vals).foldl Kind.join k


/-- some coercion that `validate_scalar` may perform on this written value raises
    (e.g. `float(10**400)`) -/
def cellRisk (conv : Kind → Nat → Option Nat) (c : Cell) : Bool :=
  match c.tag with
  | .none => false
  | .ty k =>
    [Kind.int, Kind.float, Kind.complex, Kind.datetime].any fun t =>
      k != t && validates { kind := t, nullable := true } (.ty k) && (conv t c.uid).isNone

/-- … on some written value: the assignment may then be refused with that exception -/
def coercionRisk (conv : Kind → Nat → Option Nat) (vals : List Cell) : Bool :=
  vals.any (cellRisk conv)

/-- no coercion `validate_scalar` might attempt on these values raises -/
def coercible (conv : Kind → Nat → Option Nat) (vals : List Cell) : Prop :=
  ∀ c ∈ vals, ∀ t : Kind, (conv t c.uid).isNone = false


/-- the widenings the property demands ("a value of a wider compatible kind promotes the whole
    column with existing elements converted"): exactly the value-converting ones.
    Written by hand — the specification does not read `_PROMOTABLE` from the source. -/
def widens : Kind → Kind → Bool
  | .int, .float | .int, .complex | .float, .complex | .date, .datetime => true
  | _, _ => false

/-- what the property demands of one attempted assignment -/
inductive Demand where
  | succeed (s : VState)     -- must not raise; state must be `s`
  | failAny                  -- must raise; state unchanged
  | failType                 -- must raise SerifTypeError; state unchanged
  | either (s : VState)      -- latitude: raises and changes nothing, or succeeds with `s`
  | typeOr (s : VState)      -- latitude (bool ← number): SerifTypeError and nothing changed, or `s`
  deriving DecidableEq, Repr

def Demand.relax : Demand → Demand
  | .succeed s => .either s
  | .typeOr s => .either s
  | .either s => .either s
  | .failAny => .failAny
  | .failType => .failAny

/-- demands that are met by refusing and changing nothing -/
def Demand.lax : Demand → Bool
  | .failAny => true
  | .either _ => true
  | _ => false


/-- the checked branch: the column has a kind other than `object` and something is written -/
def innerDemand (conv : Kind → Nat → Option Nat) (ups : List (Nat × Cell)) (s : VState) (d : DType) :
    Demand :=
  let vals := ups.map (·.2)
  let k' := specKind d.kind vals
  let nd : DType := { kind := k', nullable := d.nullable || hasNone vals }
  if k' = d.kind then .succeed { s with data := listAssign s.data ups, dtype := some nd, fp := none }
  else
    match convAll conv k' s.data with
    | some cvt =>
      let w : VState := { s with data := listAssign cvt ups, dtype := some nd, fp := none }
      if widens d.kind k' then .succeed w
      else if d.kind = .bool && k'.isNumeric then .typeOr w
      else .failType
    | none =>                                      -- the conversion of an existing element raises
      if widens d.kind k' || (d.kind = .bool && k'.isNumeric) then .failAny else .failType

/-- dtype / contents demanded when `ups` is written into state `s` -/
def typedDemand (conv : Kind → Nat → Option Nat) (ups : List (Nat × Cell)) (s : VState) : Demand :=
  let vals := ups.map (·.2)
  let plain : VState := { s with data := listAssign s.data ups, fp := none }
  if vals.isEmpty then .succeed plain else
  match s.dtype with
  | none => .succeed plain
  | some d =>
    if d.kind = .object then
      .succeed { plain with dtype := some { d with nullable := d.nullable || hasNone vals } }
    else if coercionRisk conv vals then (innerDemand conv ups s d).relax
    else innerDemand conv ups s d

/-- the demand when the value can be consumed without an exception -/
def coreDemand (conv : Kind → Nat → Option Nat) (key : Key) (value : Value) (s : VState) : Demand :=
  match key with
  | .maskList [] => .either { s with fp := none }        -- `v[[]] = x`: refusing is fine
  | _ =>
    match specUpdates key value s.data.length with
    | none => .failAny
    | some ups => typedDemand conv ups s

/-- a value that raises before enough items were delivered must make the assignment fail; one
    without a usable `len`, or raising only at its very end, may be refused or accepted -/
def faultAdjust (key : Key) (value : Value) (n : Nat) (core : Demand) : Demand :=
  match key, value with
  | .int _, _ => core
  | _, .scalar _ => core
  | _, .seq _ _ len ra =>
    match ra with
    | some k =>
      (match keyTargets key n with
       | some ts => if k < ts.length then .failAny else core.relax
       | none => .failAny)
    | none => if len = .ok then core else core.relax

/-- the specification of `v[key] = value` -/
def demand (conv : Kind → Nat → Option Nat) (shared : Bool)
    (key : Key) (value : Value) (s : VState) : Demand :=
  let c := faultAdjust key value s.data.length (coreDemand conv key value s)
  if !s.data.isEmpty && shared then c.relax else c

/-- "the memo is not stale": a stored fingerprint, if any, was computed from the present contents -/
def fpFresh (s : VState) : Bool :=
  match s.fp with
  | none => true
  | some d => d == s.data

/-- same observable state (contents, dtype, name; fingerprint not stale) -/
def sameObs (a b : VState) : Bool :=
  a.data == b.data && a.dtype == b.dtype && a.name == b.name

/-- does an observed outcome (exception class or none, state afterwards) meet the demand?
    `s0` is the state before the attempt. -/
def accepts (dm : Demand) (s0 : VState) (out : Option Err × VState) : Bool :=
  match dm, out with
  | .succeed s, (none, s') => sameObs s s' && fpFresh s'
  | .succeed _, (some _, _) => false
  | .failAny, (some _, s') => sameObs s0 s' && fpFresh s'
  | .failAny, (none, _) => false
  | .failType, (some e, s') => e == .type && sameObs s0 s' && fpFresh s'
  | .failType, (none, _) => false
  | .either s, (none, s') => sameObs s s' && fpFresh s'
  | .either _, (some _, s') => sameObs s0 s' && fpFresh s'
  | .typeOr s, (none, s') => sameObs s s' && fpFresh s'
  | .typeOr _, (some e, s') => e == .type && sameObs s0 s' && fpFresh s'

/-! ### Table.__setitem__ -/

structure TState where
  cols : List VState
  deriving DecidableEq, Repr, Inhabited

inductive ColItem where
  | name (id lowerId : Nat)
  | int (i : Int)
  | other
  deriving DecidableEq, Repr

inductive ColSpec where
  | slice (start stop step : Option Int)
  | int (i : Int)
  | name (id lowerId : Nat)
  | list (items : List ColItem)
  | bad
  deriving DecidableEq, Repr

inductive TKey where
  | single (row : Key)
  | pair (row : Key) (col : ColSpec)
  | badTuple                         -- a tuple whose length is not 2
  deriving DecidableEq, Repr

/-- how the code classifies the right-hand side of a table assignment -/
inductive IterKind where
  | table | listOrTuple | other
  deriving DecidableEq, Repr

inductive TValue where
  | scalar (c : Cell)
  /-- `nestedFirst`: `isinstance(value[0], (list, tuple, Vector))`;
      `raiseAt = some k`: iterating raises instead of delivering item `k` (k = length: at the end) -/
  | iter (kind : IterKind) (self : Cell) (items : List Value) (nestedFirst : Bool) (raiseAt : Option Nat)
  deriving DecidableEq, Repr

/-- `_column_map.get(c) or _column_map.get(c.lower())` on a table whose sanitised accessor names
    are the column names themselves (distinct lower-case identifiers) -/
def findName (names : List (Option Nat)) (id : Nat) : Option Nat :=
  match names.findIdx? (fun x => x == some id) with
  | some i => some i
  | none => none

def lookupCol (names : List (Option Nat)) (id lowerId : Nat) : Option Nat :=
  match findName names id with
  | some 0 => findName names lowerId       -- `0 or …`
  | some i => some i
  | none => findName names lowerId

def resolveItems (names : List (Option Nat)) : List ColItem → Except Err (List Int)
  | [] => .ok []
  | .name id lid :: rest =>
    match lookupCol names id lid with
    | none => .error .key
    | some i =>
      match resolveItems names rest with
      | .error e => .error e
      | .ok r => .ok ((i : Int) :: r)
  | .int i :: rest =>
    match resolveItems names rest with
    | .error e => .error e
    | .ok r => .ok (i :: r)
  | .other :: rest => resolveItems names rest

/-- step 2 of `Table.__setitem__`: the target column indices (Python indices, may be negative) -/
def resolveCols (names : List (Option Nat)) (ncols : Nat) : ColSpec → Except Err (List Int)
  | .slice a b c =>
    match sliceIndices a b c ncols with
    | .error e => .error e
    | .ok (s, e, st) => .ok (rangeList s e st)
  | .int i => .ok [i]
  | .name id lid =>
    match lookupCol names id lid with
    | none => .error .key
    | some i => .ok [(i : Int)]
  | .list items => resolveItems names items
  | .bad => .error .type

/-- `self._underlying[col_idx]` -/
def tupleIndex (n : Nat) (i : Int) : Option Nat :=
  let j := if i < 0 then i + n else i
  if 0 ≤ j ∧ j < n then some j.toNat else none

/-- the loop `for i, col_idx in enumerate(target_indices): self._underlying[col_idx][row] = value_i` -/
def writeCols (P : Kind → Kind → Bool) (conv : Kind → Nat → Option Nat) (row : Key) :
    List (Int × Value) → TState → Option Err × TState
  | [], t => (none, t)
  | (ci, v) :: rest, t =>
    match tupleIndex t.cols.length ci with
    | none => (some .other, t)
    | some j =>
      match t.cols[j]? with
      | none => (some .other, t)
      | some col =>
        match setitem P conv false row v col with
        | (some e, col') => (some e, { cols := t.cols.set j col' })
        | (none, col') => writeCols P conv row rest { cols := t.cols.set j col' }

def isIntKey : Key → Bool
  | .int _ => true
  | _ => false

/-- `list(value)`: all items, unless the iterator raises anywhere up to and including its end -/
def consumeAll (items : List Value) (raiseAt : Option Nat) : Except Err (List Value) :=
  match raiseAt with
  | some k => if k ≤ items.length then .error .other else .ok items
  | none => .ok items

def seqOfValues (self : Cell) (items : List Value) : Value :=
  .seq self (items.map Value.asCell) .ok none

/-- steps 1–3 up to (not including) the per-column writes: the row key and the list of
    (column index, value for that column), or the exception raised before any write -/
def plan (names : List (Option Nat)) (ncols : Nat) (key : TKey) (value : TValue) :
    Except Err (Key × List (Int × Value)) :=
  match key with
  | .badTuple => .error .key
  | .single row => go row (.slice none none none)
  | .pair row col => go row col
where
  go (row : Key) (col : ColSpec) : Except Err (Key × List (Int × Value)) :=
    match resolveCols names ncols col with
    | .error e => .error e
    | .ok targets =>
      if targets.isEmpty then .ok (row, []) else
      match value with
      | .scalar c => .ok (row, targets.map (fun ci => (ci, Value.scalar c)))          -- CASE A
      | .iter kind self items nested ra =>
        if isIntKey row then                                                           -- CASE B
          match consumeAll items ra with
          | .error e => .error e
          | .ok vs =>
            if vs.length ≠ targets.length then .error .value
            else .ok (row, targets.zip vs)
        else
          match kind with
          | .table =>                                                                  -- CASE C
            if items.length ≠ targets.length then .error .value
            else .ok (row, targets.zip items)
          | .listOrTuple =>                                                            -- CASE D
            if targets.length = 1 && (items.isEmpty || !nested) then
              .ok (row, targets.map (fun ci => (ci, seqOfValues self items)))
            else if items.length ≠ targets.length then .error .value
            else .ok (row, targets.zip items)
          | .other => .error .type

/-- `Table.__setitem__(key, value)`: `_assign_cells` plans the write and runs the column loop; when any column refuses,
    the wrapper puts every column back (storage, dtype, memo) and re-raises -/
def tsetitem (P : Kind → Kind → Bool) (conv : Kind → Nat → Option Nat)
    (key : TKey) (value : TValue) (t : TState) : Option Err × TState :=
  match plan (t.cols.map (·.name)) t.cols.length key value with
  | .error e => (some e, t)
  | .ok (row, ws) =>
    match writeCols P conv row ws t with
    | (some e, _) => (some e, t)
    | (none, t') => (none, t')

/-- shape of a table: per column its length and name -/
def shape (t : TState) : List (Nat × Option Nat) := t.cols.map (fun c => (c.data.length, c.name))

/-! ### Table.rename_columns -/

/-- `simulated.index(old)` then `simulated[idx] = new`; also one step of the apply loop
    (`for col in cols: if col._name == old: col._name = new; break`) -/
def renameOne (names : List (Option Nat)) (old new : Option Nat) : Option (List (Option Nat)) :=
  match names.findIdx? (fun x => x == old) with
  | none => none
  | some i => some (names.set i new)

/-- the simulation pass; `raiseAt = some k`: the supplied name lists raise at pair `k` -/
def renameSim (raiseAt : Option Nat) : Nat → List (Option Nat × Option Nat) → List (Option Nat) →
    Except Err (List (Option Nat))
  | _, [], names => .ok names
  | j, (old, new) :: rest, names =>
    if raiseAt = some j then .error .other else
    match renameOne names old new with
    | none => .error .key
    | some names' => renameSim raiseAt (j + 1) rest names'

/-- the apply pass: a name that is not found is skipped silently -/
def renameApply : List (Option Nat × Option Nat) → List (Option Nat) → List (Option Nat)
  | [], names => names
  | (old, new) :: rest, names =>
    match renameOne names old new with
    | none => renameApply rest names
    | some names' => renameApply rest names'

/-- `Table.rename_columns(old_names, new_names)` acting on the list of column names -/
def renameColumns (olds news : List (Option Nat)) (raiseAt : Option Nat)
    (names : List (Option Nat)) : Option Err × List (Option Nat) :=
  if olds.length ≠ news.length then (some .value, names) else
  match renameSim raiseAt 0 (olds.zip news) names with
  | .error e => (some e, names)
  | .ok _ => (none, renameApply (olds.zip news) names)

/-! ### specification of table assignment and of rename_columns -/

inductive TDemand where
  | succeed (t : TState)
  | failAny
  | failType
  | either (t : TState)
  deriving DecidableEq, Repr

/-- column by column: what each addressed column must become.  `relaxed`: some column's demand
    leaves latitude; `fails`: for every column that must refuse, whether it must be a SerifTypeError.
    A table assignment must succeed on all its columns or change none. -/
def tdemandCols (conv : Kind → Nat → Option Nat) (row : Key) :
    List (Int × Value) → TState → TState → Bool → List Bool → TDemand
  | [], _, t, relaxed, fails =>
    if fails.isEmpty then (if relaxed then .either t else .succeed t)
    else if fails.all id && !relaxed then .failType else .failAny
  | (ci, v) :: rest, t0, t, relaxed, fails =>
    match tupleIndex t.cols.length ci with
    | none => .failAny
    | some j =>
      match t.cols[j]? with
      | none => .failAny
      | some col =>
        match demand conv false row v col with
        | .succeed s => tdemandCols conv row rest t0 { cols := t.cols.set j s } relaxed fails
        | .either s => tdemandCols conv row rest t0 { cols := t.cols.set j s } true fails
        | .typeOr s => tdemandCols conv row rest t0 { cols := t.cols.set j s } true fails
        | .failAny => tdemandCols conv row rest t0 t relaxed (false :: fails)
        | .failType => tdemandCols conv row rest t0 t relaxed (true :: fails)

/-- the specification of `t[key] = value` -/
def tdemand (conv : Kind → Nat → Option Nat)
    (key : TKey) (value : TValue) (t : TState) : TDemand :=
  let names := t.cols.map (·.name)
  -- an iterator that raises only when asked for more than it has may be accepted or refused
  let (value', relaxed) : TValue × Bool :=
    match value with
    | .iter kd self items nested (some k) =>
      if k ≥ items.length then (.iter kd self items nested none, true) else (value, false)
    | _ => (value, false)
  match plan names t.cols.length key value' with
  | .error _ => .failAny
  | .ok (row, ws) => tdemandCols conv row ws t t relaxed []

def sameTab (a b : TState) : Bool :=
  a.cols.length == b.cols.length && (a.cols.zip b.cols).all (fun p => sameObs p.1 p.2)

def freshTab (t : TState) : Bool := t.cols.all fpFresh

def taccepts (dm : TDemand) (t0 : TState) (out : Option Err × TState) : Bool :=
  match dm, out with
  | .succeed t, (none, t') => sameTab t t' && freshTab t'
  | .succeed _, (some _, _) => false
  | .failAny, (some _, t') => sameTab t0 t' && freshTab t'
  | .failAny, (none, _) => false
  | .failType, (some e, t') => e == .type && sameTab t0 t' && freshTab t'
  | .failType, (none, _) => false
  | .either t, (none, t') => sameTab t t' && freshTab t'
  | .either _, (some _, t') => sameTab t0 t' && freshTab t'

/-- a failed table assignment that nevertheless stored something (the defect repaired in ff19998, kept as a diagnostic):
    the observed outcome is an error and the state differs from the one before -/
def partialWrite (_model out : Option Err × TState) (t0 : TState) : Bool :=
  out.1.isSome && !sameTab t0 out.2

/-- sequential first-match renaming; `none` = some old name is missing at its turn -/
def renameSpec : List (Option Nat × Option Nat) → List (Option Nat) → Option (List (Option Nat))
  | [], names => some names
  | (old, new) :: rest, names =>
    match renameOne names old new with
    | none => none
    | some names' => renameSpec rest names'

/-- verdict on an observed `rename_columns` call -/
def raccepts (olds news : List (Option Nat)) (raiseAt : Option Nat) (names : List (Option Nat))
    (out : Option Err × List (Option Nat)) : Bool :=
  let mustFail : Bool :=
    olds.length != news.length ||
    (match raiseAt with | some k => k < olds.length | none => false) ||
    (renameSpec (olds.zip news) names).isNone
  if mustFail then out.1.isSome && out.2 == names
  else
    match raiseAt with
    | some _ =>          -- raising only at the very end: latitude
      (out.1.isSome && out.2 == names) ||
        (out.1.isNone && some out.2 == renameSpec (olds.zip news) names)
    | none => out.1.isNone && some out.2 == renameSpec (olds.zip news) names

end Serif.Assign
