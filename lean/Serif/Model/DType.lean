/-
  Model of src/serif/typing.py : DataType.promote_with, infer_kind, infer_dtype,
  validate_scalar.  Element values are seen only through their exact type tag
  (these functions inspect nothing else: `type(v)`, `isinstance`, `is None`).
-/
import Serif.Prelude

namespace Serif

namespace Kind
/-- `DataType.is_numeric` -/
def isNumeric : Kind → Bool
  | bool | int | float | complex => true
  | _ => false

/-- `DataType.is_temporal` -/
def isTemporal : Kind → Bool
  | date | datetime => true
  | _ => false
end Kind

/-- `infer_kind(value)`: `None` for None, else the class used as column kind. -/
def inferKind : Tag → Option Kind
  | .none => none
  | .ty k => some k

/-- `DataType.promote_with(value)` — case numbers as in the source. -/
def promote (d : DType) (t : Tag) : DType :=
  match t with
  | .none => if d.nullable then d else { d with nullable := true }      -- case 1
  | .ty v =>
    if v = d.kind then d                                                 -- case 2
    else if d.kind.isNumeric && v.isNumeric then                         -- case 3
      let nk :=
        if d.kind = .complex || v = .complex then Kind.complex
        else if d.kind = .float || v = .float then Kind.float
        else if d.kind = .int || v = .int then Kind.int
        else Kind.bool
      if nk ≠ d.kind then { kind := nk, nullable := d.nullable } else d
    else if d.kind.isTemporal && v.isTemporal then                       -- case 4
      let nk := if d.kind = .datetime || v = .datetime then Kind.datetime else Kind.date
      if nk ≠ d.kind then { kind := nk, nullable := d.nullable } else d
    else if d.kind ≠ .object then { kind := .object, nullable := d.nullable }  -- case 6
    else d

/-- loop state of `infer_dtype`: the dtype so far (if a non-None element was seen) and
    whether a None was seen before the first non-None element -/
structure InferSt where
  dtype : Option DType
  leadingNone : Bool
  deriving DecidableEq, Repr

def inferStep (s : InferSt) (t : Tag) : InferSt :=
  match s.dtype with
  | none =>
    match inferKind t with
    | none => { s with leadingNone := true }
    | some k => { s with dtype := some { kind := k, nullable := s.leadingNone } }
  | some d => { s with dtype := some (promote d t) }

/-- `infer_dtype(values)` -/
def infer (l : List Tag) : DType :=
  ((l.foldl inferStep { dtype := none, leadingNone := false }).dtype).getD
    { kind := .object, nullable := true }

/-- `validate_scalar(value, dtype)`: `true` iff it returns (possibly coercing),
    `false` iff it raises TypeError. -/
def validates (d : DType) (t : Tag) : Bool :=
  match t with
  | .none => d.nullable
  | .ty v =>
    v = d.kind
    || (d.kind = .float && (v = .int || v = .bool))
    || (d.kind = .int && v = .bool)
    || (d.kind = .complex && (v = .int || v = .float || v = .bool))
    || (d.kind = .datetime && v = .date)

/-- the tag of the value `validate_scalar` returns when it accepts (coercion target) -/
def coerceTag (d : DType) (t : Tag) : Tag :=
  match t with
  | .none => .none
  | .ty _ => .ty d.kind

/-- `Vector._promote(target)` restricted to what it decides: `some k'` = column converted to
    kind `k'` (or already there), `none` = SerifTypeError. -/
def promoteVec (cur target : Kind) : Option Kind :=
  if cur = target then some cur
  else if target = .float && cur = .int then some .float
  else if target = .complex && (cur = .int || cur = .float) then some .complex
  else if target = .datetime && cur = .date then some .datetime
  else none

/-! ### Specification side -/

/-- least upper bound of two kinds in the order
    `bool < int < float < complex`, `date < datetime`, everything `< object`. -/
def Kind.join (a b : Kind) : Kind :=
  if a = b then a
  else if a.isNumeric && b.isNumeric then
    if a = .complex || b = .complex then .complex
    else if a = .float || b = .float then .float
    else if a = .int || b = .int then .int
    else .bool
  else if a.isTemporal && b.isTemporal then .datetime
  else .object

/-- order induced by the join -/
def Kind.le (a b : Kind) : Prop := a.join b = b

/-- the kinds of the non-None elements -/
def kindsOf (l : List Tag) : List Kind := l.filterMap inferKind

/-- specification of inference: join of the kinds that occur, nullable iff None occurs;
    no non-None element at all gives `object?`. -/
def inferSpec (l : List Tag) : DType :=
  match kindsOf l with
  | [] => { kind := .object, nullable := true }
  | k :: ks => { kind := ks.foldl Kind.join k, nullable := l.contains .none }

/-- "value of tag `t` belongs to dtype `d`" (C03): exact kind, documented widenings,
    `object` admits everything, None needs `nullable`. -/
def belongs (d : DType) (t : Tag) : Bool :=
  match t with
  | .none => d.nullable
  | .ty v => d.kind = .object || v = d.kind ||
      (v.isNumeric && d.kind.isNumeric && v.join d.kind = d.kind) ||
      (v = .date && d.kind = .datetime)

end Serif
