/-
  Object-identity model of serif's value semantics (C01) and of the per-object fingerprint memo (C16).

  Facts about the code this rests on (DESIGN.md §1):
  * element storage is an immutable tuple that is swapped, never mutated, so two *objects* can influence one
    another only if one object is reachable from both — tuple sharing is harmless;
  * a `Table` holds column *objects*; `t.col`, `t['col']`, `t.cols()[j]` hand out those live objects (views);
  * every other operation that returns a vector or table builds fresh objects (`Table.__init__` copies every
    input column, `>>`/selection/slicing/joins/sorts build new vectors, `Table.__setattr__` stores a copy).

  The model therefore has object ids, per-object fields and a root table (the handles a program holds).
  Element *values* of new or written objects are parameters of the operations (what the values are is the
  business of C05–C14); what is modelled — and proved — is which objects an operation can change.
-/
import Serif.Prelude

namespace Serif

/-- observable content of a vector / of one table column -/
structure VecVal where
  data : List Nat
  dtype : Option DType
  name : Option String
  deriving DecidableEq, Repr, Inhabited

/-- what a handle shows through the public API -/
inductive AbsVal where
  | vec (v : VecVal)
  | tab (cols : List VecVal)
  deriving DecidableEq, Repr, Inhabited

/-- heap object: a vector with its fingerprint memo, or a table holding column object ids -/
inductive Obj where
  | vec (v : VecVal) (fp : Option Int)
  | tab (cols : List Nat)
  deriving DecidableEq, Repr, Inhabited

structure Heap where
  objs : Nat → Option Obj      -- object id ↦ object (ids allocated increasingly, never reused)
  next : Nat
  roots : Nat → Option Nat     -- handle (slot) ↦ object id

namespace Heap

def empty : Heap := { objs := fun _ => none, next := 0, roots := fun _ => none }

/-- point update of a finite map represented as a function -/
def upd {α : Type} (f : Nat → Option α) (k : Nat) (v : Option α) : Nat → Option α :=
  fun k' => if k' = k then v else f k'

def obj (h : Heap) (o : Nat) : Option Obj := h.objs o
def root (h : Heap) (r : Nat) : Option Nat := h.roots r

def vecOf (h : Heap) (o : Nat) : Option VecVal :=
  match h.obj o with
  | some (.vec v _) => some v
  | _ => none

/-- abstraction: what object `o` shows -/
def abs (h : Heap) (o : Nat) : Option AbsVal :=
  match h.obj o with
  | none => none
  | some (.vec v _) => some (.vec v)
  | some (.tab cols) => some (.tab (cols.filterMap h.vecOf))

/-- what handle `r` shows -/
def view (h : Heap) (r : Nat) : Option AbsVal :=
  match h.root r with
  | none => none
  | some o => h.abs o

/-- allocate a fresh vector object -/
def allocVec (h : Heap) (v : VecVal) : Heap × Nat :=
  ({ h with objs := upd h.objs h.next (some (.vec v none)), next := h.next + 1 }, h.next)

def allocVecs (h : Heap) : List VecVal → Heap × List Nat
  | [] => (h, [])
  | v :: vs =>
    let (h1, o) := h.allocVec v
    let (h2, os) := allocVecs h1 vs
    (h2, o :: os)

/-- allocate a fresh object graph showing `a` -/
def alloc (h : Heap) (a : AbsVal) : Heap × Nat :=
  match a with
  | .vec v => h.allocVec v
  | .tab cols =>
    let (h1, os) := h.allocVecs cols
    ({ h1 with objs := upd h1.objs h1.next (some (.tab os)), next := h1.next + 1 }, h1.next)

end Heap

/-- the history alphabet, by effect on object identity -/
inductive HOp where
  /-- any operation that returns a new vector or table (construction, copy, slicing, masking, selection, stacking,
      appending, transposing, joins, aggregate, window, sort, arithmetic, comparison, fill, cast …) bound to `dst` -/
  | derive (dst : Nat) (val : AbsVal)
  /-- `t.cols()[j]`, `t.<name>`, `t['name']`: `dst` becomes a handle on the live column object -/
  | getCol (dst t j : Nat)
  /-- `t.<name> = src`: column j becomes a *copy* of the object `src` shows, under the old column's name -/
  | setAttr (t j src : Nat)
  /-- accepted in-place change through a vector handle (item assignment incl. promotion, renaming): new content `v` -/
  | mutate (r : Nat) (v : VecVal)
  /-- accepted in-place change through a table handle (cell/row/column/region assignment, column renames):
      the column objects get the new contents -/
  | tabMutate (t : Nat) (cols : List VecVal)
  /-- the program forgets a handle -/
  | drop (r : Nat)
  /-- `fingerprint()` through a handle; `fpOf` is the rolling hash of a vector's contents (parameter) -/
  | fingerprint (r : Nat)
  /-- read-only operations without a new result, and refused / failed operations -/
  | noop
  deriving Repr, Inhabited

namespace Heap

def setVec (h : Heap) (o : Nat) (v : VecVal) : Heap :=
  match h.obj o with
  | some (.vec _ _) => { h with objs := upd h.objs o (some (.vec v none)) }   -- a write clears the object's own memo
  | _ => h

def setVecs (h : Heap) : List Nat → List VecVal → Heap
  | o :: os, v :: vs => (h.setVec o v).setVecs os vs
  | _, _ => h

/-- memoise the fingerprint of a vector object -/
def memo (fpOf : VecVal → Int) (h : Heap) (oc : Nat) : Heap :=
  match h.obj oc with
  | some (.vec v _) => { h with objs := upd h.objs oc (some (.vec v (some (fpOf v)))) }
  | _ => h

/-- one step. `fpOf` computes the fingerprint of a vector's contents. -/
def step (fpOf : VecVal → Int) (h : Heap) : HOp → Heap
  | .derive dst val =>
    let (h1, o) := h.alloc val
    { h1 with roots := upd h1.roots dst (some o) }
  | .getCol dst t j =>
    match h.root t with
    | some ot =>
      match h.obj ot with
      | some (.tab cols) =>
        match cols[j]? with
        | some oc => { h with roots := upd h.roots dst (some oc) }
        | none => h
      | _ => h
    | none => h
  | .setAttr t j src =>
    match h.root t, h.root src with
    | some ot, some os =>
      match h.obj ot, h.vecOf os with
      | some (.tab cols), some sv =>
        match cols[j]? with
        | some oc =>
          let nm := (h.vecOf oc).bind (·.name)
          let (h1, on) := h.allocVec { sv with name := nm }
          { h1 with objs := upd h1.objs ot (some (.tab (cols.set j on))) }
        | none => h
      | _, _ => h
    | _, _ => h
  | .mutate r v =>
    match h.root r with
    | some o => h.setVec o v
    | none => h
  | .tabMutate t vs =>
    match h.root t with
    | some ot =>
      match h.obj ot with
      | some (.tab cols) => h.setVecs cols vs
      | _ => h
    | none => h
  | .drop r => { h with roots := upd h.roots r none }
  | .fingerprint r =>
    match h.root r with
    | some o =>
      match h.obj o with
      | some (.vec v _) => { h with objs := upd h.objs o (some (.vec v (some (fpOf v)))) }
      | some (.tab cols) =>
        -- the table recomputes from its columns; each column memoises its own fingerprint
        cols.foldl (memo fpOf) h
      | none => h
    | none => h
  | .noop => h

def run (fpOf : VecVal → Int) (h : Heap) (ops : List HOp) : Heap := ops.foldl (step fpOf) h

/-- the object a handle's writes go to, and the objects whose `abs` can depend on it -/
def columnsOf (h : Heap) (o : Nat) : List Nat :=
  match h.obj o with
  | some (.tab cols) => cols
  | _ => []

/-- object `o` is independent of object `w`: it is not `w` and does not hold `w` as a column -/
def indep (h : Heap) (o w : Nat) : Bool := o != w && !(h.columnsOf o).contains w

end Heap
end Serif
