/-
  Model of `Table.sort_by` (src/serif/table.py) and `Vector.sort_by` (src/serif/vector.py),
  and the executable specification of property C14.

  What the code does, in its order:
    Table.sort_by(by, reverse, na_last)
      1. normalise `by`      : str | Vector -> [by];  non-empty list/tuple -> list(by);  [] -> SerifValueError;
                               anything else -> SerifTypeError
      2. normalise `reverse` : bool -> [reverse] * len(keys);  list/tuple of the same length -> as is;
                               other length -> SerifValueError;  anything else -> SerifTypeError
      3. resolve every key, in order: name -> self[name] (SerifKeyError when missing);  Vector -> itself;
                               else SerifTypeError;  then length check against the row count (SerifValueError)
      4. indices = range(nrows);  for (col, rev) in reversed(zip(resolved, rev_flags)):
                               indices.sort(key = i ↦ (flag, col[i]), reverse = rev)
      5. every column is rebuilt through `indices`
    Vector.sort_by(reverse, na_last)
      sorted(values, key = x ↦ (flag, x or 0 for None), reverse = reverse)

  `flag` is the first component of the key tuple.  It is not hand-written here: it is the truth table
  `Gen.sortFlagTable` / `Gen.sortFlagVector` obtained on every run by executing the `key_fn` found in the source.

  Python's `list.sort` / `sorted` is modelled by the stable insertion sort `isort` (Prelude):
  with `reverse=False` an element stays in front of a later one unless the later one is strictly smaller
  (`le a b := ¬ key b < key a`); with `reverse=True` ties also keep their original order, so it is the same
  stable sort under the converse relation (`le a b := ¬ key a < key b`).

  Values are opaque: a key cell is `none` (Python None) or `some r`, r = rank of the value among the distinct
  non-None values of that key column (computed by the harness with Python's own `<`).
  Core Lean only; everything is structurally recursive.
-/
import Serif.Prelude
import Serif.Gen.Consts

namespace Serif.Sort

/-! ### generic part: orders, iterated stable sorts, lexicographic order -/

section generic
variable {α : Type}

/-- a Boolean relation that is total and transitive (a total preorder; ties allowed) -/
structure TotalPreorder (le : α → α → Bool) : Prop where
  total : ∀ a b, le a b = true ∨ le b a = true
  trans : ∀ a b c, le a b = true → le b c = true → le a c = true

/-- tied under `le` -/
def eqv (le : α → α → Bool) (a b : α) : Bool := le a b && le b a

/-- the sort loop of `Table.sort_by`: one stable sort per key, from the LAST key to the FIRST -/
def sortKeys (les : List (α → α → Bool)) (l : List α) : List α :=
  les.reverse.foldl (fun idx le => isort le idx) l

/-- specification: lexicographic order over the key list (first key most significant) -/
def lexLE : List (α → α → Bool) → α → α → Bool
  | [], _, _ => true
  | le :: rest, a, b => le a b && (!(le b a) || lexLE rest a b)

/-- specification: tied on every key -/
def allTied : List (α → α → Bool) → α → α → Bool
  | [], _, _ => true
  | le :: rest, a, b => eqv le a b && allTied rest a b

/-- executable `List.Pairwise` -/
def pairwiseB (r : α → α → Bool) : List α → Bool
  | [] => true
  | x :: xs => xs.all (r x) && pairwiseB r xs

/-- Executable form of the contract "`p` is `l` sorted stably by the keys `les`":
    a permutation of `l`, pairwise in lexicographic order, and every class of elements tied on all keys
    appears in `p` exactly as it appears in `l`. -/
def checkSorted [BEq α] (les : List (α → α → Bool)) (l p : List α) : Bool :=
  p.isPerm l && pairwiseB (lexLE les) p &&
    l.all (fun a => p.filter (allTied les a) == l.filter (allTied les a))

end generic

/-! ### the key of one column -/

/-- a key cell: `none` = None, `some r` = rank of the value among the distinct non-None values of the column -/
abbrev Cell := Option Nat

/-- `v₁ < v₂` on the value component of the key tuple.  Python reaches it only when the flags are equal.
    Two Nones are equal (`(flag, None) < (flag, None)` is False; `Vector.sort_by` substitutes 0 for both).
    A None against a value with equal flags cannot occur with a flag that separates None from values
    (Python would raise TypeError in `Table.sort_by`); modelled as "not smaller". -/
def valLt : Cell → Cell → Bool
  | some x, some y => decide (x < y)
  | _, _ => false

/-- Python's `<` on the tuples `(flag, v)`; `flag` maps `v is None` to the first component -/
def keyLt (flag : Bool → Bool) (a b : Cell) : Bool :=
  let fa := flag a.isNone
  let fb := flag b.isNone
  if fa == fb then valLt a b else (!fa && fb)

/-- the order realised by `list.sort(key=…, reverse=rev)`: "may stay in front of" -/
def pyLE (flag : Bool → Bool) (rev : Bool) (a b : Cell) : Bool :=
  if rev then !(keyLt flag a b) else !(keyLt flag b a)

/-- specification of one key: its own direction for values, None last iff `naLast` whatever the direction -/
def specLE (rev naLast : Bool) : Cell → Cell → Bool
  | none, none => true
  | none, some _ => !naLast
  | some _, none => naLast
  | some x, some y => if rev then decide (y ≤ x) else decide (x ≤ y)

/-- the flag separates None from values on the side that `naLast` asks for, after the reversal that
    `reverse=rev` applies to the whole key: None gets the larger flag iff `naLast != rev` -/
def flagOK (tbl : Bool → Bool → Bool → Bool) : Bool :=
  [false, true].all fun rev => [false, true].all fun naLast =>
    (tbl true rev naLast == (naLast != rev)) && (tbl false rev naLast == (naLast == rev))

/-! ### Table.sort_by -/

/-- one entry of `by` after the harness looked at it: a name that is not a column, something that is
    neither str nor Vector, or the cells of the key column / key vector -/
inductive KeySrc where
  | missing
  | bad
  | cells (c : List Cell)
  deriving Repr, Inhabited

/-- the `by` argument -/
inductive ByArg where
  | single (k : KeySrc)          -- a str or a Vector
  | seq (ks : List KeySrc)       -- a list or tuple
  | other                        -- anything else
  deriving Repr, Inhabited

/-- the `reverse` argument -/
inductive RevArg where
  | one (b : Bool)
  | many (bs : List Bool)        -- a list or tuple (already passed through `bool`)
  | other
  deriving Repr, Inhabited

/-- step 1 -/
def normBy : ByArg → Res (List KeySrc)
  | .single k => .ok [k]
  | .seq [] => .error .value
  | .seq ks => .ok ks
  | .other => .error .type

/-- step 2 -/
def normRev (nkeys : Nat) : RevArg → Res (List Bool)
  | .one b => .ok (List.replicate nkeys b)
  | .many bs => if bs.length != nkeys then .error .value else .ok bs
  | .other => .error .type

/-- step 3: resolve and length-check the keys in order; the first offending key decides the error -/
def resolve (nrows : Nat) : List KeySrc → Res (List (List Cell))
  | [] => .ok []
  | .missing :: _ => .error .key
  | .bad :: _ => .error .type
  | .cells c :: ks =>
    if c.length != nrows then .error .value
    else match resolve nrows ks with
      | .ok cs => .ok (c :: cs)
      | .error e => .error e

/-! specification of "a well-formed sort request": `by` is one key or a non-empty sequence of keys, every key
    is (resolves to) a vector with one cell per row, `reverse` is one bool or one bool per key -/

def keysOf : ByArg → Option (List KeySrc)
  | .single k => some [k]
  | .seq [] => none
  | .seq ks => some ks
  | .other => none

def keyOK (nrows : Nat) : KeySrc → Bool
  | .cells c => c.length == nrows
  | _ => false

def revOK (nkeys : Nat) : RevArg → Bool
  | .one _ => true
  | .many bs => bs.length == nkeys
  | .other => false

def wellFormed (nrows : Nat) (by_ : ByArg) (rev : RevArg) : Bool :=
  match keysOf by_ with
  | none => false
  | some ks => revOK ks.length rev && ks.all (keyOK nrows)

/-- cell of row `i` in a key column -/
def cellAt (col : List Cell) (i : Nat) : Cell := col.getD i none

/-- order on row indices induced by one key column of `Table.sort_by` -/
def rowLE (tbl : Bool → Bool → Bool → Bool) (naLast : Bool) (kr : List Cell × Bool) (i j : Nat) : Bool :=
  pyLE (fun n => tbl n kr.2 naLast) kr.2 (cellAt kr.1 i) (cellAt kr.1 j)

/-- the specified order on row indices for one key column -/
def specRowLE (naLast : Bool) (kr : List Cell × Bool) (i j : Nat) : Bool :=
  specLE kr.2 naLast (cellAt kr.1 i) (cellAt kr.1 j)

/-- step 4 on resolved keys: the index list -/
def sortIndices (tbl : Bool → Bool → Bool → Bool) (naLast : Bool) (keys : List (List Cell × Bool)) (nrows : Nat) :
    List Nat :=
  sortKeys (keys.map (rowLE tbl naLast)) (List.range nrows)

/-- steps 2–3 on the normalised key list -/
def validateKeys (nrows : Nat) (rev : RevArg) (keys : List KeySrc) : Res (List (List Cell × Bool)) :=
  match normRev keys.length rev with
  | .error e => .error e
  | .ok revs =>
    match resolve nrows keys with
    | .error e => .error e
    | .ok cols => .ok (cols.zip revs)

/-- steps 1–3: the validated `(key column, reverse)` pairs, or the error the code raises first -/
def validate (nrows : Nat) (by_ : ByArg) (rev : RevArg) : Res (List (List Cell × Bool)) :=
  match normBy by_ with
  | .error e => .error e
  | .ok keys => validateKeys nrows rev keys

/-- `Table.sort_by` up to the index list (step 5 gathers every column through it: `gather`).
    The empty-table shortcut of the source returns empty columns, which is what gathering through
    `sortIndices … 0 = []` gives. -/
def sortByTable (tbl : Bool → Bool → Bool → Bool) (nrows : Nat) (by_ : ByArg) (rev : RevArg) (naLast : Bool) :
    Res (List Nat) :=
  match validate nrows by_ rev with
  | .error e => .error e
  | .ok keys => .ok (sortIndices tbl naLast keys nrows)

/-- step 5: `[src[i] for i in indices]` -/
def gather {β : Type} (dflt : β) (src : List β) (idx : List Nat) : List β := idx.map (src.getD · dflt)

/-- what the property demands of an index list returned for well-formed arguments -/
def checkTable (naLast : Bool) (keys : List (List Cell × Bool)) (nrows : Nat) (p : List Nat) : Bool :=
  checkSorted (keys.map (specRowLE naLast)) (List.range nrows) p

/-! ### Vector.sort_by -/

/-- an element of the vector: its key cell and the identity of the exact value -/
abbrev Elem := Cell × Nat

def elemLE (tbl : Bool → Bool → Bool → Bool) (rev naLast : Bool) (a b : Elem) : Bool :=
  pyLE (fun n => tbl n rev naLast) rev a.1 b.1

def specElemLE (rev naLast : Bool) (a b : Elem) : Bool := specLE rev naLast a.1 b.1

/-- `sorted(values, key=key_fn, reverse=reverse)` -/
def sortByVector (tbl : Bool → Bool → Bool → Bool) (rev naLast : Bool) (data : List Elem) : List Elem :=
  isort (elemLE tbl rev naLast) data

def checkVector (rev naLast : Bool) (data out : List Elem) : Bool :=
  checkSorted [specElemLE rev naLast] data out

end Serif.Sort
