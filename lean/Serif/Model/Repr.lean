/-
  Model of src/serif/display.py : `_format_column`, `_compute_headers`, `_header_rows`, `_footer`,
  `_repr_vector`, `_repr_table`.

  What is modelled concretely: the symmetric head/tail preview, the dispatch of the per-cell
  formatter on the column dtype (including the partial operation `int(v)` in the float branch),
  column truncation, the three optional header rows, the footer.  Python's own string
  formatting (`str`, `repr`, `f"{v:g}"`, `f"{v:.1f}"`, `isoformat`, `str.lower`, `_needs_quote`,
  `_sanitize_user_name`) is an oracle: each cell / column carries the texts Python computed.
  Alignment (padding with spaces) is *not* modelled: a rendering is a list of lines, each a list
  of cell texts, and `lineMatches` compares a real line with it modulo spaces.
-/
import Serif.Prelude
import Serif.Model.DType

namespace Serif.Repr

/-! ### the preview -/

/-- an entry of the previewed column: a data cell or the `'...'` placeholder -/
inductive Shown (α : Type) where
  | cell (a : α)
  | ellipsis
  deriving DecidableEq, Repr

/-- `_format_column`, first half:
    `list(vals[:k]) + ['...'] + list(vals[len(vals) - k:])` if `len(vals) > k * 2` else `list(vals)` -/
def preview {α : Type} (k : Nat) (xs : List α) : List (Shown α) :=
  if xs.length > k * 2 then
    (xs.take k).map .cell ++ [.ellipsis] ++ (xs.drop (xs.length - k)).map .cell
  else xs.map .cell

/-- the data cells a preview shows, in order -/
def shownCells {α : Type} : List (Shown α) → List α
  | [] => []
  | .cell a :: r => a :: shownCells r
  | .ellipsis :: r => shownCells r

/-! ### one cell -/

/-- how a real number behaves under `v == v`, `v in (inf, -inf)`, `v == int(v)` -/
inductive NumClass where
  | finiteIntegral | finiteFractional | nan | inf
  deriving DecidableEq, Repr

/-- one stored value with the texts Python computes for it (`none` = Python raises) -/
structure Cell where
  isNone : Bool
  /-- Python `v == '...'` -/
  eqEllipsis : Bool
  /-- `isinstance(v, str)` -/
  isStr : Bool
  /-- `some c` iff `v` is a real number (bool, int, float) -/
  num : Option NumClass
  /-- `str(v)` -/
  str : String
  /-- `repr(v)` -/
  repr : String
  /-- `f"{v:g}"` -/
  g : Option String
  /-- `f"{v:.1f}"` -/
  f1 : Option String
  /-- `v.isoformat()` -/
  iso : Option String
  deriving DecidableEq, Repr

/-- `int(v)` on a real number: ValueError on nan, OverflowError on ±inf -/
def pyInt : NumClass → Res Unit
  | .nan => .error .other
  | .inf => .error .other
  | _ => .ok ()

/-- `v == v and v not in (float('inf'), float('-inf')) and v == int(v)` with Python's
    short-circuit evaluation; `int(v)` of a non-number raises -/
def isWhole (c : Cell) : Res Bool :=
  match c.num with
  | none => .error .other
  | some n =>
    if n = .nan then .ok false                   -- `v == v` is False
    else if n = .inf then .ok false              -- `v not in (inf, -inf)` is False
    else do
      pyInt n
      .ok (decide (n = .finiteIntegral))

/-- use a text Python may have refused to compute -/
def need : Option String → Res String
  | some s => .ok s
  | none => .error .other

/-- `_format_column`, the per-value `if` chain, for a column whose `_dtype` is `kind`
    (`none` = no dtype) -/
def fmtCell (kind : Option Kind) (c : Cell) : Res String :=
  if c.eqEllipsis then .ok "..."
  else if c.isNone then .ok "None"
  else match kind with
    | some .float => do
      let whole ← isWhole c
      if whole then need c.f1 else need c.g
    | some .int => .ok c.str
    | some .date => need c.iso
    | some .str => .ok c.str
    | _ => if c.isStr then .ok c.repr else .ok c.str

/-- Python's formatting of this cell is defined for a column of this kind: a float column holds
    real numbers whose `:g` / `:.1f` texts exist, a date column holds values with `isoformat` -/
def Cell.formattable (kind : Option Kind) (c : Cell) : Bool :=
  c.eqEllipsis || c.isNone ||
    (match kind with
     | some .float => c.num.isSome && c.g.isSome && c.f1.isSome
     | some .date => c.iso.isSome
     | _ => true)

/-- structural `mapM` in `Res` (first failure wins, left to right) -/
def mapRes {α β : Type} (f : α → Res β) : List α → Res (List β)
  | [] => .ok []
  | a :: r =>
    match f a with
    | .error e => .error e
    | .ok b =>
      match mapRes f r with
      | .error e => .error e
      | .ok bs => .ok (b :: bs)

/-! ### columns, vectors, tables -/

/-- a stored column / 1-D vector, with the texts Python computes for its name -/
structure Col where
  /-- `_name` -/
  name : Option String
  /-- `repr(n) if _needs_quote(n) else n` for `n = _name or ""` -/
  shownName : String
  /-- `_sanitize_user_name(_name)` -/
  san : Option String
  /-- `(_name or "").lower()` -/
  lower : String
  /-- `_dtype` -/
  dtype : Option DType
  cells : List Cell
  deriving Repr

/-- truthiness of `_name` -/
def nameTruthy : Option String → Bool
  | some s => s != ""
  | none => false

def fmtShown (kind : Option Kind) : Shown Cell → Res String
  | .ellipsis => .ok "..."          -- the placeholder is the string '...', which `v == '...'` catches
  | .cell c => fmtCell kind c

/-- `_format_column(col, max_preview=k)` without the padding -/
def formatColumn (k : Nat) (col : Col) : Res (List String) :=
  mapRes (fmtShown (col.dtype.map (·.kind))) (preview k col.cells)

/-- `kind.__name__` -/
def kindName (otherName : Nat → String) : Kind → String
  | .bool => "bool" | .int => "int" | .float => "float" | .complex => "complex" | .str => "str"
  | .bytes => "bytes" | .date => "date" | .datetime => "datetime" | .list => "list"
  | .dict => "dict" | .tuple => "tuple" | .object => "object"
  | .other n => otherName n

/-- the dtype token of headers and footers: kind name, `?` iff nullable; `object` without dtype -/
def dtypeText (otherName : Nat → String) : Option DType → String
  | none => "object"
  | some d => kindName otherName d.kind ++ (if d.nullable then "?" else "")

/-- the footer, as data -/
inductive Footer where
  | vector (n : Nat) (dt : String)
  /-- `# 0×0 table` -/
  | emptyTable
  | table (rows cols : Nat) (types : String)
  deriving DecidableEq, Repr

def Footer.render : Footer → String
  | .vector n dt => "# " ++ toString n ++ " element vector <" ++ dt ++ ">"
  | .emptyTable => "# 0×0 table"
  | .table r c ty => "# " ++ toString r ++ "×" ++ toString c ++ " table <" ++ ty ++ ">"

/-- one header row: its cells and whether property C20 pins its content (the dot-accessor row
    belongs to C17 and is only counted) -/
structure HeaderRow where
  judged : Bool
  cells : List String
  deriving DecidableEq, Repr

/-- a rendering: header rows, body rows, footer.  `bare` = only the footer line is printed. -/
structure Out where
  header : List HeaderRow
  body : List (List String)
  footer : Footer
  bare : Bool
  deriving DecidableEq, Repr

/-- `_repr_vector` (via `_printr`: an empty vector — `shape == ()` — prints only its footer, which states the count 0 and
    the dtype like any other vector's); `rows` is the current global `_REPR_ROWS_DEFAULT` -/
def reprVector (otherName : Nat → String) (rows : Nat) (v : Col) : Res Out :=
  if v.cells.isEmpty then .ok { header := [], body := [], footer := .vector 0 (dtypeText otherName v.dtype), bare := true }
  else
    match formatColumn (rows / 2) v with
    | .error e => .error e
    | .ok body =>
      .ok { header := if nameTruthy v.name then [{ judged := true, cells := [v.shownName] }] else [],
            body := body.map (fun s => [s]),
            footer := .vector v.cells.length (dtypeText otherName v.dtype),
            bare := false }

/-! #### tables -/

structure Tab where
  cols : List Col
  /-- per-table `_repr_rows` override -/
  reprRows : Option Nat
  deriving Repr

/-- `len(table)` -/
def Tab.nrows (t : Tab) : Nat :=
  match t.cols with
  | [] => 0
  | c :: _ => c.cells.length

/-- `list(range(m)) + list(range(n - m, n))` if `n > m * 2` else `list(range(n))` -/
def shownIdx (m n : Nat) : List Nat :=
  if n > m * 2 then List.range m ++ (List.range m).map (· + (n - m)) else List.range n

/-- the displayed columns -/
def shownCols {α : Type} (m : Nat) (cols : List α) : List α :=
  if cols.length > m * 2 then cols.take m ++ cols.drop (cols.length - m) else cols

/-- `s.endswith("_")` -/
def endsUnderscore (s : String) : Bool := s.toList.getLast? == some '_'

/-- loop state of `_compute_headers` -/
structure HdrSt where
  seen : List String
  disp : List String
  san : List String
  shown : List String
  lowers : List String
  dts : List String

/-- one iteration of `_compute_headers` for column `idx` -/
def hdrStep (otherName : Nat → String) (shown : List Nat) (st : HdrSt) (idx : Nat) (col : Col) : HdrSt :=
  if !shown.contains idx then
    -- hidden by the "..." column, but it still claims its accessor name
    if nameTruthy col.name then
      match col.san with
      | some h => { st with seen := h :: st.seen }
      | none => st
    else st
  else
    let (san, seen) :=
      if nameTruthy col.name then
        match col.san with
        | none => ("col" ++ toString idx ++ "_", st.seen)
        | some s =>
          if st.seen.contains s then
            (s ++ (if endsUnderscore s then "" else "_") ++ "_" ++ toString idx, st.seen)
          else (s, s :: st.seen)
      else ("col" ++ toString idx ++ "_", st.seen)
    { seen := seen,
      disp := st.disp ++ [col.name.getD ""],
      san := st.san ++ [san],
      shown := st.shown ++ [col.shownName],
      lowers := st.lowers ++ [col.lower],
      dts := st.dts ++ [dtypeText otherName col.dtype] }

def hdrLoop (otherName : Nat → String) (shown : List Nat) : HdrSt → Nat → List Col → HdrSt
  | st, _, [] => st
  | st, idx, c :: r => hdrLoop otherName shown (hdrStep otherName shown st idx c) (idx + 1) r

/-- `_compute_headers(cols, col_indices)` -/
def computeHeaders (otherName : Nat → String) (cols : List Col) (shown : List Nat) : HdrSt :=
  hdrLoop otherName shown { seen := [], disp := [], san := [], shown := [], lowers := [], dts := [] } 0 cols

/-- `list.insert(m, x)` -/
def insertAt {α : Type} (m : Nat) (x : α) (l : List α) : List α := l.take m ++ x :: l.drop m

/-- `_is_structural_change(display_name, sanitized_name)` -/
def isStructural (disp lower san : String) : Bool :=
  if disp == "" || san == "" then true else lower != san

def zip3 {α β γ : Type} : List α → List β → List γ → List (α × β × γ)
  | a :: as, b :: bs, c :: cs => (a, b, c) :: zip3 as bs cs
  | _, _, _ => []

/-- `"{a}, {b}, …"` -/
def joinComma : List String → String
  | [] => ""
  | [a] => a
  | a :: r => a ++ ", " ++ joinComma r

/-- `l[-m:]` -/
def lastN {α : Type} (m : Nat) (l : List α) : List α :=
  if m = 0 then l else l.drop (l.length - m)

/-- does the list hold at least two different entries (`len(set(l)) > 1`) -/
def heterogeneous : List String → Bool
  | [] => false
  | a :: r => r.any (· != a)

/-- the `<…>` part of a table footer -/
def footerTypes (m : Nat) (showTypes truncated : Bool) (dtypesAll : List String) : String :=
  if showTypes then "mixed"
  else if !heterogeneous dtypesAll then dtypesAll.headD "object"
  else if truncated then
    joinComma (dtypesAll.take m) ++ ", ..., " ++ joinComma (lastN m dtypesAll)
  else joinComma dtypesAll

/-- transpose equally long columns into `n` rows -/
def rowsOf (n : Nat) (cols : List (List String)) : List (List String) :=
  (List.range n).map (fun r => cols.map (fun c => c.getD r ""))

/-- the header part of `_repr_table`: `_compute_headers`, insertion of the `...` column,
    `_header_rows`.  Returns the header rows and `show_types_in_header`. -/
def tableHeader (otherName : Nat → String) (m : Nat) (cols : List Col) : List HeaderRow × Bool :=
  let n := cols.length
  let truncated := decide (n > m * 2)
  let h := computeHeaders otherName cols (shownIdx m n)
  let disp := if truncated then insertAt m "..." h.disp else h.disp
  let san := if truncated then insertAt m "..." h.san else h.san
  let shownNames := if truncated then insertAt m "..." h.shown else h.shown
  let lowers := if truncated then insertAt m "..." h.lowers else h.lowers
  let dts := if truncated then insertAt m "..." h.dts else h.dts
  -- `_header_rows`
  let anyDisplay := disp.any (fun d => d != "..." && d != "")
  let anyStructural := (zip3 disp lowers san).any
    (fun (d, l, s) => d != "..." && s != "..." && isStructural d l s)
  let showTypes := heterogeneous (dts.filter (· != "..."))
  let row1 : List HeaderRow :=
    if anyDisplay then
      [{ judged := true, cells := (disp.zip shownNames).map (fun (d, s) => if d == "..." then "..." else s) }]
    else []
  let row2 : List HeaderRow :=
    if anyStructural || !anyDisplay then
      [{ judged := false, cells := san.map (fun s => if s != "" && s != "..." then "." ++ s else s) }]
    else []
  let row3 : List HeaderRow :=
    if showTypes then
      [{ judged := true, cells := dts.map (fun d => if d != "..." then "[" ++ d ++ "]" else "...") }]
    else []
  (row1 ++ row2 ++ row3, showTypes)

/-- the body part of `_repr_table`: format the displayed columns with budget `k`, insert the
    `...` column, read the result row by row -/
def tableBody (k m : Nat) (cols : List Col) : Res (List (List String)) :=
  match mapRes (formatColumn k) (shownCols m cols) with
  | .error e => .error e
  | .ok fcols =>
    let nbody := (fcols.headD []).length
    let fcols := if cols.length > m * 2 then insertAt m (List.replicate nbody "...") fcols else fcols
    .ok (rowsOf nbody fcols)

/-- the preview budget of a table: per-table override, else the global setting, halved -/
def tableK (rows : Nat) (t : Tab) : Nat :=
  match t.reprRows with
  | some r => r / 2
  | none => rows / 2

/-- `_repr_table`; `rows` = global `_REPR_ROWS_DEFAULT`, `m` = `MAX_HEAD_COLS` -/
def reprTable (otherName : Nat → String) (rows m : Nat) (t : Tab) : Res Out :=
  if t.cols.isEmpty then .ok { header := [], body := [], footer := .emptyTable, bare := true }
  else
    let hdr := tableHeader otherName m t.cols
    match tableBody (tableK rows t) m t.cols with
    | .error e => .error e
    | .ok body =>
      .ok { header := hdr.1,
            body := body,
            footer := .table t.nrows t.cols.length
              (footerTypes m hdr.2 (decide (t.cols.length > m * 2))
                (t.cols.map (fun c => dtypeText otherName c.dtype))),
            bare := false }

/-! ### comparing a rendering with the real text (executable specification of "shows") -/

def despace (cs : List Char) : List Char := cs.filter (· != ' ')

/-- maximal runs of non-space characters -/
def tokensAux : List Char → List Char → List (List Char)
  | [], cur => if cur.isEmpty then [] else [cur.reverse]
  | c :: r, cur =>
    if c = ' ' then (if cur.isEmpty then tokensAux r [] else cur.reverse :: tokensAux r [])
    else tokensAux r (c :: cur)

def tokens (cs : List Char) : List (List Char) := tokensAux cs []

/-- does the printed line show exactly these cells (alignment is free)?  If every cell is
    non-empty and free of spaces the line's space-separated tokens must be the cells; otherwise
    line and cells must agree after deleting all spaces. -/
def lineMatches (cells : List String) (line : String) : Bool :=
  if cells.all (fun c => c != "" && !c.toList.contains ' ') then
    tokens line.toList == cells.map (·.toList)
  else
    despace line.toList == despace (cells.flatMap (·.toList))

def startsWithList : List Char → List Char → Bool
  | _, [] => true
  | [], _ :: _ => false
  | a :: r, b :: p => a = b && startsWithList r p

/-- judge the lines of a real `repr` against a rendering; `none` = conforms, `some why` otherwise -/
def judge (o : Out) (lines : List String) : Option String :=
  if o.bare then
    match o.footer, lines with
    | f, [l] => if l == f.render then none else some "footer differs"
    | _, _ => some "expected a single line"
  else
    let nh := o.header.length
    let nb := o.body.length
    if lines.length != nh + nb + 2 then
      some ("number of lines: expected " ++ toString nh ++ " header + " ++ toString nb ++
            " body + blank + footer, got " ++ toString lines.length)
    else
      let hl := lines.take nh
      let bl := (lines.drop nh).take nb
      let rest := lines.drop (nh + nb)
      if rest != ["", o.footer.render] then some "blank line + footer differ (count, shape or dtype text)"
      else if !(o.header.zip hl).all (fun (h, l) => !h.judged || lineMatches h.cells l) then
        some "a header row does not show the stored names / dtypes"
      else if !(o.body.zip bl).all (fun (cells, l) => lineMatches cells l) then
        some "a body line does not show the expected cells (first/last rows, ellipsis position)"
      else none

end Serif.Repr
