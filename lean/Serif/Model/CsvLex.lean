/-
  Model of the lexical layer under src/serif/csv.py: `csv.reader(file_obj, delimiter=delimiter)` with the default
  ("excel") dialect — quotechar `"`, doublequote, no escapechar, skipinitialspace off, QUOTE_MINIMAL, strict off — as
  CPython's `Modules/_csv.c` implements it: the reader pulls *lines* from the file object, feeds every character of a line
  and then the end-of-line pseudo-character to a six-state machine, and yields a record whenever the machine is back in
  START_RECORD at the end of a line (a quoted field may therefore span lines); at the end of the input a pending field is
  saved.  `read_csv` passes only `delimiter`; everything else is the dialect default, which is what this model hard-wires.

  Strings are `List Char` (the driver converts).  `none : Option Char` is the EOL pseudo-character.
  Two drivers of the machine: `parseLines` (line by line, as the C code does — the lines are whatever the file object's
  iterator delivers) and `stream` (character by character with EOL injected after every `'\n'` and at the end of a text
  that does not end in `'\n'`), proved equal on `splitLF text` in Serif/Proofs/CsvLex.lean.
-/
import Serif.Prelude

namespace Serif.CsvLex

inductive Mode where
  | startRecord | startField | inField | inQuoted | quoteInQuoted | eatCRNL
  deriving DecidableEq, Repr, Inhabited

/-- reader state: `field` is the pending field text (reversed), `fields` the saved fields of the pending record (reversed),
    `out` the records yielded so far (reversed) -/
structure St where
  mode : Mode := .startRecord
  field : List Char := []
  fields : List (List Char) := []
  out : List (List (List Char)) := []
  deriving DecidableEq, Repr, Inhabited

def quote : Char := '"'

def isNL (c : Char) : Bool := c == '\n' || c == '\r'

/-- `parse_add_char` -/
def St.add (s : St) (c : Char) : St := { s with field := c :: s.field }

/-- `parse_save_field` -/
def St.save (s : St) : St := { s with field := [], fields := s.field.reverse :: s.fields }

/-- state after a line terminator character / the EOL pseudo-character in a field-ending position:
    `state = (c == EOL ? START_RECORD : EAT_CRNL)` -/
def afterEnd (c : Option Char) : Mode := if c.isNone then .startRecord else .eatCRNL

def endsField (c : Option Char) : Bool :=
  match c with
  | none => true
  | some ch => isNL ch

/-- `START_FIELD` (also reached by fall-through from `START_RECORD`) -/
def stepStartField (d : Char) (s : St) (c : Option Char) : St :=
  if endsField c then { s.save with mode := afterEnd c }
  else match c with
    | none => s            -- unreachable (`endsField none`)
    | some ch =>
      if ch == quote then { s with mode := .inQuoted }
      else if ch == d then s.save
      else { s.add ch with mode := .inField }

/-- `parse_process_char`; `.error` is `_csv.Error` ("new-line character seen in unquoted field") -/
def step (d : Char) (s : St) (c : Option Char) : Except Err St :=
  match s.mode with
  | .startRecord =>
    match c with
    | none => .ok s                                            -- empty line: `[]`
    | some ch =>
      if isNL ch then .ok { s with mode := .eatCRNL }
      else .ok (stepStartField d { s with mode := .startField } c)
  | .startField => .ok (stepStartField d s c)
  | .inField =>
    if endsField c then .ok { s.save with mode := afterEnd c }
    else match c with
      | none => .ok s
      | some ch => if ch == d then .ok { s.save with mode := .startField } else .ok (s.add ch)
  | .inQuoted =>
    match c with
    | none => .ok s
    | some ch => if ch == quote then .ok { s with mode := .quoteInQuoted } else .ok (s.add ch)
  | .quoteInQuoted =>
    match c with
    | none => .ok { s.save with mode := .startRecord }
    | some ch =>
      if ch == quote then .ok { s.add ch with mode := .inQuoted }
      else if ch == d then .ok { s.save with mode := .startField }
      else if isNL ch then .ok { s.save with mode := .eatCRNL }
      else .ok { s.add ch with mode := .inField }
  | .eatCRNL =>
    match c with
    | none => .ok { s with mode := .startRecord }
    | some ch => if isNL ch then .ok s else .error .other

/-- end of a line: feed EOL; when the machine is back in START_RECORD the record is complete
    (`while (self->state != START_RECORD)` ends, `fields` is handed out and reset) -/
def eol (d : Char) (s : St) : Except Err St :=
  match step d s none with
  | .error e => .error e
  | .ok s' =>
    if s'.mode == .startRecord then .ok { s' with fields := [], out := s'.fields.reverse :: s'.out }
    else .ok s'

def feed (d : Char) : St → List Char → Except Err St
  | s, [] => .ok s
  | s, c :: cs =>
    match step d s (some c) with
    | .error e => .error e
    | .ok s' => feed d s' cs

/-- one line delivered by the file object -/
def processLine (d : Char) (s : St) (line : List Char) : Except Err St :=
  match feed d s line with
  | .error e => .error e
  | .ok s' => eol d s'

def lines (d : Char) : St → List (List Char) → Except Err St
  | s, [] => .ok s
  | s, l :: ls =>
    match processLine d s l with
    | .error e => .error e
    | .ok s' => lines d s' ls

/-- the input iterator is exhausted: `if (self->field_len != 0 || self->state == IN_QUOTED_FIELD)` the pending field is
    saved and the pending record handed out (strict is off); otherwise nothing more is yielded -/
def finish (s : St) : List (List (List Char)) :=
  if !s.field.isEmpty || s.mode == .inQuoted then (s.save.fields.reverse :: s.out).reverse
  else s.out.reverse

/-- `list(csv.reader(lines, delimiter=d))` -/
def parseLines (d : Char) (ls : List (List Char)) : Except Err (List (List (List Char))) :=
  match lines d {} ls with
  | .error e => .error e
  | .ok s => .ok (finish s)

/-! ### character stream view (line ends at `'\n'` only — `io.StringIO(text)`'s and `newline='\n'` files' iteration) -/

/-- iterating a text stream that splits lines at `'\n'` only, line ends kept; no empty last line -/
def splitLF : List Char → List (List Char)
  | [] => []
  | c :: cs =>
    if c == '\n' then [c] :: splitLF cs
    else match splitLF cs with
      | [] => [[c]]
      | l :: ls => (c :: l) :: ls

/-- the same machine driven character by character: EOL is injected after every `'\n'` and after the last character -/
def stream (d : Char) : St → List Char → Except Err St
  | s, [] => .ok s
  | s, c :: cs =>
    match step d s (some c) with
    | .error e => .error e
    | .ok s' =>
      if c == '\n' || cs.isEmpty then
        match eol d s' with
        | .error e => .error e
        | .ok s'' => stream d s'' cs
      else stream d s' cs

def parseText (d : Char) (text : List Char) : Except Err (List (List (List Char))) :=
  match stream d {} text with
  | .error e => .error e
  | .ok s => .ok (finish s)

/-! ### line splitting as a parameter (which characters end a line is the file object's business) -/

/-- lines of a text under a policy, ends kept; no empty last line -/
def splitP (inj : Char → List Char → Bool) : List Char → List (List Char)
  | [] => []
  | c :: cs =>
    if inj c cs then [c] :: splitP inj cs
    else match splitP inj cs with
      | [] => [[c]]
      | l :: ls => (c :: l) :: ls

/-- `'\n'` only -/
def lf : Char → List Char → Bool := fun c _ => c == '\n'
/-- universal newlines without translation (`newline=''`) -/
def univ : Char → List Char → Bool := fun c cs => c == '\n' || (c == '\r' && cs.head? != some '\n')

/-! ### a writer (what `csv.writer` with the same dialect produces, up to the choice of which fields to quote) -/

/-- `"` doubled -/
def escape : List Char → List Char
  | [] => []
  | c :: cs => if c == quote then quote :: quote :: escape cs else c :: escape cs

/-- a field that can be written bare: no delimiter, quote, CR or LF in it -/
def plain (d : Char) (f : List Char) : Bool := f.all (fun c => !(c == d || c == quote || isNL c))

/-- one field, quoted or bare -/
def renderField (q : Bool) (f : List Char) : List Char :=
  if q then quote :: (escape f ++ [quote]) else f

/-- fields joined by the delimiter -/
def renderFields (d : Char) : List (Bool × List Char) → List Char
  | [] => []
  | [(q, f)] => renderField q f
  | (q, f) :: rest => renderField q f ++ d :: renderFields d rest

/-- one record followed by the line terminator `"\n"` (`crlf = false`) or `"\r\n"` -/
def renderRecord (d : Char) (crlf : Bool) (r : List (Bool × List Char)) : List Char :=
  renderFields d r ++ (if crlf then ['\r', '\n'] else ['\n'])

def renderText (d : Char) (crlf : Bool) : List (List (Bool × List Char)) → List Char
  | [] => []
  | r :: rs => renderRecord d crlf r ++ renderText d crlf rs

/-- the quoting choices under which a record can be written: a bare field must be plain, and a record consisting of one
    empty field must quote it (a bare empty line is the empty record — `csv.writer` quotes it for the same reason) -/
def wellQuoted (d : Char) (r : List (Bool × List Char)) : Bool :=
  r.all (fun qf => qf.1 || plain d qf.2) && !(r == [(false, [])])

end Serif.CsvLex
