/-
  Model of indexing, masks, slices, comparisons (src/serif/vector.py: `Vector.__getitem__`, `copy`,
  `_elementwise_compare`; src/serif/typeutils.py: `slice_length`) and of table row / column
  selection (src/serif/table.py: `Table.__getitem__`).

  Element values are opaque (`α`); column names are opaque (`ν`, with decidable equality).
  Everything Python computes on scalars or strings (`x < y`, `str.lower`, `_sanitize_user_name`)
  is a parameter.  Exception classes are recorded by family (Serif*Error subclasses the builtin):
  `.value` = ValueError, `.type` = TypeError, `.key` = KeyError, `.index` = IndexError,
  `.attr` = AttributeError, `.other` = AssertionError.
-/
import Serif.Prelude

namespace Serif.Index

/-- results can be compared (needed for `decide` on concrete witnesses) -/
instance {ε α : Type} [DecidableEq ε] [DecidableEq α] : DecidableEq (Except ε α)
  | .ok a, .ok b => if h : a = b then isTrue (by rw [h]) else isFalse (fun h' => h (by cases h'; rfl))
  | .error a, .error b => if h : a = b then isTrue (by rw [h]) else isFalse (fun h' => h (by cases h'; rfl))
  | .ok _, .error _ => isFalse (fun h => by cases h)
  | .error _, .ok _ => isFalse (fun h => by cases h)

/-- `Except.map` under a stable name (errors pass through) -/
def rmap {α β : Type} (f : α → β) : Res α → Res β
  | .error e => .error e
  | .ok a => .ok (f a)

/-- a generator expression consumed by `tuple(...)`: left to right, the first raise wins -/
def mapRes {α β : Type} (f : α → Res β) : List α → Res (List β)
  | [] => .ok []
  | x :: xs =>
    match f x with
    | .error e => .error e
    | .ok y =>
      match mapRes f xs with
      | .error e => .error e
      | .ok ys => .ok (y :: ys)

/-! ### integer subscripts of a tuple -/

/-- CPython's normalisation of one subscript for a sequence of length `n` -/
def normIndex (n : Nat) (i : Int) : Res Nat :=
  if 0 ≤ i then (if i < n then .ok i.toNat else .error .index)
  else (if 0 ≤ i + n then .ok (i + n).toNat else .error .index)

/-- `xs[i]` for a tuple `xs` and a Python int `i` -/
def getIdx {α : Type} (xs : List α) (i : Int) : Res α :=
  match normIndex xs.length i with
  | .error e => .error e
  | .ok k =>
    match xs[k]? with
    | some x => .ok x
    | none => .error .index

/-- the elements at the given (valid) positions, in the order of the positions -/
def gather {α : Type} (xs : List α) (idxs : List Nat) : List α := idxs.filterMap (xs[·]?)

/-! ### slices -/

/-- `slice(start, stop, step)` with int-or-None members -/
structure Slice where
  start : Option Int
  stop : Option Int
  step : Option Int
  deriving DecidableEq, Repr, Inhabited

/-- clamp of one given slice member (`_PySlice_GetLongIndices`) -/
def clamp (n lower upper x : Int) : Int :=
  if x < 0 then (if x + n < lower then lower else x + n)
  else (if x > upper then upper else x)

/-- `slice.indices(n)`: normalised `(start, stop, step)`; `ValueError` for step 0 -/
def sliceTriple (n : Nat) (s : Slice) : Res (Int × Int × Int) :=
  let step : Int := s.step.getD 1
  if step = 0 then .error .value
  else
    let lower : Int := if step < 0 then -1 else 0
    let upper : Int := if step < 0 then (n : Int) - 1 else n
    let start := match s.start with
      | none => if step < 0 then upper else lower
      | some x => clamp n lower upper x
    let stop := match s.stop with
      | none => if step < 0 then lower else upper
      | some x => clamp n lower upper x
    .ok (start, stop, step)

/-- `len(range(start, stop, step))` as CPython computes it (`step ≠ 0`) -/
def rangeLen (start stop step : Int) : Nat :=
  if step > 0 then (if start < stop then ((stop - start - 1) / step + 1).toNat else 0)
  else (if stop < start then ((start - stop - 1) / (-step) + 1).toNat else 0)

/-- `start, start+step, …` (`k` terms) -/
def rangeList (start step : Int) : Nat → List Int
  | 0 => []
  | k + 1 => start :: rangeList (start + step) step k

/-- the positions selected by `xs[s]` for a sequence of length `n`, in selection order -/
def sliceIndices (n : Nat) (s : Slice) : Res (List Nat) :=
  match sliceTriple n s with
  | .error e => .error e
  | .ok (a, b, c) => .ok ((rangeList a c (rangeLen a b c)).map Int.toNat)

/-- `len(range(*s.indices(n)))` without building the range -/
def sliceCount (n : Nat) (s : Slice) : Res Nat :=
  match sliceTriple n s with
  | .error e => .error e
  | .ok (a, b, c) => .ok (rangeLen a b c)

/-- `typeutils.slice_length(s, n)`:
    `max(0, (stop - start + (step - (1 if step > 0 else -1))) // step)` (`//` is floor division) -/
def sliceLength (n : Nat) (s : Slice) : Res Nat :=
  match sliceTriple n s with
  | .error e => .error e
  | .ok (a, b, c) => .ok (max 0 (Int.fdiv (b - a + (c - (if c > 0 then 1 else -1))) c)).toNat

/-! #### decoding of `Gen.sliceLengthTable` (slice_length tabulated from the live source, one packed Nat per row:
     base-16 digits n, start, stop, step, result; member x ↦ x+8, None ↦ 15; result r ↦ r+1, raise ↦ 0) -/

def decodeMember (d : Nat) : Option Int := if d = 15 then none else some ((d : Int) - 8)

def encodeLen : Res Nat → Nat
  | .ok k => k + 1
  | .error _ => 0

/-- the model's `sliceLength` reproduces one tabulated row -/
def sliceLengthRowOk (e : Nat) : Bool :=
  encodeLen (sliceLength (e / 65536) ⟨decodeMember (e / 4096 % 16), decodeMember (e / 256 % 16), decodeMember (e / 16 % 16)⟩)
    == e % 16

/-! ### vectors and keys -/

/-- a 1-D `Vector`: the storage tuple, the dtype (`None` for an untyped empty vector), the name -/
structure Vec (ν α : Type) where
  data : List α
  dtype : Option DType
  name : Option ν
  deriving DecidableEq, Repr

/-- `self.copy(new_values, name=self._name)`: dtype and name are kept, values replaced -/
def copyWith {ν α : Type} (v : Vec ν α) (xs : List α) : Vec ν α := { v with data := xs }

/-- one element of a list / Vector used as key, as far as `__getitem__` looks at it -/
inductive KElem where
  | bool (b : Bool)      -- exactly `bool`
  | int (i : Int)        -- exactly `int`
  | other                -- None, float, str, …
  deriving DecidableEq, Repr, Inhabited

namespace KElem
def isBool : KElem → Bool | bool _ => true | _ => false
def isInt : KElem → Bool | int _ => true | _ => false
/-- `if y` -/
def truthy : KElem → Bool | bool b => b | int i => decide (i ≠ 0) | other => true
/-- `isinstance(x, int)` values as subscripts (`True` is 1) -/
def asInt? : KElem → Option Int
  | bool b => some (if b then 1 else 0) | int i => some i | other => none
end KElem

/-- the key of `Vector.__getitem__` -/
inductive Key where
  | int (i : Int)                                   -- `isinstance(key, int)` (bools are ints)
  | tuple1 (k : Key)                                -- `(k,)`
  | tupleN (n : Nat)                                -- a tuple of length `n ≠ 1`
  | vec (dtype : Option DType) (es : List KElem)    -- a 1-D Vector
  | list (es : List KElem)                          -- a Python list
  | slice (s : Slice)
  | other                                           -- float, str, None, dict, …
  deriving Repr, Inhabited

inductive Item (ν α : Type) where
  | scalar (x : α)
  | vec (v : Vec ν α)
  deriving DecidableEq, Repr

/-- `(x for x, y in zip(self, key, strict=True) if y)` (lengths already checked equal) -/
def maskSel {α : Type} : List α → List Bool → List α
  | x :: xs, m :: ms => if m then x :: maskSel xs ms else maskSel xs ms
  | _, _ => []

/-- the boolean-mask branch (Vector mask and list mask share the code) -/
def maskGet {ν α : Type} (v : Vec ν α) (ms : List Bool) : Res (Item ν α) :=
  if v.data.length ≠ ms.length then .error .value
  else .ok (.vec (copyWith v (maskSel v.data ms)))

/-- `self[x]` for one element of an integer key -/
def elemGet {α : Type} (xs : List α) (e : KElem) : Res α :=
  match e.asInt? with
  | some i => getIdx xs i
  | none => .error .type

/-- the integer-Vector / integer-list branch: `self.copy(self[x] for x in key)` -/
def intsGet {ν α : Type} (v : Vec ν α) (es : List KElem) : Res (Item ν α) :=
  rmap (fun xs => .vec (copyWith v xs)) (mapRes (elemGet v.data) es)

/-- `Vector.__getitem__` for a 1-D vector, branch order as in the source:
    int, tuple, bool Vector, bool list, slice, int Vector, int list, else SerifTypeError. -/
def getitem {ν α : Type} (v : Vec ν α) : Key → Res (Item ν α)
  | .int i => rmap .scalar (getIdx v.data i)
  | .tuple1 k =>
    -- len(key) != len(self.shape): shape is () for an empty vector, (n,) otherwise
    if v.data.isEmpty then .error .key else getitem v k
  | .tupleN m =>
    -- only `()` on an empty vector passes the shape test; then `key[-1]` raises IndexError
    if m = 0 ∧ v.data.isEmpty then .error .index else .error .key
  | .vec dt es =>
    match dt with
    | none => .error .type                       -- an untyped empty Vector (`key.schema() is None`) is no usable key (1b5354c)
    | some d =>
      if d.kind = .bool ∧ d.nullable = false then maskGet v (es.map KElem.truthy)
      else if d.kind = .int ∧ d.nullable = false then intsGet v es
      else .error .type
  | .list es =>
    if es ≠ [] ∧ es.all KElem.isBool = true then maskGet v (es.map KElem.truthy)
    else if es ≠ [] ∧ es.all KElem.isInt = true then intsGet v es
    else .error .type
  | .slice s =>
    match sliceIndices v.data.length s with
    | .error e => .error e
    | .ok idxs => .ok (.vec (copyWith v (gather v.data idxs)))
  | .other => .error .type

/-! ### specification side: which positions a row selection picks -/

/-- positions of the `True`s of a mask, counted from `i` -/
def maskIdxFrom : Nat → List Bool → List Nat
  | _, [] => []
  | i, m :: ms => if m then i :: maskIdxFrom (i + 1) ms else maskIdxFrom (i + 1) ms

/-- the position selected by one element of an integer key -/
def normElem (n : Nat) (e : KElem) : Res Nat :=
  match e.asInt? with
  | some i => normIndex n i
  | none => .error .type

/-- Python list semantics of a selecting key on a sequence of length `n`: the list of selected
    positions (depends on `n` and the key only — not on the elements) -/
def selIndices (n : Nat) : Key → Res (List Nat)
  | .slice s => sliceIndices n s
  | .vec (some d) es =>
    if d.kind = .bool ∧ d.nullable = false then
      (if n ≠ es.length then .error .value else .ok (maskIdxFrom 0 (es.map KElem.truthy)))
    else if d.kind = .int ∧ d.nullable = false then
      mapRes (normElem n) es
    else .error .type
  | .list es =>
    if es ≠ [] ∧ es.all KElem.isBool = true then
      (if n ≠ es.length then .error .value else .ok (maskIdxFrom 0 (es.map KElem.truthy)))
    else if es ≠ [] ∧ es.all KElem.isInt = true then
      mapRes (normElem n) es
    else .error .type
  | .vec none _ => .error .type
  | _ => .error .type

/-- a key that selects rows (everything but int and tuples) -/
def Key.isSel : Key → Bool
  | .slice _ | .vec _ _ | .list _ | .other => true
  | _ => false

/-! ### comparisons and logical operators (`_elementwise_compare`) -/

/-- the right operand as the code classifies it -/
inductive Operand (β : Type) where
  | vec (ys : List (Option β))       -- a 1-D Vector
  | iter (ys : List (Option β))      -- another sized iterable that is not str/bytes
  | scalar (y : β)                   -- anything else; passed to the operator as it is (None included)

/-- `False if (x is None or y is None) else bool(op(x, y))` -/
def cmpPair {α β : Type} (cmp : α → β → Res Bool) : Option α → Option β → Res Bool
  | some x, some y => cmp x y
  | _, _ => .ok false

/-- `False if x is None else bool(op(x, other))` -/
def cmpScalar {α β : Type} (cmp : α → β → Res Bool) (y : β) : Option α → Res Bool
  | none => .ok false
  | some x => cmp x y

/-- `tuple(f(x, y) for x, y in zip(xs, ys, strict=True))`, lengths already checked -/
def zipRes {α β γ : Type} (f : α → β → Res γ) : List α → List β → Res (List γ)
  | x :: xs, y :: ys =>
    match f x y with
    | .error e => .error e
    | .ok z =>
      match zipRes f xs ys with
      | .error e => .error e
      | .ok zs => .ok (z :: zs)
  | _, _ => .ok []

/-- `Vector(result_values, dtype=DataType(bool, nullable=False))` -/
def boolVec {ν : Type} (bs : List Bool) : Vec ν Bool :=
  { data := bs, dtype := some ⟨.bool, false⟩, name := none }

/-- `_elementwise_compare(self, other, op)` for a 1-D `self`; `cmp x y` is `bool(op(x, y))` as Python
    computes it (an oracle; it may raise) -/
def compare {ν α β : Type} (cmp : α → β → Res Bool) (xs : List (Option α)) : Operand β → Res (Vec ν Bool)
  | .vec ys =>
    if xs.length ≠ ys.length then .error .value else rmap boolVec (zipRes (cmpPair cmp) xs ys)
  | .iter ys =>
    if xs.length ≠ ys.length then .error .value else rmap boolVec (zipRes (cmpPair cmp) xs ys)
  | .scalar y =>
    rmap boolVec (mapRes (cmpScalar cmp y) xs)

/-! ### tables -/

/-- a `Table`: its column vectors (names live on the columns) -/
structure Tab (ν α : Type) where
  cols : List (Vec ν α)
  deriving DecidableEq, Repr

/-- `len(table)`: the cached length of the first column, 0 without columns -/
def Tab.nrows {ν α : Type} (t : Tab ν α) : Nat :=
  match t.cols with
  | [] => 0
  | c :: _ => c.data.length

def Tab.names {ν α : Type} (t : Tab ν α) : List (Option ν) := t.cols.map (·.name)

/-- all columns have `n` rows (C02; what `Table.__init__` enforces) -/
def Tab.Rect {ν α : Type} (t : Tab ν α) (n : Nat) : Prop := ∀ c ∈ t.cols, c.data.length = n

/-- string functions used by the name lookup; computed by Python / by the driver, never by the model -/
structure NameOps (ν : Type) where
  lower : ν → ν                 -- `str.lower`
  sanitize : ν → Option ν       -- `_sanitize_user_name`
  uniq : ν → Nat → ν            -- f"{base}__{idx}"
  sys : Nat → ν                 -- f"col{idx}_"

/-- the sanitised-match test of the lookup loop for column `idx` -/
def matchSan {ν : Type} [DecidableEq ν] (ops : NameOps ν) (kl : ν) (idx : Nat) (name : Option ν) : Bool :=
  match name with
  | some nm =>
    match ops.sanitize nm with
    | none => ops.sys idx == kl
    | some base => base == kl || ops.uniq base idx == kl
  | none => ops.sys idx == kl

/-- `for idx, col in enumerate(cols): if p(idx, col): return col` -/
def findCol {ν α : Type} (p : Nat → Option ν → Bool) : Nat → List (Vec ν α) → Option (Vec ν α)
  | _, [] => none
  | i, c :: cs => if p i c.name then some c else findCol p (i + 1) cs

/-- column lookup by one string: exact name first, then sanitised forms, else SerifKeyError -/
def resolve {ν α : Type} [DecidableEq ν] (ops : NameOps ν) (cols : List (Vec ν α)) (key : ν) : Res (Vec ν α) :=
  match findCol (fun _ nm => nm == some key) 0 cols with
  | some c => .ok c
  | none =>
    match findCol (matchSan ops (ops.lower key)) 0 cols with
    | some c => .ok c
    | none => .error .key

/-- "some column answers to `key`" -/
def answers {ν : Type} [DecidableEq ν] (ops : NameOps ν) (key : ν) (idx : Nat) (name : Option ν) : Bool :=
  name == some key || matchSan ops (ops.lower key) idx name

/-- one column under a row-selecting key -/
def selVec {ν α : Type} (v : Vec ν α) (k : Key) : Res (Vec ν α) :=
  match getitem v k with
  | .error e => .error e
  | .ok (.vec r) => .ok r
  | .ok (.scalar _) => .error .other

/-- `Vector(tuple(x[key] for x in self._underlying))`: the same key applied to every column -/
def rowsel {ν α : Type} (t : Tab ν α) (k : Key) : Res (Tab ν α) :=
  rmap Tab.mk (mapRes (fun c => selVec c k) t.cols)

/-- one member of a 2-tuple key -/
inductive Spec (ν : Type) where
  | int (i : Int)
  | slice (s : Slice)
  | name (k : ν)
  | names (ks : List ν)
  | other

def Spec.isRow {ν : Type} : Spec ν → Bool
  | .int _ | .slice _ => true
  | _ => false

/-- the key of `Table.__getitem__` -/
inductive TKey (ν : Type) where
  | name (k : ν)                  -- a str
  | names (ks : List ν)           -- a tuple of str (possibly empty)
  | two (a b : Spec ν)            -- any other tuple of length 2
  | tupleN (n : Nat)              -- any other tuple
  | row (k : Key)                 -- int, Vector, list, slice, other

inductive TItem (ν α : Type) where
  | cell (x : α)
  | col (v : Vec ν α)
  | tab (t : Tab ν α)
  | row (xs : List α)             -- the values of one row (a `Row`, or a slice of it)
  | none                          -- the function falls off its end and returns None
  | unmodelled                    -- `t[i, 'name']`: goes through the Row attribute protocol (C17)
  deriving DecidableEq, Repr

/-- multi-name selection: every name resolved in order (repeats allowed), first miss raises -/
def selectNames {ν α : Type} [DecidableEq ν] (ops : NameOps ν) (cols : List (Vec ν α)) (ks : List ν) :
    Res (Tab ν α) :=
  rmap Tab.mk (mapRes (resolve ops cols) ks)

/-- the boolean-mask branch of the table: `assert len(self) == len(key)`, then per column -/
def maskRows {ν α : Type} (t : Tab ν α) (k : Key) (len : Nat) : Res (TItem ν α) :=
  if t.nrows ≠ len then .error .other else rmap .tab (rowsel t k)

/-- `t[a, b]` -/
def getTwo {ν α : Type} [DecidableEq ν] (ops : NameOps ν) (t : Tab ν α) (a b : Spec ν) : Res (TItem ν α) :=
  let r := if a.isRow then a else b
  let c := if a.isRow then b else a
  match r with
  | .slice s =>
    match rowsel t (.slice s) with
    | .error e => .error e
    | .ok rs =>
      match c with
      | .int j => rmap .col (getIdx rs.cols j)
      | .slice s2 =>
        match sliceIndices rs.cols.length s2 with
        | .error e => .error e
        | .ok idxs => .ok (.tab ⟨gather rs.cols idxs⟩)
      | .name k => rmap .col (resolve ops rs.cols k)
      | .names ks => rmap .tab (selectNames ops rs.cols ks)
      | .other => .error .key
  | .int i =>
    match c with
    | .int j =>
      match getIdx t.cols j with
      | .error e => .error e
      | .ok col => rmap .cell (getIdx col.data i)
    | .slice s2 =>
      match mapRes (fun col => getIdx col.data i) t.cols with
      | .error e => .error e
      | .ok vals =>
        match sliceIndices vals.length s2 with
        | .error e => .error e
        | .ok idxs => .ok (.row (gather vals idxs))
    | _ => .ok .unmodelled
  | _ => .error .key

/-- `Table.__getitem__`, branch order as in the source: str, tuple of str, other tuple, int,
    bool Vector, bool list, slice, int Vector; anything else falls off the end (returns None). -/
def getitemTab {ν α : Type} [DecidableEq ν] (ops : NameOps ν) (t : Tab ν α) : TKey ν → Res (TItem ν α)
  | .name k => rmap .col (resolve ops t.cols k)
  | .names ks => rmap .tab (selectNames ops t.cols ks)
  | .two a b => getTwo ops t a b
  | .tupleN _ => .error .key
  | .row (.int i) =>
    match t.cols with
    | [] => .error .index
    | _ => rmap .row (mapRes (fun col => getIdx col.data i) t.cols)
  | .row (.vec dt es) =>
    match dt with
    | none => .ok .none                          -- falls off the end of `Table.__getitem__` (an untyped empty Vector)
    | some d =>
      if d.kind = .bool ∧ d.nullable = false then maskRows t (.vec dt es) es.length
      else if d.kind = .int ∧ d.nullable = false then rmap .tab (rowsel t (.vec dt es))
      else .ok .none
  | .row (.list es) =>
    if es ≠ [] ∧ es.all KElem.isBool = true then maskRows t (.list es) es.length
    else .ok .none
  | .row (.slice s) => rmap .tab (rowsel t (.slice s))
  | .row _ => .ok .none

/-! ### specification side of table selection -/

/-- forget the exception: `some` result or `none` -/
def ok? {α : Type} : Res α → Option α
  | .ok a => some a
  | .error _ => none

/-- the result of a subscription, required to be a table -/
def asTab {ν α : Type} : Res (TItem ν α) → Res (Tab ν α)
  | .ok (.tab t) => .ok t
  | .ok _ => .error .other
  | .error e => .error e

/-- `t[rows][names]` -/
def rowsThenCols {ν α : Type} [DecidableEq ν] (ops : NameOps ν) (t : Tab ν α) (k : Key) (ks : List ν) : Res (Tab ν α) :=
  match asTab (getitemTab ops t (.row k)) with
  | .error e => .error e
  | .ok t' => asTab (getitemTab ops t' (.names ks))

/-- `t[names][rows]` -/
def colsThenRows {ν α : Type} [DecidableEq ν] (ops : NameOps ν) (t : Tab ν α) (k : Key) (ks : List ν) : Res (Tab ν α) :=
  match asTab (getitemTab ops t (.names ks)) with
  | .error e => .error e
  | .ok t' => asTab (getitemTab ops t' (.row k))

/-- the rows a key selects from a table of `n` rows, as positions; `none` when the key raises or is
    not a row selection (int, tuple, int list, …).  Depends on `n` and the key only. -/
def tabSel (n : Nat) : Key → Option (List Nat)
  | .slice s => ok? (sliceIndices n s)
  | .vec (some d) es =>
    if d.kind = .bool ∧ d.nullable = false then
      (if n = es.length then some (maskIdxFrom 0 (es.map KElem.truthy)) else none)
    else if d.kind = .int ∧ d.nullable = false then ok? (mapRes (normElem n) es)
    else none
  | .list es =>
    if es ≠ [] ∧ es.all KElem.isBool = true then
      (if n = es.length then some (maskIdxFrom 0 (es.map KElem.truthy)) else none)
    else none
  | _ => none

/-- one column restricted to the rows at `idxs` (name and dtype kept) -/
def gatherCol {ν α : Type} (idxs : List Nat) (c : Vec ν α) : Vec ν α := copyWith c (gather c.data idxs)

/-- every column restricted to the same rows -/
def gatherTab {ν α : Type} (idxs : List Nat) (t : Tab ν α) : Tab ν α := ⟨t.cols.map (gatherCol idxs)⟩

/-- the cells of a table, column by column -/
def Tab.cells {ν α : Type} (t : Tab ν α) : List (List α) := t.cols.map (·.data)

end Serif.Index
