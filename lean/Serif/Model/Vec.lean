/-
  Model of the elementwise machinery of src/serif/vector.py and src/serif/table.py
  (properties C05 and C06):

    Vector._elementwise_operation / __radd__ / __rmul__ / the `_reverse_*` wrappers,
    Vector._unary_operation, MethodProxy.__call__ and the property branch of Vector.__getattr__,
    the explicit _String / _Date wrappers, _Date.__add__, Table._table_elementwise_operation,
    Vector._elementwise_compare and _Date._elementwise_compare,
    the reductions (sum, mean, min, max, stdev, any, all), isna, dropna, fillna.

  Python `None` is `Option.none`; element values are otherwise opaque (type parameter).  Every
  scalar operation of Python (`x + y`, `x < y`, `s.upper()`, `float(x)` ...) is a function
  parameter returning `Res` (it may raise); in the correspondence run it is a finite table computed
  by Python itself.  Everything serif does around the scalar operation - zipping, operand order,
  None guards, length checks, which branch handles which operand form - is modelled concretely.

  Not modelled: the mixed-type fallback of `_elementwise_operation` (tuples of operands when Python
  raises TypeError; outside C05), the dtype/name of arithmetic results (C03/C04/C18).
-/
import Serif.Prelude
import Serif.Model.DType

namespace Serif.Vec

instance instDecEqExcept {ε α : Type} [DecidableEq ε] [DecidableEq α] : DecidableEq (Except ε α) :=
  fun a b =>
    match a, b with
    | .ok x, .ok y => if h : x = y then isTrue (by rw [h]) else isFalse (fun h' => h (Except.ok.inj h'))
    | .error x, .error y =>
      if h : x = y then isTrue (by rw [h]) else isFalse (fun h' => h (Except.error.inj h'))
    | .ok _, .error _ => isFalse (fun h => by cases h)
    | .error _, .ok _ => isFalse (fun h => by cases h)

/-- a column of values; Python `None` is `none` -/
abbrev Col (α : Type) := List (Option α)

/-- a vector as far as C05/C06 look at it: its elements and `schema()` (`none` = no dtype,
    which only an empty vector built without `dtype=` has) -/
structure Vec (α : Type) where
  data : Col α
  dtype : Option DType
  deriving DecidableEq, Repr

/-- `Vector.__new__` dispatches to `_Date` iff the dtype's kind is `date` -/
def Vec.isDate {α : Type} (v : Vec α) : Bool :=
  match v.dtype with
  | some d => d.kind == .date
  | none => false

/-! ### sequencing of per-element results (a generator inside `tuple(...)`) -/

/-- `tuple(f(a) for a in l)`: the first raising element aborts the whole expression -/
def mapRes {α β : Type} (f : α → Res β) : List α → Res (List β)
  | [] => .ok []
  | a :: as =>
    match f a with
    | .error e => .error e
    | .ok b =>
      match mapRes f as with
      | .error e => .error e
      | .ok bs => .ok (b :: bs)

/-- `tuple(f(x, y) for x, y in zip(xs, ys, strict=True))`; a length difference surfaces as the
    ValueError of `zip(strict=True)` (never reached: every caller checks the lengths first) -/
def zipCells {α β ρ : Type} (f : Option α → Option β → Res ρ) : Col α → Col β → Res (List ρ)
  | [], [] => .ok []
  | x :: xs, y :: ys =>
    match f x y with
    | .error e => .error e
    | .ok c =>
      match zipCells f xs ys with
      | .error e => .error e
      | .ok cs => .ok (c :: cs)
  | _, _ => .error .value

/-! ### operand forms -/

/-- the right-hand (or, for reflected operators, left-hand) operand as the code classifies it -/
inductive Operand (β : Type) where
  /-- another `Vector`, with its `schema()` -/
  | vec (ys : Col β) (dtype : Option DType)
  /-- any other iterable that is not str/bytes/bytearray: list, tuple, range -/
  | seq (ys : Col β)
  /-- everything else -/
  | scalar (s : β)
  deriving Repr

/-- the operand element that meets element `i` of the vector -/
def Operand.get? {β : Type} : Operand β → Nat → Option (Option β)
  | .vec ys _, i => ys[i]?
  | .seq ys, i => ys[i]?
  | .scalar s, _ => some (some s)

/-- number of elements of a sequence operand (`none` for a scalar) -/
def Operand.len? {β : Type} : Operand β → Option Nat
  | .vec ys _ => some ys.length
  | .seq ys => some ys.length
  | .scalar _ => none

/-- vector/iterable branch: explicit length check (ValueError), then the strict zip -/
def seqOp {α β ρ : Type} (f : Option α → Option β → Res ρ) (xs : Col α) (ys : Col β) : Res (List ρ) :=
  if xs.length ≠ ys.length then .error .value else zipCells f xs ys

/-- scalar branch: `tuple(f(x, other) for x in self)` -/
def scalarOp {α β ρ : Type} (f : Option α → Option β → Res ρ) (xs : Col α) (s : β) : Res (List ρ) :=
  mapRes (fun x => f x (some s)) xs

/-- the three branches of `_elementwise_operation` / `_elementwise_compare`, for a per-pair function `f` -/
def apply {α β ρ : Type} (f : Option α → Option β → Res ρ) (xs : Col α) : Operand β → Res (List ρ)
  | .vec ys _ => seqOp f xs ys
  | .seq ys => seqOp f xs ys
  | .scalar s => scalarOp f xs s

/-! ### arithmetic -/

/-- one pair of `_elementwise_operation`: `None if (x is None or y is None) else op_func(x, y)` -/
def cell {α β γ : Type} (op : α → β → Res γ) : Option α → Option β → Res (Option γ)
  | some a, some b =>
    match op a b with
    | .ok c => .ok (some c)
    | .error e => .error e
  | _, _ => .ok none

/-- "`c` is what Python computes for the operands `l` (written left) and `r` (written right)",
    None propagating -/
def IsCellOf {α β γ : Type} (op : α → β → Res γ) (l : Option α) (r : Option β) (c : Option γ) : Prop :=
  match l, r with
  | some a, some b => ∃ v, op a b = .ok v ∧ c = some v
  | _, _ => c = none

/-- `Vector._elementwise_operation(other, op_func)` (1-D self, TypeError fallback not modelled) -/
def elementwise {α β γ : Type} (op : α → β → Res γ) (xs : Col α) (o : Operand β) : Res (Col γ) :=
  apply (cell op) xs o

/-- `_reverse_sub(y, x) = x - y` and its four siblings: the helper is called as
    `op_func(element, other)` and computes `other <op> element` -/
def rev {α β γ : Type} (op : β → α → Res γ) : α → β → Res γ := fun y x => op x y

/-- `__rsub__`, `__rtruediv__`, `__rfloordiv__`, `__rmod__`, `__rpow__`; `op` is Python's operator in
    the written order (left operand first) -/
def relementwise {α β γ : Type} (op : β → α → Res γ) (xs : Col α) (o : Operand β) : Res (Col γ) :=
  elementwise (rev op) xs o

/-- `__rmul__(other)`: like the other reflected operators it goes through `_elementwise_operation` with a reversing helper
    (`_reverse_mul(y, x) = x * y`) and so computes `other * element`; `mul` is Python's `*` in the written order
    (`other`'s element on the left).  (Until the repair of the operand order it delegated to `__mul__`.) -/
def rmul {α β γ : Type} (mul : β → α → Res γ) (xs : Col α) (o : Operand β) : Res (Col γ) :=
  elementwise (rev mul) xs o

/-- `__radd__(other)`: its own three branches; `add` is Python's `+` in the written order
    (`other`'s element on the left) -/
def radd {α β γ : Type} (add : β → α → Res γ) (xs : Col α) : Operand β → Res (Col γ)
  | .vec ys _ => if xs.length ≠ ys.length then .error .value else zipCells (cell add) ys xs
  | .scalar s => mapRes (fun x => cell add (some s) x) xs
  | .seq ys => if xs.length ≠ ys.length then .error .value else zipCells (cell add) ys xs

/-- the seven binary arithmetic operators -/
inductive BinOp where
  | add | sub | mul | truediv | floordiv | mod | pow
  deriving DecidableEq, Repr, Inhabited

/-- Python's scalar semantics as far as the vector code uses them (all parameters) -/
structure Sem (α : Type) where
  /-- `left <o> right` -/
  py : BinOp → α → α → Res α
  /-- `date.fromordinal(d.toordinal() + n)` -/
  days : α → α → Res α
  /-- `isinstance(s, int)` (true for bool) -/
  isInt : α → Bool

/-- `Vector.__add__ … __pow__` (`refl = false`) and `__radd__ … __rpow__` (`refl = true`) of a plain
    `Vector` / `_Int` / `_Float` / `_String` -/
def binary {α : Type} (py : BinOp → α → α → Res α) (o : BinOp) (refl : Bool) (xs : Col α)
    (other : Operand α) : Res (Col α) :=
  if refl then
    match o with
    | .add => radd (py .add) xs other
    | .mul => rmul (py .mul) xs other
    | o => relementwise (py o) xs other
  else elementwise (py o) xs other

/-- is the kind of an optional dtype `k`?  (`other.schema() is not None and other.schema().kind == k`) -/
def kindIs (dt : Option DType) (k : Kind) : Bool :=
  match dt with
  | some d => d.kind == k
  | none => false

/-- `_Date.__add__(other)`: "adding integers is adding days" for an int-kind Vector or an int scalar,
    everything else (an untyped empty vector included) goes to `Vector.__add__`. -/
def dateAdd {α : Type} (S : Sem α) (xs : Col α) : Operand α → Res (Col α)
  | .vec ys dt =>
    if kindIs dt .int then
      if xs.length ≠ ys.length then .error .value else zipCells (cell S.days) xs ys
    else elementwise (S.py .add) xs (.vec ys dt)
  | .scalar s =>
    if S.isInt s then scalarOp (cell S.days) xs s else elementwise (S.py .add) xs (.scalar s)
  | .seq ys => elementwise (S.py .add) xs (.seq ys)

/-- does `_Date.__add__` take its "days" branch for this operand? -/
def usesDays {α : Type} (S : Sem α) : Operand α → Bool
  | .vec _ dt => kindIs dt .int
  | .scalar s => S.isInt s
  | .seq _ => false

/-- the Python scalar operation that `vectorBinary` applies to each pair (written order) -/
def scalarOpOf {α : Type} (S : Sem α) (o : BinOp) (refl : Bool) (v : Vec α) (other : Operand α) :
    α → α → Res α :=
  if !refl && o = .add && v.isDate && usesDays S other then S.days else S.py o

/-- `v <o> other` / `other <o> v` for a 1-D vector of any class (class dispatch included) -/
def vectorBinary {α : Type} (S : Sem α) (o : BinOp) (refl : Bool) (v : Vec α) (other : Operand α) :
    Res (Col α) :=
  if !refl && o = .add && v.isDate then dateAdd S v.data other
  else binary S.py o refl v.data other

/-! ### unary operators, broadcast methods and properties -/

/-- one element of `_unary_operation`, `MethodProxy.__call__`, the property branch of `__getattr__`
    and the explicit `_String`/`_Date` wrappers: `None if x is None else f(x)` -/
def cell1 {α β : Type} (f : α → Res β) : Option α → Res (Option β)
  | none => .ok none
  | some a =>
    match f a with
    | .ok b => .ok (some b)
    | .error e => .error e

/-- `-v`, `+v`, `abs(v)`, `v.upper()`, `v.bit_length()`, `dates.year`, … -/
def broadcast {α β : Type} (f : α → Res β) (xs : Col α) : Res (Col β) := mapRes (cell1 f) xs

/-! ### Table arithmetic (`Table._table_elementwise_operation`, table on the left) -/

/-- `table <o> other` for a non-Table `other`: `op_func(col, other) for col in self.cols()` -/
def tableScalar {α : Type} (S : Sem α) (o : BinOp) (cols : List (Vec α)) (other : Operand α) :
    Res (List (Col α)) :=
  mapRes (fun c => vectorBinary S o false c other) cols

/-- `other <o> table` for a non-Table `other` (the reflected operators of `Table`, added with the repair of 4c3b80c):
    `other <o> col for col in self.cols()` -/
def tableScalarRefl {α : Type} (S : Sem α) (o : BinOp) (cols : List (Vec α)) (other : Operand α) :
    Res (List (Col α)) :=
  mapRes (fun c => vectorBinary S o true c other) cols

/-- `-table`, `+table`, `abs(table)` (repair 7b34bbf): the unary operator column by column -/
def tableUnary {α β : Type} (f : α → Res β) (cols : List (Vec α)) : Res (List (Col β)) :=
  mapRes (fun c => broadcast f c.data) cols

/-- `table <o> table`: width check (ValueError), then column by column -/
def tableTable {α : Type} (S : Sem α) (o : BinOp) (a b : List (Vec α)) : Res (List (Col α)) :=
  if a.length ≠ b.length then .error .value
  else mapRes (fun p => vectorBinary S o false p.1 (.vec p.2.data p.2.dtype)) (a.zip b)

/-! ### comparisons -/

/-- result of a comparison / of `isna`: values are Python bools by construction -/
structure BoolVec where
  data : List Bool
  dtype : DType
  deriving DecidableEq, Repr

/-- `DataType(bool, nullable=False)` -/
def boolDType : DType := { kind := .bool, nullable := false }

/-- one pair of `_elementwise_compare`: `False if (x is None or y is None) else bool(op(x, y))` -/
def cmpCell {α β : Type} (op : α → β → Res Bool) : Option α → Option β → Res Bool
  | some a, some b => op a b
  | _, _ => .ok false

def toBoolVec (r : Res (List Bool)) : Res BoolVec :=
  match r with
  | .ok l => .ok { data := l, dtype := boolDType }
  | .error e => .error e

/-- `Vector._elementwise_compare(other, op)` (1-D) -/
def compare {α β : Type} (op : α → β → Res Bool) (xs : Col α) (o : Operand β) : Res BoolVec :=
  toBoolVec (apply (cmpCell op) xs o)

/-- `_Date._elementwise_compare(other, op)`.
    `iso x y` is the comparison after the operand conversion of the date branch: `bool(op(x, date.fromisoformat(y)))`
    for a str operand, `bool(op(datetime.combine(x, midnight), y))` for a datetime operand; `isStr`/`isDatetime` are the
    `isinstance` tests on a scalar.  Both conversions are None guarded (the datetime branch since the repair of its
    `datetime.time(0, 0)` slip, which made it raise TypeError for every element); every other operand (an untyped empty
    vector included) goes to `Vector._elementwise_compare`. -/
def dateCompare {α β : Type} (isStr isDatetime : β → Bool) (op : α → β → Res Bool)
    (iso : α → β → Res Bool) (xs : Col α) : Operand β → Res BoolVec
  | .vec ys dt =>
    if xs.length ≠ ys.length then .error .value
    else if kindIs dt .str then toBoolVec (zipCells (cmpCell iso) xs ys)
    else if kindIs dt .datetime then toBoolVec (zipCells (cmpCell iso) xs ys)
    else compare op xs (.vec ys dt)
  | .seq ys => toBoolVec (seqOp (cmpCell op) xs ys)
  | .scalar s =>
    if isStr s then toBoolVec (mapRes (fun x => cmpCell iso x (some s)) xs)
    else if isDatetime s then toBoolVec (mapRes (fun x => cmpCell iso x (some s)) xs)
    else compare op xs (.scalar s)

/-! ### reductions -/

/-- `[v for v in xs if v is not None]` -/
def nonNone {α : Type} (xs : Col α) : List α := xs.filterMap id

/-- every reduction of `Vector` has the shape `f(v for v in self._underlying if v is not None)` -/
def reduce {α ρ : Type} (f : List α → ρ) (xs : Col α) : ρ := f (nonNone xs)

/-- the same reduction written as an accumulating loop that skips None
    (`for v in xs: if v is None: continue; acc = step(acc, v)`) -/
def reduceLoop {α σ : Type} (step : σ → α → σ) (init : σ) (xs : Col α) : σ :=
  xs.foldl (fun acc x => match x with
                         | none => acc
                         | some a => step acc a) init

/-- abstract scalar arithmetic for the concrete reductions (all parameters; theorems hold for
    every instantiation) -/
structure Arith (α : Type) where
  zero : α
  add : α → α → α
  sub : α → α → α
  mul : α → α → α
  /-- `x / n` for a count `n` -/
  divNat : α → Nat → α
  sqrt : α → α
  lt : α → α → Bool
  truthy : α → Bool

/-- Python's `sum(l)` -/
def pySum {α : Type} (A : Arith α) (l : List α) : α := l.foldl A.add A.zero
/-- Python's `max(l)`: the first maximal element; ValueError on an empty list -/
def pyMax {α : Type} (A : Arith α) : List α → Res α
  | [] => .error .value
  | a :: as => .ok (as.foldl (fun m x => if A.lt m x then x else m) a)
/-- Python's `min(l)` -/
def pyMin {α : Type} (A : Arith α) : List α → Res α
  | [] => .error .value
  | a :: as => .ok (as.foldl (fun m x => if A.lt x m then x else m) a)
def pyAny {α : Type} (A : Arith α) (l : List α) : Bool := l.any A.truthy
def pyAll {α : Type} (A : Arith α) (l : List α) : Bool := l.all A.truthy
/-- `sum(l) / len(l) if l else None` -/
def pyMean {α : Type} (A : Arith α) (l : List α) : Option α :=
  if l.isEmpty then none else some (A.divNat (pySum A l) l.length)
/-- `Vector.stdev(population)` on the None-free list -/
def pyStdev {α : Type} (A : Arith α) (population : Bool) (l : List α) : Option α :=
  if l.length < 2 then none
  else
    let m := A.divNat (pySum A l) l.length
    let num := pySum A (l.map (fun x => A.mul (A.sub x m) (A.sub x m)))
    some (A.sqrt (A.divNat num (l.length - 1 + (if population then 1 else 0))))

def vsum {α : Type} (A : Arith α) (xs : Col α) : α := reduce (pySum A) xs
def vmax {α : Type} (A : Arith α) (xs : Col α) : Res α := reduce (pyMax A) xs
def vmin {α : Type} (A : Arith α) (xs : Col α) : Res α := reduce (pyMin A) xs
def vany {α : Type} (A : Arith α) (xs : Col α) : Bool := reduce (pyAny A) xs
def vall {α : Type} (A : Arith α) (xs : Col α) : Bool := reduce (pyAll A) xs
def vmean {α : Type} (A : Arith α) (xs : Col α) : Option α := reduce (pyMean A) xs
def vstdev {α : Type} (A : Arith α) (population : Bool) (xs : Col α) : Option α :=
  reduce (pyStdev A population) xs

/-! ### isna / dropna / fillna -/

/-- `Vector.isna()` -/
def isna {α : Type} (v : Vec α) : BoolVec := { data := v.data.map Option.isNone, dtype := boolDType }

/-- `dtype.with_nullable(n)` on an optional dtype -/
def withNullable (d : Option DType) (n : Bool) : Option DType :=
  match d with
  | none => none
  | some d => some { d with nullable := n }

/-- `Vector.dropna()`: the non-None elements, dtype `with_nullable(False)` (no dtype stays no dtype) -/
def dropna {α : Type} (v : Vec α) : Vec α :=
  { data := (nonNone v.data).map some, dtype := withNullable v.dtype false }

/-- the fill itself: `tuple(value if x is None else c(x) for x in …)` -/
def fillWith {α : Type} (c : α → α) (x : Option α) (xs : Col α) : Col α :=
  xs.map (fun e => match e with
                   | none => x
                   | some a => some (c a))

/-- the standard path of `fillna`: fill, then `nullable = any(x is None for x in out)` -/
def fillStandard {α : Type} (v : Vec α) (x : Option α) : Vec α :=
  { data := fillWith id x v.data,
    dtype := withNullable v.dtype ((fillWith id x v.data).any Option.isNone) }

/-- `Vector.fillna(value)`.  `kindOf` = `infer_kind` on a non-None scalar, `conv k` = the element
    conversion of `Vector._promote(k)` (`float(x)`, `complex(x)`, `datetime.combine(x, min.time())`).
    Typed, non-object vector and non-None value: `validate_scalar`; if that raises TypeError the
    copy is promoted to the value's kind (SerifTypeError → ValueError) and filled. -/
def fillna {α : Type} (kindOf : α → Kind) (conv : Kind → α → α) (v : Vec α) (x : Option α) :
    Res (Vec α) :=
  match v.dtype, x with
  | some d, some a =>
    if d.kind ≠ .object && !validates d (.ty (kindOf a)) then
      match promoteVec d.kind (kindOf a) with
      | none => .error .value
      | some _ =>
        .ok { data := fillWith (conv (kindOf a)) (some a) v.data,
              dtype := some { kind := kindOf a, nullable := false } }
    else .ok (fillStandard v x)
  | _, _ => .ok (fillStandard v x)

/-- "the vector reports itself nullable": `schema()` exists and says so -/
def reportsNullable (d : Option DType) : Bool :=
  match d with
  | some d => d.nullable
  | none => false

/-! ### executable specification (what C05/C06 require of an observed result) -/

/-- what the property says about each position, in the written operand order: a defined value,
    or "Python raises for this pair" (then the property says nothing about the call).
    `none` = the operand lengths differ. -/
def specCells {α β ρ : Type} (f : Option α → Option β → Res ρ) (xs : Col α) (o : Operand β) :
    Option (List (Res ρ)) :=
  match o with
  | .vec ys _ => if xs.length = ys.length then some (List.zipWith f xs ys) else none
  | .seq ys => if xs.length = ys.length then some (List.zipWith f xs ys) else none
  | .scalar s => some (xs.map (fun x => f x (some s)))

/-- the requirement for `v <o> other` (`refl = false`) / `other <o> v` (`refl = true`): element `i`
    is `op` of the i-th operands in the WRITTEN order -/
def specBinary {α : Type} (op : α → α → Res α) (refl : Bool) (xs : Col α) (other : Operand α) :
    Option (List (Res (Option α))) :=
  specCells (fun x y => if refl then cell op y x else cell op x y) xs other

def isError {ρ : Type} : Res ρ → Bool
  | .error _ => true
  | .ok _ => false

/-- an observed outcome (`none` = the call raised) against per-position requirements:
    * all positions defined → the call must return exactly those values;
    * some position raises in Python → raising is fine, and a returned vector must still have
      the right length and the right value wherever Python defines one -/
def conformsCells {ρ : Type} [DecidableEq ρ] (cells : List (Res ρ)) : Option (List ρ) → Bool
  | none => cells.any isError
  | some data =>
    data.length == cells.length &&
    (cells.zip data).all (fun p => match p.1 with
                                   | .ok v => decide (v = p.2)
                                   | .error _ => true)

/-- length mismatch must raise (never truncate, recycle or broadcast) -/
def conforms {ρ : Type} [DecidableEq ρ] : Option (List (Res ρ)) → Option (List ρ) → Bool
  | none, impl => impl.isNone
  | some cells, impl => conformsCells cells impl

/-- requirement for `table <o> other` (non-Table operand): one requirement per column -/
def specTableScalar {α : Type} (S : Sem α) (o : BinOp) (cols : List (Vec α)) (other : Operand α) :
    Option (List (Option (List (Res (Option α))))) :=
  some (cols.map (fun c => specBinary (scalarOpOf S o false c other) false c.data other))

/-- requirement for `table <o> table`; `none` = the widths differ -/
def specTableTable {α : Type} (S : Sem α) (o : BinOp) (a b : List (Vec α)) :
    Option (List (Option (List (Res (Option α))))) :=
  if a.length = b.length then
    some ((a.zip b).map (fun p =>
      specBinary (scalarOpOf S o false p.1 (.vec p.2.data p.2.dtype)) false p.1.data
        (.vec p.2.data p.2.dtype)))
  else none

/-- observed table result against per-column requirements: a width mismatch or a row-count mismatch
    in any column must raise; otherwise raising is acceptable only if Python raises for some cell,
    and a returned table must have one conforming column per column -/
def conformsTable {ρ : Type} [DecidableEq ρ] :
    Option (List (Option (List (Res ρ)))) → Option (List (List ρ)) → Bool
  | none, impl => impl.isNone
  | some specs, none =>
    specs.any (fun s => match s with
                        | none => true
                        | some cells => cells.any isError)
  | some specs, some out =>
    out.length == specs.length && (specs.zip out).all (fun p => conforms p.1 (some p.2))

/-- does `_Date._elementwise_compare` interpret the other operand as ISO date strings? -/
def usesIso {β : Type} (isStr : β → Bool) : Operand β → Bool
  | .vec _ dt => kindIs dt .str || kindIs dt .datetime
  | .scalar s => isStr s
  | .seq _ => false

/-- requirement for a comparison: `False` where either side is None, else Python's comparison -/
def specCompare {α β : Type} (op : α → β → Res Bool) (xs : Col α) (o : Operand β) :
    Option (List (Res Bool)) :=
  specCells (cmpCell op) xs o

/-- outcome of a model run in the shape of an observation -/
def outcome {ρ : Type} : Res ρ → Option ρ
  | .ok r => some r
  | .error _ => none

end Serif.Vec
