/-
  Model of src/serif/csv.py : the pipeline *after* `csv.reader`.

  `csv.reader` does the lexical work (quotes, embedded delimiters and newlines); its output, a
  list of records (each a list of cell texts, blank lines being the empty record), is the input
  of the model.  Python's own `not value`, `str.strip`, `int()`, `float()` are parameters
  (`Oracle`): the theorems hold for every instantiation, the correspondence run instantiates
  them with the results Python computed for each cell text.
-/
import Serif.Prelude
import Serif.Model.DType

namespace Serif.Csv

/-- Python's scalar semantics on one cell text `τ`, producing opaque Python values `ν`. -/
structure Oracle (τ ν : Type) where
  /-- the text verbatim (used for header cells) -/
  raw : τ → String
  /-- `not value or value.strip() == ''` -/
  blank : τ → Bool
  /-- `int(value.strip())`, `none` = ValueError -/
  int? : τ → Option ν
  /-- `float(value.strip())`, `none` = ValueError -/
  float? : τ → Option ν
  /-- `value.strip()` kept as a string -/
  text : τ → ν
  /-- Python's `None` -/
  none : ν

variable {τ ν : Type}

/-- `_infer_type(value)`: blank → None, else int if `int()` accepts the stripped text, else float
    if `float()` does, else the stripped string — in this order. -/
def inferType (O : Oracle τ ν) (v : τ) : ν :=
  if O.blank v then O.none
  else match O.int? v with
    | some i => i
    | none =>
      match O.float? v with
      | some f => f
      | none => O.text v

/-- one column of the result: a stored name and its cells -/
structure Column (ν : Type) where
  name : String
  data : List ν
  deriving Repr, DecidableEq

/-- `[f"col_{i}" for i in range(n)]` -/
def colNames (n : Nat) : List String := (List.range n).map (fun i => "col_" ++ toString i)

/-- body of the inner loop: `_infer_type(row[col_idx]) if col_idx < len(row) else None` -/
def cellAt (O : Oracle τ ν) (r : List τ) (c : Nat) : ν :=
  match r[c]? with
  | some v => inferType O v
  | none => O.none

/-- the inner loop of the transposition: column `c` over the data records, short records padded
    with None (cells beyond the header width are never looked at) -/
def column (O : Oracle τ ν) (rows : List (List τ)) (c : Nat) : List ν :=
  rows.map (fun r => cellAt O r c)

/-- `_read_csv_from_file` after `all_rows = list(reader)` -/
def readCsv (O : Oracle τ ν) (hasHeader : Bool) (all : List (List τ)) : List (Column ν) :=
  match all with
  | [] => []                                                      -- `return Table()`
  | first :: rest =>
    let header := if hasHeader then first.map O.raw else colNames first.length
    let rows := if hasHeader then rest else first :: rest
    if rows.isEmpty then
      header.map (fun h => { name := h, data := [] })             -- header only
    else
      header.mapIdx (fun c h => { name := h, data := column O rows c })

/-! ### observables of the resulting table -/

def names (t : List (Column ν)) : List String := t.map (·.name)

/-- `len(table)`: a serif table without columns has no rows -/
def nrows (t : List (Column ν)) : Nat :=
  match t with
  | [] => 0
  | c :: _ => c.data.length

/-- dtype of `Vector(data)`: none for the empty vector, else `infer_dtype` of the cells -/
def colDType (tagOf : ν → Tag) (data : List ν) : Option DType :=
  if data.isEmpty then none else some (infer (data.map tagOf))

/-- the data records of the input (what "one row per data record" counts) -/
def dataRecords (hasHeader : Bool) (all : List (List τ)) : List (List τ) :=
  if hasHeader then all.drop 1 else all

/-- executable specification of one cell (property statement, clause by clause) -/
def specCell (O : Oracle τ ν) (rec : List τ) (c : Nat) : ν :=
  if h : c < rec.length then inferType O rec[c] else O.none

end Serif.Csv
