/-
  Model of src/serif/alias_tracker.py and of the protocol by which Vector/Table use it (C15).

  * `reg : storage id ↦ list of object ids` is `_AliasTracker._registry` (`id(tuple) ↦ [weakref]`);
    an entry whose object has died is a dead weak reference and may linger.
  * Objects are numbered serially and never reused (a weak reference to a dead object never compares
    equal to a new object, even at the same address).
  * Storage identities ARE reused by the interpreter: every operation that allocates storage takes the new
    identity as an argument, constrained only by `Admissible` (it is not the identity of the storage of any
    *live* object, which is all CPython guarantees). Identity 0 is the shared empty tuple `()`; writes on it
    are never checked.
  * `data : storage id ↦ contents`: a write allocates new storage and never changes existing storage.
-/
import Serif.Prelude

namespace Serif

structure AState where
  store : Nat → Option Nat      -- live object ↦ identity of its storage; none = dead / not yet created
  reg : Nat → List Nat          -- the registry
  data : Nat → List Nat         -- contents of storage
  next : Nat                    -- next object number

namespace AState

def init : AState := { store := fun _ => none, reg := fun _ => [], data := fun _ => [], next := 0 }

def alive (st : AState) (o : Nat) : Bool := (st.store o).isSome

/-- `_cleanup_dead_refs(registry[s])` -/
def liveRefs (st : AState) (s : Nat) : List Nat := (st.reg s).filter st.alive

def setReg (st : AState) (s : Nat) (l : List Nat) : AState :=
  { st with reg := fun s' => if s' = s then l else st.reg s' }

def setStore (st : AState) (o : Nat) (s : Option Nat) : AState :=
  { st with store := fun o' => if o' = o then s else st.store o' }

/-- `register(vec, tuple_id)`: prune dead references; append unless already present.
    (When already present the pruned list is not stored back — exactly as coded.) -/
def register (st : AState) (o s : Nat) : AState :=
  if (st.liveRefs s).contains o then st else st.setReg s (st.liveRefs s ++ [o])

/-- `unregister(vec, tuple_id)`: keep the live references other than `vec` (an empty list deletes the entry) -/
def unregister (st : AState) (o s : Nat) : AState :=
  if (st.reg s).isEmpty then st else st.setReg s ((st.liveRefs s).filter (· != o))

/-- `check_writable(vec, tuple_id)`: prunes, then accepts iff at most one live owner -/
def checkWritable (st : AState) (s : Nat) : AState × Bool :=
  if (st.reg s).isEmpty then (st, true)
  else (st.setReg s (st.liveRefs s), (st.liveRefs s).length ≤ 1)

/-- the protocol every storage swap follows: unregister old, point at the new storage, register -/
def swapStorage (st : AState) (o s' : Nat) : AState :=
  match st.store o with
  | none => st
  | some s => ((st.unregister o s).setStore o (some s')).register o s'

inductive AOp where
  /-- `Vector.__init__` of a new object over storage `s` (fresh, or shared with whoever else uses `s`) -/
  | create (s : Nat) (contents : List Nat)
  /-- a storage swap outside item assignment: second `__init__`, `_promote`, `Table._swap_columns` -/
  | swap (o s' : Nat) (contents : List Nat)
  /-- item assignment `v[k] = x` producing new storage `s'` with the given contents -/
  | write (o s' : Nat) (contents : List Nat)
  /-- the object is garbage collected -/
  | drop (o : Nat)
  deriving Repr

def setData (st : AState) (s : Nat) (c : List Nat) : AState :=
  { st with data := fun x => if x = s then c else st.data x }

/-- result of a step: new state, and for a write whether it was refused (AliasError) -/
def step (st : AState) : AOp → AState × Bool
  | .create s c =>
    let o := st.next
    ((({ st with next := st.next + 1 }).setData s c).setStore o (some s) |>.register o s, false)
  | .swap o s' c =>
    match st.store o with
    | none => (st, false)
    | some _ => ((st.setData s' c).swapStorage o s', false)
  | .write o s' c =>
    match st.store o with
    | none => (st, false)
    | some s =>
      if s = 0 then
        -- empty storage is never checked (nothing can be written into it anyway)
        ((st.setData s' c).swapStorage o s', false)
      else
        if (st.checkWritable s).2 then (((st.checkWritable s).1.setData s' c).swapStorage o s', false)
        else ((st.checkWritable s).1, true)
  | .drop o => (st.setStore o none, false)

def run (st : AState) (ops : List AOp) : AState := ops.foldl (fun st op => (st.step op).1) st

/-- what a live object shows -/
def view (st : AState) (o : Nat) : Option (List Nat) := (st.store o).map st.data

/-- the allocator / sharing assumption under which contents are stable: new storage either is not the storage
    of any live object (CPython never hands out the identity of a live tuple) or holds the same contents
    (sharing an existing tuple, e.g. the empty tuple or a caller-supplied one) -/
def Admissible (st : AState) : AOp → Prop
  | .create s c => ∀ o, st.store o = some s → st.data s = c
  | .swap _ s' c => ∀ o, st.store o = some s' → st.data s' = c
  | .write _ s' c => ∀ o, st.store o = some s' → st.data s' = c
  | .drop _ => True

end AState
end Serif
