/-
  Model of src/serif/table.py : Table.aggregate, Table.window and of the whole-column
  reductions of src/serif/vector.py (sum, mean, min, max, stdev).

  What is modelled concretely (and what the theorems are about):
    * the partition index: an insertion-ordered dict from key tuple to the ascending list of row
      indices, built in row order (`partition`), and `group_items = list(index.items())`
    * `aggregate_col`: one function application per group over the gathered values (`aggCol`)
    * the six built-ins as coded (`sum(v for v in vals if v is not None)` …), in the fixed order
      sum, mean, min, max, count, stdev, then the custom `apply` entries
    * window's `row_keys`, `compute_group_values` (a second dict keyed by the group key) and
      `expand_to_rows` (a lookup per row that could raise KeyError — proved never to)
    * output naming: `col._name or "key"`, `<sanitised>_<fn>`, `uniquify` with numeric suffixes 2,3,…
    * the length checks that precede the work

  Parameters (instantiated by the harness with Python's own results):
    * key equality: keys are equality-class ids (`κ` with decidable equality); None is a key like any other
    * `_sanitize_user_name(col._name or "col") or "col"` per aggregated column (oracle string `san`)
    * the rendering of the numeric suffix in f"{name}{i}" (`sfx`, instantiated with `toString`)
    * the custom function of an `apply` entry (`f : List α → β`)
  Value columns hold `Option Int` (None / small ints) so that sum, count, min, max are exact; mean and the
  variance are exact rationals (`Rat`), i.e. Python's float arithmetic is replaced by exact arithmetic and
  the final `** 0.5` of stdev is not applied (the model returns the variance).
-/
import Serif.Prelude

namespace Serif.Group

/-! ### 1. Partition index -/

section partition
variable {κ : Type} [DecidableEq κ]

/-- `bucket = index.get(key); if bucket is None: index[key] = [i] else: bucket.append(i)` -/
def addRow (d : Dict κ (List Nat)) (k : κ) (i : Nat) : Dict κ (List Nat) :=
  Dict.upsert d k (fun b => match b with | none => [i] | some rows => rows ++ [i])

/-- the loop `for row_idx in range(nrows)` from row `i` on -/
def partitionFrom : List κ → Nat → Dict κ (List Nat) → Dict κ (List Nat)
  | [], _, d => d
  | k :: ks, i, d => partitionFrom ks (i + 1) (addRow d k i)

/-- `partition_index` after the loop; as a list of pairs it is `group_items` -/
def partition (keys : List κ) : Dict κ (List Nat) := partitionFrom keys 0 []

/-- `[data[i] for i in row_indices]` -/
def gather {α : Type} (data : List α) (rows : List Nat) : List α := rows.filterMap (data[·]?)

/-- `aggregate_col`: `func` applied once per group, groups in `group_items` order -/
def aggCol {α β : Type} (data : List α) (groups : Dict κ (List Nat)) (f : List α → β) : List β :=
  groups.map (fun g => f (gather data g.2))

/-- the arguments `func` is called with, in call order (the call log of a recording function) -/
def callLog {α : Type} (data : List α) (groups : Dict κ (List Nat)) : List (List α) :=
  groups.map (fun g => gather data g.2)

/-- window: `out = {}; for key, rows in group_items: out[key] = fn([data[i] for i in rows])` -/
def computeGroupValues {α β : Type} (data : List α) (groups : Dict κ (List Nat)) (f : List α → β) :
    Dict κ β :=
  groups.foldl (fun out g => Dict.upsert out g.1 (fun _ => f (gather data g.2))) []

/-- window: `[group_map[row_keys[i]] for i in range(nrows)]`; a missing key is Python's KeyError -/
def expandToRows {β : Type} (gm : Dict κ β) : List κ → Res (List β)
  | [] => .ok []
  | k :: ks =>
    match Dict.get? gm k with
    | none => .error .key
    | some v =>
      match expandToRows gm ks with
      | .ok vs => .ok (v :: vs)
      | .error e => .error e

/-- one window column: group values computed once per group, then handed out per row -/
def windowCol {α β : Type} (data : List α) (keys : List κ) (f : List α → β) : Res (List β) :=
  expandToRows (computeGroupValues data (partition keys) f) keys

/-! #### specification side: grouping by hand -/

/-- distinct keys in order of first appearance -/
def dedup : List κ → List κ
  | [] => []
  | k :: ks => k :: (dedup ks).filter (fun x => decide (x ≠ k))

/-- the ascending list of row indices whose key is `k` -/
def rowsOf (keys : List κ) (k : κ) : List Nat :=
  (List.range keys.length).filter (fun i => decide (keys[i]? = some k))

/-- the values of the rows whose key is `k`, in row order ("grouping the input rows by hand") -/
def groupVals {α : Type} : List κ → List α → κ → List α
  | k' :: ks, v :: vs, k => if k' = k then v :: groupVals ks vs k else groupVals ks vs k
  | _, _, _ => []

/-- position of `k` among the distinct keys = row of `k` in the aggregate output -/
def groupIndex (keys : List κ) (k : κ) : Nat := (dedup keys).idxOf k

/-- textbook group-by: one entry per distinct key in first-appearance order -/
def aggSpec {α β : Type} (data : List α) (keys : List κ) (f : List α → β) : List β :=
  (dedup keys).map (fun k => f (groupVals keys data k))

end partition

/-- `key = tuple(over_data[i][row_idx] for i in range(pk_len))` for every row -/
def rowKeys {κc : Type} (over : List (List κc)) (nrows : Nat) : List (List κc) :=
  (List.range nrows).map (fun i => over.filterMap (·[i]?))

/-! ### 2. The built-in aggregators, as coded -/

/-- `[v for v in vals if v is not None]` -/
def clean (vals : List (Option Int)) : List Int := vals.filterMap id

/-- `sum(v for v in vals if v is not None)` : left fold starting from 0 -/
def sumF (vals : List (Option Int)) : Int := (clean vals).foldl (· + ·) 0

/-- `sum(1 for v in vals if v is not None)` -/
def countF (vals : List (Option Int)) : Int := (clean vals).foldl (fun a _ => a + 1) 0

/-- Python's `min(iterable)`: keeps the first of equal minima; `none` on an empty iterable (ValueError) -/
def pyMin : List Int → Option Int
  | [] => none
  | x :: xs => some (xs.foldl (fun m v => if v < m then v else m) x)

/-- Python's `max(iterable)` -/
def pyMax : List Int → Option Int
  | [] => none
  | x :: xs => some (xs.foldl (fun m v => if v > m then v else m) x)

/-- `min(clean) if clean else None` -/
def minF (vals : List (Option Int)) : Option Int := pyMin (clean vals)
def maxF (vals : List (Option Int)) : Option Int := pyMax (clean vals)

/-- integer sum as Python computes it (`sum(clean)`) -/
def isum (c : List Int) : Int := c.foldl (· + ·) 0

/-- `sum(clean) / len(clean) if clean else None` (true division, exact) -/
def meanF (vals : List (Option Int)) : Option Rat :=
  let c := clean vals
  if c.isEmpty then none else some ((isum c : Rat) / (c.length : Rat))

/-- stdev without its final `** 0.5`:
    `n <= 1 → None; mean = sum(clean)/n; sum((v - mean)**2 for v in clean) / (n - 1)` -/
def varF (vals : List (Option Int)) : Option Rat :=
  let c := clean vals
  let n := c.length
  if n ≤ 1 then none
  else
    let m : Rat := (isum c : Rat) / (n : Rat)
    some (c.foldl (fun (acc : Rat) (v : Int) => acc + ((v : Rat) - m) ^ 2) 0 / ((n : Rat) - 1))

/-- the six built-ins in the order the code evaluates them -/
inductive Fn where
  | sum | mean | min | max | count | stdev
  deriving DecidableEq, Repr, Inhabited

namespace Fn
def suffix : Fn → String
  | sum => "sum" | mean => "mean" | min => "min" | max => "max" | count => "count" | stdev => "stdev"
def order : List Fn := [sum, mean, min, max, count, stdev]
end Fn

/-- result of a built-in on one group (for `stdev`: the variance, i.e. the square of the result) -/
def builtin : Fn → List (Option Int) → Option Rat
  | .sum, vals => some (sumF vals : Rat)
  | .mean, vals => meanF vals
  | .min, vals => (minF vals).map (fun (i : Int) => (i : Rat))
  | .max, vals => (maxF vals).map (fun (i : Int) => (i : Rat))
  | .count, vals => some (countF vals : Rat)
  | .stdev, vals => varF vals

/-! #### textbook definitions -/

/-- least element (`none` for the empty list) -/
def tbMin (c : List Int) : Option Int := c.min?
def tbMax (c : List Int) : Option Int := c.max?
/-- arithmetic mean -/
def tbMean (c : List Int) : Option Rat :=
  if c = [] then none else some ((c.sum : Rat) / (c.length : Rat))
/-- sample variance `Σ (v − mean)² / (n − 1)`, undefined below two values -/
def tbVar (c : List Int) : Option Rat :=
  if c.length < 2 then none
  else
    let m : Rat := (c.sum : Rat) / (c.length : Rat)
    some ((c.map (fun (v : Int) => ((v : Rat) - m) ^ 2)).sum / ((c.length : Rat) - 1))

/-- textbook value of each built-in on the non-None values `c` of a group -/
def textbook : Fn → List Int → Option Rat
  | .sum, c => some (c.sum : Rat)
  | .mean, c => tbMean c
  | .min, c => (tbMin c).map (fun (i : Int) => (i : Rat))
  | .max, c => (tbMax c).map (fun (i : Int) => (i : Rat))
  | .count, c => some ((c.length : Int) : Rat)
  | .stdev, c => tbVar c

/-! #### whole-column reductions of `Vector` (vector.py) — `none` = Python raises -/

/-- `Vector.sum/mean/min/max/stdev` on a 1-d vector.  `min`/`max` of no values raise ValueError
    (outer `none`); `mean`/`stdev` return None (inner `none`). -/
def vecReduce : Fn → List (Option Int) → Option (Option Rat)
  | .sum, vals => some (some (isum (clean vals) : Rat))
  | .mean, vals =>
    let c := clean vals
    some (if c.isEmpty then none else some ((isum c : Rat) / (c.length : Rat)))
  | .min, vals => (pyMin (clean vals)).map (fun (i : Int) => some (i : Rat))
  | .max, vals => (pyMax (clean vals)).map (fun (i : Int) => some (i : Rat))
  | .count, vals => some (some (countF vals : Rat))      -- no such reduction; kept total for uniformity
  | .stdev, vals =>
    let c := clean vals
    let n := c.length
    some (if n < 2 then none
      else
        let m : Rat := (isum c : Rat) / (n : Rat)
        some (c.foldl (fun (acc : Rat) (x : Int) => acc + ((x : Rat) - m) * ((x : Rat) - m)) 0 / ((n : Rat) - 1 + 0)))

/-! ### 3. Output names -/

/-- `while f"{name}{i}" in used: i += 1` with fuel; `sfx i` renders the number -/
def uniqLoop (sfx : Nat → String) (name : String) (used : List String) : Nat → Nat → String
  | 0, i => name ++ sfx i
  | fuel + 1, i =>
    if used.contains (name ++ sfx i) then uniqLoop sfx name used fuel (i + 1) else name ++ sfx i

/-- `uniquify(name)`: returns the name handed out and the new `used` set -/
def uniquify (sfx : Nat → String) (used : List String) (name : String) : String × List String :=
  if used.contains name then
    let n := uniqLoop sfx name used (used.length + 1) 2
    (n, n :: used)
  else (name, name :: used)

/-- the successive `uniquify` calls of one aggregate/window call -/
def uniquifyAll (sfx : Nat → String) : List String → List String → List String
  | [], _ => []
  | n :: ns, used =>
    let r := uniquify sfx used n
    r.1 :: uniquifyAll sfx ns r.2

/-- `col._name or "key"` / `col._name or "col"` -/
def nameOr (name : Option String) (dflt : String) : String :=
  match name with
  | none => dflt
  | some s => if s = "" then dflt else s

/-- `make_agg_name(col, suffix)` given the sanitised base -/
def aggName (san : String) (fn : Fn) : String := san ++ "_" ++ fn.suffix

/-! ### 4. aggregate / window as whole functions -/

/-- a partition key column: its name, the equality classes of its cells (used for grouping)
    and the cells themselves (`ρ`, copied through by window) -/
structure KeyCol (κc ρ : Type) where
  name : Option String
  cells : List κc
  objs : List ρ

/-- a column handed to a built-in: sanitised base name (oracle) and its values -/
structure ValCol where
  san : String
  ints : List (Option Int)

/-- an `apply` entry `name: (column, function)` -/
structure ApplyArg (α β : Type) where
  name : String
  data : List α
  f : List α → β

structure Args (κc ρ α β : Type) where
  nrows : Nat
  over : List (KeyCol κc ρ)
  sumOver : List ValCol
  meanOver : List ValCol
  minOver : List ValCol
  maxOver : List ValCol
  stdevOver : List ValCol
  countOver : List ValCol
  apply : List (ApplyArg α β)

/-- cells of one output column -/
inductive OutCells (κc ρ β : Type) where
  | keys (l : List κc)                       -- aggregate: one key component per group
  | objs (l : List ρ)                        -- window: the key column itself
  | nums (fn : Fn) (l : List (Option Rat))   -- a built-in
  | apps (l : List β)                        -- results of a custom function

namespace OutCells
variable {κc ρ β : Type}
/-- number of rows of an output column -/
def length : OutCells κc ρ β → Nat
  | keys l => l.length | objs l => l.length | nums _ l => l.length | apps l => l.length

/-- "joined back to the rows": row `i` of the result shows row `idxs[i]` of a value column -/
def expand (idxs : List Nat) : OutCells κc ρ β → OutCells κc ρ β
  | keys l => keys (idxs.filterMap (l[·]?))
  | objs l => objs (idxs.filterMap (l[·]?))
  | nums fn l => nums fn (idxs.filterMap (l[·]?))
  | apps l => apps (idxs.filterMap (l[·]?))
end OutCells

structure OutCol (κc ρ β : Type) where
  name : String
  cells : OutCells κc ρ β

section whole
variable {κc ρ α β : Type}

/-- the built-in work list in code order: SUM, MEAN, MIN, MAX, COUNT, STDEV blocks -/
def builtinPlans (a : Args κc ρ α β) : List (Fn × ValCol) :=
  a.sumOver.map (fun c => (Fn.sum, c)) ++ a.meanOver.map (fun c => (Fn.mean, c)) ++
  a.minOver.map (fun c => (Fn.min, c)) ++ a.maxOver.map (fun c => (Fn.max, c)) ++
  a.countOver.map (fun c => (Fn.count, c)) ++ a.stdevOver.map (fun c => (Fn.stdev, c))

/-- raw (pre-uniquify) names in column order: keys, built-ins, apply entries -/
def rawNames (a : Args κc ρ α β) : List String :=
  a.over.map (fun c => nameOr c.name "key") ++
  (builtinPlans a).map (fun p => aggName p.2.san p.1) ++
  a.apply.map (·.name)

/-- "Partition key at index i has length …" -/
def keyLensOk (a : Args κc ρ α β) : Bool := a.over.all (fun c => c.cells.length == a.nrows)

/-- "Aggregation column has wrong length" / "Custom aggregation column … has wrong length" -/
def aggLensOk (a : Args κc ρ α β) : Bool :=
  (builtinPlans a).all (fun p => p.2.ints.length == a.nrows) &&
  a.apply.all (fun p => p.data.length == a.nrows)

def keysOf (a : Args κc ρ α β) : List (List κc) := rowKeys (a.over.map (·.cells)) a.nrows

def zipNames (names : List String) (cells : List (OutCells κc ρ β)) : List (OutCol κc ρ β) :=
  List.zipWith (fun n c => { name := n, cells := c }) names cells

variable [DecidableEq κc]

/-- cells of the aggregate result, column by column -/
def aggregateCells (a : Args κc ρ α β) : List (OutCells κc ρ β) :=
  let groups := partition (keysOf a)
  (List.range a.over.length).map (fun idx => OutCells.keys (groups.filterMap (fun g => g.1[idx]?))) ++
  (builtinPlans a).map (fun p => OutCells.nums p.1 (aggCol p.2.ints groups (builtin p.1))) ++
  a.apply.map (fun p => OutCells.apps (aggCol p.data groups p.f))

/-- `Table.aggregate` -/
def aggregate (sfx : Nat → String) (a : Args κc ρ α β) : Res (List (OutCol κc ρ β)) :=
  if !keyLensOk a then .error .value
  else if !aggLensOk a then .error .value
  else .ok (zipNames (uniquifyAll sfx (rawNames a) []) (aggregateCells a))

/-- the call logs of the `apply` entries of `aggregate` and `window` (same for both) -/
def applyLogs (a : Args κc ρ α β) : List (List (List α)) :=
  a.apply.map (fun p => callLog p.data (partition (keysOf a)))

/-- all-or-first-error -/
def sequence {γ : Type} : List (Res γ) → Res (List γ)
  | [] => .ok []
  | r :: rs =>
    match r with
    | .error e => .error e
    | .ok v =>
      match sequence rs with
      | .ok vs => .ok (v :: vs)
      | .error e => .error e

/-- cells of the window result, column by column -/
def windowCells (a : Args κc ρ α β) : Res (List (OutCells κc ρ β)) :=
  let keys := keysOf a
  sequence (
    a.over.map (fun c => Except.ok (OutCells.objs c.objs)) ++
    (builtinPlans a).map (fun p => (windowCol p.2.ints keys (builtin p.1)).map (OutCells.nums p.1)) ++
    a.apply.map (fun p => (windowCol p.data keys p.f).map OutCells.apps))

/-- `Table.window` -/
def window (sfx : Nat → String) (a : Args κc ρ α β) : Res (List (OutCol κc ρ β)) :=
  if !keyLensOk a then .error .value
  else if !aggLensOk a then .error .value
  else
    match windowCells a with
    | .error e => .error e
    | .ok cells => .ok (zipNames (uniquifyAll sfx (rawNames a) []) cells)

/-! #### specification side: the two results written with hand-grouping and textbook functions -/

/-- aggregate's cells in specification form -/
def aggregateCellsSpec (a : Args κc ρ α β) : List (OutCells κc ρ β) :=
  let keys := keysOf a
  (List.range a.over.length).map (fun idx => OutCells.keys ((dedup keys).filterMap (·[idx]?))) ++
  (builtinPlans a).map (fun p => OutCells.nums p.1
    ((dedup keys).map (fun k => textbook p.1 (clean (groupVals keys p.2.ints k))))) ++
  a.apply.map (fun p => OutCells.apps ((dedup keys).map (fun k => p.f (groupVals keys p.data k))))

/-- window's cells in specification form -/
def windowCellsSpec (a : Args κc ρ α β) : List (OutCells κc ρ β) :=
  let keys := keysOf a
  a.over.map (fun c => OutCells.objs c.objs) ++
  (builtinPlans a).map (fun p => OutCells.nums p.1
    (keys.map (fun k => textbook p.1 (clean (groupVals keys p.2.ints k))))) ++
  a.apply.map (fun p => OutCells.apps (keys.map (fun k => p.f (groupVals keys p.data k))))

end whole

/-- a concrete call used by the non-vacuity examples of Props/C12 and Props/C13: interleaved groups, a group
    without values, the same column summed twice and a custom entry whose name collides with a built-in's -/
def exampleArgs : Args Nat Nat (Option Int) Nat :=
  { nrows := 5,
    over := [{ name := some "k", cells := [2, 9, 2, 1, 9], objs := [2, 9, 2, 1, 9] }],
    sumOver := [{ san := "x", ints := [some 5, none, some 7, some 1, none] },
                { san := "x", ints := [some 5, none, some 7, some 1, none] }],
    meanOver := [], minOver := [], maxOver := [], stdevOver := [], countOver := [],
    apply := [{ name := "x_sum", data := [some 5, none, some 7, some 1, none], f := fun v => v.length }] }

end Serif.Group
