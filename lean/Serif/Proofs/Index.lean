/-
  Helper lemmas for C07 (indexing, slices, masks, comparisons, table selection).
-/
import Serif.Model.Index
namespace Serif.Index

theorem pos_len (d c : Int) (hc : 0 < c) :
    (max 0 ((d + (c - 1)) / c)).toNat = if 0 < d then ((d - 1) / c + 1).toNat else 0 := by
  split
  · next hd =>
    have : d + (c - 1) = (d - 1) + 1 * c := by omega
    rw [this, Int.add_mul_ediv_right _ _ (by omega)]
    have : 0 ≤ (d - 1) / c := Int.ediv_nonneg (by omega) (by omega)
    omega
  · next hd =>
    have : (d + (c - 1)) / c < 1 := Int.ediv_lt_of_lt_mul hc (by omega)
    omega

theorem fdiv_len (a b c : Int) (hc : c ≠ 0) :
    (max 0 (Int.fdiv (b - a + (c - (if c > 0 then 1 else -1))) c)).toNat = rangeLen a b c := by
  unfold rangeLen
  by_cases h : c > 0
  · simp only [h, if_true]
    rw [Int.fdiv_eq_ediv_of_nonneg _ (by omega)]
    have := pos_len (b - a) c h
    rw [this]
    by_cases h2 : a < b
    · simp [h2]
    · simp [h2]
  · simp only [h, if_false]
    have hs : 0 < -c := by omega
    have e : b - a + (c - -1) = -((a - b) + (-c - 1)) := by omega
    have e2 : Int.fdiv (b - a + (c - -1)) c = Int.fdiv ((a - b) + (-c - 1)) (-c) := by
      rw [e]; conv => lhs; rw [show c = -(-c) by omega]
      rw [Int.neg_fdiv_neg]; simp
    rw [e2, Int.fdiv_eq_ediv_of_nonneg _ (by omega)]
    have := pos_len (a - b) (-c) hs
    rw [this]
    by_cases h2 : b < a
    · simp [h2]
    · simp [h2]

theorem rangeList_length (a c : Int) (k : Nat) : (rangeList a c k).length = k := by
  induction k generalizing a with
  | zero => rfl
  | succ k ih => simp [rangeList, ih]

theorem rangeList_getElem? (a c : Int) (k j : Nat) :
    (rangeList a c k)[j]? = if j < k then some (a + j * c) else none := by
  induction k generalizing a j with
  | zero => simp [rangeList]
  | succ k ih =>
    cases j with
    | zero => simp [rangeList]
    | succ j =>
      simp only [rangeList, List.getElem?_cons_succ, ih]
      by_cases h : j < k
      · simp only [h, if_true, show j + 1 < k + 1 by omega]
        congr 1
        have : ((j + 1 : Nat) : Int) * c = j * c + c := by
          rw [Int.natCast_succ, Int.add_mul, Int.one_mul]
        omega
      · simp [h]

theorem rangeLen_pos_iff (a b c : Int) (hc : 0 < c) (j : Nat) :
    j < rangeLen a b c ↔ a + j * c < b := by
  unfold rangeLen
  simp only [gt_iff_lt, hc, if_true]
  by_cases h : a < b
  · simp only [h, if_true]
    have hq : 0 ≤ (b - a - 1) / c := Int.ediv_nonneg (by omega) (by omega)
    constructor
    · intro hj
      have hj' : (j : Int) ≤ (b - a - 1) / c := by omega
      have h1 : (j : Int) * c ≤ (b - a - 1) / c * c := Int.mul_le_mul_of_nonneg_right hj' (by omega)
      have h2 : (b - a - 1) / c * c ≤ b - a - 1 := Int.ediv_mul_le _ (by omega)
      omega
    · intro hj
      have : (j : Int) ≤ (b - a - 1) / c := Int.le_ediv_of_mul_le hc (by omega)
      omega
  · simp only [h, if_false]
    constructor
    · intro hj; omega
    · intro hj
      have : 0 ≤ (j : Int) * c := Int.mul_nonneg (by omega) (by omega)
      omega

theorem rangeLen_neg_iff (a b c : Int) (hc : c < 0) (j : Nat) :
    j < rangeLen a b c ↔ b < a + j * c := by
  unfold rangeLen
  have hnc : ¬ c > 0 := by omega
  simp only [hnc, if_false]
  have hs : 0 < -c := by omega
  have hm : (j : Int) * c = -((j : Int) * (-c)) := by rw [Int.mul_neg, Int.neg_neg]
  by_cases h : b < a
  · simp only [h, if_true]
    have hq : 0 ≤ (a - b - 1) / (-c) := Int.ediv_nonneg (by omega) (by omega)
    constructor
    · intro hj
      have hj' : (j : Int) ≤ (a - b - 1) / (-c) := by omega
      have h1 : (j : Int) * (-c) ≤ (a - b - 1) / (-c) * (-c) := Int.mul_le_mul_of_nonneg_right hj' (by omega)
      have h2 : (a - b - 1) / (-c) * (-c) ≤ a - b - 1 := Int.ediv_mul_le _ (by omega)
      omega
    · intro hj
      have : (j : Int) ≤ (a - b - 1) / (-c) := Int.le_ediv_of_mul_le hs (by omega)
      omega
  · simp only [h, if_false]
    constructor
    · intro hj; omega
    · intro hj
      have : 0 ≤ (j : Int) * (-c) := Int.mul_nonneg (by omega) (by omega)
      omega

theorem sliceTriple_bounds {n : Nat} {s : Slice} {a b c : Int} (h : sliceTriple n s = .ok (a, b, c)) :
    c ≠ 0 ∧ (0 < c → 0 ≤ a ∧ a ≤ n ∧ 0 ≤ b ∧ b ≤ n) ∧
    (c < 0 → -1 ≤ a ∧ a ≤ (n : Int) - 1 ∧ -1 ≤ b ∧ b ≤ (n : Int) - 1) := by
  unfold sliceTriple at h
  simp only at h
  split at h
  · cases h
  · next hc =>
    simp only [Except.ok.injEq, Prod.mk.injEq] at h
    obtain ⟨ha, hb, hcc⟩ := h
    subst hcc
    refine ⟨hc, ?_, ?_⟩
    · intro hp
      have hn : ¬ (s.step.getD 1 < 0) := by omega
      simp only [hn, if_false] at ha hb
      subst ha hb
      cases s.start <;> cases s.stop <;> simp only [clamp] <;> (repeat' split) <;> omega
    · intro hp
      simp only [hp, if_true] at ha hb
      subst ha hb
      cases s.start <;> cases s.stop <;> simp only [clamp] <;> (repeat' split) <;> omega

/-- the arithmetic content of the semantics of `xs[s]` -/
theorem sliceIndices_spec {n : Nat} {s : Slice} {a b c : Int} {idxs : List Nat}
    (ht : sliceTriple n s = .ok (a, b, c)) (hi : sliceIndices n s = .ok idxs) :
    idxs.length = rangeLen a b c ∧
    ∀ j, j < rangeLen a b c → 0 ≤ a + j * c ∧ a + j * c < n ∧ idxs[j]? = some (a + j * c).toNat := by
  unfold sliceIndices at hi
  rw [ht] at hi
  simp only [Except.ok.injEq] at hi
  subst hi
  refine ⟨by simp [rangeList_length], ?_⟩
  intro j hj
  obtain ⟨hc, hpos, hneg⟩ := sliceTriple_bounds ht
  have hget : ((rangeList a c (rangeLen a b c)).map Int.toNat)[j]? = some (a + j * c).toNat := by
    rw [List.getElem?_map, rangeList_getElem?]; simp [hj]
  have hj0 : 0 ≤ (j : Int) := by omega
  by_cases hp : 0 < c
  · have := (rangeLen_pos_iff a b c hp j).mp hj
    have : 0 ≤ (j : Int) * c := Int.mul_nonneg hj0 (by omega)
    have := hpos hp
    exact ⟨by omega, by omega, hget⟩
  · have hn : c < 0 := by omega
    have := (rangeLen_neg_iff a b c hn j).mp hj
    have : (j : Int) * c ≤ 0 := Int.mul_nonpos_of_nonneg_of_nonpos hj0 (by omega)
    have := hneg hn
    exact ⟨by omega, by omega, hget⟩

theorem sliceIndices_lt {n : Nat} {s : Slice} {idxs : List Nat} (hi : sliceIndices n s = .ok idxs) :
    ∀ i ∈ idxs, i < n := by
  intro i hmem
  cases ht : sliceTriple n s with
  | error e => simp [sliceIndices, ht] at hi
  | ok t =>
    obtain ⟨a, b, c⟩ := t
    obtain ⟨hl, hs⟩ := sliceIndices_spec ht hi
    obtain ⟨j, hj, rfl⟩ := List.getElem_of_mem hmem
    have := hs j (by omega)
    have h3 := this.2.2
    rw [List.getElem?_eq_getElem hj] at h3
    simp only [Option.some.injEq] at h3
    omega

theorem sliceIndices_length (n : Nat) (s : Slice) :
    rmap List.length (sliceIndices n s) = sliceCount n s := by
  unfold sliceIndices sliceCount
  cases sliceTriple n s with
  | error e => rfl
  | ok t => obtain ⟨a, b, c⟩ := t; simp [rmap, rangeList_length]

theorem sliceLength_eq_count (n : Nat) (s : Slice) : sliceLength n s = sliceCount n s := by
  unfold sliceLength sliceCount
  cases ht : sliceTriple n s with
  | error e => rfl
  | ok t =>
    obtain ⟨a, b, c⟩ := t
    simp only
    rw [fdiv_len a b c (sliceTriple_bounds ht).1]

/-! ### gather -/

theorem gather_nil {α : Type} (xs : List α) : gather xs [] = [] := rfl

theorem gather_cons {α : Type} (xs : List α) (i : Nat) (is : List Nat) (h : i < xs.length) :
    gather xs (i :: is) = xs[i] :: gather xs is := by
  simp [gather, List.getElem?_eq_getElem h]

theorem gather_length {α : Type} (xs : List α) (idxs : List Nat) (h : ∀ i ∈ idxs, i < xs.length) :
    (gather xs idxs).length = idxs.length := by
  induction idxs with
  | nil => rfl
  | cons i is ih =>
    rw [gather_cons xs i is (h i List.mem_cons_self)]
    simp [ih (fun j hj => h j (List.mem_cons_of_mem _ hj))]

theorem gather_getElem? {α : Type} (xs : List α) (idxs : List Nat) (h : ∀ i ∈ idxs, i < xs.length) (k : Nat) :
    (gather xs idxs)[k]? = idxs[k]?.bind (xs[·]?) := by
  induction idxs generalizing k with
  | nil => simp [gather]
  | cons i is ih =>
    rw [gather_cons xs i is (h i List.mem_cons_self)]
    cases k with
    | zero => simp [List.getElem?_eq_getElem (h i List.mem_cons_self)]
    | succ k => simp [ih (fun j hj => h j (List.mem_cons_of_mem _ hj))]

theorem gather_map {α β : Type} (f : α → β) (xs : List α) (idxs : List Nat) :
    gather (xs.map f) idxs = (gather xs idxs).map f := by
  induction idxs with
  | nil => rfl
  | cons i is ih =>
    simp only [gather, List.filterMap_cons, List.getElem?_map] at ih ⊢
    cases xs[i]? <;> simp [ih]

/-! ### rmap / mapRes -/

@[simp] theorem rmap_ok {α β : Type} (f : α → β) (a : α) : rmap f (.ok a) = .ok (f a) := rfl
@[simp] theorem rmap_error {α β : Type} (f : α → β) (e : Err) : rmap f (.error e : Res α) = .error e := rfl

theorem rmap_rmap {α β γ : Type} (f : α → β) (g : β → γ) (r : Res α) : rmap g (rmap f r) = rmap (g ∘ f) r := by
  cases r <;> rfl

@[simp] theorem mapRes_nil {α β : Type} (f : α → Res β) : mapRes f [] = .ok [] := rfl

theorem mapRes_cons_ok {α β : Type} {f : α → Res β} {x : α} {xs : List α} {y : β} {ys : List β}
    (h1 : f x = .ok y) (h2 : mapRes f xs = .ok ys) : mapRes f (x :: xs) = .ok (y :: ys) := by
  simp [mapRes, h1, h2]

/-- pointwise relation between two lists (core has no `Forall₂`) -/
inductive AllRel {α β : Type} (R : α → β → Prop) : List α → List β → Prop
  | nil : AllRel R [] []
  | cons {a b as bs} : R a b → AllRel R as bs → AllRel R (a :: as) (b :: bs)

theorem AllRel.length_eq {α β : Type} {R : α → β → Prop} {xs : List α} {ys : List β} (h : AllRel R xs ys) :
    xs.length = ys.length := by
  induction h with
  | nil => rfl
  | cons _ _ ih => simp [ih]

/-- a successful `mapRes` is a pointwise relation -/
theorem mapRes_ok_iff {α β : Type} (f : α → Res β) (xs : List α) (ys : List β) :
    mapRes f xs = .ok ys ↔ AllRel (fun x y => f x = .ok y) xs ys := by
  induction xs generalizing ys with
  | nil =>
    cases ys with
    | nil => simp [mapRes]; exact .nil
    | cons y ys => simp only [mapRes, Except.ok.injEq, reduceCtorEq, false_iff]; intro h; cases h
  | cons x xs ih =>
    simp only [mapRes]
    cases hx : f x with
    | error e =>
      simp only [reduceCtorEq, false_iff]
      intro h; cases h with | cons h1 _ => rw [hx] at h1; cases h1
    | ok y =>
      cases hxs : mapRes f xs with
      | error e =>
        simp only [reduceCtorEq, false_iff]
        intro h; cases h with | cons _ h2 => rw [(ih _).mpr h2] at hxs; cases hxs
      | ok ys' =>
        simp only [Except.ok.injEq]
        constructor
        · rintro rfl; exact .cons hx ((ih _).mp hxs)
        · intro h
          cases h with
          | cons h1 h2 =>
            rw [hx] at h1; cases h1
            rw [(ih _).mpr h2] at hxs; cases hxs; rfl

theorem mapRes_total {α β : Type} (g : α → β) (xs : List α) : mapRes (fun x => .ok (g x)) xs = .ok (xs.map g) := by
  induction xs with
  | nil => rfl
  | cons x xs ih => simp [mapRes, ih]

theorem mapRes_congr {α β : Type} {f g : α → Res β} {xs : List α} (h : ∀ x ∈ xs, f x = g x) :
    mapRes f xs = mapRes g xs := by
  induction xs with
  | nil => rfl
  | cons x xs ih =>
    simp only [mapRes, h x List.mem_cons_self, ih (fun y hy => h y (List.mem_cons_of_mem _ hy))]

/-- every element handled by the same, element-independent, partial result -/
theorem mapRes_uniform {α β γ : Type} (r : Res γ) (g : α → γ → β) (xs : List α) (hne : xs ≠ []) :
    mapRes (fun x => rmap (g x) r) xs = rmap (fun c => xs.map (fun x => g x c)) r := by
  cases r with
  | error e => cases xs with
    | nil => exact absurd rfl hne
    | cons x xs => simp [mapRes]
  | ok c => simpa using mapRes_total (fun x => g x c) xs

theorem mapRes_length {α β : Type} {f : α → Res β} {xs : List α} {ys : List β} (h : mapRes f xs = .ok ys) :
    ys.length = xs.length := ((mapRes_ok_iff f xs ys).mp h).length_eq.symm

/-! ### integer subscripts -/

theorem normIndex_lt {n : Nat} {i : Int} {k : Nat} (h : normIndex n i = .ok k) : k < n := by
  unfold normIndex at h
  split at h <;> split at h <;> simp only [Except.ok.injEq, reduceCtorEq] at h <;> omega

theorem getIdx_of_norm {α : Type} {xs : List α} {i : Int} {k : Nat} (h : normIndex xs.length i = .ok k) :
    getIdx xs i = .ok (xs[k]'(normIndex_lt h)) := by
  unfold getIdx
  rw [h]
  simp [List.getElem?_eq_getElem (normIndex_lt h)]

theorem getIdx_of_norm_error {α : Type} {xs : List α} {i : Int} {e : Err} (h : normIndex xs.length i = .error e) :
    getIdx xs i = .error e := by
  unfold getIdx; rw [h]

theorem elemGet_of_norm_error {α : Type} {xs : List α} {e : KElem} {err : Err}
    (h : normElem xs.length e = .error err) : elemGet xs e = .error err := by
  unfold normElem at h; unfold elemGet
  cases he : e.asInt? with
  | none => rw [he] at h; simpa using h
  | some i => rw [he] at h; exact getIdx_of_norm_error h

theorem normElem_lt {n : Nat} {e : KElem} {k : Nat} (h : normElem n e = .ok k) : k < n := by
  unfold normElem at h
  split at h
  · exact normIndex_lt h
  · cases h

theorem elemGet_of_norm {α : Type} {xs : List α} {e : KElem} {k : Nat}
    (h : normElem xs.length e = .ok k) : elemGet xs e = .ok (xs[k]'(normElem_lt h)) := by
  unfold normElem at h; unfold elemGet
  cases he : e.asInt? with
  | none => rw [he] at h; cases h
  | some i => rw [he] at h; exact getIdx_of_norm h

theorem intsGet_eq_gather {α : Type} (xs : List α) (es : List KElem) :
    mapRes (elemGet xs) es = rmap (gather xs) (mapRes (normElem xs.length) es) := by
  induction es with
  | nil => rfl
  | cons e es ih =>
    simp only [mapRes, ih]
    cases h : normElem xs.length e with
    | error err => rw [elemGet_of_norm_error h]; rfl
    | ok k =>
      rw [elemGet_of_norm h]
      cases mapRes (normElem xs.length) es with
      | error err => rfl
      | ok ks => simp [gather_cons xs k ks (normElem_lt h)]

theorem mapRes_normElem_lt {n : Nat} {es : List KElem} {idxs : List Nat} (h : mapRes (normElem n) es = .ok idxs) :
    ∀ i ∈ idxs, i < n := by
  have := (mapRes_ok_iff _ _ _).mp h
  intro i hi
  induction this with
  | nil => cases hi
  | cons h1 _ ih =>
    cases hi with
    | head => exact normElem_lt h1
    | tail _ hm => exact ih ((mapRes_ok_iff _ _ _).mpr (by assumption)) hm

/-! ### masks -/

theorem maskSel_eq_filter {α : Type} (xs : List α) (ms : List Bool) :
    maskSel xs ms = ((xs.zip ms).filter (·.2)).map (·.1) := by
  induction xs generalizing ms with
  | nil => simp [maskSel]
  | cons x xs ih =>
    cases ms with
    | nil => simp [maskSel]
    | cons m ms => cases m <;> simp [maskSel, ih]

theorem maskSel_sublist {α : Type} (xs : List α) (ms : List Bool) : (maskSel xs ms).Sublist xs := by
  induction xs generalizing ms with
  | nil => simp [maskSel]
  | cons x xs ih =>
    cases ms with
    | nil => simp [maskSel]
    | cons m ms =>
      cases m
      · simpa [maskSel] using (ih ms).cons x
      · simpa [maskSel] using (ih ms).cons_cons x

theorem maskIdxFrom_bounds (k : Nat) (ms : List Bool) : ∀ i ∈ maskIdxFrom k ms, k ≤ i ∧ i < k + ms.length := by
  induction ms generalizing k with
  | nil => intro i hi; cases hi
  | cons m ms ih =>
    intro i hi
    cases m
    · simp only [maskIdxFrom, Bool.false_eq_true, if_false] at hi
      have := ih (k + 1) i hi
      simp only [List.length_cons]; omega
    · simp only [maskIdxFrom, if_true] at hi
      cases hi with
      | head => simp only [List.length_cons]; omega
      | tail _ h => have := ih (k + 1) i h; simp only [List.length_cons]; omega

theorem maskSel_eq_gather_aux {α : Type} (pre xs : List α) (ms : List Bool) (h : xs.length = ms.length) :
    gather (pre ++ xs) (maskIdxFrom pre.length ms) = maskSel xs ms := by
  induction xs generalizing pre ms with
  | nil => cases ms with
    | nil => rfl
    | cons _ _ => simp at h
  | cons x xs ih =>
    cases ms with
    | nil => simp at h
    | cons m ms =>
      have hl : xs.length = ms.length := by simpa using h
      have e : pre ++ x :: xs = (pre ++ [x]) ++ xs := by simp
      have ih' := ih (pre ++ [x]) ms hl
      simp only [List.length_append, List.length_singleton] at ih'
      cases m
      · simp only [maskIdxFrom, Bool.false_eq_true, if_false, maskSel]
        rw [e, ih']
      · simp only [maskIdxFrom, if_true, maskSel]
        rw [e, gather_cons _ _ _ (by simp), ih']
        simp

theorem maskSel_eq_gather {α : Type} (xs : List α) (ms : List Bool) (h : xs.length = ms.length) :
    maskSel xs ms = gather xs (maskIdxFrom 0 ms) := by
  simpa using (maskSel_eq_gather_aux [] xs ms h).symm

/-! ### every selecting key is a gather -/

theorem getitem_eq_gather {ν α : Type} (v : Vec ν α) (k : Key) (hk : k.isSel = true) :
    selVec v k = rmap (fun idxs => copyWith v (gather v.data idxs)) (selIndices v.data.length k) := by
  have hmask : ∀ ms : List Bool, (match maskGet v ms with
        | .error e => (.error e : Res (Vec ν α)) | .ok (.vec r) => .ok r | .ok (.scalar _) => .error .other)
      = rmap (fun idxs => copyWith v (gather v.data idxs))
          (if v.data.length ≠ ms.length then .error .value else .ok (maskIdxFrom 0 ms)) := by
    intro ms
    unfold maskGet
    by_cases h : v.data.length ≠ ms.length
    · simp [h]
    · simp only [h, if_false, rmap_ok]
      rw [maskSel_eq_gather _ _ (by omega)]
  have hints : ∀ es : List KElem, (match intsGet v es with
        | .error e => (.error e : Res (Vec ν α)) | .ok (.vec r) => .ok r | .ok (.scalar _) => .error .other)
      = rmap (fun idxs => copyWith v (gather v.data idxs)) (mapRes (normElem v.data.length) es) := by
    intro es
    unfold intsGet
    rw [intsGet_eq_gather]
    cases mapRes (normElem v.data.length) es <;> rfl
  cases k with
  | int i => simp [Key.isSel] at hk
  | tuple1 k => simp [Key.isSel] at hk
  | tupleN n => simp [Key.isSel] at hk
  | other => rfl
  | slice s =>
    simp only [selVec, getitem, selIndices]
    cases sliceIndices v.data.length s <;> rfl
  | vec dt es =>
    cases dt with
    | none => rfl
    | some d =>
      simp only [selVec, getitem, selIndices]
      by_cases h1 : d.kind = .bool ∧ d.nullable = false
      · simp only [if_pos h1]; have := hmask (es.map KElem.truthy); rw [List.length_map] at this; exact this
      · simp only [if_neg h1]
        by_cases h2 : d.kind = .int ∧ d.nullable = false
        · simp only [if_pos h2]; exact hints es
        · simp only [if_neg h2]; rfl
  | list es =>
    simp only [selVec, getitem, selIndices]
    by_cases h1 : es ≠ [] ∧ es.all KElem.isBool = true
    · simp only [if_pos h1]; have := hmask (es.map KElem.truthy); rw [List.length_map] at this; exact this
    · simp only [if_neg h1]
      by_cases h2 : es ≠ [] ∧ es.all KElem.isInt = true
      · simp only [if_pos h2]; exact hints es
      · simp only [if_neg h2]; rfl

theorem selIndices_lt {n : Nat} {k : Key} {idxs : List Nat} (h : selIndices n k = .ok idxs) : ∀ i ∈ idxs, i < n := by
  have hmask : ∀ ms : List Bool,
      (if n ≠ ms.length then (.error .value : Res (List Nat)) else .ok (maskIdxFrom 0 ms)) = .ok idxs → ∀ i ∈ idxs, i < n := by
    intro ms h i hi
    split at h
    · cases h
    · next hn =>
      simp only [Except.ok.injEq] at h; subst h
      have := maskIdxFrom_bounds 0 ms i hi
      omega
  cases k with
  | int i => simp [selIndices] at h
  | tuple1 k => simp [selIndices] at h
  | tupleN n => simp [selIndices] at h
  | other => simp [selIndices] at h
  | slice s => exact sliceIndices_lt h
  | vec dt es =>
    cases dt with
    | none => simp [selIndices] at h
    | some d =>
      simp only [selIndices] at h
      split at h
      · exact hmask (es.map KElem.truthy) (by rw [List.length_map]; exact h)
      · split at h
        · exact mapRes_normElem_lt h
        · cases h
  | list es =>
    simp only [selIndices] at h
    split at h
    · exact hmask (es.map KElem.truthy) (by rw [List.length_map]; exact h)
    · split at h
      · exact mapRes_normElem_lt h
      · cases h

/-! ### more on mapRes / ok? -/

@[simp] theorem ok?_ok {α : Type} (a : α) : ok? (.ok a : Res α) = some a := rfl
@[simp] theorem ok?_error {α : Type} (e : Err) : ok? (.error e : Res α) = none := rfl

theorem ok?_rmap {α β : Type} (f : α → β) (r : Res α) : ok? (rmap f r) = (ok? r).map f := by
  cases r <;> rfl

theorem mapRes_rmap {α β γ : Type} (f : α → Res β) (g : β → γ) (xs : List α) :
    mapRes (fun x => rmap g (f x)) xs = rmap (List.map g) (mapRes f xs) := by
  induction xs with
  | nil => rfl
  | cons x xs ih =>
    simp only [mapRes, ih]
    cases f x with
    | error e => rfl
    | ok y => cases mapRes f xs <;> rfl

theorem mapRes_getElem? {α β : Type} {f : α → Res β} {xs : List α} {ys : List β} (h : mapRes f xs = .ok ys)
    {i : Nat} {x : α} (hx : xs[i]? = some x) : ∃ y, f x = .ok y ∧ ys[i]? = some y := by
  have := (mapRes_ok_iff _ _ _).mp h
  induction this generalizing i with
  | nil => simp at hx
  | cons h1 _ ih =>
    cases i with
    | zero => simp only [List.getElem?_cons_zero, Option.some.injEq] at hx; subst hx; exact ⟨_, h1, rfl⟩
    | succ i =>
      simp only [List.getElem?_cons_succ] at hx ⊢
      exact ih ((mapRes_ok_iff _ _ _).mpr (by assumption)) hx

theorem mapRes_mem {α β : Type} {f : α → Res β} {xs : List α} {ys : List β} (h : mapRes f xs = .ok ys)
    {y : β} (hy : y ∈ ys) : ∃ x ∈ xs, f x = .ok y := by
  have := (mapRes_ok_iff _ _ _).mp h
  induction this with
  | nil => cases hy
  | cons h1 _ ih =>
    cases hy with
    | head => exact ⟨_, List.mem_cons_self, h1⟩
    | tail _ hm =>
      obtain ⟨x, hx, hf⟩ := ih ((mapRes_ok_iff _ _ _).mpr (by assumption)) hm
      exact ⟨x, List.mem_cons_of_mem _ hx, hf⟩

theorem mapRes_error_of_mem {α β : Type} {f : α → Res β} {xs : List α} {x : α} {e : Err}
    (hx : x ∈ xs) (hf : f x = .error e) : ∃ e', mapRes f xs = .error e' := by
  induction xs with
  | nil => cases hx
  | cons a as ih =>
    simp only [mapRes]
    cases hx with
    | head => rw [hf]; exact ⟨e, rfl⟩
    | tail _ hm =>
      cases f a with
      | error e1 => exact ⟨e1, rfl⟩
      | ok y =>
        obtain ⟨e', he'⟩ := ih hm
        rw [he']; exact ⟨e', rfl⟩

theorem mapRes_ok_of_forall {α β : Type} {f : α → Res β} {xs : List α} (h : ∀ x ∈ xs, ∃ y, f x = .ok y) :
    ∃ ys, mapRes f xs = .ok ys := by
  induction xs with
  | nil => exact ⟨[], rfl⟩
  | cons a as ih =>
    obtain ⟨y, hy⟩ := h a List.mem_cons_self
    obtain ⟨ys, hys⟩ := ih (fun x hx => h x (List.mem_cons_of_mem _ hx))
    exact ⟨y :: ys, mapRes_cons_ok hy hys⟩

/-! ### zipRes -/

theorem zipRes_length {α β γ : Type} {f : α → β → Res γ} {xs : List α} {ys : List β} {zs : List γ}
    (hl : xs.length = ys.length) (h : zipRes f xs ys = .ok zs) : zs.length = xs.length := by
  induction xs generalizing ys zs with
  | nil => cases ys <;> simp_all [zipRes]
  | cons x xs ih =>
    cases ys with
    | nil => simp at hl
    | cons y ys =>
      simp only [zipRes] at h
      cases hf : f x y with
      | error e => rw [hf] at h; cases h
      | ok z =>
        rw [hf] at h
        cases hr : zipRes f xs ys with
        | error e => rw [hr] at h; cases h
        | ok zs' =>
          rw [hr] at h; simp only [Except.ok.injEq] at h; subst h
          simp [ih (by simpa using hl) hr]

theorem zipRes_getElem? {α β γ : Type} {f : α → β → Res γ} {xs : List α} {ys : List β} {zs : List γ}
    (h : zipRes f xs ys = .ok zs) {i : Nat} {x : α} {y : β} (hx : xs[i]? = some x) (hy : ys[i]? = some y) :
    ∃ z, f x y = .ok z ∧ zs[i]? = some z := by
  induction xs generalizing ys zs i with
  | nil => simp at hx
  | cons a xs ih =>
    cases ys with
    | nil => simp at hy
    | cons b ys =>
      simp only [zipRes] at h
      cases hf : f a b with
      | error e => rw [hf] at h; cases h
      | ok z =>
        rw [hf] at h
        cases hr : zipRes f xs ys with
        | error e => rw [hr] at h; cases h
        | ok zs' =>
          rw [hr] at h; simp only [Except.ok.injEq] at h; subst h
          cases i with
          | zero =>
            simp only [List.getElem?_cons_zero, Option.some.injEq] at hx hy; subst hx hy
            exact ⟨z, hf, rfl⟩
          | succ i =>
            simp only [List.getElem?_cons_succ] at hx hy ⊢
            exact ih hr hx hy

theorem zipRes_ok_of_forall {α β γ : Type} {f : α → β → Res γ} {xs : List α} {ys : List β}
    (h : ∀ (i : Nat) (x : α) (y : β), xs[i]? = some x → ys[i]? = some y → ∃ z, f x y = .ok z) : ∃ zs, zipRes f xs ys = .ok zs := by
  induction xs generalizing ys with
  | nil => exact ⟨[], by simp [zipRes]⟩
  | cons a xs ih =>
    cases ys with
    | nil => exact ⟨[], by simp [zipRes]⟩
    | cons b ys =>
      obtain ⟨z, hz⟩ := h 0 a b rfl rfl
      obtain ⟨zs, hzs⟩ := ih (ys := ys) (fun i x y hx hy => h (i + 1) x y (by simpa using hx) (by simpa using hy))
      exact ⟨z :: zs, by simp [zipRes, hz, hzs]⟩

theorem zipRes_error_of {α β γ : Type} {f : α → β → Res γ} {xs : List α} {ys : List β}
    {i : Nat} {x : α} {y : β} {e : Err} (hx : xs[i]? = some x) (hy : ys[i]? = some y) (hf : f x y = .error e) :
    ∃ e', zipRes f xs ys = .error e' := by
  cases hz : zipRes f xs ys with
  | error e' => exact ⟨e', rfl⟩
  | ok zs =>
    obtain ⟨z, hz', _⟩ := zipRes_getElem? hz hx hy
    rw [hf] at hz'; cases hz'

/-! ### column lookup -/

theorem findCol_map {ν α : Type} (p : Nat → Option ν → Bool) (g : Vec ν α → Vec ν α) (hg : ∀ c, (g c).name = c.name)
    (i : Nat) (cols : List (Vec ν α)) : findCol p i (cols.map g) = (findCol p i cols).map g := by
  induction cols generalizing i with
  | nil => rfl
  | cons c cs ih =>
    simp only [List.map_cons, findCol, hg]
    split
    · rfl
    · exact ih (i + 1)

theorem findCol_some {ν α : Type} {p : Nat → Option ν → Bool} {i : Nat} {cols : List (Vec ν α)} {c : Vec ν α}
    (h : findCol p i cols = some c) : ∃ j, cols[j]? = some c ∧ p (i + j) c.name = true ∧
      ∀ j' c', j' < j → cols[j']? = some c' → p (i + j') c'.name = false := by
  induction cols generalizing i with
  | nil => simp [findCol] at h
  | cons a as ih =>
    simp only [findCol] at h
    by_cases hp : p i a.name = true
    · rw [if_pos hp] at h; simp only [Option.some.injEq] at h; subst h
      exact ⟨0, rfl, by simpa using hp, by intro j' c' hj; omega⟩
    · rw [if_neg hp] at h
      obtain ⟨j, hj, hpj, hmin⟩ := ih h
      refine ⟨j + 1, by simpa using hj, by rw [← Nat.add_assoc, Nat.add_right_comm]; exact hpj, ?_⟩
      intro j' c' hlt hc'
      cases j' with
      | zero => simp only [List.getElem?_cons_zero, Option.some.injEq] at hc'; subst hc'; simpa using hp
      | succ j' =>
        have := hmin j' c' (by omega) (by simpa using hc')
        rw [← Nat.add_assoc, Nat.add_right_comm]; exact this

theorem findCol_none {ν α : Type} {p : Nat → Option ν → Bool} {i : Nat} {cols : List (Vec ν α)} :
    findCol p i cols = none ↔ ∀ j c, cols[j]? = some c → p (i + j) c.name = false := by
  induction cols generalizing i with
  | nil => simp [findCol]
  | cons a as ih =>
    simp only [findCol]
    by_cases hp : p i a.name = true
    · rw [if_pos hp]
      simp only [reduceCtorEq, false_iff]
      intro h; have := h 0 a rfl; simp [hp] at this
    · rw [if_neg hp, ih]
      constructor
      · intro h j c hc
        cases j with
        | zero => simp only [List.getElem?_cons_zero, Option.some.injEq] at hc; subst hc; simpa using hp
        | succ j => have := h j c (by simpa using hc); rw [← Nat.add_assoc, Nat.add_right_comm]; exact this
      · intro h j c hc
        have := h (j + 1) c (by simpa using hc)
        rw [← Nat.add_assoc, Nat.add_right_comm] at this; exact this

theorem resolve_map {ν α : Type} [DecidableEq ν] (ops : NameOps ν) (g : Vec ν α → Vec ν α)
    (hg : ∀ c, (g c).name = c.name) (cols : List (Vec ν α)) (key : ν) :
    resolve ops (cols.map g) key = rmap g (resolve ops cols key) := by
  unfold resolve
  rw [findCol_map _ g hg, findCol_map _ g hg]
  cases findCol (fun _ nm => nm == some key) 0 cols with
  | some c => rfl
  | none =>
    cases findCol (matchSan ops (ops.lower key)) 0 cols <;> rfl

theorem resolve_mem {ν α : Type} [DecidableEq ν] {ops : NameOps ν} {cols : List (Vec ν α)} {key : ν} {c : Vec ν α}
    (h : resolve ops cols key = .ok c) : c ∈ cols := by
  unfold resolve at h
  cases h1 : findCol (fun _ nm => nm == some key) 0 cols with
  | some c1 =>
    rw [h1] at h; simp only [Except.ok.injEq] at h; subst h
    obtain ⟨j, hj, _⟩ := findCol_some h1
    exact List.mem_of_getElem? hj
  | none =>
    rw [h1] at h
    cases h2 : findCol (matchSan ops (ops.lower key)) 0 cols with
    | some c2 =>
      rw [h2] at h; simp only [Except.ok.injEq] at h; subst h
      obtain ⟨j, hj, _⟩ := findCol_some h2
      exact List.mem_of_getElem? hj
    | none => rw [h2] at h; cases h

theorem selectNames_map {ν α : Type} [DecidableEq ν] (ops : NameOps ν) (g : Vec ν α → Vec ν α)
    (hg : ∀ c, (g c).name = c.name) (cols : List (Vec ν α)) (ks : List ν) :
    selectNames ops (cols.map g) ks = rmap (fun t => ⟨t.cols.map g⟩) (selectNames ops cols ks) := by
  unfold selectNames
  have : (fun k => resolve ops (cols.map g) k) = fun k => rmap g (resolve ops cols k) := by
    funext k; exact resolve_map ops g hg cols k
  show rmap Tab.mk (mapRes (fun k => resolve ops (cols.map g) k) ks) = _
  rw [this, mapRes_rmap, rmap_rmap, rmap_rmap]
  rfl

/-! ### row selection of a rectangular table -/

theorem rowsel_eq {ν α : Type} {t : Tab ν α} {n : Nat} (hR : t.Rect n) (hne : t.cols ≠ []) (k : Key) (hk : k.isSel = true) :
    rowsel t k = rmap (fun idxs => gatherTab idxs t) (selIndices n k) := by
  unfold rowsel
  have : mapRes (fun c => selVec c k) t.cols
       = mapRes (fun c => rmap (fun idxs => gatherCol idxs c) (selIndices n k)) t.cols := by
    apply mapRes_congr
    intro c hc
    rw [getitem_eq_gather c k hk, hR c hc]; rfl
  rw [this, mapRes_uniform (selIndices n k) (fun c idxs => gatherCol idxs c) t.cols hne, rmap_rmap]
  rfl

theorem nrows_of_rect {ν α : Type} {t : Tab ν α} {n : Nat} (hR : t.Rect n) (hne : t.cols ≠ []) : t.nrows = n := by
  unfold Tab.nrows
  cases h : t.cols with
  | nil => exact absurd h hne
  | cons c cs => exact hR c (by rw [h]; exact List.mem_cons_self)

@[simp] theorem asTab_rmap_tab {ν α : Type} (r : Res (Tab ν α)) : asTab (rmap TItem.tab r) = r := by
  cases r <;> rfl

/-- the table's row branches, seen through `ok?`, are "gather the rows `tabSel n k` in every column" -/
theorem rowBranch_eq {ν α : Type} [DecidableEq ν] (ops : NameOps ν) {t : Tab ν α} {n : Nat}
    (hR : t.Rect n) (hne : t.cols ≠ []) (k : Key) :
    ok? (asTab (getitemTab ops t (.row k))) = (tabSel n k).map (fun idxs => gatherTab idxs t) := by
  cases k with
  | int i =>
    simp only [getitemTab, tabSel, Option.map_none]
    cases mapRes (fun col => getIdx col.data i) t.cols <;> rfl
  | tuple1 k => rfl
  | tupleN m => rfl
  | other => rfl
  | slice s =>
    simp only [getitemTab, asTab_rmap_tab, tabSel]
    rw [rowsel_eq hR hne _ rfl, ok?_rmap]; rfl
  | vec dt es =>
    cases dt with
    | none => rfl
    | some d =>
      simp only [getitemTab, tabSel]
      by_cases h1 : d.kind = .bool ∧ d.nullable = false
      · simp only [if_pos h1, maskRows, nrows_of_rect hR hne]
        by_cases hn : n = es.length
        · simp only [hn, ne_eq, not_true_eq_false, if_false, if_true, asTab_rmap_tab]
          rw [rowsel_eq (hn ▸ hR) hne _ rfl, ok?_rmap]
          simp only [selIndices]; rw [if_pos h1]; simp
        · simp [hn]; rfl
      · simp only [if_neg h1]
        by_cases h2 : d.kind = .int ∧ d.nullable = false
        · simp only [if_pos h2, asTab_rmap_tab]
          rw [rowsel_eq hR hne _ rfl, ok?_rmap]
          simp only [selIndices]; rw [if_neg h1, if_pos h2]
        · simp only [if_neg h2]; rfl
  | list es =>
    simp only [getitemTab, tabSel]
    by_cases h1 : es ≠ [] ∧ es.all KElem.isBool = true
    · simp only [if_pos h1, maskRows, nrows_of_rect hR hne]
      by_cases hn : n = es.length
      · simp only [hn, ne_eq, not_true_eq_false, if_false, if_true, asTab_rmap_tab]
        rw [rowsel_eq (hn ▸ hR) hne _ rfl, ok?_rmap]
        simp only [selIndices]; rw [if_pos h1]; simp
      · simp [hn]; rfl
    · simp only [if_neg h1]; rfl

theorem truthy_bool_map (ms : List Bool) : (ms.map KElem.bool).map KElem.truthy = ms := by
  induction ms with
  | nil => rfl
  | cons m ms ih => simp only [List.map_cons, ih]; rfl

theorem all_isBool_map (ms : List Bool) : (ms.map KElem.bool).all KElem.isBool = true := by
  induction ms with
  | nil => rfl
  | cons m ms ih => simp only [List.map_cons, List.all_cons, ih]; rfl

end Serif.Index
