/- Helper lemmas for C18: the name of every result is given by `nameRule`. -/
import Serif.Proofs.Expr
import Std.Data.String.ToNat

namespace Serif.X

/-! ### names of vector results -/

theorem mkVec_name (ts : List Tag) (dt : Option DType) (n : Option String) : (mkVec ts dt n).name = n := rfl
theorem copy_name (v : AVec) : v.copy.name = v.name := rfl
theorem copyWith_name (v : AVec) (ts : List Tag) : (v.copyWith ts).name = v.name := rfl

theorem finishArith_name (sf : Bool) (n : Nat) (rs : List SRes) (r : AVec)
    (h : finishArith sf n rs = .ok r) : r.name = none := by
  unfold finishArith at h
  repeat' split at h
  all_goals first
    | (cases h; rfl)
    | cases h

theorem finishKeep_name (a : AVec) (nm : Option String) (rs : List SRes) (r : AVec)
    (h : finishKeep a nm rs = .ok r) : r.name = nm := by
  unfold finishKeep at h
  repeat' split at h
  all_goals first
    | (cases h; rfl)
    | cases h

theorem finishPlain_name (rs : List SRes) (r : AVec) (h : finishPlain rs = .ok r) : r.name = none := by
  unfold finishPlain at h
  repeat' split at h
  all_goals first
    | (cases h; rfl)
    | cases h

theorem finishCmp_name (rs : List SRes) (r : AVec) (h : finishCmp rs = .ok r) : r.name = none := by
  unfold finishCmp at h
  repeat' split at h
  all_goals first
    | (cases h; rfl)
    | cases h

theorem arithVV_name (ρ : Oracle) (s c : Nat) (op : AOp) (a b r : AVec)
    (h : arithVV ρ s c op a b = .ok r) : r.name = none := by
  unfold arithVV at h
  repeat' split at h
  all_goals first
    | exact finishPlain_name _ _ h
    | exact finishArith_name _ _ _ _ h
    | cases h

theorem arithVO_name (ρ : Oracle) (s c : Nat) (op : AOp) (a r : AVec) (o : Other)
    (h : arithVO ρ s c op a o = .ok r) : r.name = none := by
  unfold arithVO at h
  repeat' split at h
  all_goals first
    | exact finishPlain_name _ _ h
    | exact finishKeep_name _ _ _ _ h
    | exact finishArith_name _ _ _ _ h
    | cases h

theorem cmpVV_name (ρ : Oracle) (s : Nat) (a b r : AVec) (h : cmpVV ρ s a b = .ok r) : r.name = none := by
  unfold cmpVV at h
  split at h
  · cases h
  · exact finishCmp_name _ _ h

theorem cmpVO_name (ρ : Oracle) (s : Nat) (a r : AVec) (o : Other) (h : cmpVO ρ s a o = .ok r) :
    r.name = none := by
  unfold cmpVO at h
  repeat' split at h
  all_goals first
    | exact finishCmp_name _ _ h
    | cases h

theorem cast_name (ρ : Oracle) (s : Nat) (k : Kind) (a r : AVec) (h : cast ρ s k a = .ok r) :
    r.name = a.name := by
  unfold cast at h
  split at h
  · cases h; rfl
  · cases h

theorem fillna_name (t : Tag) (a r : AVec) (h : fillna t a = .ok r) : r.name = a.name := by
  unfold fillna at h
  repeat' split at h
  all_goals first
    | (cases h; rfl)
    | cases h
    | (dsimp only at h; split at h <;> first | (cases h; rfl) | cases h)

theorem dropna_name (a r : AVec) (h : dropna a = .ok r) : r.name = none := by
  unfold dropna at h
  split at h
  · cases h; rfl
  · cases h; rfl

theorem sortV_name (p : List Nat) (a r : AVec) (h : sortV p a = .ok r) : r.name = a.name := by
  unfold sortV at h
  split at h
  · cases h; rfl
  · cases h

theorem getIdx_name (idx : List Nat) (a r : AVec) (h : getIdx idx a = .ok r) : r.name = a.name := by
  unfold getIdx at h
  split at h
  · cases h; rfl
  · cases h

theorem getMask_name (m : List Bool) (a r : AVec) (h : getMask m a = .ok r) : r.name = a.name := by
  unfold getMask at h
  split at h
  · cases h
  · cases h; rfl

theorem getV_name (m : List Bool) (idx : List Nat) (a k r : AVec) (h : getV m idx a k = .ok r) :
    r.name = a.name := by
  unfold getV at h
  repeat' split at h
  all_goals first
    | exact getMask_name _ _ _ h
    | exact getIdx_name _ _ _ h
    | cases h

theorem setitem_name (ups : List (Nat × Tag)) (a r : AVec) (h : setitem ups a = .ok r) :
    r.name = a.name := by
  unfold setitem at h
  repeat' split at h
  all_goals first
    | (cases h; rfl)
    | cases h

theorem lshiftVV_name (a b r : AVec) (h : lshiftVV a b = .ok r) : r.name = none := by
  unfold lshiftVV at h
  repeat' split at h
  all_goals first
    | (cases h; rfl)
    | cases h

theorem lshiftVO_name (a r : AVec) (o : Other) (h : lshiftVO a o = .ok r) : r.name = none := by
  unfold lshiftVO at h
  repeat' split at h
  all_goals first
    | (cases h; rfl)
    | cases h

/-! ### names of table results -/

theorem tableOf_names (cs : List AVec) (o : Obj) (h : tableOf cs = .ok o) :
    o.names = .tab (cs.map (·.name)) := by
  unfold tableOf at h
  split at h
  · cases h
    simp only [Obj.names, List.map_map]
    congr 1
  · cases h

theorem ofCols_nil : ofCols [] = .vec none := rfl
theorem ofCols_ne (ns : List (Option String)) (h : ns ≠ []) : ofCols ns = .tab ns := by
  cases ns with
  | nil => exact absurd rfl h
  | cons n ns => rfl

theorem vectorOfVecs_names (cs : List AVec) (o : Obj) (h : vectorOfVecs cs = .ok o) :
    o.names = ofCols (cs.map (·.name)) := by
  unfold vectorOfVecs at h
  split at h
  · cases h; rfl
  · rename_i hne
    split at h
    · rw [tableOf_names _ _ h, ofCols_ne]
      intro e
      exact hne (List.map_eq_nil_iff.mp e)
    · cases h

theorem colsOrSelf_names (o : Obj) : o.colsOrSelf.map (·.name) = o.names.cols := by
  cases o <;> rfl

end Serif.X

namespace Serif.X

theorem rshift_names (x y o : Obj) (h : rshift x y = .ok o) :
    o.names = ofCols (x.names.cols ++ y.names.cols) := by
  unfold rshift at h
  split at h
  · repeat' split at h
    all_goals first
      | (rw [vectorOfVecs_names _ _ h]; rfl)
      | cases h
  · repeat' split at h
    all_goals first
      | (rw [vectorOfVecs_names _ _ h]; rfl)
      | cases h
  · rw [vectorOfVecs_names _ _ h, List.map_append, colsOrSelf_names]; rfl

theorem rshiftO_names (x o : Obj) (ot : Other) (h : rshiftO x ot = .ok o) :
    o.names = .tab (x.names.cols ++ [none]) := by
  unfold rshiftO at h
  repeat' split at h
  all_goals first
    | (rw [vectorOfVecs_names _ _ h, ofCols_ne _ (by simp)]; simp [Obj.names, Names.cols, mkVec_name])
    | cases h

theorem zipNames_names (ns : List String) (vs : List AVec) (h : ns.length = vs.length) :
    (zipNames ns vs).map (·.name) = ns.map some := by
  induction ns generalizing vs with
  | nil => cases vs <;> simp [zipNames]
  | cons n ns ih =>
    cases vs with
    | nil => simp at h
    | cons v vs =>
      simp only [zipNames, List.map_cons]
      rw [ih vs (by simpa using h)]

theorem rshiftDict_names (ns : List String) (cs vs : List AVec) (o : Obj)
    (h : rshiftDict ns cs vs = .ok o) : o.names = .tab (cs.map (·.name) ++ ns.map some) := by
  unfold rshiftDict at h
  split at h
  · cases h
  · rename_i hl
    split at h
    · cases h
    · rw [tableOf_names _ _ h, List.map_append, zipNames_names _ _ (by simpa using hl)]

theorem zipLeaf_names (ns : List String) (cols : List (List Tag)) (h : ns.length = cols.length) :
    (zipLeaf ns cols).map (·.name) = ns.map some := by
  induction ns generalizing cols with
  | nil => cases cols <;> simp [zipLeaf]
  | cons n ns ih =>
    cases cols with
    | nil => simp at h
    | cons c cs =>
      simp only [zipLeaf, List.map_cons, mkVec_name]
      rw [ih cs (by simpa using h)]

theorem zipCols_names (ns : List String) (cols : List (List Tag)) (h : ns.length = cols.length) :
    (zipCols ns cols).map (·.name) = ns.map some := by
  induction ns generalizing cols with
  | nil => cases cols <;> simp [zipCols]
  | cons n ns ih =>
    cases cols with
    | nil => simp at h
    | cons c cs =>
      simp only [zipCols, List.map_cons, mkVec_name]
      rw [ih cs (by simpa using h)]

theorem tableDict_names (ns : List String) (cols : List (List Tag)) (o : Obj)
    (h : tableDict ns cols = .ok o) : o.names = .tab (ns.map some) := by
  unfold tableDict at h
  split at h
  · cases h
  · rename_i hl
    rw [tableOf_names _ _ h, zipLeaf_names _ _ (by simpa using hl)]

theorem mapM'_map_eq {α β γ : Type} (f : α → Res β) (g : α → γ) (g' : β → γ)
    (hf : ∀ x y, f x = .ok y → g' y = g x) (xs : List α) (ys : List β)
    (h : mapM' f xs = .ok ys) : ys.map g' = xs.map g := by
  induction xs generalizing ys with
  | nil => simp only [mapM'] at h; cases h; rfl
  | cons x xs ih =>
    simp only [mapM'] at h
    split at h
    · cases h
    · rename_i y hy
      split at h
      · cases h
      · rename_i ys' hys
        cases h
        simp only [List.map_cons, hf x y hy, ih ys' hys]

theorem mapIdxM_map_eq {α β γ : Type} (f : Nat → α → Res β) (g : α → γ) (g' : β → γ)
    (hf : ∀ i x y, f i x = .ok y → g' y = g x) (xs : List α) (i : Nat) (ys : List β)
    (h : mapIdxM f i xs = .ok ys) : ys.map g' = xs.map g := by
  induction xs generalizing ys i with
  | nil => simp only [mapIdxM] at h; cases h; rfl
  | cons x xs ih =>
    simp only [mapIdxM] at h
    split at h
    · cases h
    · rename_i y hy
      split at h
      · cases h
      · rename_i ys' hys
        cases h
        simp only [List.map_cons, hf i x y hy, ih (i + 1) ys' hys]

theorem mapIdxM_length {α β : Type} (f : Nat → α → Res β) (xs : List α) (i : Nat) (ys : List β)
    (h : mapIdxM f i xs = .ok ys) : ys.length = xs.length := by
  have := mapIdxM_map_eq f (fun _ => ()) (fun _ => ()) (fun _ _ _ _ => rfl) xs i ys h
  simpa using congrArg List.length this

theorem rowSel_names (f : AVec → Res AVec) (hf : ∀ c r, f c = .ok r → r.name = c.name)
    (cs : List AVec) (o : Obj) (h : rowSel f cs = .ok o) : o.names = ofCols (cs.map (·.name)) := by
  unfold rowSel at h
  split at h
  · cases h
  · rename_i cs' hcs
    rw [vectorOfVecs_names _ _ h, mapM'_map_eq f (·.name) (·.name) hf cs cs' hcs]

theorem gather_map {α β : Type} (g : α → β) (d : β) (l : List α) (js : List Nat) (sel : List α)
    (h : gather l js = some sel) : sel.map g = js.map (fun j => (l.map g).getD j d) := by
  induction js generalizing sel with
  | nil => simp only [gather] at h; cases h; rfl
  | cons j js ih =>
    simp only [gather] at h
    split at h
    · rename_i x xs hx hxs
      cases h
      simp only [List.map_cons, ih xs hxs]
      congr 1
      simp [List.getD_eq_getElem?_getD, hx]
    · cases h

theorem selCols_names (js : List Nat) (cs : List AVec) (o : Obj) (h : selCols js cs = .ok o) :
    o.names = .tab (js.map (fun j => (cs.map (·.name)).getD j none)) := by
  unfold selCols at h
  split at h
  · cases h
  · rename_i sel hsel
    rw [tableOf_names _ _ h, gather_map (·.name) none cs js sel hsel]

theorem selCol_names (j : Nat) (cs : List AVec) (o : Obj) (h : selCol j cs = .ok o) :
    o.names = .vec ((cs.map (·.name)).getD j none) := by
  unfold selCol at h
  split at h
  · cases h
  · rename_i c hj
    cases h
    simp [Obj.names, List.getD_eq_getElem?_getD, hj]

theorem rowOf_names (i : Nat) (cs : List AVec) (o : Obj) (h : rowOf i cs = .ok o) : o.names = .vec none := by
  unfold rowOf at h
  split at h
  · cases h
  · cases h; rfl

theorem tarithO_names (ρ : Oracle) (s : Nat) (op : AOp) (cs : List AVec) (ot : Other) (o : Obj)
    (h : tarithO ρ s op cs ot = .ok o) : o.names = .tab (cs.map (·.name)) := by
  unfold tarithO at h
  split at h
  · cases h
  · rename_i rs hrs
    rw [tableOf_names _ _ h]
    congr 1
    refine mapIdxM_map_eq _ (·.name) (·.name) ?_ cs 0 rs hrs
    intro j c r hr
    split at hr
    · cases hr; rfl
    · cases hr

theorem tarithV_names (ρ : Oracle) (s : Nat) (op : AOp) (cs : List AVec) (b : AVec) (o : Obj)
    (h : tarithV ρ s op cs b = .ok o) : o.names = .tab (cs.map (·.name)) := by
  unfold tarithV at h
  split at h
  · cases h
  · rename_i rs hrs
    rw [tableOf_names _ _ h]
    congr 1
    refine mapIdxM_map_eq _ (·.name) (·.name) ?_ cs 0 rs hrs
    intro j c r hr
    split at hr
    · cases hr; rfl
    · cases hr

theorem zipArith_names (ρ : Oracle) (s : Nat) (op : AOp) (j : Nat) (ls rs out : List AVec)
    (h : zipArith ρ s op j ls rs = .ok out) :
    out.map (·.name) = zipResolve (ls.map (·.name)) (rs.map (·.name)) := by
  induction ls generalizing rs j out with
  | nil => simp only [zipArith] at h; cases h; simp [zipResolve]
  | cons l ls ih =>
    cases rs with
    | nil => simp only [zipArith] at h; cases h; simp [zipResolve]
    | cons r rs =>
      simp only [zipArith] at h
      split at h
      · cases h
      · rename_i x hx
        split at h
        · cases h
        · rename_i xs hxs
          cases h
          simp only [List.map_cons, zipResolve, ih _ _ _ hxs]

theorem tarithT_names (ρ : Oracle) (s : Nat) (op : AOp) (ls rs : List AVec) (o : Obj)
    (h : tarithT ρ s op ls rs = .ok o) :
    o.names = .tab (zipResolve (ls.map (·.name)) (rs.map (·.name))) := by
  unfold tarithT at h
  split at h
  · cases h
  · split at h
    · cases h
    · rename_i cs hcs
      rw [tableOf_names _ _ h, zipArith_names _ _ _ _ _ _ _ hcs]

theorem map_const_range {α : Type} (n : Nat) (a : α) : (List.range n).map (fun _ => a) = List.replicate n a := by
  apply List.ext_getElem
  · simp
  · intro i h1 h2; simp

theorem transposeT_names (cs : List AVec) (o : Obj) (h : transposeT cs = .ok o) :
    o.names = .tab (List.replicate (nrowsOf cs) none) := by
  unfold transposeT at h
  rw [tableOf_names _ _ h, List.map_map]
  congr 1
  exact map_const_range _ _

theorem join_names (k : JoinKind) (pairs : List (Option Nat × Option Nat)) (ls rs : List AVec) (o : Obj)
    (h : join k pairs ls rs = .ok o) :
    o.names = nameRule (fun _ => none) (.join k pairs) [(Obj.tab ls).sh, (Obj.tab rs).sh] := by
  unfold join at h
  cases k <;> dsimp only at h <;> split at h
  all_goals first
    | (cases h
       rename_i he
       simp [nameRule, shCols, Obj.sh, Obj.names, Obj.nrows, Names.cols, he])
    | (rename_i he
       rw [tableOf_names _ _ h]
       simp [nameRule, shCols, Obj.sh, Obj.names, Obj.nrows, Names.cols, he, Function.comp_def, mkVec_name])

theorem sortT_names (p : List Nat) (cs : List AVec) (o : Obj) (h : sortT p cs = .ok o) :
    o.names = .tab (cs.map (·.name)) := by
  unfold sortT at h
  split at h
  · rw [tableOf_names _ _ h, List.map_map]; rfl
  · split at h
    · cases h
    · rename_i cs' hcs
      rw [tableOf_names _ _ h]
      congr 1
      refine mapM'_map_eq _ (·.name) (·.name) ?_ cs cs' hcs
      intro c r hr
      split at hr
      · cases hr; rfl
      · cases hr

theorem tabSet_names (j : Nat) (ups : List (Nat × Tag)) (cs : List AVec) (o : Obj)
    (h : tabSet j ups cs = .ok o) : o.names = .tab (cs.map (·.name)) := by
  unfold tabSet at h
  split at h
  · cases h
  · rename_i c hj
    split at h
    · cases h
    · rename_i c' hc'
      cases h
      simp only [Obj.names, List.map_set, setitem_name _ _ _ hc']
      congr 1
      apply List.ext_getElem
      · simp
      · intro i h1 h2
        simp only [List.getElem_set, List.getElem_map]
        split
        · rename_i e; subst e
          have := List.getElem?_eq_some_iff.mp hj
          obtain ⟨hlt, he⟩ := this
          simp [he]
        · rfl

end Serif.X

namespace Serif.X

/-! ### uniquify -/

theorem suffix_inj (name : String) (i j : Nat) (h : name ++ toString i = name ++ toString j) : i = j :=
  Nat.repr_injective ((String.append_right_inj name).mp h)

/-- pigeonhole: a duplicate-free list all of whose members lie in `u` is no longer than `u` -/
theorem nodup_subset_length {α : Type} [DecidableEq α] (l u : List α) (hn : l.Nodup)
    (hs : ∀ x ∈ l, x ∈ u) : l.length ≤ u.length := by
  induction l generalizing u with
  | nil => simp
  | cons x l ih =>
    have hx : x ∈ u := hs x List.mem_cons_self
    have hn' := List.nodup_cons.mp hn
    have := ih (u.erase x) hn'.2 (fun y hy => by
      have hne : y ≠ x := fun e => hn'.1 (e ▸ hy)
      exact (List.mem_erase_of_ne hne).mpr (hs y (List.mem_cons_of_mem _ hy)))
    rw [List.length_erase_of_mem hx] at this
    have hpos : 0 < u.length := List.length_pos_of_mem hx
    simp only [List.length_cons]
    omega

theorem findFresh_some (name : String) (used : List String) (fuel i : Nat) (c : String)
    (h : findFresh name used fuel i = some c) :
    c ∉ used ∧ ∃ j, i ≤ j ∧ c = name ++ toString j := by
  induction fuel generalizing i with
  | zero => simp [findFresh] at h
  | succ fuel ih =>
    simp only [findFresh] at h
    split at h
    · obtain ⟨h1, j, hj, hc⟩ := ih (i + 1) h
      exact ⟨h1, j, by omega, hc⟩
    · rename_i hnot
      cases h
      refine ⟨?_, i, Nat.le_refl _, rfl⟩
      rw [List.contains_eq_mem] at hnot
      simpa using hnot

theorem findFresh_none (name : String) (used : List String) (fuel i : Nat)
    (h : findFresh name used fuel i = none) :
    ∀ j, i ≤ j → j < i + fuel → name ++ toString j ∈ used := by
  induction fuel generalizing i with
  | zero => intro j h1 h2; omega
  | succ fuel ih =>
    simp only [findFresh] at h
    split at h
    · rename_i hin
      intro j h1 h2
      by_cases e : j = i
      · subst e
        rw [List.contains_eq_mem] at hin
        simpa using hin
      · exact ih (i + 1) h j (by omega) (by omega)
    · cases h

/-- the `while` loop of `uniquify` ends within `len(used) + 1` iterations -/
theorem findFresh_terminates (name : String) (used : List String) :
    ∃ c, findFresh name used (used.length + 1) 2 = some c := by
  cases hf : findFresh name used (used.length + 1) 2 with
  | some c => exact ⟨c, rfl⟩
  | none =>
    exfalso
    have hall := findFresh_none _ _ _ _ hf
    let cands := (List.range (used.length + 1)).map (fun k => name ++ toString (2 + k))
    have hn : cands.Nodup := by
      simp only [cands, List.Nodup, List.pairwise_map]
      refine List.Pairwise.imp ?_ (List.nodup_range (n := used.length + 1))
      intro a b hab e
      have := suffix_inj _ _ _ e
      omega
    have hs : ∀ x ∈ cands, x ∈ used := by
      intro x hx
      simp only [cands, List.mem_map, List.mem_range] at hx
      obtain ⟨k, hk, rfl⟩ := hx
      exact hall (2 + k) (by omega) (by omega)
    have := nodup_subset_length cands used hn hs
    simp [cands] at this
    omega

theorem uniquify_spec (used : List String) (name : String) :
    uniquify used name ∉ used ∧
      (uniquify used name = name ∨ ∃ j, 2 ≤ j ∧ uniquify used name = name ++ toString j) := by
  unfold uniquify
  split
  · obtain ⟨c, hc⟩ := findFresh_terminates name used
    rw [hc, Option.getD_some]
    obtain ⟨h1, j, hj, rfl⟩ := findFresh_some _ _ _ _ _ hc
    exact ⟨h1, Or.inr ⟨j, hj, rfl⟩⟩
  · rename_i hnot
    refine ⟨?_, Or.inl rfl⟩
    rw [List.contains_eq_mem] at hnot
    simpa using hnot

theorem uniqAll_length (used cs : List String) : (uniqAll used cs).length = cs.length := by
  induction cs generalizing used with
  | nil => rfl
  | cons c cs ih => simp only [uniqAll, List.length_cons, ih]

theorem uniqAll_fresh (used cs : List String) : ∀ n ∈ uniqAll used cs, n ∉ used := by
  induction cs generalizing used with
  | nil => simp [uniqAll]
  | cons c cs ih =>
    simp only [uniqAll, List.mem_cons]
    rintro n (rfl | hn)
    · exact (uniquify_spec used c).1
    · exact fun h => ih _ n hn (List.mem_cons_of_mem _ h)

theorem uniqAll_nodup (used cs : List String) : (uniqAll used cs).Nodup := by
  induction cs generalizing used with
  | nil => simp [uniqAll]
  | cons c cs ih =>
    simp only [uniqAll, List.nodup_cons]
    exact ⟨fun h => uniqAll_fresh _ cs _ h List.mem_cons_self, ih _⟩

theorem uniqAll_form (used cs : List String) :
    ∀ p ∈ cs.zip (uniqAll used cs), p.2 = p.1 ∨ ∃ j, 2 ≤ j ∧ p.2 = p.1 ++ toString j := by
  induction cs generalizing used with
  | nil => simp [uniqAll]
  | cons c cs ih =>
    simp only [uniqAll, List.zip_cons_cons, List.mem_cons]
    rintro p (rfl | hp)
    · exact (uniquify_spec used c).2
    · exact ih _ p hp

/-! ### aggregate, csv -/

theorem aggregate_names (ρ : Oracle) (s : Nat) (w : Bool) (a : AggArgs) (rg : List Nat) (ng : Nat)
    (cs : List AVec) (o : Obj) (h : aggregate ρ s w a rg ng cs = .ok o) :
    o.names = .tab ((aggNames ρ.san (cs.map (·.name)) a).map some) := by
  unfold aggregate at h
  split at h
  · cases h
  · dsimp only at h
    split at h
    · cases h
    · rename_i aggCols hac
      rw [tableOf_names _ _ h, zipCols_names]
      have := mapIdxM_length _ _ _ _ hac
      simp [aggNames, uniqAll_length, aggCands, this]

theorem getD_range_map {α : Type} (l : List α) (d : α) :
    (List.range l.length).map (fun j => l.getD j d) = l := by
  apply List.ext_getElem
  · simp
  · intro i h1 h2
    simp at h1
    simp [List.getD_eq_getElem?_getD, h1]

theorem csv_names (hdr : Option (List String)) (rows : List (List Tag)) (o : Obj) (h : csv hdr rows = .ok o) :
    o.names = nameRule (fun _ => none) (.csv hdr rows) [] := by
  unfold csv at h
  dsimp only at h
  split at h
  · rename_i hc
    cases h
    obtain ⟨rfl, hr⟩ := hc
    cases rows with
    | nil => rfl
    | cons r rs => simp at hr
  · split at h
    · rw [tableOf_names _ _ h]
      cases hdr <;> simp [nameRule, Function.comp_def, mkVec_name]
    · rw [tableOf_names _ _ h, List.map_map]
      have e : ∀ (hd : List String), (List.range hd.length).map ((fun (x : AVec) => x.name) ∘ fun j =>
          mkVec (rows.map (fun r => r.getD j .none)) none (some (hd.getD j ""))) = hd.map some := by
        intro hd
        have := congrArg (List.map some) (getD_range_map hd "")
        simpa [Function.comp_def, mkVec_name] using this
      cases hdr with
      | some hd => simp only [nameRule]; rw [e]
      | none => simp only [nameRule]; rw [e]; simp [Function.comp_def]

end Serif.X

namespace Serif.X

theorem vecs_map_name (os : List Obj) (vs : List AVec) (h : vecs os = some vs) :
    vs.map (·.name) = os.map (fun o => o.sh.names.vecName) := by
  induction os generalizing vs with
  | nil => simp only [vecs] at h; cases h; rfl
  | cons o os ih =>
    cases o with
    | tab cs => simp [vecs] at h
    | vec v =>
      simp only [vecs, Option.map_eq_some_iff] at h
      obtain ⟨vs', hvs, rfl⟩ := h
      simp only [List.map_cons, ih vs' hvs]
      rfl

/-- the names of the result of one operation are a function of the operands' names and row counts -/
theorem step_names (ρ : Oracle) (op : Op) (args : List Obj) (o : Obj) (h : step ρ op args = .ok o) :
    o.names = nameRule ρ.san op (args.map Obj.sh) := by
  unfold step at h
  split at h
  · cases h; rfl
  · exact tableDict_names _ _ _ h
  · exact csv_names _ _ _ h
  · obtain ⟨v, hv, rfl⟩ := wrap_ok _ _ h; show Names.vec v.name = _; rw [arithVV_name _ _ _ _ _ _ _ hv]; rfl
  · obtain ⟨v, hv, rfl⟩ := wrap_ok _ _ h; show Names.vec v.name = _; rw [arithVO_name _ _ _ _ _ _ _ hv]; rfl
  · obtain ⟨v, hv, rfl⟩ := wrap_ok _ _ h; show Names.vec v.name = _; rw [cmpVV_name _ _ _ _ _ hv]; rfl
  · obtain ⟨v, hv, rfl⟩ := wrap_ok _ _ h; show Names.vec v.name = _; rw [cmpVO_name _ _ _ _ _ hv]; rfl
  · obtain ⟨v, hv, rfl⟩ := wrap_ok _ _ h; show Names.vec v.name = _; rw [finishKeep_name _ _ _ _ hv]; rfl
  · obtain ⟨v, hv, rfl⟩ := wrap_ok _ _ h; show Names.vec v.name = _; rw [cast_name _ _ _ _ _ hv]; rfl
  · obtain ⟨v, hv, rfl⟩ := wrap_ok _ _ h; show Names.vec v.name = _; rw [fillna_name _ _ _ hv]; rfl
  · obtain ⟨v, hv, rfl⟩ := wrap_ok _ _ h; show Names.vec v.name = _; rw [dropna_name _ _ hv]; rfl
  · cases h; rfl
  · cases h; rfl
  · cases h; rfl
  · obtain ⟨v, hv, rfl⟩ := wrap_ok _ _ h; show Names.vec v.name = _; rw [sortV_name _ _ _ hv]; rfl
  · obtain ⟨v, hv, rfl⟩ := wrap_ok _ _ h; show Names.vec v.name = _; rw [getIdx_name _ _ _ hv]; rfl
  · obtain ⟨v, hv, rfl⟩ := wrap_ok _ _ h; show Names.vec v.name = _; rw [getMask_name _ _ _ hv]; rfl
  · obtain ⟨v, hv, rfl⟩ := wrap_ok _ _ h; show Names.vec v.name = _; rw [getV_name _ _ _ _ _ hv]; rfl
  · obtain ⟨v, hv, rfl⟩ := wrap_ok _ _ h; show Names.vec v.name = _; rw [setitem_name _ _ _ hv]; rfl
  · obtain ⟨v, hv, rfl⟩ := wrap_ok _ _ h; show Names.vec v.name = _; rw [lshiftVV_name _ _ _ hv]; rfl
  · obtain ⟨v, hv, rfl⟩ := wrap_ok _ _ h; show Names.vec v.name = _; rw [lshiftVO_name _ _ _ hv]; rfl
  · rw [rshift_names _ _ _ h]; rfl
  · rw [rshiftO_names _ _ _ h]; rfl
  · split at h
    · rw [rshiftDict_names _ _ _ _ h]; rfl
    · cases h
  · split at h
    · rename_i vs' hvs
      rw [tableOf_names _ _ h, vecs_map_name _ _ hvs]
      simp [nameRule, List.map_map, Function.comp_def]
    · cases h
  · rw [selCol_names _ _ _ h]; rfl
  · rw [selCols_names _ _ _ h]; rfl
  · rw [rowOf_names _ _ _ h]; rfl
  · rw [rowSel_names _ (fun c r hr => getIdx_name _ _ _ hr) _ _ h]; rfl
  · rw [rowSel_names _ (fun c r hr => getMask_name _ _ _ hr) _ _ h]; rfl
  · rw [rowSel_names _ (fun c r hr => getV_name _ _ _ _ _ hr) _ _ h]; rfl
  · rw [tarithT_names _ _ _ _ _ _ h]; rfl
  · rw [tarithV_names _ _ _ _ _ _ h]; rfl
  · rw [tarithO_names _ _ _ _ _ _ h]; rfl
  · rw [transposeT_names _ _ h]; rfl
  · exact join_names _ _ _ _ _ h
  · rw [aggregate_names _ _ _ _ _ _ _ _ h]; rfl
  · rw [sortT_names _ _ _ h]; rfl
  · rw [tabSet_names _ _ _ _ h]; rfl
  · cases h

theorem rows_of_eval (ρ : Oracle) (e : Expr) (o : Obj) (h : eval ρ e = .ok o) : rows ρ e = o.nrows := by
  simp [rows, h]

theorem names_aux (ρ : Oracle) :
    (∀ e o, eval ρ e = .ok o → o.names = specNames ρ e) ∧
    (∀ es os, evalArgs ρ es = .ok os → os.map Obj.sh = specShs ρ es) := by
  have node : ∀ op args, (∀ os, evalArgs ρ args = .ok os → os.map Obj.sh = specShs ρ args) →
      ∀ o, eval ρ (.node op args) = .ok o → o.names = specNames ρ (.node op args) := by
    intro op args ih o he
    simp only [eval] at he
    split at he
    · rename_i os hos
      simp only [specNames]
      rw [← ih os hos]
      exact step_names ρ op os o he
    · cases he
  have nil : ∀ os, evalArgs ρ .nil = .ok os → os.map Obj.sh = specShs ρ .nil := by
    intro os he
    simp only [evalArgs] at he
    cases he
    simp [specShs]
  have cons : ∀ e es, (∀ o, eval ρ e = .ok o → o.names = specNames ρ e) →
      (∀ os, evalArgs ρ es = .ok os → os.map Obj.sh = specShs ρ es) →
      ∀ os, evalArgs ρ (.cons e es) = .ok os → os.map Obj.sh = specShs ρ (.cons e es) := by
    intro e es ihe ihes os he
    simp only [evalArgs] at he
    split at he
    · cases he
    · rename_i o ho
      split at he
      · cases he
      · rename_i os' hos
        cases he
        simp only [List.map_cons, specShs, ← ihes os' hos, rows_of_eval ρ e o ho, ← ihe o ho]
        rfl
  refine ⟨fun e => ?_, fun es => ?_⟩
  · exact Expr.rec
      (motive_1 := fun e => ∀ o, eval ρ e = .ok o → o.names = specNames ρ e)
      (motive_2 := fun es => ∀ os, evalArgs ρ es = .ok os → os.map Obj.sh = specShs ρ es)
      node nil cons e
  · exact Args.rec
      (motive_1 := fun e => ∀ o, eval ρ e = .ok o → o.names = specNames ρ e)
      (motive_2 := fun es => ∀ os, evalArgs ρ es = .ok os → os.map Obj.sh = specShs ρ es)
      node nil cons es

end Serif.X
