/- Lemmas about the rolling hash (used by Props/C16). Imports one Mathlib tactic module (`ring`). -/
import Serif.Model.Fingerprint
import Mathlib.Tactic.Ring

namespace Serif.FP

theorem roll_cong (P B t h : Int) : P ∣ roll P B t h - (t * B + h) := by
  unfold roll
  rw [Int.emod_def]
  exact ⟨-((t * B + h) / P), by ring⟩

/-- the difference of two runs over the same elements is the difference of the accumulators times `B^n`, mod P -/
theorem ev_cong (P B : Int) (hs : List Int) (t0 t1 : Int) :
    P ∣ (ev P B t0 hs - ev P B t1 hs) - (t0 - t1) * B ^ hs.length := by
  induction hs generalizing t0 t1 with
  | nil => simp [ev]
  | cons h hs ih =>
    simp only [ev, List.foldl_cons, List.length_cons] at ih ⊢
    obtain ⟨k, hk⟩ := ih (roll P B t0 h) (roll P B t1 h)
    obtain ⟨a, ha⟩ := roll_cong P B t0 h
    obtain ⟨b, hb⟩ := roll_cong P B t1 h
    refine ⟨k + (a - b) * B ^ hs.length, ?_⟩
    have e : roll P B t0 h - roll P B t1 h = (t0 - t1) * B + P * (a - b) := by
      have : roll P B t0 h - roll P B t1 h = (roll P B t0 h - (t0 * B + h)) - (roll P B t1 h - (t1 * B + h)) + (t0 - t1) * B := by ring
      rw [this, ha, hb]; ring
    calc List.foldl (roll P B) (roll P B t0 h) hs - List.foldl (roll P B) (roll P B t1 h) hs - (t0 - t1) * B ^ (hs.length + 1)
        = (List.foldl (roll P B) (roll P B t0 h) hs - List.foldl (roll P B) (roll P B t1 h) hs
            - (roll P B t0 h - roll P B t1 h) * B ^ hs.length)
          + ((roll P B t0 h - roll P B t1 h) - (t0 - t1) * B) * B ^ hs.length := by ring
      _ = P * k + (P * (a - b)) * B ^ hs.length := by rw [hk, e]; ring
      _ = P * (k + (a - b) * B ^ hs.length) := by ring

theorem ev_append (P B t0 : Int) (xs ys : List Int) : ev P B t0 (xs ++ ys) = ev P B (ev P B t0 xs) ys := by
  simp [ev, List.foldl_append]

/-- coprimality transfers a divisibility from `a * B^k` to `a` -/
theorem dvd_of_dvd_mul_pow (P B : Nat) (hc : Nat.Coprime B P) (a : Int) (k : Nat)
    (h : (P : Int) ∣ a * (B : Int) ^ k) : (P : Int) ∣ a := by
  have h1 : P ∣ (a * (B : Int) ^ k).natAbs := Int.natCast_dvd.mp h
  rw [Int.natAbs_mul, Int.natAbs_pow, Int.natAbs_natCast] at h1
  have hc' : Nat.Coprime P (B ^ k) := (Nat.Coprime.pow_left k hc).symm
  exact Int.natCast_dvd.mpr (hc'.dvd_of_dvd_mul_right h1)

/-- changing one element to one whose hash differs mod P changes the fingerprint -/
theorem H_set_ne (P B : Nat) (hc : Nat.Coprime B P) (pre post : List Int) (x y : Int)
    (hxy : ¬ (P : Int) ∣ y - x) :
    H P B (pre ++ y :: post) ≠ H P B (pre ++ x :: post) := by
  intro heq
  unfold H at heq
  rw [ev_append, ev_append] at heq
  simp only [ev, List.foldl_cons] at heq
  have c := ev_cong P B post (roll P B (List.foldl (roll P B) 0 pre) y) (roll P B (List.foldl (roll P B) 0 pre) x)
  simp only [ev] at c
  rw [heq] at c
  obtain ⟨a, ha⟩ := roll_cong P B (List.foldl (roll (P : Int) B) 0 pre) y
  obtain ⟨b, hb⟩ := roll_cong P B (List.foldl (roll (P : Int) B) 0 pre) x
  obtain ⟨k, hk⟩ := c
  apply hxy
  apply dvd_of_dvd_mul_pow P B hc (y - x) post.length
  generalize List.foldl (roll (P : Int) B) 0 pre = t at *
  refine ⟨-k - (a - b) * (B : Int) ^ post.length, ?_⟩
  have e : roll P B t y - roll P B t x = (y - x) + P * (a - b) := by
    have : roll (P : Int) B t y - roll P B t x = (roll P B t y - (t * B + y)) - (roll P B t x - (t * B + x)) + (y - x) := by ring
    rw [this, ha, hb]; ring
  have hk' : (roll (P : Int) B t y - roll P B t x) * (B : Int) ^ post.length = -(P * k) := by
    have : (roll (P : Int) B t y - roll P B t x) * (B : Int) ^ post.length
        = -((List.foldl (roll P B) (roll P B t x) post - List.foldl (roll P B) (roll P B t x) post)
            - (roll P B t y - roll P B t x) * (B : Int) ^ post.length) := by ring
    rw [this, hk]
  rw [e] at hk'
  calc (y - x) * (B : Int) ^ post.length
      = ((y - x) + P * (a - b)) * (B : Int) ^ post.length - P * (a - b) * (B : Int) ^ post.length := by ring
    _ = -(P * k) - P * (a - b) * (B : Int) ^ post.length := by rw [hk']
    _ = P * (-k - (a - b) * (B : Int) ^ post.length) := by ring

/-- swapping two adjacent elements whose hashes differ mod P changes the fingerprint -/
theorem H_swap_ne (P B : Nat) (hc : Nat.Coprime B P) (hc1 : Nat.Coprime (B - 1) P) (hB : 1 ≤ B)
    (pre post : List Int) (a b : Int) (hab : ¬ (P : Int) ∣ a - b) :
    H P B (pre ++ a :: b :: post) ≠ H P B (pre ++ b :: a :: post) := by
  intro heq
  unfold H at heq
  rw [ev_append, ev_append] at heq
  simp only [ev, List.foldl_cons] at heq
  generalize List.foldl (roll (P : Int) B) 0 pre = t at *
  have c := ev_cong P B post (roll P B (roll P B t a) b) (roll P B (roll P B t b) a)
  simp only [ev] at c
  rw [heq] at c
  obtain ⟨k, hk⟩ := c
  obtain ⟨r1, h1⟩ := roll_cong P B t a
  obtain ⟨r2, h2⟩ := roll_cong P B (roll P B t a) b
  obtain ⟨r3, h3⟩ := roll_cong P B t b
  obtain ⟨r4, h4⟩ := roll_cong P B (roll P B t b) a
  -- the two double steps differ by (a - b)(B - 1) modulo P
  have e : roll P B (roll P B t a) b - roll P B (roll P B t b) a
      = (a - b) * ((B : Int) - 1) + P * (r2 - r4 + (r1 - r3) * B) := by
    have ea : roll (P : Int) B t a = t * B + a + P * r1 := by
      have : roll (P : Int) B t a = (roll P B t a - (t * B + a)) + (t * B + a) := by ring
      rw [this, h1]; ring
    have eb : roll (P : Int) B t b = t * B + b + P * r3 := by
      have : roll (P : Int) B t b = (roll P B t b - (t * B + b)) + (t * B + b) := by ring
      rw [this, h3]; ring
    have : roll (P : Int) B (roll P B t a) b - roll P B (roll P B t b) a
        = (roll P B (roll P B t a) b - (roll P B t a * B + b)) - (roll P B (roll P B t b) a - (roll P B t b * B + a))
          + ((roll P B t a - roll P B t b) * B + (b - a)) := by ring
    rw [this, h2, h4, ea, eb]; ring
  have hdiv : (P : Int) ∣ (a - b) * ((B : Int) - 1) * (B : Int) ^ post.length := by
    refine ⟨-k - (r2 - r4 + (r1 - r3) * B) * (B : Int) ^ post.length, ?_⟩
    have hk' : (roll (P : Int) B (roll P B t a) b - roll P B (roll P B t b) a) * (B : Int) ^ post.length = -(P * k) := by
      have : (roll (P : Int) B (roll P B t a) b - roll P B (roll P B t b) a) * (B : Int) ^ post.length
          = -((List.foldl (roll P B) (roll P B (roll P B t b) a) post - List.foldl (roll P B) (roll P B (roll P B t b) a) post)
              - (roll P B (roll P B t a) b - roll P B (roll P B t b) a) * (B : Int) ^ post.length) := by ring
      rw [this, hk]
    rw [e] at hk'
    calc (a - b) * ((B : Int) - 1) * (B : Int) ^ post.length
        = ((a - b) * ((B : Int) - 1) + P * (r2 - r4 + (r1 - r3) * B)) * (B : Int) ^ post.length
            - P * (r2 - r4 + (r1 - r3) * B) * (B : Int) ^ post.length := by ring
      _ = -(P * k) - P * (r2 - r4 + (r1 - r3) * B) * (B : Int) ^ post.length := by rw [hk']
      _ = P * (-k - (r2 - r4 + (r1 - r3) * B) * (B : Int) ^ post.length) := by ring
  have h5 := dvd_of_dvd_mul_pow P B hc _ _ hdiv
  -- strip the factor (B - 1)
  have hB1 : ((B : Int) - 1) = ((B - 1 : Nat) : Int) := by omega
  rw [hB1] at h5
  have h6 : P ∣ ((a - b) * ((B - 1 : Nat) : Int)).natAbs := Int.natCast_dvd.mp h5
  rw [Int.natAbs_mul, Int.natAbs_natCast] at h6
  exact hab (Int.natCast_dvd.mpr (hc1.symm.dvd_of_dvd_mul_right h6))

/-- replacing one element changes the hash by `(y - x) · B^|post|` modulo P -/
theorem H_set_cong (P B : Int) (pre post : List Int) (x y : Int) :
    P ∣ (H P B (pre ++ y :: post) - H P B (pre ++ x :: post)) - (y - x) * B ^ post.length := by
  unfold H
  rw [ev_append, ev_append]
  simp only [ev, List.foldl_cons]
  generalize List.foldl (roll P B) 0 pre = t
  obtain ⟨k, hk⟩ := ev_cong P B post (roll P B t y) (roll P B t x)
  simp only [ev] at hk
  obtain ⟨a, ha⟩ := roll_cong P B t y
  obtain ⟨b, hb⟩ := roll_cong P B t x
  refine ⟨k + (a - b) * B ^ post.length, ?_⟩
  have e : roll P B t y - roll P B t x = (y - x) + P * (a - b) := by
    have : roll P B t y - roll P B t x = (roll P B t y - (t * B + y)) - (roll P B t x - (t * B + x)) + (y - x) := by ring
    rw [this, ha, hb]; ring
  calc List.foldl (roll P B) (roll P B t y) post - List.foldl (roll P B) (roll P B t x) post - (y - x) * B ^ post.length
      = (List.foldl (roll P B) (roll P B t y) post - List.foldl (roll P B) (roll P B t x) post
          - (roll P B t y - roll P B t x) * B ^ post.length)
        + ((roll P B t y - roll P B t x) - (y - x)) * B ^ post.length := by ring
    _ = P * k + (P * (a - b)) * B ^ post.length := by rw [hk, e]; ring
    _ = P * (k + (a - b) * B ^ post.length) := by ring

/-- the hash of two elements is `a·B + b` modulo P -/
theorem H_pair_cong (P B a b : Int) : P ∣ H P B [a, b] - (a * B + b) := by
  unfold H ev
  simp only [List.foldl_cons, List.foldl_nil]
  obtain ⟨r1, h1⟩ := roll_cong P B 0 a
  obtain ⟨r2, h2⟩ := roll_cong P B (roll P B 0 a) b
  refine ⟨r2 + r1 * B, ?_⟩
  have e1 : roll P B 0 a = a + P * r1 := by
    have : roll P B 0 a = (roll P B 0 a - (0 * B + a)) + a := by ring
    rw [this, h1]; ring
  calc roll P B (roll P B 0 a) b - (a * B + b)
      = (roll P B (roll P B 0 a) b - (roll P B 0 a * B + b)) + (roll P B 0 a - a) * B := by ring
    _ = P * r2 + (P * r1) * B := by rw [h2, e1]; ring
    _ = P * (r2 + r1 * B) := by ring

/-- **exchanging two cells on an anti-diagonal of a two-column table changes its fingerprint** when the table combines its
    columns with a base `BT` such that `BT - B` is prime to P (with `BT = B` the two cells carry the same weight and the
    exchange goes unnoticed: the defect repaired in /repo) -/
theorem Htab_antidiag_ne (P B BT : Nat) (hc : Nat.Coprime B P) (hd : Nat.Coprime (BT - B) P) (hle : B ≤ BT)
    (pa sa pb sb : List Int) (x y : Int) (hlen : sb.length = sa.length + 1) (hxy : ¬ (P : Int) ∣ y - x) :
    Htab P B BT [pa ++ y :: sa, pb ++ x :: sb] ≠ Htab P B BT [pa ++ x :: sa, pb ++ y :: sb] := by
  intro heq
  unfold Htab at heq
  simp only [List.map_cons, List.map_nil] at heq
  obtain ⟨k1, h1⟩ := H_pair_cong P BT (H P B (pa ++ y :: sa)) (H P B (pb ++ x :: sb))
  obtain ⟨k2, h2⟩ := H_pair_cong P BT (H P B (pa ++ x :: sa)) (H P B (pb ++ y :: sb))
  obtain ⟨ka, ha⟩ := H_set_cong P B pa sa x y
  obtain ⟨kb, hb⟩ := H_set_cong P B pb sb x y
  rw [heq] at h1
  -- (fa' - fa)·BT + (fb' - fb) ≡ 0, i.e. (y - x)·B^|sa|·(BT - B) ≡ 0
  have hdiv : (P : Int) ∣ (y - x) * ((BT : Int) - B) * (B : Int) ^ sa.length := by
    refine ⟨k2 - k1 - ka * BT + kb, ?_⟩
    have e1 : (H (P : Int) B (pa ++ y :: sa) - H P B (pa ++ x :: sa)) * BT
        - (H P B (pb ++ y :: sb) - H P B (pb ++ x :: sb)) = P * (k2 - k1) := by
      have : (H (P : Int) B (pa ++ y :: sa) - H P B (pa ++ x :: sa)) * BT
          - (H P B (pb ++ y :: sb) - H P B (pb ++ x :: sb))
          = (H P BT [H P B (pa ++ x :: sa), H P B (pb ++ y :: sb)]
              - (H P B (pa ++ x :: sa) * BT + H P B (pb ++ y :: sb)))
            - (H P BT [H P B (pa ++ x :: sa), H P B (pb ++ y :: sb)]
              - (H P B (pa ++ y :: sa) * BT + H P B (pb ++ x :: sb))) := by ring
      rw [this, h2, h1]; ring
    have ea : H (P : Int) B (pa ++ y :: sa) - H P B (pa ++ x :: sa) = (y - x) * (B : Int) ^ sa.length + P * ka := by
      have : H (P : Int) B (pa ++ y :: sa) - H P B (pa ++ x :: sa)
          = (H P B (pa ++ y :: sa) - H P B (pa ++ x :: sa) - (y - x) * (B : Int) ^ sa.length)
            + (y - x) * (B : Int) ^ sa.length := by ring
      rw [this, ha]; ring
    have eb : H (P : Int) B (pb ++ y :: sb) - H P B (pb ++ x :: sb) = (y - x) * (B : Int) ^ sb.length + P * kb := by
      have : H (P : Int) B (pb ++ y :: sb) - H P B (pb ++ x :: sb)
          = (H P B (pb ++ y :: sb) - H P B (pb ++ x :: sb) - (y - x) * (B : Int) ^ sb.length)
            + (y - x) * (B : Int) ^ sb.length := by ring
      rw [this, hb]; ring
    rw [ea, eb, hlen, pow_succ] at e1
    calc (y - x) * ((BT : Int) - B) * (B : Int) ^ sa.length
        = (((y - x) * (B : Int) ^ sa.length + P * ka) * BT - ((y - x) * ((B : Int) ^ sa.length * B) + P * kb))
          - P * ka * BT + P * kb := by ring
      _ = P * (k2 - k1) - P * ka * BT + P * kb := by rw [e1]
      _ = P * (k2 - k1 - ka * BT + kb) := by ring
  have h5 := dvd_of_dvd_mul_pow P B hc _ _ hdiv
  have hB1 : ((BT : Int) - B) = ((BT - B : Nat) : Int) := by omega
  rw [hB1] at h5
  have h6 : P ∣ ((y - x) * ((BT - B : Nat) : Int)).natAbs := Int.natCast_dvd.mp h5
  rw [Int.natAbs_mul, Int.natAbs_natCast] at h6
  exact hxy (Int.natCast_dvd.mpr (hd.symm.dvd_of_dvd_mul_right h6))

theorem roll_range (P B t h : Int) (hP : 0 < P) : 0 ≤ roll P B t h ∧ roll P B t h < P := by
  unfold roll
  exact ⟨Int.emod_nonneg _ (by omega), Int.emod_lt_of_pos _ hP⟩

theorem ev_range (P B : Int) (hP : 0 < P) (hs : List Int) (t0 : Int) (h0 : 0 ≤ t0 ∧ t0 < P) :
    0 ≤ ev P B t0 hs ∧ ev P B t0 hs < P := by
  induction hs generalizing t0 with
  | nil => exact h0
  | cons h hs ih => simp only [ev, List.foldl_cons]; exact ih _ (roll_range P B t0 h hP)

/-- fingerprints are reduced: they lie in `[0, P)` -/
theorem H_range (P B : Int) (hP : 0 < P) (hs : List Int) : 0 ≤ H P B hs ∧ H P B hs < P :=
  ev_range P B hP hs 0 ⟨Int.le_refl 0, hP⟩

/-! ### container-valued elements -/

/-- two different residues are not congruent -/
theorem range_ne_not_dvd (P a b : Int) (hP : 0 < P) (ha : 0 ≤ a ∧ a < P) (hb : 0 ≤ b ∧ b < P) (h : a ≠ b) : ¬ P ∣ a - b := by
  rintro ⟨k, hk⟩
  have : k = 0 := by
    rcases Int.lt_trichotomy k 0 with h' | h' | h'
    · exfalso
      have : P * k ≤ P * (-1) := Int.mul_le_mul_of_nonneg_left (by omega) (by omega)
      omega
    · exact h'
    · exfalso
      have : P * 1 ≤ P * k := Int.mul_le_mul_of_nonneg_left (by omega) (by omega)
      omega
  subst this
  apply h; omega

/-- changing one element to one whose hash differs mod P changes the rolling hash, from any starting accumulator -/
theorem ev_set_ne (P B : Nat) (hc : Nat.Coprime B P) (t0 : Int) (pre post : List Int) (x y : Int)
    (hxy : ¬ (P : Int) ∣ y - x) :
    ev P B t0 (pre ++ y :: post) ≠ ev P B t0 (pre ++ x :: post) := by
  intro heq
  rw [ev_append, ev_append] at heq
  simp only [ev, List.foldl_cons] at heq
  have c := ev_cong P B post (roll P B (List.foldl (roll P B) t0 pre) y) (roll P B (List.foldl (roll P B) t0 pre) x)
  simp only [ev] at c
  rw [heq] at c
  obtain ⟨a, ha⟩ := roll_cong P B (List.foldl (roll (P : Int) B) t0 pre) y
  obtain ⟨b, hb⟩ := roll_cong P B (List.foldl (roll (P : Int) B) t0 pre) x
  obtain ⟨k, hk⟩ := c
  apply hxy
  apply dvd_of_dvd_mul_pow P B hc (y - x) post.length
  generalize List.foldl (roll (P : Int) B) t0 pre = t at *
  refine ⟨-k - (a - b) * (B : Int) ^ post.length, ?_⟩
  have e : roll P B t y - roll P B t x = (y - x) + P * (a - b) := by
    have : roll (P : Int) B t y - roll P B t x = (roll P B t y - (t * B + y)) - (roll P B t x - (t * B + x)) + (y - x) := by ring
    rw [this, ha, hb]; ring
  have hk' : (roll (P : Int) B t y - roll P B t x) * (B : Int) ^ post.length = -(P * k) := by
    have : (0 : Int) - (roll (P : Int) B t y - roll P B t x) * (B : Int) ^ post.length = P * k := by
      rw [← hk]; ring
    omega
  rw [e] at hk'
  have : (y - x) * (B : Int) ^ post.length = -(P * k) - P * (a - b) * (B : Int) ^ post.length := by
    rw [← hk']; ring
  rw [this]; ring

/-- the same items hashed from two starting accumulators that are not congruent give different hashes (kind and length matter) -/
theorem ev_seed_ne (P B : Nat) (hc : Nat.Coprime B P) (t0 t1 : Int) (hs : List Int) (hne : ¬ (P : Int) ∣ t0 - t1) :
    ev P B t0 hs ≠ ev P B t1 hs := by
  intro heq
  obtain ⟨k, hk⟩ := ev_cong P B hs t0 t1
  rw [heq] at hk
  apply hne
  apply dvd_of_dvd_mul_pow P B hc (t0 - t1) hs.length
  exact ⟨-k, by rw [Int.mul_neg, ← hk]; ring⟩

/-- the table of starting accumulators holds residues -/
theorem seedOf_range (hP : (0 : Int) < P)
    (htab : Gen.fpSeeds.all (fun e => decide (0 ≤ e.2) && decide (e.2 < P)) = true) (k n : Nat) :
    0 ≤ seedOf k n ∧ seedOf k n < P := by
  unfold seedOf
  cases h : Gen.fpSeeds.lookup (k, n) with
  | none => exact ⟨Int.le_refl 0, hP⟩
  | some s =>
    have hm : ((k, n), s) ∈ Gen.fpSeeds := by
      have : ∀ (l : List ((Nat × Nat) × Int)), l.lookup (k, n) = some s → ((k, n), s) ∈ l := by
        intro l
        induction l with
        | nil => simp [List.lookup]
        | cons p rest ih =>
          obtain ⟨key, v⟩ := p
          simp only [List.lookup]
          split
          · rename_i heq
            intro hv
            have hkey : (k, n) = key := by simpa using heq
            simp only [Option.some.injEq] at hv
            subst hv; subst hkey
            exact List.mem_cons_self
          · intro hv; exact List.mem_cons_of_mem _ (ih hv)
      exact this _ h
    have := (List.all_eq_true.mp htab) _ hm
    simp only [Bool.and_eq_true, decide_eq_true_eq] at this
    exact this

theorem Elem.hashFrom_eq (es : List Elem) (t : Int) : Elem.hashFrom es t = ev P B t (es.map Elem.hash) := by
  induction es generalizing t with
  | nil => rfl
  | cons e es ih => simp only [Elem.hashFrom, List.map_cons, ev, List.foldl_cons]; exact ih _

/-- the hash of a container element is the rolling hash of its items' hashes from the accumulator of its kind and length -/
theorem Elem.hash_seq (k : Nat) (es : List Elem) :
    (Elem.seq k es).hash = ev P B (seedOf k es.length) (es.map Elem.hash) := by
  simp only [Elem.hash, Elem.hashFrom_eq]

theorem Elem.seq_range (hP : (0 : Int) < P) (hs : ∀ k n, 0 ≤ seedOf k n ∧ seedOf k n < P) (k : Nat) (es : List Elem) :
    0 ≤ (Elem.seq k es).hash ∧ (Elem.seq k es).hash < P := by
  rw [Elem.hash_seq]; exact ev_range P B hP _ _ (hs k es.length)

theorem Elem.setAtList_length (es : List Elem) (i : Nat) (rest : List Nat) (y : Int) :
    (Elem.setAtList es i rest y).length = es.length := by
  induction es generalizing i with
  | nil => simp [Elem.setAtList]
  | cons e es ih =>
    cases i with
    | zero => simp [Elem.setAtList]
    | succ i => simp [Elem.setAtList, ih]

mutual
/-- replacing the scalar at `path` (hash `x`) by one whose hash `y` is not congruent to `x` changes the hash of the enclosing
    element by a non-multiple of P — at every nesting depth -/
theorem Elem.setAt_changes (hc : Nat.Coprime Gen.FP_B Gen.FP_P) (hP : (0 : Int) < P)
    (hs : ∀ k n, 0 ≤ seedOf k n ∧ seedOf k n < P) :
    (e : Elem) → (path : List Nat) → (x y : Int) → e.leafAt path = some x → ¬ P ∣ y - x →
      ¬ P ∣ (e.setAt path y).hash - e.hash
  | .leaf h, [], x, y, hx, hne => by
      simp only [Elem.leafAt, Option.some.injEq] at hx
      subst hx
      simpa [Elem.setAt, Elem.hash] using hne
  | .leaf _, _ :: _, _, _, hx, _ => by simp [Elem.leafAt] at hx
  | .seq _ _, [], _, _, hx, _ => by simp [Elem.leafAt] at hx
  | .seq k es, i :: rest, x, y, hx, hne => by
      obtain ⟨pre, post, a, b, h1, h2, h3⟩ :=
        Elem.setAtList_changes hc hP hs es i rest x y (by simpa [Elem.leafAt] using hx) hne
      simp only [Elem.setAt]
      apply range_ne_not_dvd P _ _ hP (Elem.seq_range hP hs _ _) (Elem.seq_range hP hs _ _)
      rw [Elem.hash_seq, Elem.hash_seq, h1, h2, Elem.setAtList_length]
      exact ev_set_ne Gen.FP_P Gen.FP_B hc _ pre post a b h3
theorem Elem.setAtList_changes (hc : Nat.Coprime Gen.FP_B Gen.FP_P) (hP : (0 : Int) < P)
    (hs : ∀ k n, 0 ≤ seedOf k n ∧ seedOf k n < P) :
    (es : List Elem) → (i : Nat) → (rest : List Nat) → (x y : Int) → Elem.leafAtList es i rest = some x → ¬ P ∣ y - x →
      ∃ pre post a b, es.map Elem.hash = pre ++ a :: post ∧ (Elem.setAtList es i rest y).map Elem.hash = pre ++ b :: post
        ∧ ¬ P ∣ b - a
  | [], _, _, _, _, hx, _ => by simp [Elem.leafAtList] at hx
  | e :: es, 0, rest, x, y, hx, hne =>
      ⟨[], es.map Elem.hash, e.hash, (e.setAt rest y).hash, rfl, rfl,
        Elem.setAt_changes hc hP hs e rest x y (by simpa [Elem.leafAtList] using hx) hne⟩
  | e :: es, i + 1, rest, x, y, hx, hne => by
      obtain ⟨pre, post, a, b, h1, h2, h3⟩ :=
        Elem.setAtList_changes hc hP hs es i rest x y (by simpa [Elem.leafAtList] using hx) hne
      exact ⟨e.hash :: pre, post, a, b, by simp [h1], by simp [Elem.setAtList, h2], h3⟩
end

/-- a container of the same items but another kind (or, with the items' hashes equal, another length class) hashes differently
    when the starting accumulators differ -/
theorem Elem.kind_ne (hc : Nat.Coprime Gen.FP_B Gen.FP_P) (hP : (0 : Int) < P)
    (hs : ∀ k n, 0 ≤ seedOf k n ∧ seedOf k n < P) (k1 k2 : Nat) (es : List Elem)
    (h : seedOf k1 es.length ≠ seedOf k2 es.length) : (Elem.seq k1 es).hash ≠ (Elem.seq k2 es).hash := by
  rw [Elem.hash_seq, Elem.hash_seq]
  exact ev_seed_ne Gen.FP_P Gen.FP_B hc _ _ _ (range_ne_not_dvd P _ _ hP (hs _ _) (hs _ _) h)

/-- a value and the one-item container holding it are told apart: `x` against `[x]`, `(x,)`, `{x}` -/
theorem Elem.wrap_ne (hc : Nat.Coprime Gen.FP_B Gen.FP_P) (hP : (0 : Int) < P)
    (hs : ∀ k n, 0 ≤ seedOf k n ∧ seedOf k n < P) (k : Nat) (e : Elem) (h0 : seedOf k 1 ≠ 0) :
    ¬ P ∣ (Elem.seq k [e]).hash - e.hash := by
  intro hd
  have hh : (Elem.seq k [e]).hash = roll P B (seedOf k 1) e.hash := by
    simp [Elem.hash, Elem.hashFrom]
  rw [hh] at hd
  obtain ⟨a, ha⟩ := roll_cong P B (seedOf k 1) e.hash
  obtain ⟨b, hb⟩ := hd
  have h1 : (P : Int) ∣ seedOf k 1 * (B : Int) ^ 1 := by
    refine ⟨b - a, ?_⟩
    have : seedOf k 1 * B = (roll P B (seedOf k 1) e.hash - e.hash) - (roll P B (seedOf k 1) e.hash - (seedOf k 1 * B + e.hash)) := by ring
    rw [Int.pow_succ, Int.pow_zero, Int.one_mul, this, hb, ha]; ring
  have h2 : (P : Int) ∣ seedOf k 1 := dvd_of_dvd_mul_pow Gen.FP_P Gen.FP_B hc _ 1 h1
  have := range_ne_not_dvd P (seedOf k 1) 0 hP (hs k 1) ⟨Int.le_refl 0, hP⟩ h0
  exact this (by simpa using h2)

end Serif.FP
