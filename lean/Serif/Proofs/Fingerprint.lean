/- Lemmas about the rolling hash (used by Props/C16). Imports one Mathlib tactic module (`ring`). -/
import Serif.Model.Fingerprint
import Mathlib.Tactic.Ring

namespace Serif.FP

theorem roll_cong (P B t h : Int) : P ∣ roll P B t h - (t * B + h) := by
  unfold roll
  rw [Int.emod_def]
  exact ⟨-((t * B + h) / P), by ring⟩

/-- the difference of two runs over the same elements is the difference of the accumulators times `B^n`, mod P -/
theorem ev_cong (P B : Int) (hs : List Int) (t0 t1 : Int) :
    P ∣ (ev P B t0 hs - ev P B t1 hs) - (t0 - t1) * B ^ hs.length := by
  induction hs generalizing t0 t1 with
  | nil => simp [ev]
  | cons h hs ih =>
    simp only [ev, List.foldl_cons, List.length_cons] at ih ⊢
    obtain ⟨k, hk⟩ := ih (roll P B t0 h) (roll P B t1 h)
    obtain ⟨a, ha⟩ := roll_cong P B t0 h
    obtain ⟨b, hb⟩ := roll_cong P B t1 h
    refine ⟨k + (a - b) * B ^ hs.length, ?_⟩
    have e : roll P B t0 h - roll P B t1 h = (t0 - t1) * B + P * (a - b) := by
      have : roll P B t0 h - roll P B t1 h = (roll P B t0 h - (t0 * B + h)) - (roll P B t1 h - (t1 * B + h)) + (t0 - t1) * B := by ring
      rw [this, ha, hb]; ring
    calc List.foldl (roll P B) (roll P B t0 h) hs - List.foldl (roll P B) (roll P B t1 h) hs - (t0 - t1) * B ^ (hs.length + 1)
        = (List.foldl (roll P B) (roll P B t0 h) hs - List.foldl (roll P B) (roll P B t1 h) hs
            - (roll P B t0 h - roll P B t1 h) * B ^ hs.length)
          + ((roll P B t0 h - roll P B t1 h) - (t0 - t1) * B) * B ^ hs.length := by ring
      _ = P * k + (P * (a - b)) * B ^ hs.length := by rw [hk, e]; ring
      _ = P * (k + (a - b) * B ^ hs.length) := by ring

theorem ev_append (P B t0 : Int) (xs ys : List Int) : ev P B t0 (xs ++ ys) = ev P B (ev P B t0 xs) ys := by
  simp [ev, List.foldl_append]

/-- coprimality transfers a divisibility from `a * B^k` to `a` -/
theorem dvd_of_dvd_mul_pow (P B : Nat) (hc : Nat.Coprime B P) (a : Int) (k : Nat)
    (h : (P : Int) ∣ a * (B : Int) ^ k) : (P : Int) ∣ a := by
  have h1 : P ∣ (a * (B : Int) ^ k).natAbs := Int.natCast_dvd.mp h
  rw [Int.natAbs_mul, Int.natAbs_pow, Int.natAbs_natCast] at h1
  have hc' : Nat.Coprime P (B ^ k) := (Nat.Coprime.pow_left k hc).symm
  exact Int.natCast_dvd.mpr (hc'.dvd_of_dvd_mul_right h1)

/-- changing one element to one whose hash differs mod P changes the fingerprint -/
theorem H_set_ne (P B : Nat) (hc : Nat.Coprime B P) (pre post : List Int) (x y : Int)
    (hxy : ¬ (P : Int) ∣ y - x) :
    H P B (pre ++ y :: post) ≠ H P B (pre ++ x :: post) := by
  intro heq
  unfold H at heq
  rw [ev_append, ev_append] at heq
  simp only [ev, List.foldl_cons] at heq
  have c := ev_cong P B post (roll P B (List.foldl (roll P B) 0 pre) y) (roll P B (List.foldl (roll P B) 0 pre) x)
  simp only [ev] at c
  rw [heq] at c
  obtain ⟨a, ha⟩ := roll_cong P B (List.foldl (roll (P : Int) B) 0 pre) y
  obtain ⟨b, hb⟩ := roll_cong P B (List.foldl (roll (P : Int) B) 0 pre) x
  obtain ⟨k, hk⟩ := c
  apply hxy
  apply dvd_of_dvd_mul_pow P B hc (y - x) post.length
  generalize List.foldl (roll (P : Int) B) 0 pre = t at *
  refine ⟨-k - (a - b) * (B : Int) ^ post.length, ?_⟩
  have e : roll P B t y - roll P B t x = (y - x) + P * (a - b) := by
    have : roll (P : Int) B t y - roll P B t x = (roll P B t y - (t * B + y)) - (roll P B t x - (t * B + x)) + (y - x) := by ring
    rw [this, ha, hb]; ring
  have hk' : (roll (P : Int) B t y - roll P B t x) * (B : Int) ^ post.length = -(P * k) := by
    have : (roll (P : Int) B t y - roll P B t x) * (B : Int) ^ post.length
        = -((List.foldl (roll P B) (roll P B t x) post - List.foldl (roll P B) (roll P B t x) post)
            - (roll P B t y - roll P B t x) * (B : Int) ^ post.length) := by ring
    rw [this, hk]
  rw [e] at hk'
  calc (y - x) * (B : Int) ^ post.length
      = ((y - x) + P * (a - b)) * (B : Int) ^ post.length - P * (a - b) * (B : Int) ^ post.length := by ring
    _ = -(P * k) - P * (a - b) * (B : Int) ^ post.length := by rw [hk']
    _ = P * (-k - (a - b) * (B : Int) ^ post.length) := by ring

/-- swapping two adjacent elements whose hashes differ mod P changes the fingerprint -/
theorem H_swap_ne (P B : Nat) (hc : Nat.Coprime B P) (hc1 : Nat.Coprime (B - 1) P) (hB : 1 ≤ B)
    (pre post : List Int) (a b : Int) (hab : ¬ (P : Int) ∣ a - b) :
    H P B (pre ++ a :: b :: post) ≠ H P B (pre ++ b :: a :: post) := by
  intro heq
  unfold H at heq
  rw [ev_append, ev_append] at heq
  simp only [ev, List.foldl_cons] at heq
  generalize List.foldl (roll (P : Int) B) 0 pre = t at *
  have c := ev_cong P B post (roll P B (roll P B t a) b) (roll P B (roll P B t b) a)
  simp only [ev] at c
  rw [heq] at c
  obtain ⟨k, hk⟩ := c
  obtain ⟨r1, h1⟩ := roll_cong P B t a
  obtain ⟨r2, h2⟩ := roll_cong P B (roll P B t a) b
  obtain ⟨r3, h3⟩ := roll_cong P B t b
  obtain ⟨r4, h4⟩ := roll_cong P B (roll P B t b) a
  -- the two double steps differ by (a - b)(B - 1) modulo P
  have e : roll P B (roll P B t a) b - roll P B (roll P B t b) a
      = (a - b) * ((B : Int) - 1) + P * (r2 - r4 + (r1 - r3) * B) := by
    have ea : roll (P : Int) B t a = t * B + a + P * r1 := by
      have : roll (P : Int) B t a = (roll P B t a - (t * B + a)) + (t * B + a) := by ring
      rw [this, h1]; ring
    have eb : roll (P : Int) B t b = t * B + b + P * r3 := by
      have : roll (P : Int) B t b = (roll P B t b - (t * B + b)) + (t * B + b) := by ring
      rw [this, h3]; ring
    have : roll (P : Int) B (roll P B t a) b - roll P B (roll P B t b) a
        = (roll P B (roll P B t a) b - (roll P B t a * B + b)) - (roll P B (roll P B t b) a - (roll P B t b * B + a))
          + ((roll P B t a - roll P B t b) * B + (b - a)) := by ring
    rw [this, h2, h4, ea, eb]; ring
  have hdiv : (P : Int) ∣ (a - b) * ((B : Int) - 1) * (B : Int) ^ post.length := by
    refine ⟨-k - (r2 - r4 + (r1 - r3) * B) * (B : Int) ^ post.length, ?_⟩
    have hk' : (roll (P : Int) B (roll P B t a) b - roll P B (roll P B t b) a) * (B : Int) ^ post.length = -(P * k) := by
      have : (roll (P : Int) B (roll P B t a) b - roll P B (roll P B t b) a) * (B : Int) ^ post.length
          = -((List.foldl (roll P B) (roll P B (roll P B t b) a) post - List.foldl (roll P B) (roll P B (roll P B t b) a) post)
              - (roll P B (roll P B t a) b - roll P B (roll P B t b) a) * (B : Int) ^ post.length) := by ring
      rw [this, hk]
    rw [e] at hk'
    calc (a - b) * ((B : Int) - 1) * (B : Int) ^ post.length
        = ((a - b) * ((B : Int) - 1) + P * (r2 - r4 + (r1 - r3) * B)) * (B : Int) ^ post.length
            - P * (r2 - r4 + (r1 - r3) * B) * (B : Int) ^ post.length := by ring
      _ = -(P * k) - P * (r2 - r4 + (r1 - r3) * B) * (B : Int) ^ post.length := by rw [hk']
      _ = P * (-k - (r2 - r4 + (r1 - r3) * B) * (B : Int) ^ post.length) := by ring
  have h5 := dvd_of_dvd_mul_pow P B hc _ _ hdiv
  -- strip the factor (B - 1)
  have hB1 : ((B : Int) - 1) = ((B - 1 : Nat) : Int) := by omega
  rw [hB1] at h5
  have h6 : P ∣ ((a - b) * ((B - 1 : Nat) : Int)).natAbs := Int.natCast_dvd.mp h5
  rw [Int.natAbs_mul, Int.natAbs_natCast] at h6
  exact hab (Int.natCast_dvd.mpr (hc1.symm.dvd_of_dvd_mul_right h6))

/-- replacing one element changes the hash by `(y - x) · B^|post|` modulo P -/
theorem H_set_cong (P B : Int) (pre post : List Int) (x y : Int) :
    P ∣ (H P B (pre ++ y :: post) - H P B (pre ++ x :: post)) - (y - x) * B ^ post.length := by
  unfold H
  rw [ev_append, ev_append]
  simp only [ev, List.foldl_cons]
  generalize List.foldl (roll P B) 0 pre = t
  obtain ⟨k, hk⟩ := ev_cong P B post (roll P B t y) (roll P B t x)
  simp only [ev] at hk
  obtain ⟨a, ha⟩ := roll_cong P B t y
  obtain ⟨b, hb⟩ := roll_cong P B t x
  refine ⟨k + (a - b) * B ^ post.length, ?_⟩
  have e : roll P B t y - roll P B t x = (y - x) + P * (a - b) := by
    have : roll P B t y - roll P B t x = (roll P B t y - (t * B + y)) - (roll P B t x - (t * B + x)) + (y - x) := by ring
    rw [this, ha, hb]; ring
  calc List.foldl (roll P B) (roll P B t y) post - List.foldl (roll P B) (roll P B t x) post - (y - x) * B ^ post.length
      = (List.foldl (roll P B) (roll P B t y) post - List.foldl (roll P B) (roll P B t x) post
          - (roll P B t y - roll P B t x) * B ^ post.length)
        + ((roll P B t y - roll P B t x) - (y - x)) * B ^ post.length := by ring
    _ = P * k + (P * (a - b)) * B ^ post.length := by rw [hk, e]; ring
    _ = P * (k + (a - b) * B ^ post.length) := by ring

/-- the hash of two elements is `a·B + b` modulo P -/
theorem H_pair_cong (P B a b : Int) : P ∣ H P B [a, b] - (a * B + b) := by
  unfold H ev
  simp only [List.foldl_cons, List.foldl_nil]
  obtain ⟨r1, h1⟩ := roll_cong P B 0 a
  obtain ⟨r2, h2⟩ := roll_cong P B (roll P B 0 a) b
  refine ⟨r2 + r1 * B, ?_⟩
  have e1 : roll P B 0 a = a + P * r1 := by
    have : roll P B 0 a = (roll P B 0 a - (0 * B + a)) + a := by ring
    rw [this, h1]; ring
  calc roll P B (roll P B 0 a) b - (a * B + b)
      = (roll P B (roll P B 0 a) b - (roll P B 0 a * B + b)) + (roll P B 0 a - a) * B := by ring
    _ = P * r2 + (P * r1) * B := by rw [h2, e1]; ring
    _ = P * (r2 + r1 * B) := by ring

/-- **exchanging two cells on an anti-diagonal of a two-column table changes its fingerprint** when the table combines its
    columns with a base `BT` such that `BT - B` is prime to P (with `BT = B` the two cells carry the same weight and the
    exchange goes unnoticed: the defect repaired in /repo) -/
theorem Htab_antidiag_ne (P B BT : Nat) (hc : Nat.Coprime B P) (hd : Nat.Coprime (BT - B) P) (hle : B ≤ BT)
    (pa sa pb sb : List Int) (x y : Int) (hlen : sb.length = sa.length + 1) (hxy : ¬ (P : Int) ∣ y - x) :
    Htab P B BT [pa ++ y :: sa, pb ++ x :: sb] ≠ Htab P B BT [pa ++ x :: sa, pb ++ y :: sb] := by
  intro heq
  unfold Htab at heq
  simp only [List.map_cons, List.map_nil] at heq
  obtain ⟨k1, h1⟩ := H_pair_cong P BT (H P B (pa ++ y :: sa)) (H P B (pb ++ x :: sb))
  obtain ⟨k2, h2⟩ := H_pair_cong P BT (H P B (pa ++ x :: sa)) (H P B (pb ++ y :: sb))
  obtain ⟨ka, ha⟩ := H_set_cong P B pa sa x y
  obtain ⟨kb, hb⟩ := H_set_cong P B pb sb x y
  rw [heq] at h1
  -- (fa' - fa)·BT + (fb' - fb) ≡ 0, i.e. (y - x)·B^|sa|·(BT - B) ≡ 0
  have hdiv : (P : Int) ∣ (y - x) * ((BT : Int) - B) * (B : Int) ^ sa.length := by
    refine ⟨k2 - k1 - ka * BT + kb, ?_⟩
    have e1 : (H (P : Int) B (pa ++ y :: sa) - H P B (pa ++ x :: sa)) * BT
        - (H P B (pb ++ y :: sb) - H P B (pb ++ x :: sb)) = P * (k2 - k1) := by
      have : (H (P : Int) B (pa ++ y :: sa) - H P B (pa ++ x :: sa)) * BT
          - (H P B (pb ++ y :: sb) - H P B (pb ++ x :: sb))
          = (H P BT [H P B (pa ++ x :: sa), H P B (pb ++ y :: sb)]
              - (H P B (pa ++ x :: sa) * BT + H P B (pb ++ y :: sb)))
            - (H P BT [H P B (pa ++ x :: sa), H P B (pb ++ y :: sb)]
              - (H P B (pa ++ y :: sa) * BT + H P B (pb ++ x :: sb))) := by ring
      rw [this, h2, h1]; ring
    have ea : H (P : Int) B (pa ++ y :: sa) - H P B (pa ++ x :: sa) = (y - x) * (B : Int) ^ sa.length + P * ka := by
      have : H (P : Int) B (pa ++ y :: sa) - H P B (pa ++ x :: sa)
          = (H P B (pa ++ y :: sa) - H P B (pa ++ x :: sa) - (y - x) * (B : Int) ^ sa.length)
            + (y - x) * (B : Int) ^ sa.length := by ring
      rw [this, ha]; ring
    have eb : H (P : Int) B (pb ++ y :: sb) - H P B (pb ++ x :: sb) = (y - x) * (B : Int) ^ sb.length + P * kb := by
      have : H (P : Int) B (pb ++ y :: sb) - H P B (pb ++ x :: sb)
          = (H P B (pb ++ y :: sb) - H P B (pb ++ x :: sb) - (y - x) * (B : Int) ^ sb.length)
            + (y - x) * (B : Int) ^ sb.length := by ring
      rw [this, hb]; ring
    rw [ea, eb, hlen, pow_succ] at e1
    calc (y - x) * ((BT : Int) - B) * (B : Int) ^ sa.length
        = (((y - x) * (B : Int) ^ sa.length + P * ka) * BT - ((y - x) * ((B : Int) ^ sa.length * B) + P * kb))
          - P * ka * BT + P * kb := by ring
      _ = P * (k2 - k1) - P * ka * BT + P * kb := by rw [e1]
      _ = P * (k2 - k1 - ka * BT + kb) := by ring
  have h5 := dvd_of_dvd_mul_pow P B hc _ _ hdiv
  have hB1 : ((BT : Int) - B) = ((BT - B : Nat) : Int) := by omega
  rw [hB1] at h5
  have h6 : P ∣ ((y - x) * ((BT - B : Nat) : Int)).natAbs := Int.natCast_dvd.mp h5
  rw [Int.natAbs_mul, Int.natAbs_natCast] at h6
  exact hxy (Int.natCast_dvd.mpr (hd.symm.dvd_of_dvd_mul_right h6))

theorem roll_range (P B t h : Int) (hP : 0 < P) : 0 ≤ roll P B t h ∧ roll P B t h < P := by
  unfold roll
  exact ⟨Int.emod_nonneg _ (by omega), Int.emod_lt_of_pos _ hP⟩

theorem ev_range (P B : Int) (hP : 0 < P) (hs : List Int) (t0 : Int) (h0 : 0 ≤ t0 ∧ t0 < P) :
    0 ≤ ev P B t0 hs ∧ ev P B t0 hs < P := by
  induction hs generalizing t0 with
  | nil => exact h0
  | cons h hs ih => simp only [ev, List.foldl_cons]; exact ih _ (roll_range P B t0 h hP)

/-- fingerprints are reduced: they lie in `[0, P)` -/
theorem H_range (P B : Int) (hP : 0 < P) (hs : List Int) : 0 ≤ H P B hs ∧ H P B hs < P :=
  ev_range P B hP hs 0 ⟨Int.le_refl 0, hP⟩

end Serif.FP
